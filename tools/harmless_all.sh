#!/bin/bash
# re-run every stored behaviour-preserving change against its property's quick check (expected: OK), 4 lanes
cd /verif
lane() { for d in "$@"; do id=${d%%-*}; l=$(echo $id | tr A-Z a-z); echo "$d: $(tools/seeded_run.sh $id harmless/$d/patch.diff quick /tmp/run_$l 2>&1 | grep -E '^OK|VIOLATION|MACHINERY|does not apply' | head -1)"; done; }
all=$(ls harmless | grep -E '^C[0-9]+-h[0-9]+$' | sort)
for k in 0 1 2 3; do sel=$(echo "$all" | awk -F- -v k=$k '{ n=substr($1,2)+0; if (n % 4 == k) print }'); lane $sel > /var/tmp/harmless_lane$k.log 2>&1 & done
wait; cat /var/tmp/harmless_lane?.log | sort
