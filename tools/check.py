#!/usr/bin/env python3
"""tools/check.py <ID> [quick|thorough] [--replay FILE]

One check = (1) regenerate enum tables from /repo, (2) build the property's Coq targets (full .vo), audit for
forbidden constructs and run Print Assumptions on every pinned theorem, (3) rebuild the Rust driver against
/repo's working tree with --cfg bsv_verif, (4) generate cases, run them on the library (driver) and on the Gallina
implementation model + specification (coqc / vm_compute, sharded), (5) compare, search for a failing input when the
correspondence breaks, apply KNOWN_FINDINGS.txt, (6) write evidence/<ID>.json.

exit 0: property held on everything explored.  exit 1 + "VIOLATION property=<id> replay=<path>" otherwise.
exit 2: the machinery itself failed (build error, timeout)."""
import importlib, json, os, random, re, subprocess, sys, time, hashlib, shutil
from concurrent.futures import ThreadPoolExecutor

ROOT = os.path.dirname(os.path.dirname(os.path.abspath(__file__)))
COQ = os.path.join(ROOT, "coq")
HARNESS = os.environ.get("VERIF_HARNESS") or os.path.join(ROOT, "harness")
REPO = os.environ.get("VERIF_REPO", "/repo")
sys.path.insert(0, os.path.join(ROOT, "tools"))

FORBIDDEN = re.compile(r"\b(Admitted|admit|Axiom|Axioms|Parameter|Parameters|Conjecture|Conjectures|Admit Obligations)\b|Unset\s+Guard|bypass_check|type-in-type|impredicative-set|Unset\s+Universe\s+Checking|Unset\s+Positivity")
ARG_OK = re.compile(r"^[0-9a-zA-Z:+.,_\-#/=*]*$")


def log(*a):
    print("[check]", *a, flush=True)


def fail_machinery(msg):
    print("MACHINERY-FAILURE:", msg, flush=True)
    sys.exit(2)


def sh(cmd, cwd=None, timeout=None, env=None):
    e = dict(os.environ)
    if env:
        e.update(env)
    try:
        p = subprocess.run(cmd, cwd=cwd, shell=isinstance(cmd, str), stdout=subprocess.PIPE, stderr=subprocess.STDOUT,
                           timeout=timeout, env=e)
        return p.returncode, p.stdout.decode("utf-8", "replace")
    except subprocess.TimeoutExpired as ex:
        return 124, (ex.stdout or b"").decode("utf-8", "replace") + "\nTIMEOUT"


# ---------------------------------------------------------------- Coq side
def strip_comments(src):
    out, depth, i = [], 0, 0
    while i < len(src):
        if src.startswith("(*", i):
            depth += 1; i += 2
        elif src.startswith("*)", i) and depth:
            depth -= 1; i += 2
        else:
            if not depth:
                out.append(src[i])
            i += 1
    return "".join(out)


def audit_sources():
    bad = []
    for d, _, fs in os.walk(COQ):
        for f in fs:
            if f.endswith(".v"):
                p = os.path.join(d, f)
                src = strip_comments(open(p, encoding="utf-8").read())
                # string literals may legitimately contain words; drop them
                src = re.sub(r'"(?:[^"]|"")*"', '""', src)
                for m in FORBIDDEN.finditer(src):
                    bad.append("%s: %s" % (os.path.relpath(p, COQ), m.group(0)))
                # Variable/Hypothesis outside a Section
                depth = 0
                for line in src.split("\n"):
                    s = line.strip()
                    if re.match(r"^Section\s+\w+", s):
                        depth += 1
                    elif re.match(r"^End\s+\w+", s) and depth:
                        depth -= 1
                    elif depth == 0 and re.match(r"^(Variable|Variables|Hypothesis|Hypotheses|Context)\b", s):
                        bad.append("%s: %s outside a Section" % (os.path.relpath(p, COQ), s.split()[0]))
    return bad


def build_coq(targets, timeout):
    rc, out = sh([os.path.join(ROOT, "tools", "mkcoq.sh")])
    if rc:
        fail_machinery("mkcoq.sh failed:\n" + out)
    rc, out = sh(["make", "-k", "-j16"] + targets, cwd=COQ, timeout=timeout)
    return rc, out


def theorems_of(props_file):
    src = strip_comments(open(os.path.join(COQ, props_file), encoding="utf-8").read())
    return re.findall(r"^\s*(?:Theorem|Lemma|Corollary|Example|Fact|Proposition)\s+([A-Za-z_][A-Za-z0-9_']*)", src, flags=re.M)


def print_assumptions(props_module, names, workdir, allow):
    """returns (dict name -> list of assumption lines, list of offending assumptions)"""
    vf = os.path.join(workdir, "assumptions.v")
    with open(vf, "w") as f:
        f.write("From BSV Require Import %s.\n" % props_module)
        for n in names:
            f.write('Print Assumptions %s.\n' % n)
    rc, out = sh(["coqc", "-noglob", "-Q", COQ, "BSV", vf], cwd=workdir, timeout=600)
    if rc:
        return None, ["Print Assumptions failed:\n" + out[-2000:]]
    res, offending = {}, []
    # split output per theorem: each answer is either "Closed under the global context" or "Axioms:\n..."
    chunks = re.split(r"(?m)^(?=Closed under the global context|Axioms:)", out)
    chunks = [c for c in chunks if c.strip()]
    for n, c in zip(names, chunks):
        if c.startswith("Closed under"):
            res[n] = []
        else:
            axs = re.findall(r"(?m)^([A-Za-z_][\w.']*)\s*:", c[len("Axioms:"):])
            res[n] = axs
            for a in axs:
                if not any(re.fullmatch(pat, a) for pat in allow):
                    offending.append("%s depends on %s" % (n, a))
    if len(chunks) != len(names):
        offending.append("could not attribute Print Assumptions output (%d answers for %d theorems)" % (len(chunks), len(names)))
    return res, offending


def coq_eval(exec_module, cases, workdir, timeout, tag="cases"):
    """cases: list of (op, [args]); returns list of result strings (or None when a shard failed)."""
    n = len(cases)
    if n == 0:
        return []
    nshard = max(1, min(16, (n + 39) // 40))
    shards = [[] for _ in range(nshard)]
    for i, c in enumerate(cases):
        shards[i % nshard].append((i, c))
    files = []
    for k, sc in enumerate(shards):
        vf = os.path.join(workdir, "%s_%d.v" % (tag, k))
        with open(vf, "w") as f:
            f.write("From BSV Require Import Base.Hex %s.\nSet Printing Width 200.\n" % exec_module)
            for i, (op, args) in sc:
                for a in [op] + list(args):
                    if not ARG_OK.match(a):
                        fail_machinery("argument with unsupported characters: %r" % a)
                f.write('Eval vm_compute in (%s.run "%s" [%s]).\n' % (exec_module.split(".")[-1], op, "; ".join('"%s"' % a for a in args)))
        files.append(vf)

    def run1(vf):
        return sh("ulimit -v 12000000 2>/dev/null; exec coqc -noglob -Q %s BSV %s" % (COQ, vf), cwd=workdir, timeout=timeout)

    results = [None] * n
    with ThreadPoolExecutor(max_workers=16) as ex:
        outs = list(ex.map(run1, files))
    for k, (rc, out) in enumerate(outs):
        if rc and (rc < 0 or rc in (124, 137)):
            # killed: wall-clock timeout or memory pressure on a loaded machine - run this shard once more, alone
            outs[k] = (rc, out) = sh("ulimit -v 16000000 2>/dev/null; exec coqc -noglob -Q %s BSV %s" % (COQ, files[k]), cwd=workdir, timeout=timeout * 3)
        if rc:
            fail_machinery("coqc failed on %s (rc=%d):\n%s" % (files[k], rc, out[-3000:]))
        vals = re.findall(r'=\s*"((?:[^"]|"")*)"\s*:\s*string', out)
        vals = [v.replace("\n", "").replace('""', '"') for v in vals]
        if len(vals) != len(shards[k]):
            fail_machinery("coqc output of %s: %d results for %d cases\n%s" % (files[k], len(vals), len(shards[k]), out[-2000:]))
        for (i, _), v in zip(shards[k], vals):
            results[i] = v
    return results


# ---------------------------------------------------------------- Rust side
def build_driver(profile="dev"):
    lock_src = os.path.join(REPO, "Cargo.lock")
    lock_dst = os.path.join(HARNESS, "Cargo.lock")
    if not os.path.exists(lock_dst) and os.path.exists(lock_src):
        shutil.copy(lock_src, lock_dst)
    global HOOKLESS
    env = {"RUSTFLAGS": "--cfg bsv_verif", "CARGO_NET_OFFLINE": "true", "CARGO_TARGET_DIR": os.path.join(HARNESS, "target")}
    cmd = ["cargo", "build", "--offline", "--quiet"] + (["--release"] if profile == "release" else [])
    rc, out = sh(cmd, cwd=HARNESS, timeout=1800, env=env)
    if rc:
        # The hook `verif_hash_cache` (compiled only under --cfg bsv_verif) reads private fields; a refactoring of
        # HashCache that nobody compiled with the flag breaks it without changing any behaviour.  Build without the
        # hook: the cache view is then printed as `?` and masked in the comparison, everything else is checked as usual.
        env2 = dict(env); env2["RUSTFLAGS"] = ""
        rc2, out2 = sh(cmd, cwd=HARNESS, timeout=1800, env=env2)
        if rc2:
            return None, out + "\n---- without --cfg bsv_verif ----\n" + out2
        HOOKLESS = True
        out = "hook verif_hash_cache does not compile against this tree; driver built WITHOUT --cfg bsv_verif\n" + out
    return os.path.join(HARNESS, "target", "release" if profile == "release" else "debug", "bsvdrv"), out


def proc_cpu_seconds(pid):
    try:
        f = open("/proc/%d/stat" % pid).read()
        rest = f[f.rindex(")") + 2:].split()
        return (int(rest[11]) + int(rest[12])) / float(os.sysconf("SC_CLK_TCK"))
    except (OSError, ValueError, IndexError):
        return None


def driver_eval(binary, cases, workdir, tag="cases", timeout=1800, stall=None):
    """returns list of (out, peak) with out in {OK:..., ERR, PANIC, ABORT, HANG, ...}.
    A case that makes the process die is ABORT; a case on which the driver spends `stall` seconds of CPU time (or 10x that in wall time) without finishing
    (non-termination) is HANG: the driver is killed and restarted at the next case."""
    if stall is None:
        stall = int(os.environ.get("VERIF_STALL", "60"))
    cf = os.path.join(workdir, tag + ".tsv")
    rf = os.path.join(workdir, tag + ".res")
    with open(cf, "w") as f:
        for i, (op, args) in enumerate(cases):
            f.write("\t".join([str(i), op] + list(args)) + "\n")
    if os.path.exists(rf):
        os.remove(rf)
    results = [None] * len(cases)
    start = 0
    hangs = 0
    t0 = time.time()

    def absorb():
        started = None
        if os.path.exists(rf):
            for line in open(rf, encoding="utf-8", errors="replace"):
                line = line.rstrip("\n")
                if line.startswith("#start\t"):
                    try:
                        started = int(line.split("\t")[1])
                    except ValueError:
                        pass
                    continue
                p = line.split("\t")
                if len(p) >= 3 and p[0].isdigit() and p[2].isdigit():
                    results[int(p[0])] = (p[1], int(p[2]))
        return started

    while start < len(cases):
        proc = subprocess.Popen("ulimit -v 8000000 2>/dev/null; ulimit -s 8192; exec %s %s %s %d > /dev/null 2>&1" % (binary, cf, rf, start), shell=True)
        last_size, last_change, hung, last_cpu = -1, time.time(), False, 0.0
        eff = stall if hangs < 3 else max(5, stall // 10)   # the run already fails after three hangs: finish it quickly
        while True:
            try:
                proc.wait(timeout=1.0)
                break
            except subprocess.TimeoutExpired:
                pass
            size = os.path.getsize(rf) if os.path.exists(rf) else 0
            now = time.time()
            cpu = proc_cpu_seconds(proc.pid)
            if size != last_size:
                last_size, last_change, last_cpu = size, now, cpu
            elif (cpu is not None and last_cpu is not None and cpu - last_cpu > eff) or now - last_change > 10 * eff:
                # `stall` seconds of CPU time (not wall time: a loaded machine must not look like a hang) spent on one
                # case without finishing it, or ten times that in wall time for a process that is not even running
                proc.kill(); proc.wait(); hung = True
                break
            if now - t0 > timeout:
                proc.kill(); proc.wait()
                fail_machinery("driver timed out")
        absorb()
        nxt = next((i for i in range(start, len(cases)) if results[i] is None), len(cases))
        if nxt >= len(cases):
            break
        results[nxt] = ("HANG" if hung else "ABORT", 0)
        hangs += 1 if hung else 0
        start = nxt + 1
    return results


# ---------------------------------------------------------------- source baseline (escalation only, never a verdict)
def source_changed(pid):
    """anchored files of the property (properties.jsonl) whose sha256 differs from tools/source_baseline.json"""
    import hashlib
    try:
        base = json.load(open(os.path.join(ROOT, "tools", "source_baseline.json")))
        files = None
        for line in open(os.path.join(ROOT, "properties.jsonl")):
            d = json.loads(line)
            if d.get("id") == pid:
                files = d.get("anchors", {}).get("files", [])
        out = []
        for f in files or []:
            pth = os.path.join(REPO, f)
            h = hashlib.sha256(open(pth, "rb").read()).hexdigest() if os.path.exists(pth) else "missing"
            if base.get(f) != h:
                out.append(f)
        return out
    except Exception:
        return []


# ---------------------------------------------------------------- sibling stream
def sibling_cases(gen, rng, tier, mod):
    """Call-history stream shared by all properties: triples (base, sibling, base) run back to back in the one driver
    process, where the sibling equals the base in every argument but one (taken from another generated case of the same
    operation).  A result that is remembered between calls under a key that leaves one argument out (a memo, a
    thread-local cache, a 'same as last time' shortcut) then answers the sibling, or the repeated base, with the other
    one's result; the model is a function of the arguments, so the correspondence breaks on that case.
    The stream is capped at about a sixth of the generated cases (at least 24 triples)."""
    if getattr(mod, "SIBLINGS", True) is False:
        return []
    byop = {}
    ok = getattr(mod, "sibling_ok", None)      # a plug-in may exclude cases that are too expensive to evaluate three more times
    for op, args in gen:
        if ok is not None and not ok(op, args):
            continue
        if len(args) >= 2:
            byop.setdefault((op, len(args)), []).append(args)
    budget = max(24, len(gen) // (18 if tier == "quick" else 9))
    out, keys = [], sorted(byop)
    rounds = 0
    while budget > 0 and keys and rounds < 50:
        rounds += 1
        progressed = False
        for key in keys:
            pool = byop[key]
            if len(pool) < 2 or budget <= 0:
                continue
            base = rng.choice(pool)
            j = (rounds - 1) % key[1]
            others = [a[j] for a in pool if a[j] != base[j] and len(a[j]) <= 4096]
            if not others or sum(len(x) for x in base) > 8192:
                continue
            sibl = list(base)
            sibl[j] = rng.choice(others)
            out += [(key[0], list(base)), (key[0], sibl), (key[0], list(base))]
            budget -= 1
            progressed = True
        if not progressed and rounds > 8:
            break
    # echo: a random sample of earlier cases once more, in reverse order, after everything else has run in this process
    # (hidden process state that survives between unrelated calls: scratch buffers, lazily initialised tables)
    small = [c for c in gen if sum(len(a) for a in c[1]) <= 4096 and (ok is None or ok(c[0], c[1]))]
    if small:
        echo = rng.sample(small, min(len(small), 40 if tier == "quick" else 200))
        out += [(op, list(args)) for op, args in reversed(echo)]
    return out


# ---------------------------------------------------------------- comparison
HOOKLESS = False


def mask_by(d, x):
    """hookless mode: the driver prints `?` where the cache view would be; put `?` at the same places of x"""
    fd, fx = d.split(";"), x.split(";")
    if len(fd) != len(fx):
        return x
    out = []
    for a, b in zip(fd, fx):
        if a == "?":
            out.append("?")
        elif "?" in a and len(a) == len(b):
            out.append("".join("?" if ca == "?" else cb for ca, cb in zip(a, b)))
        else:
            out.append(b)
    return ";".join(out)


def mask_models(dres, mres):
    if not HOOKLESS:
        return mres
    out = []
    for (d, _), m in zip(dres, mres):
        if "?" not in d:
            out.append(m); continue
        mi, ms, mk = split3(m)
        ms2 = ms if ms == "-" else "~".join(mask_by(d, a) for a in ms.split("~"))
        out.append("|".join([mask_by(d, mi), ms2, mk]))
    return out


def split3(m):
    p = m.split("|")
    if len(p) != 3:
        return m, "-", "-"
    return p[0], p[1], p[2]


def spec_matches(d, s):
    """s: '-' (unspecified) or alternatives separated by '~'; inside an alternative, ';'-separated fields,
    a field '*' matches anything."""
    if s == "-":
        return True
    for alt in s.split("~"):
        if alt == d:
            return True
        fa, fd = alt.split(";"), d.split(";")
        if len(fa) == len(fd) and all(a == "*" or a == b for a, b in zip(fa, fd)):
            return True
    return False


def load_known(pid):
    path = os.path.join(ROOT, "KNOWN_FINDINGS.txt")
    findings, fixed = [], []
    if os.path.exists(path):
        for line in open(path, encoding="utf-8"):
            line = line.strip()
            if not line or line.startswith("#"):
                continue
            m = re.match(r"^(finding|fixed):\s+property=(\S+)\s+(.*)$", line)
            if not m or m.group(2) != pid:
                continue
            kind, rest = m.group(1), m.group(3)
            w = re.search(r"witness=\[(.*?)\]", rest)
            c = re.search(r"class=(\S+)", rest)
            what = rest.split("::", 1)[1].strip() if "::" in rest else rest
            ent = {"class": c.group(1) if c else None, "witness": w.group(1).split(" ") if w else None, "what": what, "line": line}
            (findings if kind == "finding" else fixed).append(ent)
    return findings, fixed


def default_shrink(case):
    op, args = case
    cands = []
    for ai, a in enumerate(args):
        if re.fullmatch(r"[0-9a-fA-F]*", a) and len(a) >= 4 and len(a) % 2 == 0:
            n = len(a) // 2
            cuts = set()
            for size in sorted({max(1, n // 2), max(1, n // 4), max(1, n // 8), 1}, reverse=True):
                for st in range(0, n, size):
                    cuts.add((st, min(n, st + size)))
            for st, en in sorted(cuts):
                if en - st < n:
                    b = a[:2 * st] + a[2 * en:]
                    cands.append((op, args[:ai] + [b] + args[ai + 1:]))
    return cands[:400]


def case_size(case):
    return sum(len(a) for a in case[1])


# ---------------------------------------------------------------- main
def main():
    argv = sys.argv[1:]
    if not argv:
        print(__doc__); sys.exit(2)
    pid = argv[0].upper()
    tier = os.environ.get("VERIF_TIER") or (argv[1] if len(argv) > 1 and argv[1] in ("quick", "thorough") else "quick")
    replay = argv[argv.index("--replay") + 1] if "--replay" in argv else None
    seed = int(os.environ.get("VERIF_SEED", "20261001"))
    mod = importlib.import_module("props." + pid.lower())
    t0 = time.time()
    work = os.path.join(os.environ.get("VERIF_WORK") or os.path.join(ROOT, "work"), pid)
    evdir = os.environ.get("VERIF_EVIDENCE") or os.path.join(ROOT, "evidence")
    os.makedirs(work, exist_ok=True)
    os.makedirs(os.path.join(work, "replay"), exist_ok=True)
    if "--replay" not in argv:
        for fn in os.listdir(os.path.join(work, "replay")):
            os.remove(os.path.join(work, "replay", fn))
    os.makedirs(evdir, exist_ok=True)
    violations = []      # (replay_path, suffix)
    known_lines = []
    notes = []

    def write_replay(name, obj):
        p = os.path.join(work, "replay", name + ".json")
        with open(p, "w") as f:
            json.dump(obj, f, indent=1)
        return p

    # 1. tables
    rc, out = sh([sys.executable, os.path.join(ROOT, "tools", "gen_tables.py")])
    if rc:
        fail_machinery("gen_tables failed:\n" + out)
    log(out.strip())

    # 2. Coq build + audit
    props_file = getattr(mod, "PROPS", "Props/%s.v" % pid)
    exec_module = getattr(mod, "EXEC", "Run.Exec_%s" % pid)
    targets = [props_file + "o", exec_module.replace(".", "/") + ".vo"] + list(getattr(mod, "EXTRA_TARGETS", []))
    rc, out = build_coq(targets, timeout=3600)
    proof_broken = None
    if rc:
        m = re.search(r'File "\./([^"]+)", line (\d+)', out)
        proof_broken = "coq build failed: " + (("%s line %s" % (m.group(1), m.group(2))) if m else "see log")
        open(os.path.join(work, "coq_build.log"), "w").write(out)
        log(proof_broken)
    bad = audit_sources()
    if bad:
        proof_broken = (proof_broken or "") + " forbidden constructs: " + "; ".join(bad[:10])
    names = theorems_of(props_file) if os.path.exists(os.path.join(COQ, props_file)) else []
    allow = [l.strip() for l in open(os.path.join(ROOT, "tools", "allowlist.txt")) if l.strip() and not l.startswith("#")]
    assumptions, discharged = {}, 0
    if not proof_broken:
        assumptions, offending = print_assumptions(props_file[:-2].replace("/", "."), names, work, allow)
        if offending:
            proof_broken = "assumption check: " + "; ".join(offending[:10])
        else:
            discharged = len(names)
    log("coq: %d pinned statements in %s, %d discharged%s" % (len(names), props_file, discharged, (" — " + proof_broken) if proof_broken else ""))

    exec_ok = os.path.exists(os.path.join(COQ, exec_module.replace(".", "/") + ".vo"))

    # 3. driver
    binary, out = build_driver("dev")
    if binary is None:
        # the library (or the driver against it) no longer compiles: nothing can be said
        open(os.path.join(work, "cargo_build.log"), "w").write(out)
        fail_machinery("cargo build of the driver against %s failed; see %s" % (REPO, os.path.join(work, "cargo_build.log")))
    if HOOKLESS:
        log("NOTE: the hook verif_hash_cache does not compile against this tree; driver built without --cfg bsv_verif, cache view masked")
        notes.append("hook verif_hash_cache (cfg bsv_verif) does not compile against this tree: driver built without it; the memoised-hash view is masked in the comparison, all other outputs are compared as usual")

    # replay mode
    if replay:
        obj = json.load(open(replay))
        case = (obj["case"][0], obj["case"][1])
        d = driver_eval(binary, [case], work, "replay")[0]
        m = coq_eval(exec_module, [case], work, 1200, "replay")[0] if exec_ok else "?|?|?"
        m = mask_models([d], [m])[0]
        mi, ms, mk = split3(m)
        print("case:   %s %s" % case)
        print("driver: %s" % d[0])
        print("model:  %s" % mi)
        print("spec:   %s" % ms)
        print("known:  %s" % mk)
        sys.exit(0 if (d[0] == mi and spec_matches(d[0], ms)) else 1)

    # 4. cases
    rng = random.Random(seed)
    corpus = []
    cdir = os.path.join(ROOT, "corpus", pid)
    if os.path.isdir(cdir):
        for fn in sorted(os.listdir(cdir)):
            if fn.endswith(".json"):
                try:
                    o = json.load(open(os.path.join(cdir, fn)))
                    corpus.append((o["case"][0], list(o["case"][1])))
                except Exception:
                    pass
    def gen_for(r, t):
        if hasattr(mod, "presample"):
            pcs = [(op, [str(a) for a in args]) for (op, args) in mod.presample(r, t)]
            pres = driver_eval(binary, pcs, work, "presample")
            pre = [(c, x[0]) for c, x in zip(pcs, pres)]
            return [(op, [str(a) for a in args]) for (op, args) in mod.generate(r, t, pre)]
        return [(op, [str(a) for a in args]) for (op, args) in mod.generate(r, t)]

    gen = gen_for(rng, tier)
    # Escalation: when the source files the property is anchored in differ from the baseline this machinery was last
    # validated against (tools/source_baseline.json), the quick tier also draws from the thorough generator: all quick
    # cases plus a random sample of the thorough ones, about the size of the quick set.  Changed code gets a deeper look;
    # nothing is concluded from the textual difference itself.
    changed = source_changed(pid) if tier == "quick" and os.environ.get("VERIF_NO_ESCALATION") != "1" else []
    if changed:
        seen = {(op, tuple(a)) for op, a in gen}
        cheap = getattr(mod, "sibling_ok", None)
        deep = [c for c in gen_for(random.Random(seed + 1), "thorough") if (c[0], tuple(c[1])) not in seen and sum(len(x) for x in c[1]) <= 20000
                and (cheap is None or cheap(c[0], c[1]))]
        extra = random.Random(seed + 2).sample(deep, min(len(deep), len(gen) + 100))
        gen = gen + extra
        msg = "anchored source changed since the validated baseline (%s): quick tier escalated with %d cases sampled from the thorough generator" % (", ".join(changed[:4]), len(extra))
        log("NOTE: " + msg)
        notes.append(msg)
    findings, fixed = load_known(pid)
    wit = []
    for e in findings + fixed:
        if e["witness"]:
            wit.append((e["witness"][0], e["witness"][1:]))
    sib = sibling_cases(gen, rng, tier, mod)
    cases = wit + corpus + gen + sib
    sib_from = len(cases) - len(sib)
    log("cases: %d witnesses, %d corpus, %d generated, %d siblings (tier %s, seed %d)" % (len(wit), len(corpus), len(gen), len(sib), tier, seed))

    dres = driver_eval(binary, cases, work)
    if exec_ok:
        mres = mask_models(dres, coq_eval(exec_module, cases, work, timeout=(900 if tier == "quick" else 5400)))
    else:
        mres = ["?|-|-"] * len(cases)

    # 5. compare
    known_classes = {e["class"] for e in findings if e["class"]}
    stats = {"agree": 0, "corr_broken": 0, "spec_viol": 0, "known": 0, "panic": 0, "abort": 0, "err": 0, "ok": 0}
    corr_broken, known_hits = [], {}
    mem_rule = getattr(mod, "MEM_BOUND", None)
    for i, case in enumerate(cases):
        d, peak = dres[i]
        mi, ms, mk = split3(mres[i])
        if d == "PANIC": stats["panic"] += 1
        elif d in ("ABORT", "HANG"): stats["abort"] += 1
        elif d == "ERR": stats["err"] += 1
        else: stats["ok"] += 1
        if mi in ("BADOP", "BADARG") or d in ("BADOP", "BADARG"):
            if i >= sib_from:
                continue        # a sibling whose swapped argument does not fit the operation's argument format: dropped
            fail_machinery("case %r not understood: driver=%s model=%s" % (case, d, mi))
        meets_spec = spec_matches(d, ms)
        if mem_rule is not None and d != "ABORT":
            bound = mem_rule(case)
            if bound is not None and peak > bound:
                meets_spec = False
                notes.append("peak memory %d > bound %d on %r" % (peak, bound, case))
        if mi == "*":
            stats["unmodelled"] = stats.get("unmodelled", 0) + 1
        elif (not meets_spec) and mk != "-" and mk in known_classes and mi in ("OK", "ERR") and d in ("ABORT", "PANIC", "HANG"):
            # a listed finding about the runtime (stack exhaustion, ...) that a Gallina model cannot exhibit
            stats["agree"] += 0
        elif d == mi:
            stats["agree"] += 1
        else:
            stats["corr_broken"] += 1
            corr_broken.append(i)
        if not meets_spec:
            if mk != "-" and mk in known_classes:
                stats["known"] += 1
                known_hits.setdefault(mk, case)
            else:
                stats["spec_viol"] += 1
                p = write_replay("viol_%d" % len(violations), {"property": pid, "case": [case[0], case[1]], "driver": d, "model": mi, "spec": ms, "known_class": mk,
                                                               "explanation": "the library's output differs from what the specification prescribes for this input" + ("" if d == mi else " (and from the implementation model)")})
                violations.append((p, ""))

    # witnesses of fixed entries must now meet the spec (they are ordinary cases above, so already checked);
    # witnesses of findings that still misbehave produce the KNOWN-FINDING lines.
    for e in findings:
        if e["class"] in known_hits:
            known_lines.append("KNOWN-FINDING: property=%s %s" % (pid, e["what"]))

    # correspondence broken without a spec violation: search for a failing input
    if corr_broken and not violations:
        log("correspondence broken on %d case(s); searching for an input on which the property fails" % len(corr_broken))
        found = None
        nb = getattr(mod, "neighbours", None)
        shrink = getattr(mod, "shrink_candidates", default_shrink)
        pool = []
        for i in corr_broken[:20]:
            pool.extend(shrink(cases[i]))
            if nb:
                pool.extend(nb(cases[i], rng))
        extra = getattr(mod, "search_cases", None)
        if extra:
            pool.extend(extra(rng, [cases[i] for i in corr_broken[:20]]))
        pool = [(op, [str(a) for a in args]) for (op, args) in pool][:1500]
        if pool and exec_ok:
            d2 = driver_eval(binary, pool, work, "search")
            m2 = mask_models(d2, coq_eval(exec_module, pool, work, 1800, "search"))
            for c, (d, _), m in zip(pool, d2, m2):
                mi, ms, mk = split3(m)
                if not spec_matches(d, ms) and not (mk != "-" and mk in known_classes):
                    found = (c, d, mi, ms)
                    break
        i0 = min(corr_broken, key=lambda i: case_size(cases[i]))
        if found:
            c, d, mi, ms = found
            p = write_replay("viol_search", {"property": pid, "case": [c[0], c[1]], "driver": d, "model": mi, "spec": ms,
                                             "explanation": "found by searching around a correspondence failure"})
            violations.append((p, ""))
        else:
            d, _ = dres[i0]
            mi, ms, mk = split3(mres[i0])
            p = write_replay("corr_broken", {"property": pid, "case": [cases[i0][0], cases[i0][1]], "driver": d, "model": mi, "spec": ms,
                                             "obligation": "correspondence %s.run = library on op %s (model functions in coq/Model, theorems in %s)" % (exec_module, cases[i0][0], props_file),
                                             "explanation": "the library no longer behaves like the implementation model the theorems are about; no input violating the specification was found",
                                             "disagreeing_cases": len(corr_broken)})
            violations.append((p, " no-failing-input-found"))
        # keep the smallest disagreement in the corpus directory of the work area (not committed automatically)
    if proof_broken and not violations:
        p = write_replay("proof_broken", {"property": pid, "obligation": proof_broken, "explanation": "a proof obligation of %s no longer checks" % props_file})
        violations.append((p, " no-failing-input-found"))

    # 6. evidence
    nontrivial = getattr(mod, "nontrivial", lambda case, out: out not in ("ERR", "PANIC", "ABORT"))
    distinct = set()
    for i, case in enumerate(cases):
        if nontrivial(case, split3(mres[i])[0]):
            distinct.add((case[0], tuple(case[1])))
    dist = {}
    for (op, args) in cases:
        dist[op] = dist.get(op, 0) + 1
    sizes = sorted(case_size(c) // 2 for c in cases)
    ev = {
        "property_id": pid, "tier": tier, "seed": seed,
        "level": (getattr(mod, "LEVEL", "proof") if getattr(mod, "LEVEL", "proof") in ("exploration", "fault_enumeration", "model_checking", "proof", "translation_validation", "other") else "proof"),
        "coverage": {
            "obligations": max(1, len(names)), "discharged": discharged if not proof_broken else 0,
            "checker_cmd": "cd /verif/coq && make %s  (coqc 8.16.1, full .vo) ; coqc Print Assumptions on %d pinned statements ; source audit for Admitted/Axiom/Parameter/guard switches" % (" ".join(targets), len(names)),
            "trusted_base": getattr(mod, "TRUSTED", []) + ["Coq 8.16.1 kernel + vm_compute", "tools/gen_tables.py (enum translator)", "harness/ (Rust driver), tools/check.py (comparison)"]
                            + ["axioms under pinned theorems: " + (", ".join(sorted({a for v in assumptions.values() for a in v})) if assumptions and any(assumptions.values()) else "none (Closed under the global context)")],
            "theorems": names,
            "evaluations": len(cases), "distinct_nontrivial": len(distinct),
            "rule": getattr(mod, "RULE", "generated cases; non-trivial = the model's outcome is not an early error; distinct by (op, arguments)"),
            "samples": [{"case": list(cases[i]), "driver": dres[i][0][:200], "model": mres[i][:300]} for i in sorted(set([0, len(cases) // 3, len(cases) // 2, len(cases) - 1])) if cases],
            "traces_validated_against_impl": stats["agree"],
            "distribution": {"ops": dist, "driver_outcomes": {k: stats[k] for k in ("ok", "err", "panic", "abort")},
                             "arg_bytes_min_med_max": [sizes[0], sizes[len(sizes) // 2], sizes[-1]] if sizes else []},
            "correspondence": {"agree": stats["agree"], "disagree": stats["corr_broken"], "spec_violations": stats["spec_viol"], "known_class_hits": stats["known"]},
            "notes": notes[:20],
            "claim_strength": ("partial: some clauses are tied by correspondence / stated modulo a cryptographic assumption, see MANIFEST level_note" if getattr(mod, "LEVEL", "proof") == "partial" else "proof"),
        },
        "assumptions": getattr(mod, "ASSUMPTIONS", []),
        "wall_s": round(time.time() - t0, 1),
        "violations": len(violations),
    }
    with open(os.path.join(evdir, pid + ".json"), "w") as f:
        json.dump(ev, f, indent=1)

    for l in known_lines:
        print(l)
    log("stats: %s" % json.dumps(stats))
    if violations:
        for p, suffix in violations[:5]:
            print("VIOLATION property=%s replay=%s%s" % (pid, p, suffix))
        sys.exit(1)
    print("OK property=%s tier=%s cases=%d theorems=%d wall=%.0fs" % (pid, tier, len(cases), len(names), time.time() - t0))
    sys.exit(0)


if __name__ == "__main__":
    main()
