#!/bin/bash
# run every claimed check's thorough tier with scratch work/evidence dirs; one line per property
IDS=${1:-$(python3 -c "import json;print(' '.join(c['property_id'] for c in json.load(open('/verif/MANIFEST.json'))['checks']))")}
cd /verif
for id in $IDS; do
  t0=$(date +%s)
  out=$(VERIF_WORK=/var/tmp/thorough/work VERIF_EVIDENCE=/var/tmp/thorough/evidence timeout 3600 tools/check $id thorough 2>&1 | grep -E "^OK|VIOLATION|MACHINERY" | head -3 | tr '\n' ' ')
  echo "$id ($(( $(date +%s) - t0 )) s): $out"
done
