#!/usr/bin/env python3
"""seeded_store.py <mutant dir> <seeded id e.g. C20-1> <property> <confirm line> <check result: caught|missed> [note]"""
import json, os, shutil, sys
src, sid, prop, confirm, result = sys.argv[1:6]
note = sys.argv[6] if len(sys.argv) > 6 else ""
dst = os.path.join("/verif/seeded", sid)
os.makedirs(dst, exist_ok=True)
shutil.copy(os.path.join(src, "patch.diff"), os.path.join(dst, "patch.diff"))
shutil.copy(os.path.join(src, "demo.rs"), os.path.join(dst, "demo.rs"))
meta = {}
try:
    meta = json.load(open(os.path.join(src, "meta.json")))
except Exception:
    pass
meta.update({"seeded_id": sid, "property": prop,
             "confirmed_by_coordinator": confirm,
             "what_was_run": ["tools/seeded_confirm.sh <scratch worktree> <mutant dir>  (demo on clean tree: pass; demo with patch: fail; cargo test --workspace --no-fail-fast --offline with patch: all pass)",
                              "tools/seeded_run.sh %s patch.diff quick  (registered check against a scratch worktree with the patch applied)" % prop],
             "check_result": result, "note": note})
json.dump(meta, open(os.path.join(dst, "meta.json"), "w"), indent=1)
print("stored", dst)
