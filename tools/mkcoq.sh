#!/bin/sh
# Regenerate coq/_CoqProject and coq/Makefile from the .v files on disk (serialised by a lock: checks run concurrently).
set -e
cd "$(dirname "$0")/../coq"
exec 9>.mkcoq.lock
flock 9
TMP=$(mktemp ./_CoqProject.XXXXXX)
{
  echo "-Q . BSV"
  echo "-arg -w -arg -notation-overridden,-deprecated-hint-without-locality,-deprecated-instance-without-locality,-ambiguous-paths"
  for d in Base Gen Prim Model Spec Proofs Props Run; do
    [ -d "$d" ] && find "$d" -name '*.v' | sort
  done
} > "$TMP"
if ! cmp -s "$TMP" _CoqProject 2>/dev/null || [ ! -f Makefile ] || [ ! -f Makefile.conf ]; then
  mv "$TMP" _CoqProject
  coq_makefile -f _CoqProject -o Makefile >/dev/null
else
  rm -f "$TMP"
fi
