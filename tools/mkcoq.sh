#!/bin/sh
# Regenerate coq/_CoqProject and coq/Makefile from the .v files on disk.
set -e
cd "$(dirname "$0")/../coq"
{
  echo "-Q . BSV"
  echo "-arg -w -arg -notation-overridden,-deprecated-hint-without-locality,-deprecated-instance-without-locality,-ambiguous-paths"
  for d in Base Gen Prim Model Spec Proofs Props Run; do
    [ -d "$d" ] && find "$d" -name '*.v' | sort
  done
} > _CoqProject.new
if ! cmp -s _CoqProject.new _CoqProject 2>/dev/null || [ ! -f Makefile ]; then
  mv _CoqProject.new _CoqProject
  coq_makefile -f _CoqProject -o Makefile >/dev/null
else
  rm -f _CoqProject.new
fi
