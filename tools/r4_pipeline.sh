#!/bin/bash
# usage: r4_pipeline.sh <ID> [prefix=r4_mutant_] [ns="1 2 3"] : confirm each seeded change (scratch worktree /tmp/mut_<id>), then run the property's check against it
ID=$1; PFX=${2:-r4_mutant_}; NS=${3:-1 2 3}; l=$(echo $ID | tr A-Z a-z)
for n in $NS; do
  d=/tmp/mutout_$l/$PFX$n
  [ -f $d/patch.diff ] || { echo "$ID $PFX$n: no patch"; continue; }
  c=$(/verif/tools/seeded_confirm.sh /tmp/mut_$l $d 2>&1 | grep -E "CONFIRMED|REJECTED" | tail -1)
  echo "$c" >> /var/tmp/confirm4_$l.log
  r=$(/verif/tools/seeded_run.sh $ID $d/patch.diff quick /tmp/run_$l 2>&1 | grep -E 'VIOLATION|^OK|MACHINERY' | head -1)
  echo "$ID $PFX$n: ${c%% *} | $r"
done
