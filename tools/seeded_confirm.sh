#!/bin/bash
# usage: seeded_confirm.sh <scratch worktree> <mutant dir with patch.diff demo.rs>  -> prints CONFIRMED / REJECTED lines
# Confirms in the scratch worktree: demo passes without patch, fails with it, whole suite green with the patch.
WT=$1; M=$2; export CARGO_NET_OFFLINE=true
cd "$WT" || exit 2
git checkout -q -- . ; rm -f tests/zz_demo_*.rs tests/zz_verif_demo.rs
cp "$M/demo.rs" tests/zz_verif_demo.rs
timeout 3000 cargo test --offline --test zz_verif_demo >/tmp/sc_$$.log 2>&1; A=$?
git apply "$M/patch.diff" || { echo "REJECTED $M patch does not apply"; exit 1; }
timeout 3000 cargo test --offline --test zz_verif_demo >/tmp/sc2_$$.log 2>&1; B=$?
rm -f tests/zz_verif_demo.rs
timeout 3000 cargo test --workspace --no-fail-fast --offline >/tmp/sc3_$$.log 2>&1; C=$?
PASSED=$(grep 'test result' /tmp/sc3_$$.log | awk '{s+=$4; f+=$6} END {print s" passed "f" failed"}')
git checkout -q -- .
if [ $A -eq 0 ] && [ $B -ne 0 ] && [ $C -eq 0 ]; then echo "CONFIRMED $M demo_clean=pass demo_patched=fail suite: $PASSED"; else echo "REJECTED $M demo_clean_rc=$A demo_patched_rc=$B suite_rc=$C ($PASSED)"; fi
rm -f /tmp/sc_$$.log /tmp/sc2_$$.log /tmp/sc3_$$.log
