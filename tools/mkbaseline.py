#!/usr/bin/env python3
"""Record the sha256 of every source file the properties are anchored in (properties.jsonl) at /repo's current state
into tools/source_baseline.json.  Used only to decide whether the quick tier escalates (tools/check.py); run it after
the machinery has been validated against the current /repo."""
import hashlib, json, os
ROOT = os.path.dirname(os.path.dirname(os.path.abspath(__file__)))
REPO = os.environ.get("VERIF_REPO", "/repo")
files = set()
for line in open(os.path.join(ROOT, "properties.jsonl")):
    files.update(json.loads(line).get("anchors", {}).get("files", []))
out = {}
for f in sorted(files):
    p = os.path.join(REPO, f)
    out[f] = hashlib.sha256(open(p, "rb").read()).hexdigest() if os.path.exists(p) else "missing"
json.dump(out, open(os.path.join(ROOT, "tools", "source_baseline.json"), "w"), indent=1, sort_keys=True)
print("baseline of %d files written" % len(out))
