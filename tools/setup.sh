#!/bin/sh
# MANIFEST.setup_cmd — build the framework from files on disk only (offline).
set -e
cd "$(dirname "$0")/.."
export CARGO_NET_OFFLINE=true
python3 tools/gen_tables.py
tools/mkcoq.sh
( cd coq && timeout 7200 make -j16 -k ) || echo "setup: coq build had failures (individual checks will report them)"
[ -f harness/Cargo.lock ] || cp /repo/Cargo.lock harness/Cargo.lock
( cd harness && RUSTFLAGS="--cfg bsv_verif" CARGO_TARGET_DIR=/verif/harness/target cargo build --offline --quiet ) || echo "setup: driver build failed"
echo "setup done"
