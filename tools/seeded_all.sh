#!/bin/bash
# Re-run every stored seeded change against its property's registered check (isolated scratch worktree). 4 streams in parallel.
cd /verif
run_group() { for d in "$@"; do
    id=$(python3 -c "import json,sys;m=json.load(open('$d/meta.json'));print(m.get('run_against') or m['property'].split()[0])")
    l=$(echo $id | tr A-Z a-z)
    r=$(tools/seeded_run.sh $id $d/patch.diff quick /tmp/run_$l 2>&1 | grep -E 'VIOLATION|^OK|MACHINERY' | head -1)
    echo "$(basename $d) [$id]: $r"
  done; }
ALL=$(ls -d seeded/C*-* | sort)
for g in 0 1 2 3; do
  ( sel=""; for d in $ALL; do p=$(basename $d | cut -c2-3); if [ $((10#$p % 4)) -eq $g ]; then sel="$sel $d"; fi; done; run_group $sel ) > /var/tmp/seeded_all_$g.log 2>&1 &
done
wait
cat /var/tmp/seeded_all_?.log | sort
