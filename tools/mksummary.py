#!/usr/bin/env python3
"""Print a markdown table: per property, pinned statements (names), partial ones, quick-tier evidence numbers."""
import json, os, re, sys
ROOT = os.path.dirname(os.path.dirname(os.path.abspath(__file__)))
sys.path.insert(0, os.path.join(ROOT, "tools"))
from check import theorems_of
rows = []
for i in range(1, 21):
    pid = "C%02d" % i
    names = theorems_of("Props/%s.v" % pid)
    partial = [n for n in names if "partial" in n]
    refuted = [n for n in names if "refuted" in n]
    ev = {}
    try:
        ev = json.load(open(os.path.join(ROOT, "evidence", pid + ".json")))
    except Exception:
        pass
    cov = ev.get("coverage", {})
    rows.append("| %s | %d | %s | %s | %s | %s | %s |" % (
        pid, len(names), ", ".join(n.replace(pid + "_", "") for n in partial) or "–", len(refuted),
        cov.get("evaluations", "?"), cov.get("distinct_nontrivial", "?"), ev.get("wall_s", "?")))
print("| property | pinned statements | `_partial` statements | `_refuted` witness lemmas | quick cases | distinct non-trivial | quick wall s |")
print("|---|---|---|---|---|---|---|")
print("\n".join(rows))
