"""Small pure-Python secp256k1 / ECDSA / RFC 6979 / DER helper used by the C05 and C06 case generators
(only to BUILD interesting inputs: valid signatures, public keys, mutated encodings; expectations come from Coq)."""
import hashlib
import hmac

P = 2 ** 256 - 2 ** 32 - 977
N = 0xFFFFFFFFFFFFFFFFFFFFFFFFFFFFFFFEBAAEDCE6AF48A03BBFD25E8CD0364141
GX = 0x79BE667EF9DCBBAC55A06295CE870B07029BFCDB2DCE28D959F2815B16F81798
GY = 0x483ADA7726A3C4655DA4FBFC0E1108A8FD17B448A68554199C47D08FFB10D4B8
G = (GX, GY)
FLAGS = [0x40, 0x01, 0x02, 0x03, 0x80, 0x41, 0x42, 0x43, 0xC1, 0xC2, 0xC3, 0x81, 0x82, 0x83]


def add(a, b):
    if a is None:
        return b
    if b is None:
        return a
    if a[0] == b[0]:
        if (a[1] + b[1]) % P == 0:
            return None
        l = 3 * a[0] * a[0] * pow(2 * a[1], P - 2, P) % P
    else:
        l = (b[1] - a[1]) * pow(b[0] - a[0], P - 2, P) % P
    x = (l * l - a[0] - b[0]) % P
    return (x, (l * (a[0] - x) - a[1]) % P)


def mul(k, a):
    k %= N
    r = None
    while k:
        if k & 1:
            r = add(r, a)
        a = add(a, a)
        k >>= 1
    return r


def pub(d):
    return mul(d, G)


def enc(pt, compressed=True):
    if pt is None:
        return b"\x00"
    if compressed:
        return bytes([2 + (pt[1] & 1)]) + pt[0].to_bytes(32, "big")
    return b"\x04" + pt[0].to_bytes(32, "big") + pt[1].to_bytes(32, "big")


def lift(x, odd):
    if x >= P:
        return None
    a = (x * x * x + 7) % P
    y = pow(a, (P + 1) // 4, P)
    if y * y % P != a:
        return None
    if (y & 1) != odd:
        y = P - y
    return (x, y)


def h256(m, double=False):
    d = hashlib.sha256(m).digest()
    return hashlib.sha256(d).digest() if double else d


def rfc6979(d, z, extra=b""):
    x = d.to_bytes(32, "big")
    h = (z % N).to_bytes(32, "big")
    K, V = b"\x00" * 32, b"\x01" * 32
    K = hmac.new(K, V + b"\x00" + x + h + extra, hashlib.sha256).digest()
    V = hmac.new(K, V, hashlib.sha256).digest()
    K = hmac.new(K, V + b"\x01" + x + h + extra, hashlib.sha256).digest()
    V = hmac.new(K, V, hashlib.sha256).digest()
    while True:
        V = hmac.new(K, V, hashlib.sha256).digest()
        k = int.from_bytes(V, "big")
        if 0 < k < N:
            return k
        K = hmac.new(K, V + b"\x00", hashlib.sha256).digest()
        V = hmac.new(K, V, hashlib.sha256).digest()


def sign(d, k, z):
    """low-S normalised (r, s, recid bit)"""
    R = mul(k, G)
    r = R[0] % N
    s = pow(k, N - 2, N) * (z + r * d) % N
    odd = R[1] & 1
    if s > N // 2:
        s, odd = N - s, odd ^ 1
    return r, s, odd


def sign_msg(d, m, double=False):
    z = int.from_bytes(h256(m, double), "big") % N
    return sign(d, rfc6979(d, z), z)


def verify(Q, z, r, s):
    if not (0 < r < N and 0 < s < N):
        return False
    w = pow(s, N - 2, N)
    X = add(mul(z * w, G), mul(r * w, Q))
    return X is not None and X[0] % N == r


def der_int(v):
    b = v.to_bytes((v.bit_length() + 7) // 8 or 1, "big")
    if b[0] & 0x80:
        b = b"\x00" + b
    return b"\x02" + bytes([len(b)]) + b


def der(r, s):
    body = der_int(r) + der_int(s)
    return b"\x30" + bytes([len(body)]) + body


def h32(v):
    return "%064x" % v
