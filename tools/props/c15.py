"""C15 — case generator: OP_CHECKSIG / OP_CHECKMULTISIG inside a spending transaction.

presample: `spend.build` driver cases — the library itself assembles and signs P2PK / P2PKH / m-of-n spends
(Transaction::sign, P2PKHAddress::get_locking_script / get_unlocking_script, SighashSignature::to_bytes) for all
twelve standard flag bytes, with OP_CODESEPARATOR at chosen top-level positions.
generate: every built spend as an `interp.spend` case (must be accepted), then single-field mutations of it
(version, locktime, every outpoint, sequence, output value / script, declared input value, key, r, s, flag byte,
separator positions, signature order), signatures transplanted between spends, the stack protocol of
OP_CHECKMULTISIG, missing extended fields / input index out of range, and conditionals in front of a separator
(the documented limit)."""
import struct
from . import _sighash_common as G

ID = "C15"
LEVEL = "proof"
RULE = ("spends of the P2PK / P2PKH / m-of-n (1<=m<=n<=3) families built and signed by the library itself (spend.build: Transaction::sign, "
        "P2PKHAddress::get_locking_script/get_unlocking_script, SighashSignature::to_bytes) for all twelve standard flag bytes, code "
        "separators at every top-level position, CHECKSIG(VERIFY) / CHECKMULTISIG(VERIFY); the model rebuilds the same signed transactions "
        "byte for byte; every single-field mutation after signing (version, locktime, each outpoint, sequence, output value / script / "
        "count, declared value, key, hash, r, s, high-S, flag byte, separator added / moved / removed); transplanted signatures; multisig "
        "order / count / dummy element; missing extended fields; input index out of range; conditionals in front of a separator "
        "(documented limit; separators inside taken / untaken IF / NOTIF / ELSE branches x 1..3 unlocking pushes x CHECKSIG / CHECKSIGVERIFY / "
        "CHECKMULTISIG: error or stack, never a panic); library-built spends whose signature items have unusual lengths (r or s with a "
        "leading zero byte: 70 / 69 bytes, hard-coded nLockTime per flag and family; Transaction::sign_with_k with nonce 1/2: 60 bytes); "
        "two signature checks in one script (<keyA> CHECKSIGVERIFY <keyB> CHECKSIG, separators before / between / behind the checks, FORKID and "
        "legacy flags mixed, separators added / removed after signing, signatures swapped; decided by Spec/SpendTwo.v); keys of both "
        "compression forms and the same key twice in one multisig, m = n = 3, counts pushed as data / non-minimally, non-empty dummy, the enum "
        "values 0x40 / 0x80 as flag bytes (no panic), declared values 0 / 255 / 256 / 2^32 / 2^63 / 2^64-1, SINGLE at an index without an output "
        "(sign refuses; flag byte swapped in afterwards), a script code longer than 252 bytes; Iterator::next stepping via "
        "from_transaction_and_script_bits; eight API checks on the in-memory objects per built spend (Transaction::verify / _verify, "
        "SighashSignature::to_hex / from_bytes / new, TxIn::get_finalised_script, warm hash cache vs fresh parse); "
        "non-trivial = the model ran the finalised script to the end (accept or false); distinct by (op, arguments)")
TRUSTED = ["hand-written Gallina model coq/Model/InterpSig.v + coq/Model/Interp.v of src/interpreter/{mod,script_matching}.rs, "
           "TxIn::get_finalised_script, Transaction::_verify, ECDSA::verify_hashbuf_impl (tied by this correspondence run)",
           "coq/Model/Sighash.v (C03/C10), coq/Model/Sig.v + coq/Prim/Der.v (C06), coq/Model/Ecdsa.v + coq/Prim/Secp256k1.v + coq/Prim/Rfc6979.v "
           "(C05/C07), coq/Model/Tx.v / Script.v (C01/C02), coq/Model/HashApi.v (C13)",
           "the run executes the BigZ instance of the curve (fast_prims); Proofs/InterpSigRefine.v, Secp256k1Refine.v, EcdsaRefine.v: call by call "
           "equal to the Z instance the theorems are about (these refinement lemmas depend on the stdlib Uint63 axioms; not pinned)",
           "the concrete secp256k1 formulas are tied to k256 by correspondence; of the group structure, associativity of padd and "
           "the two scalar-action laws are not proved (hypothesis secp256k1_group of the _partial theorems); closure of padd/pneg/smul, commutativity, "
           "inverses, lift_x, exact order of G, primality of p and n are proved (Proofs/SecpGroupPartial.v, Proofs/SecpPrimes.v)",
           "the specification column parses the transaction with coq/Model/Tx.v (property C01) and reads both scripts from their bytes with the "
           "independent tokenizer; its verdict function is proved to be met by the model (C15_spend_meets_spec)"]
ASSUMPTIONS = ["'any change to a signed field makes it reject' is cryptographic (second preimages / forgery): proved is 'accept iff ECDSA-valid on "
               "the specified preimage'; the rest is supported by the mutation stream (every mutant outcome is compared with the specification)",
               "library_*_accepted_partial are relative to secp256k1_group (Proofs/EcdsaSecp.v), named as a premise",
               "the hash cache of the transaction copy held by the interpreter is transparent (property C04); the model uses the uncached preimage",
               "a multisig locking script carrying a byte string that is not a public key may be refused as a whole even when the signatures "
               "match the remaining keys (specification column: accept or reject; completeness theorem assumes all keys decode)",
               "flag bytes 0x40 / 0x80 (enum values FORKID / ANYONECANPAY on their own) and SINGLE|FORKID without an output at the index are "
               "outside the specification (correspondence only)",
               "documented limit outside the quantified families: the OP_CODESEPARATOR position is counted in executed (spliced) elements, so "
               "after a conditional the subscript is cut at the wrong place of the nested locking script (or the check errors)"]
EXTRA_TARGETS = ["Proofs/InterpSigRefine.vo"]

PK1 = "0279be667ef9dcbbac55a06295ce870b07029bfcdb2dce28d959f2815b16f81798"     # public key of KEYS[0]
FLAGS = G.FORKID_FLAGS + G.LEGACY_FLAGS
SECP_N = 0xFFFFFFFFFFFFFFFFFFFFFFFFFFFFFFFEBAAEDCE6AF48A03BBFD25E8CD0364141
KEYS = ["00" * 31 + "01", "e8f32e723decf4051aefac8e2c93c9c5b214313817cdb01a1494b917c8436b35", "00" * 31 + "03",
        "fffffffffffffffffffffffffffffffebaaedce6af48a03bbfd25e8cd0364140",
        "18e14a7b6a307f426a94f8114701e7c8e774e7f9a47e2c2035db29a206321725", "0c28fca386c7a227600b2fe50b7cae11ec86d3bf1fbe471be89827e19d72aa1d"]


# ---------------------------------------------------------------- wire helpers (generator side only)
def rd_varint(b, p):
    x = b[p]
    if x < 0xFD:
        return x, p + 1
    if x == 0xFD:
        return int.from_bytes(b[p + 1:p + 3], "little"), p + 3
    if x == 0xFE:
        return int.from_bytes(b[p + 1:p + 5], "little"), p + 5
    return int.from_bytes(b[p + 1:p + 9], "little"), p + 9


def parse_tx(b):
    p = 4
    t = {"ver": int.from_bytes(b[0:4], "little"), "ins": [], "outs": []}
    n, p = rd_varint(b, p)
    for _ in range(n):
        txid = b[p:p + 32]; vout = int.from_bytes(b[p + 32:p + 36], "little"); p += 36
        l, p = rd_varint(b, p)
        scr = b[p:p + l]; p += l
        seq = int.from_bytes(b[p:p + 4], "little"); p += 4
        t["ins"].append({"txid": txid, "vout": vout, "scr": scr, "seq": seq})
    n, p = rd_varint(b, p)
    for _ in range(n):
        v = int.from_bytes(b[p:p + 8], "little"); p += 8
        l, p = rd_varint(b, p)
        t["outs"].append({"val": v, "scr": b[p:p + l]}); p += l
    t["lock"] = int.from_bytes(b[p:p + 4], "little")
    return t


def ser_tx(t):
    o = t["ver"].to_bytes(4, "little") + G.varint(len(t["ins"]))
    for i in t["ins"]:
        o += i["txid"] + i["vout"].to_bytes(4, "little") + G.varint(len(i["scr"])) + i["scr"] + i["seq"].to_bytes(4, "little")
    o += G.varint(len(t["outs"]))
    for x in t["outs"]:
        o += x["val"].to_bytes(8, "little") + G.varint(len(x["scr"])) + x["scr"]
    return o + t["lock"].to_bytes(4, "little")


def toks(scr):
    """flat elements of a script: (opcode byte, data or None, raw bytes)"""
    out, p = [], 0
    while p < len(scr):
        c = scr[p]
        if 1 <= c <= 75:
            out.append((c, scr[p + 1:p + 1 + c], scr[p:p + 1 + c])); p += 1 + c
        elif c == 76:
            l = scr[p + 1]; out.append((c, scr[p + 2:p + 2 + l], scr[p:p + 2 + l])); p += 2 + l
        elif c == 77:
            l = int.from_bytes(scr[p + 1:p + 3], "little"); out.append((c, scr[p + 3:p + 3 + l], scr[p:p + 3 + l])); p += 3 + l
        else:
            out.append((c, None, scr[p:p + 1])); p += 1
    return out


def push(d):
    if len(d) == 0:
        return b"\x00"
    if len(d) <= 75:
        return bytes([len(d)]) + d
    if len(d) <= 255:
        return b"\x4c" + bytes([len(d)]) + d
    return b"\x4d" + len(d).to_bytes(2, "little") + d


def join(ts):
    return b"".join(t[2] for t in ts)


def der_parts(sig):
    """sig = 30 L 02 lr r 02 ls s flag -> (r bytes, s bytes, flag)"""
    lr = sig[3]
    r = sig[4:4 + lr]
    ls = sig[5 + lr]
    s = sig[6 + lr:6 + lr + ls]
    return r, s, sig[-1]


def der_int(v):
    b = v.to_bytes(33, "big").lstrip(b"\x00") or b"\x00"
    if b[0] & 0x80:
        b = b"\x00" + b
    return b"\x02" + bytes([len(b)]) + b


def mk_sig(r, s, flag):
    body = der_int(r) + der_int(s)
    return b"\x30" + bytes([len(body)]) + body + bytes([flag])


# ---------------------------------------------------------------- base transactions
def base_tx(rng, nin, nout):
    ver = rng.choice([1, 2, rng.randrange(2 ** 32)])
    lt = rng.choice([0, 499999999, rng.randrange(2 ** 32)])
    ins = b""
    for _ in range(nin):
        scr = rng.choice([b"", b"\x51", bytes([3]) + G.rbytes(rng, 3)])
        ins += G.rbytes(rng, 32) + rng.choice([0, 1, rng.randrange(2 ** 32)]).to_bytes(4, "little") + G.varint(len(scr)) + scr \
            + G.sequence(rng, True).to_bytes(4, "little")
    outs = b""
    for _ in range(nout):
        scr = rng.choice([bytes.fromhex(G.P2PKH), b"\x00\x6a\x02\xca\xfe", b"\x76\xa9\x14" + G.rbytes(rng, 20) + b"\x88\xac"])
        outs += rng.randrange(1, 10 ** 9).to_bytes(8, "little") + G.varint(len(scr)) + scr
    return ver.to_bytes(4, "little") + G.varint(nin) + ins + G.varint(nout) + outs + lt.to_bytes(4, "little")


def key(rng, i=None):
    k = KEYS[i % len(KEYS)] if i is not None else rng.choice(KEYS)
    return ("u" if rng.random() < 0.25 else "") + k


def plain_len(kind, n, variant):
    return {"p2pk": 2, "p2pkh": 5, "ms": n + 3}[kind] + (1 if variant else 0)


def build_case(rng, kind, flags, nin=None, nout=None, idx=None, seps=None, variant=None, n=None, signer_idx=None, value=None):
    nin = nin or rng.randrange(1, 4)
    nout = nout if nout is not None else rng.randrange(1, 4)
    idx = idx if idx is not None else rng.randrange(min(nin, nout))      # SINGLE needs an output at the index
    tx = base_tx(rng, nin, nout)
    value = value if value is not None else rng.choice([0, 1, 546, 10 ** 8, 2 ** 32, 2 ** 63, 2 ** 64 - 1, rng.randrange(2 ** 40)])
    variant = variant if variant is not None else (1 if rng.random() < 0.25 else 0)
    if kind == "ms":
        m = len(flags)
        n = n or rng.randrange(m, 4)
        ks = rng.sample(range(len(KEYS)), n)
        keys = [key(rng, k) for k in ks]
        signer_idx = signer_idx if signer_idx is not None else sorted(rng.sample(range(n), m))
    else:
        n = 1
        keys = [key(rng)]
        signer_idx = [0]
    if seps is None:
        L = plain_len(kind, n, variant)
        r = rng.random()
        seps = [] if r < 0.4 else sorted(rng.randrange(L + 1) for _ in range(rng.choice([1, 1, 2, 3])))
    return ("spend.build", [kind, tx.hex(), str(idx), str(value), ",".join(keys),
                            ",".join("%d.%d" % (k, f) for k, f in zip(signer_idx, flags)),
                            ",".join(map(str, seps)) if seps else "_", str(variant)])


# ---------------------------------------------------------------- signatures of unusual length
# nLockTime values (found by a sweep with the driver) for which the RFC 6979 signature made by Transaction::sign over the fixed
# transaction lz_tx(locktime), input 0, value 5000, has an r or s with a leading zero byte, i.e. a 70-byte (or 69-byte) stack item
# instead of the usual 71/72: kind -> flag -> locktime.  Keys: KEYS[1] (P2PK, P2PKH), KEYS[1] + KEYS[2] (2-of-2).
LZ_LOCKTIME = {
    "p2pk": {65: 841, 66: 80, 67: 207, 193: 348, 194: 600, 195: 220, 1: 25, 2: 15, 3: 91, 129: 164, 130: 1387, 131: 275},
    "p2pkh": {65: 19, 66: 196, 67: 210, 193: 54, 194: 178, 195: 88, 1: 32, 2: 42, 3: 394, 129: 476, 130: 5, 131: 444},
    "ms": {65: 0, 66: 20, 67: 61, 193: 239, 194: 146, 195: 11, 1: 35, 2: 185, 3: 354, 129: 177, 130: 126, 131: 29},
}
LZ_EXTRA = [("ms", 65, 37259), ("ms", 1, 20215), ("p2pk", 65, 28007)]      # both signatures 70 bytes; a 69-byte signature
HALF = (SECP_N + 1) // 2            # nonce 1/2: r = x(G/2) has 166 bits -> a 60-byte signature item (Transaction::sign_with_k)
SHORT_NONCES = [HALF] + [153, 246, 1158]    # k with a short x(kG) (tools/props/c05.py LZ_NONCES)


def lz_tx(locktime):
    i1 = bytes(range(32)) + (1).to_bytes(4, "little") + b"\x00" + (0xFFFFFFFE).to_bytes(4, "little")
    i2 = bytes(range(32, 64)) + (0).to_bytes(4, "little") + b"\x00" + (0xFFFFFFFF).to_bytes(4, "little")
    o1 = (1000).to_bytes(8, "little") + bytes([25]) + bytes.fromhex(G.P2PKH)
    o2 = (2000).to_bytes(8, "little") + bytes([5]) + bytes.fromhex("006a02cafe")
    return ((2).to_bytes(4, "little") + b"\x02" + i1 + i2 + b"\x02" + o1 + o2 + locktime.to_bytes(4, "little")).hex()


def lz_build(kind, flag, locktime, variant=0, seps="_"):
    keys = KEYS[1] if kind != "ms" else KEYS[1] + "," + KEYS[2]
    signers = "0.%d" % flag if kind != "ms" else "0.%d,1.%d" % (flag, flag)
    return ("spend.build", [kind, lz_tx(locktime), "0", "5000", keys, signers, seps, str(variant)])


def sig_item_lengths(txhex, idx):
    t = parse_tx(bytes.fromhex(txhex))
    return [len(x[1]) for x in toks(t["ins"][idx]["scr"]) if x[1] is not None and len(x[1]) >= 9 and x[1][0] == 0x30]


def short_sig_builds(rng, tier):
    out = []
    flags = FLAGS if tier == "thorough" else None
    for kind in ("p2pk", "p2pkh", "ms"):
        fl = flags or [65, 1] + rng.sample([f for f in FLAGS if f not in (65, 1)], 2)
        for f in fl:
            out.append(lz_build(kind, f, LZ_LOCKTIME[kind][f]))
    for kind, f, lt in LZ_EXTRA:
        out.append(lz_build(kind, f, lt))
    # explicit nonces through Transaction::sign_with_k
    for k in (SHORT_NONCES if tier == "thorough" else SHORT_NONCES[:2]):
        kh = "%064x" % k
        for f in (65, 1):
            out.append(("spend.build", ["p2pk", lz_tx(7), "0", "5000", KEYS[1], "0.%d.%s" % (f, kh), "_", "0"]))
        out.append(("spend.build", ["p2pkh", lz_tx(7), "1", "5000", "u" + KEYS[4], "0.%d.%s" % (rng.choice(FLAGS), kh), "_", "0"]))
        out.append(("spend.build", ["ms", lz_tx(7), "0", "5000", KEYS[1] + "," + KEYS[2], "0.65.%s,1.%d.%s" % (kh, rng.choice(FLAGS), "%064x" % (k + 1)), "_", "0"]))
    return out


# ---------------------------------------------------------------- two signature checks in one locking script
PUBS = {KEYS[0]: PK1,
        KEYS[1]: "0339a36013301597daef41fbe593a02cc513d0b55527ec2df1050e2e8ff49c85c2",
        KEYS[2]: "02f9308a019258c31049344f85f89d5229b531c845836f99b08601f113bce036f9"}


def code_at(n, ts):
    """elements after the last separator that precedes the n-th signature check (same walk as Spec/SpendTwo.code_at)"""
    start = 0
    for j, (c, d, raw) in enumerate(ts):
        if d is None and c in (0xAC, 0xAD, 0xAE, 0xAF):
            if n == 0:
                return ts[start:]
            n -= 1
        elif d is None and c == 0xAB:
            start = j + 1
    return ts[start:]


def two_check_lock(ka, kb, seps, verify_tail=False):
    """<key_A> OP_CHECKSIGVERIFY <key_B> OP_CHECKSIG (or ..VERIFY OP_1) with separators before the listed element positions"""
    els = [push(bytes.fromhex(PUBS[ka])), b"\xad", push(bytes.fromhex(PUBS[kb]))] + ([b"\xad", b"\x51"] if verify_tail else [b"\xac"])
    out = b""
    for j, e in enumerate(els):
        out += b"\xab" * seps.count(j) + e
    return out + b"\xab" * sum(1 for p in seps if p >= len(els))


def two_check_build(ka, kb, fa, fb, seps, verify_tail=False, sub_a=None, sub_b=None, tx=None):
    lock = two_check_lock(ka, kb, seps, verify_tail)
    ts = toks(lock)
    sa = sub_a if sub_a is not None else join(code_at(0, ts))
    sb = sub_b if sub_b is not None else join(code_at(1, ts))
    # the unlocking script is  <sig_B> <sig_A>: signer B first
    return ("spend.build", ["raw", tx or lz_tx(11), "0", "5000", ka + "," + kb, "1.%d,0.%d" % (fb, fa),
                            "%s.%s.%s" % (lock.hex(), sb.hex(), sa.hex()), "0"])


TWO = set()          # argument tuples of the two-check builds


def two_check_builds(rng, tier):
    out = _two_check_builds(rng, tier)
    TWO.clear()
    TWO.update(tuple(c[1]) for c in out)
    return out


def _two_check_builds(rng, tier):
    out = []
    A, B = KEYS[1], KEYS[2]
    pairs = [(0x41, 0x41), (0x01, 0x01), (0x41, 0x01), (0x01, 0x41)]
    sepsets = [[], [0], [1], [2], [3], [4], [2, 4], [0, 2, 4]]
    n = 0
    for seps in sepsets:
        for (fa, fb) in (pairs if tier == "thorough" else [pairs[n % 4], pairs[(n + 1) % 4]]):
            out.append(two_check_build(A, B, fa, fb, seps, verify_tail=(n % 5 == 4)))
            n += 1
    out.append(two_check_build(A, A, 0xC3, 0x83, [2]))                 # the same key for both checks
    if tier == "thorough":
        for fa in FLAGS:
            out.append(two_check_build(A, B, fa, rng.choice(FLAGS), [rng.randrange(5), rng.randrange(5)]))
    # wrong subscripts: the separators behind the check erased by the signer (right for legacy flags only), and the whole script
    lock = two_check_lock(A, B, [2, 4])
    erased = join([t for t in code_at(0, toks(lock)) if not (t[1] is None and t[0] == 0xAB)])
    for fa in (0x41, 0x01):
        out.append(two_check_build(A, B, fa, 0x41, [2, 4], sub_a=erased))
        out.append(two_check_build(A, B, fa, fa, [2, 4], sub_b=lock))
    return out


# ---------------------------------------------------------------- deterministic extras (audit list)
def audit_builds(rng, tier):
    out = []
    K = KEYS
    tx22 = lz_tx(3)
    # keys of both compression forms inside one multisig; the same key twice (the same signature then matches twice)
    out.append(("spend.build", ["ms", tx22, "0", "5000", "u%s,%s,u%s" % (K[0], K[1], K[2]), "0.65,2.1", "_", "0"]))
    out.append(("spend.build", ["ms", tx22, "1", "5000", "%s,u%s,%s" % (K[0], K[1], K[2]), "1.195,2.131", "2", "1"]))
    out.append(("spend.build", ["ms", tx22, "0", "5000", "%s,%s" % (K[1], K[1]), "0.65,1.65", "_", "0"]))
    out.append(("spend.build", ["ms", tx22, "0", "5000", "%s,u%s" % (K[1], K[1]), "0.1,1.1", "_", "0"]))
    out.append(("spend.build", ["ms", tx22, "0", "5000", "%s,%s,%s" % (K[0], K[1], K[2]), "0.65,1.66,2.67", "_", "0"]))   # m = n = 3
    # the two enum values that are not standard flag bytes (outside the property; no panic, model = library)
    for kind, keys, sg in [("p2pk", K[1], "0.%d"), ("p2pkh", K[1], "0.%d"), ("ms", K[1] + "," + K[2], "0.%d,1.65")]:
        for f in (64, 128):
            out.append(("spend.build", [kind, tx22, "0", "5000", keys, sg % f, "_", "0"]))
    # declared values at the ends of u64
    for v in (0, 2 ** 63, 2 ** 64 - 1, 2 ** 32, 255, 256):
        out.append(("spend.build", ["p2pkh", tx22, "0", str(v), K[1], "0.%d" % (0x41 if v % 2 == 0 else 0xC3), "_", "0"]))
    # SINGLE at an input index without an output: Transaction::sign refuses (ERR expected, compared with the model)
    tx21 = parse_tx(bytes.fromhex(tx22)); tx21["outs"].pop(); tx21 = ser_tx(tx21).hex()
    for f in (3, 0x43, 0x83, 0xC3, 1, 0x41):
        out.append(("spend.build", ["p2pk", tx21, "1", "5000", K[1], "0.%d" % f, "_", "0"]))
    # counts pushed as data / encoded non-minimally, with the signature made over that very script
    P1, P2 = "21" + PUBS[K[1]], "21" + PUBS[K[2]]
    for lock in ["0101" + P1 + "0101ae", "020100" + P1 + "020100ae", "0101" + P1 + P2 + "020200ae", "0401000000" + P1 + "51ae"]:
        for f in (0x41, 0x01):
            out.append(("spend.build", ["rawd", tx22, "0", "5000", K[1], "0.%d" % f, lock + "." + lock, "0"]))
    # a script code longer than 252 bytes (compact size fd..): a dropped 300-byte push in front of P2PK
    big = "4d2c01" + bytes(rng.randrange(256) for _ in range(300)).hex() + "75" + P1 + "ac"
    for f in (0x41, 0x01):
        out.append(("spend.build", ["raw", tx22, "0", "5000", K[1], "0.%d" % f, big + "." + big, "0"]))
    return out


# ---------------------------------------------------------------- state and call history (interp.seq)
def p2pk_lock(k):
    return (push(bytes.fromhex(PUBS[k])) + b"\xac").hex()


SEQ_PRE = ("interp.seq", [lz_tx(841), "0", "5000.%s,n.n" % p2pk_lock(KEYS[1]), KEYS[1],
                          "G65.5000.%s,p65.5000.%s" % (p2pk_lock(KEYS[1]), p2pk_lock(KEYS[1]))])


def seq_cases(rng, tier, built, pre):
    """observe -> mutate -> observe on ONE Transaction / Interpreter object; explicit arguments against conflicting stored
    annotations; boolean entry points on Ok / failing / unparseable inputs"""
    out = []
    S = lambda tx, idx, ext, key, steps: out.append(("interp.seq", [tx, str(idx), ext, key, ",".join(steps)]))

    def pick(kind, flags):
        for b in built:
            a = b[4]
            if b[0] == kind and a[6] == "_" and a[7] == "0" and a[1].startswith(lz_tx(0)[:40]) and int(a[5].split(",")[0].split(".")[1]) in flags \
                    and len(a[5].split(",")[0].split(".")) == 2:
                return b
        return None
    for kind, flags in [("p2pk", G.FORKID_FLAGS), ("p2pkh", G.LEGACY_FLAGS), ("p2pkh", [0x41]), ("ms", FLAGS)]:
        b = pick(kind, flags)
        if b is None:
            continue
        _, tx, idx, ext, a = b
        ent, v, lock = ext_fields(ext, idx)
        L = lock.hex()
        key = a[4].split(",")[0]
        fl = int(a[5].split(",")[0].split(".")[1])
        t = parse_tx(bytes.fromhex(tx))
        other = (idx + 1) % len(t["ins"])
        unl = t["ins"][idx]["scr"].hex()
        oval = t["outs"][0]["val"]
        # observe - mutate - observe, both orders, clone and round trip
        S(tx, idx, ext, key, ["r", "v%d" % (v + 1), "r", "v%d" % v, "r"])
        S(tx, idx, ext, key, ["v%d" % (v + 1), "r", "c", "r", "v%d" % v, "s", "r"])
        S(tx, idx, ext, key, ["r", "c", "r", "s", "r"])
        S(tx, idx, ext, key, ["r", "o0.%d" % (oval + 1), "r", "o0.%d" % oval, "r"])
        S(tx, idx, ext, key, ["p%d.%d.%s" % (fl, v, L), "a5", "r", "p%d.%d.%s" % (fl, v, L)])
        S(tx, idx, ext, key, ["r", "q%d.5" % other, "r", "L7", "r", "V9", "r"])
        S(tx, idx, ext, key, ["r", "l51", "r", "l" + L, "r", "u51", "r", "u" + unl, "r"])
        # the kept interpreter: its own copy of the transaction; stepped, then run, then run again
        S(tx, idx, ext, key, ["i", "v%d" % (v + 1), "R", "r", "R"])
        S(tx, idx, ext, key, ["i", "n1", "R", "R", "n5", "R"])
        S(tx, idx, ext, key, ["n3", "R", "i", "n%d" % rng.randrange(2, 9), "l51", "R", "i", "R"])
        if kind == "ms":
            continue
        # explicit value / subscript of Transaction::sign against conflicting stored annotations, and their empty / zero values
        g = "G" if kind == "p2pk" else "K"
        S(tx, idx, ext, key, ["%s%d.%d.%s" % (g, fl, v, L), "r"])
        S(tx, idx, ext, key, ["v%d" % (v + 5), "%s%d.%d.%s" % (g, fl, v, L), "r", "v%d" % v, "r"])
        S(tx, idx, ext, key, ["%s%d.0.%s" % (g, fl, L), "r", "%s%d.%d." % (g, fl, v), "r", "%s%d.%d.%s" % (g, fl, v, L), "r"])
        S(tx, idx, ext, key, ["l51", "%s%d.%d.%s" % (g, fl, v, L), "r", "l" + L, "r"])
        S(tx, idx, ext, key, ["g%d.%d.%s" % (fl, v, L), "g%d.%d.%s" % (fl, v + 1, L), "v%d" % (v + 1), "g%d.%d.%s" % (fl, v, L),
                              "p%d.%d.%s" % (fl, v, L), "p%d.0." % fl])
    # boolean entry points: Transaction::verify / _verify on a matching triple, a wrong preimage, a wrong key, high S,
    # an unparseable signature, an unparseable key
    for (op, args), res in (pre or []):
        if op == "interp.seq" and res and res.startswith("OK:"):
            o = res[3:].split(";")[0].split("/")
            if len(o) == 2 and o[1] != "E" and not o[1].startswith("#"):
                sg, prei = o[0], o[1]
                pk = PUBS[KEYS[1]]
                r, s_, fl = der_parts(bytes.fromhex(sg))
                hs = mk_sig(int.from_bytes(r, "big"), SECP_N - int.from_bytes(s_, "big"), fl).hex()
                tx0, ext0 = args[0], args[2]
                for trip in [(sg, pk, prei), (sg, pk, prei[:-2] + "00"), (sg, pk, ""), (sg, PUBS[KEYS[2]], prei), (hs, pk, prei),
                             (sg[:-2], pk, prei), (sg + "41", pk, prei), (sg[:-2] + "05", pk, prei), ("", pk, prei),
                             (sg, "02" + "00" * 31 + "05", prei), (sg, "", prei), (sg, pk[:-2], prei)]:
                    S(tx0, 0, ext0, KEYS[1], ["t%s.%s.%s" % trip])
                S(tx0, 0, ext0, KEYS[1], ["t%s.%s.%s" % (sg, pk, prei), "v7", "t%s.%s.%s" % (sg, pk, prei), "t%s.%s.%s" % (hs, pk, prei)])
    return out


ALWAYS = set()       # builds that are always in the compared stream


def presample(rng, tier):
    cases = short_sig_builds(rng, tier) + two_check_builds(rng, tier) + audit_builds(rng, tier)
    ALWAYS.clear()
    ALWAYS.update(tuple(c[1]) for c in cases)
    cases.append(SEQ_PRE)
    reps = 1 if tier == "quick" else 6
    for _ in range(reps):
        # every flag once per family
        for f in FLAGS:
            cases.append(build_case(rng, "p2pkh", [f]))
            cases.append(build_case(rng, "p2pk", [f]))
        # m-of-n: every (m, n), flags mixed inside one spend
        for (m, n) in [(1, 1), (1, 2), (2, 2), (1, 3), (2, 3), (3, 3)]:
            cases.append(build_case(rng, "ms", [rng.choice(FLAGS) for _ in range(m)], n=n))
        for f in rng.sample(FLAGS, 6 if tier == "quick" else 12):
            cases.append(build_case(rng, "ms", [f, rng.choice(FLAGS)], n=3))
    # separators: every single top-level position, both variants, one forkid and one legacy flag
    for kind, n, fl in [("p2pk", 1, [0x41]), ("p2pkh", 1, [0x01]), ("ms", 2, [0xC3, 0x41]), ("p2pkh", 1, [0x43]), ("p2pk", 1, [0x83])]:
        for variant in (0, 1):
            L = plain_len(kind, n, variant)
            poss = list(range(L + 1)) if tier == "thorough" or kind != "ms" else [0, 1, 3, L - 1, L]
            if tier == "quick" and variant == 1:
                poss = poss[::2]
            for p in poss:
                cases.append(build_case(rng, kind, fl, seps=[p], variant=variant, n=n if kind == "ms" else None))
        cases.append(build_case(rng, kind, fl, seps=list(range(plain_len(kind, n, 0) + 1)), variant=0, n=n if kind == "ms" else None))
    # conditionals in front of a separator (documented limit): the library's subscript is cut at the position counted in
    # executed elements; a signature over that subscript is accepted, one over the script code of the protocol is not
    t1 = base_tx(rng, 1, 1).hex()
    for lock, subs in [("5163ab68" + "21" + PK1 + "ac", ["ac", "68" + "21" + PK1 + "ac", "21" + PK1 + "ac"]),
                       ("0063ab6751ab68" + "21" + PK1 + "ac", ["21" + PK1 + "ac", "ac"])]:
        for sub in subs:
            for fl in (0x41, 0x01):
                cases.append(("spend.build", ["raw", t1, "0", "9", KEYS[0], "0.%d" % fl, lock + "." + sub, "0"]))
    return cases


# ---------------------------------------------------------------- mutations
def spend_case(txb, idx, ext):
    return ("interp.spend", [txb.hex() if isinstance(txb, (bytes, bytearray)) else txb, str(idx), ext])


def ext_fields(ext, idx):
    ent = ext.split(",")
    sat, lock = ent[idx].split(".")
    return ent, int(sat), bytes.fromhex(lock)


def set_ext(ent, idx, sat, lock):
    e = list(ent)
    e[idx] = "%d.%s" % (sat, lock.hex())
    return ",".join(e)


def flip(b, k, mask=1):
    x = bytearray(b); x[k] ^= mask; return bytes(x)


def mutations(rng, kind, txhex, idx, ext, full):
    """single-field mutations of a signed spend; `full`: all of them, else a sample"""
    out = []
    tb = bytes.fromhex(txhex)
    t = parse_tx(tb)
    ent, sat, lock = ext_fields(ext, idx)
    E = ext

    def with_tx(f):
        t2 = parse_tx(tb); f(t2); out.append(spend_case(ser_tx(t2), idx, E))
    with_tx(lambda x: x.__setitem__("ver", (x["ver"] + 1) % 2 ** 32))
    with_tx(lambda x: x.__setitem__("lock", x["lock"] ^ 1))
    for k in range(len(t["ins"])):
        with_tx(lambda x, k=k: x["ins"][k].__setitem__("txid", flip(x["ins"][k]["txid"], rng.randrange(32), 1 << rng.randrange(8))))
        with_tx(lambda x, k=k: x["ins"][k].__setitem__("vout", (x["ins"][k]["vout"] + 1) % 2 ** 32))
        with_tx(lambda x, k=k: x["ins"][k].__setitem__("seq", x["ins"][k]["seq"] ^ (1 << rng.randrange(32))))
    for k in range(len(t["outs"])):
        with_tx(lambda x, k=k: x["outs"][k].__setitem__("val", x["outs"][k]["val"] ^ (1 << rng.randrange(40))))
        with_tx(lambda x, k=k: x["outs"][k].__setitem__("scr", flip(x["outs"][k]["scr"], len(x["outs"][k]["scr"]) - 3, 1 << rng.randrange(8))))
    # output list: one more / one less
    with_tx(lambda x: x["outs"].append({"val": 1, "scr": b"\x51"}))
    if len(t["outs"]) > 1:
        with_tx(lambda x: x["outs"].pop())
    # declared value
    out.append(spend_case(tb, idx, set_ext(ent, idx, (sat + 1) % 2 ** 64, lock)))
    out.append(spend_case(tb, idx, set_ext(ent, idx, sat ^ (1 << 63), lock)))
    # locking script: keys / hash / separators
    lt = toks(lock)
    for j, (c, d, raw) in enumerate(lt):
        if d is not None and len(d) in (20, 33, 65):
            d2 = flip(d, rng.randrange(1, len(d)), 1 << rng.randrange(8))
            l2 = join(lt[:j]) + push(d2) + join(lt[j + 1:])
            out.append(spend_case(tb, idx, set_ext(ent, idx, sat, l2)))
            if len(d) == 33:                                   # the other root of the same x
                l3 = join(lt[:j]) + push(bytes([d[0] ^ 1]) + d[1:]) + join(lt[j + 1:])
                out.append(spend_case(tb, idx, set_ext(ent, idx, sat, l3)))
    # separators moved / added / removed after signing
    for j in range(len(lt) + 1):
        if full or rng.random() < 0.4:
            out.append(spend_case(tb, idx, set_ext(ent, idx, sat, join(lt[:j]) + b"\xab" + join(lt[j:]))))
    for j, (c, d, raw) in enumerate(lt):
        if c == 0xAB and d is None:
            out.append(spend_case(tb, idx, set_ext(ent, idx, sat, join(lt[:j]) + join(lt[j + 1:]))))
    # unlocking script: signatures and (P2PKH) the key
    ut = toks(t["ins"][idx]["scr"])

    def with_unlock(new_toks):
        t2 = parse_tx(tb); t2["ins"][idx]["scr"] = b"".join(new_toks); out.append(spend_case(ser_tx(t2), idx, E))
    for j, (c, d, raw) in enumerate(ut):
        if d is not None and len(d) >= 60 and d[0] == 0x30:   # a signature element
            r, s, fl = der_parts(d)
            ri, si = int.from_bytes(r, "big"), int.from_bytes(s, "big")
            alts = [mk_sig(ri ^ 1, si, fl), mk_sig(ri, si ^ 1, fl), mk_sig(ri, SECP_N - si, fl), mk_sig(si, ri, fl),
                    d[:-1], d + bytes([fl]), d[:-1] + b"\x00", d[:-1] + bytes([fl ^ 0x04]), d[:-1] + b"\x40", d[:-1] + b"\x80",
                    b"\x30\x06\x02\x01\x01\x02\x01\x01" + bytes([fl]), bytes([fl]), b"",
                    d[:2] + b"\x02" + bytes([len(r) + 1]) + b"\x00" + r + d[4 + len(r):-1] + bytes([fl])]   # non-minimal r, length byte not fixed
            others = [f for f in FLAGS if f != fl]
            for f2 in (others if full else rng.sample(others, 3)):
                alts.append(d[:-1] + bytes([f2]))
            for a in alts:
                with_unlock([x[2] for x in ut[:j]] + [push(a)] + [x[2] for x in ut[j + 1:]])
        elif d is not None and len(d) in (33, 65):            # P2PKH: the key in the unlocking script
            with_unlock([x[2] for x in ut[:j]] + [push(flip(d, rng.randrange(1, len(d)), 1 << rng.randrange(8)))] + [x[2] for x in ut[j + 1:]])
            with_unlock([x[2] for x in ut[:j]] + [push(d[:-1])] + [x[2] for x in ut[j + 1:]])
    return out


def ms_protocol(rng, txhex, idx, ext):
    """order, count and dummy element of OP_CHECKMULTISIG on a built m-of-n spend"""
    out = []
    tb = bytes.fromhex(txhex)
    t = parse_tx(tb)
    ent, sat, lock = ext_fields(ext, idx)
    ut = toks(t["ins"][idx]["scr"])
    sigs = [x[2] for x in ut[1:]]

    def with_unlock(parts, e=None):
        t2 = parse_tx(tb); t2["ins"][idx]["scr"] = b"".join(parts); out.append(spend_case(ser_tx(t2), idx, e or ext))
    with_unlock(sigs)                                   # no dummy element
    with_unlock([b"\x51"] + sigs)                       # another dummy
    with_unlock([b"\x03\xaa\xbb\xcc"] + sigs)            # a non-empty data push as dummy
    with_unlock([b"\x00", b"\x00"] + sigs)              # one element too many below
    if len(sigs) >= 2:
        with_unlock([b"\x00"] + sigs[::-1])             # order reversed
        with_unlock([b"\x00"] + [sigs[0]] * len(sigs))  # the same signature twice
        with_unlock([b"\x00"] + sigs[:-1])              # one signature missing
    with_unlock([b"\x00"] + sigs + [sigs[0]])           # one signature too many
    # keys reordered / count opcodes changed in the locking script
    lt = toks(lock)
    kpos = [j for j, x in enumerate(lt) if x[1] is not None and len(x[1]) in (33, 65)]
    if len(kpos) >= 2:
        l2 = list(lt); l2[kpos[0]], l2[kpos[-1]] = l2[kpos[-1]], l2[kpos[0]]
        out.append(spend_case(tb, idx, set_ext(ent, idx, sat, join(l2))))
    for j, x in enumerate(lt):
        if x[1] is None and 0x51 <= x[0] <= 0x60:
            for c2 in (x[0] - 1, x[0] + 1):
                out.append(spend_case(tb, idx, set_ext(ent, idx, sat, join(lt[:j]) + bytes([c2]) + join(lt[j + 1:]))))
    return out


def conditional_sep_cases(rng, tier):
    """OP_CODESEPARATOR inside taken / untaken IF / NOTIF / ELSE branches at various depths, unlocking scripts of 1..3 pushes,
    followed by CHECKSIG / CHECKSIGVERIFY / CHECKMULTISIG (outside the quantified families: the position is counted in executed
    elements, so the guard of calculate_sighash_preimage decides between an error and a wrongly cut subscript; never a panic)."""
    out = []
    P = "21" + PK1
    ks = range(0, 4) if tier == "quick" else range(0, 7)
    t1 = base_tx(rng, 1, 1)
    n = 0
    for k in ks:
        nops = "61" * k
        bodies = ["5163" + nops + "ab68", "5163" + nops + "ab6761ab68", "0063ab67" + nops + "ab68", "0064" + nops + "ab68",
                  "0063" + nops + "ab68", "51635163" + nops + "ab6868", "ab5163" + nops + "ab68", "5163" + nops + "ab68ab"]
        for body in bodies:
            for tail_kind in range(5):
                n += 1
                fl = 0x41 if n % 2 else 0x01
                if tier == "thorough":
                    fl = rng.choice(FLAGS)
                sg = push(mk_sig(5 + n, 7, fl))
                pk = bytes.fromhex(P)
                unlock, tail = [(sg, P + "ac"), (sg + pk, "ac"), (sg + pk, "ad51"), (b"\x00" + sg, "51" + P + "51ae"),
                                (b"\x01\x07" + sg + pk, "ac")][tail_kind]
                t2 = parse_tx(t1); t2["ins"][0]["scr"] = unlock
                out.append(spend_case(ser_tx(t2), 0, "9." + body + tail))
    return out


def unlock_attack_cases(rng, tier, built):
    """unlocking scripts that are NOT push-only against the three lock families: a true value followed by a flow-control / stack
    opcode that tries to end or skip the evaluation before the lock's own signature check (OP_1 OP_RETURN ...), and a correct
    unlocking script with junk around it.  Without a valid signature in it the input must never count as spent."""
    out = []
    junk = ["516a", "6a", "516a51", "51696a", "5169", "51ab", "5174", "517551", "5176", "5161", "51635168", "5163516751 68".replace(" ", ""),
            "0064516851", "516a6a", "51636a68", "00516a", "5151", "51777551", "516b6c", "51008763516851"]
    for kind in ("p2pk", "p2pkh", "ms"):
        cand = [b for b in built if b[0] == kind]
        if not cand:
            continue
        for n, b in enumerate(cand[:(2 if tier == "quick" else 8)]):
            _, tx, idx, ext, _ = b
            t = parse_tx(bytes.fromhex(tx))
            orig = t["ins"][idx]["scr"]
            scripts = [bytes.fromhex(j) for j in (junk if n == 0 else rng.sample(junk, 6))]
            # the honest unlocking script with junk behind / in front of it (still a valid signature inside: correspondence only)
            scripts += [orig + b"\x61", orig + b"\x6a", orig + b"\x51", b"\x51\x6a" + orig, orig + b"\x51\x6a", b"\x51\x69" + orig,
                        orig + b"\x75\x51", orig + b"\xab"]
            for sc in scripts:
                t2 = parse_tx(bytes.fromhex(tx)); t2["ins"][idx]["scr"] = sc
                out.append(spend_case(ser_tx(t2), idx, ext))
    return out


def generate(rng, tier, pre=None):
    cases = []
    built = []
    for (op, args), out in (pre or []):
        if op == "spend.build" and out and out.startswith("OK:"):
            f = out[3:].split(";")
            built.append((args[0], f[0], int(args[2]), f[1], args))
    seq = seq_cases(rng, tier, built, pre)
    # 0. the assembling itself (Transaction::sign, script builders): the model reproduces the signed transaction byte for byte
    step = 3 if tier == "quick" else 1
    for k, ((op, args), out) in enumerate(pre or []):
        if k % step == 0 or args[0] in ("raw", "rawd") or tuple(args) in ALWAYS:
            cases.append((op, list(args)))
    # 1. what the library built must be accepted (two checks: Spec/SpendTwo; other `raw` ones: correspondence, no panic)
    for kind, txhex, idx, ext, _ in built:
        cases.append(spend_case(txhex, idx, ext))
    #    ... and the same through Iterator::next
    for kind, txhex, idx, ext, _ in built[::(9 if tier == "quick" else 3)]:
        cases.append(("interp.spend_steps", [txhex, str(idx), ext]))
    # 1b. two checks: a separator added at every position after signing (kept by FORKID, erased by legacy: the specification
    #     column decides which of them still verify), the two signatures swapped
    two = [b for b in built if tuple(b[4]) in TWO]
    for k, (kd, txhex, idx, ext, _) in enumerate(two if tier == "thorough" else two[::2][:8]):
        ent, sat, lock = ext_fields(ext, idx)
        lt = toks(lock)
        for j in range(len(lt) + 1):
            cases.append(spend_case(txhex, idx, set_ext(ent, idx, sat, join(lt[:j]) + b"\xab" + join(lt[j:]))))
        for j, x in enumerate(lt):
            if x[1] is None and x[0] == 0xAB:
                cases.append(spend_case(txhex, idx, set_ext(ent, idx, sat, join(lt[:j]) + join(lt[j + 1:]))))
        t2 = parse_tx(bytes.fromhex(txhex)); ut = toks(t2["ins"][idx]["scr"])
        t2["ins"][idx]["scr"] = join(ut[::-1]); cases.append(spend_case(ser_tx(t2), idx, ext))
        if k < 2:
            cases.append(("interp.spend_steps", [ser_tx(t2).hex(), str(idx), ext]))
    # 1c. SINGLE at an input index without an output: a spend signed with ALL whose flag byte is then one of the SINGLE ones
    for kd, txhex, idx, ext, args in built:
        if idx == 1 and kd == "p2pk" and args[5] in ("0.1", "0.65") and tuple(args) in ALWAYS:
            t2 = parse_tx(bytes.fromhex(txhex)); sg = toks(t2["ins"][idx]["scr"])[0][1]
            for f2 in (3, 0x43, 0x83, 0xC3):
                t3 = parse_tx(bytes.fromhex(txhex)); t3["ins"][idx]["scr"] = push(sg[:-1] + bytes([f2]))
                cases.append(spend_case(ser_tx(t3), idx, ext))
    built = [b for b in built if b[0] not in ("raw", "rawd")]
    # 2. mutations
    by_kind = {}
    for b in built:
        by_kind.setdefault(b[0], []).append(b)
    nfull = 1 if tier == "quick" else 8
    for kind in ("p2pkh", "p2pk", "ms"):
        lst = by_kind.get(kind, [])
        rng.shuffle(lst)
        for k, (kd, txhex, idx, ext, _) in enumerate(lst[:(3 if tier == "quick" else 40)]):
            ms = mutations(rng, kd, txhex, idx, ext, full=(k < nfull))
            if k >= nfull:
                ms = rng.sample(ms, min(len(ms), 14))
            cases.extend(ms)
        for (kd, txhex, idx, ext, _) in lst[:(2 if tier == "quick" else 12)]:
            if kd == "ms":
                cases.extend(ms_protocol(rng, txhex, idx, ext))
    # 3. signatures transplanted between spends (valid signature, different data)
    for _ in range(6 if tier == "quick" else 60):
        same = [b for b in built if b[0] == "p2pk"]
        if len(same) >= 2:
            a, b = rng.sample(same, 2)
            ta, tb = parse_tx(bytes.fromhex(a[1])), parse_tx(bytes.fromhex(b[1]))
            tb["ins"][b[2]]["scr"] = ta["ins"][a[2]]["scr"]
            cases.append(spend_case(ser_tx(tb), b[2], b[3]))
    # 4. extended fields missing, index out of range, unparseable pieces
    if built:
        kind, txhex, idx, ext, _ = built[0]
        ent, sat, lock = ext_fields(ext, idx)
        n = len(ent)
        e = list(ent); e[idx] = "n.%s" % lock.hex(); cases.append(spend_case(txhex, idx, ",".join(e)))
        e = list(ent); e[idx] = "%d.n" % sat; cases.append(spend_case(txhex, idx, ",".join(e)))
        cases.append(spend_case(txhex, idx, "_"))
        for i2 in [n, n + 1, 255, 2 ** 32, 2 ** 64 - 1]:
            cases.append(spend_case(txhex, i2, ext))
        for i2 in range(n):
            if i2 != idx:
                cases.append(spend_case(txhex, i2, ext))
        e = list(ent); e[idx] = "%d.%s" % (sat, lock.hex() + "4c05ab"); cases.append(spend_case(txhex, idx, ",".join(e)))
        e = list(ent); e[idx] = "%d.%s" % (sat, lock.hex() + "63"); cases.append(spend_case(txhex, idx, ",".join(e)))
        e = list(ent); e[idx] = "%d." % sat; cases.append(spend_case(txhex, idx, ",".join(e)))           # empty locking script
        cases.append(spend_case(txhex[:-2], idx, ext))
        cases.append(spend_case(txhex, idx, ext + ",5.51,7.ac"))                                       # entries beyond the inputs
    # 5. scripts without a transaction-independent outcome: bare opcodes on short stacks, separators in the unlocking script
    t1 = base_tx(rng, 1, 1)
    for lock in ["ac", "ad", "ae", "af", "51ac", "5151ac", "0051ae", "00005151ae", "510051ae", "00ae", "5100ae", "52" + "21" + PK1 + "51ae",
                 "51" + "21" + PK1 + "52ae", "0021" + PK1 + "51ae", "ab", "abab51", "21" + PK1 + "ac", "00" + "21" + PK1 + "ac", "0100" + "21" + PK1 + "ac",
                 "0141" + "21" + PK1 + "ac", "0141" + "0102" + "ac", "0141" + "21" + "05" + PK1[2:] + "ac"]:
        cases.append(spend_case(t1, 0, "9." + lock))
    # 6. conditionals in front of a separator: the position is counted in executed (spliced) elements
    #    (documented limit, outside the quantified families; correspondence only)
    for lock in ["5163ab68" + "21" + PK1 + "ac", "5163" + "61" * 5 + "ab68" + "21" + PK1 + "ac", "0063ab6751ab68" + "21" + PK1 + "ac",
                 "ab5163616168" + "21" + PK1 + "ac"]:
        t2 = parse_tx(t1); t2["ins"][0]["scr"] = push(mk_sig(5, 7, 0x41))
        cases.append(spend_case(ser_tx(t2), 0, "9." + lock))
    cases.extend(conditional_sep_cases(rng, tier))
    cases.extend(seq)
    cases.extend(unlock_attack_cases(rng, tier, built))
    return cases


def neighbours(case, rng):
    op, args = case
    out = []
    if op == "interp.spend":
        try:
            n = len(parse_tx(bytes.fromhex(args[0]))["ins"])
        except Exception:
            return out
        for i in range(n + 1):
            out.append((op, [args[0], str(i), args[2]]))
    return out


def nontrivial(case, out):
    return out.startswith("OK:")
