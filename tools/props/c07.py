"""C07 — case generator: WIF / raw private keys, SEC1 public keys, Base58Check P2PKH addresses, P2PKH scripts."""
from props._keys_common import (P, N, G, B58, pmul, sec1, pub_of, sha256d, b58enc, b58check, wif, address, der, hash160,
                                text, rnd_bytes, keys)

ID = "C07"
LEVEL = "proof"
EXTRA_TARGETS = ["Proofs/ConstsTie.vo"]   # constants regenerated from the Rust source
RULE = ("private keys {1, 2, n-1, n-2, (n-1)/2, random, leading-zero} x both compression flags through to_wif/from_wif/to_pub/address "
        "(prefixes 00, 6f, random); WIF strings with every payload length 0..40 under a valid checksum, wrong version byte, suffix "
        "byte other than 01, key 0 / n / n+1 / 2^256-1, corrupted checksum bytes, single-character substitutions (sampled in quick, "
        "every position x 5 characters in thorough), non-alphabet characters; raw keys of length 0/31/32/33 and hex text of both "
        "cases, odd length, bad characters; candidate public keys: valid compressed/uncompressed encodings and their tag / x / y "
        "corruptions (half of the 33-byte candidates are on the curve), x >= p, identity, tags 00 01 05 06 07 ff, lengths 32/34/64/66; "
        "addresses: hashes with k leading zero bytes for every k in 0..20, all 256 prefix bytes, decoded lengths 24/26 under a valid "
        "checksum, extra / missing leading '1', single-character substitutions (sampled in quick, all positions in thorough); locking "
        "and unlocking scripts for own key under several prefixes, for a hash differing in one bit, for a foreign key; "
        "deterministic value-dependent stream: keys 2^248-1, 2^248, 2^255, 0xff, 0x10, 2^128 and keys whose public x / y / HASH160 "
        "have leading zero bytes (d = 153, 122, 44629, 182, 411, 202760) through every key/pub/address op in both forms; every "
        "prefix byte 0..255 through from_string (35-character strings from 0x90); WIF payload lengths 0..70 x {as is, last byte 01, "
        "last byte 00, two marker bytes}; own / other-compression-form / foreign key unlocking under prefix classes 00, 6f, 05, 90, ff; "
        "all fourteen sighash flags; PublicKey::from_hex text variants; ChainParams::{mainnet,testnet,regtest,stn,default}; "
        "hashes whose hex looks numeric or like opcodes; from_random (behavioural); every pub fn of private_key.rs, public_key.rs and "
        "address/mod.rs except sign/verify_message (C05) and encrypt/decrypt_message (C11) is driven by some op; "
        "call histories on ONE object (key.history / pub.history / addr.history): every (observer, mutator, observer) triple and "
        "observe-all / mutate chains of length 2-3 over compress_public_key / clone / WIF re-import, to_compressed / to_decompressed / "
        "clone, set_chain_params chains (mainnet -> X -> mainnet, non-mainnet string -> mainnet, named chains) / clone / re-parse, with "
        "the specification computed from the final field values only; "
        "non-trivial = the model returns a value (not an early error); distinct by (op, arguments)")
TRUSTED = ["hand-written Gallina model coq/Model/Keys.v of src/keypair/{private_key,public_key}.rs and src/address/mod.rs (tied by this "
           "correspondence run), including its reading of elliptic_curve SecretKey::from_be_bytes, sec1 EncodedPoint::from_bytes/compress, "
           "k256 PublicKey::from_sec1_bytes / AffinePoint::decompress, bs58 and hex",
           "Gallina references coq/Prim/{Secp256k1,Base58,Sha256,Ripemd160}.v: 'equals an independent secp256k1 / Base58Check "
           "implementation' is this run's comparison of the library with them, not a theorem",
           "coq/Model/Asm.v (from_asm) for the two script builders; Prim/Der.v only to recognise well-formed signatures in the unlocking cases",
           "the execution instance (BigZ) of the curve is used by the run; the theorems are about the reference instance over Z "
           "(equal by Proofs/Secp256k1Refine.v modulo the Uint63 axioms, which no pinned theorem depends on)"]
ASSUMPTIONS = ["(none about number theory: sqrt_ok, the square-root fact behind compressed keys, is now a theorem - Proofs/SecpPrimes.v proves the field "
               "prime prime from a Pratt certificate checked inside Coq and derives it with Fermat's little theorem, Proofs/Primality.v)",
               "C07_to_public_key assumes d*G is not the identity (group order of G; not proved for the concrete formulas)",
               "an accepted compressed encoding equals the encoding of the decoded point when y <> 0 (no curve point has y = 0; needs p prime)",
               "text arguments are ASCII; non-UTF-8 / non-ASCII strings are outside the model (bs58 rejects every byte >= 0x80)",
               "from_wif ignores the version byte (any byte is accepted in place of 0x80): recorded as an observation, the property text "
               "only demands rejection of wrong checksums and payload lengths, so the specification column is '-' there"]

FLAGS_OK = [0x41, 0x01, 0xc3, 0x42, 0x83]


def kb(d):
    return d.to_bytes(32, "big")


def subst_chars(rng, s, per_pos, positions=None):
    out = []
    idx = range(len(s)) if positions is None else positions
    for i in idx:
        seen = {s[i]}
        for _ in range(per_pos):
            c = rng.choice(B58)
            if c in seen:
                continue
            seen.add(c)
            out.append(s[:i] + c + s[i + 1:])
    return out


def generate(rng, tier):
    thorough = tier == "thorough"
    cases = []
    A = lambda op, *args: cases.append((op, [str(a) for a in args]))
    ks = keys(rng, 40 if thorough else 8)
    prefixes = [0x00, 0x6f, rng.randrange(256), 0xff]

    # ------------------------------------------------------------ private keys, raw
    for d in ks[:6]:
        A("key.from_bytes", kb(d).hex())
        A("key.from_hex", text(kb(d).hex()))
    A("key.from_hex", text(kb(ks[6]).hex().upper()))
    A("key.from_hex", text("0C28fca386C7a227600b2fe50b7cae11ec86d3bf1fbe471be89827e19d72aa1D"))
    for bad in ["", "0", "00", "zz", kb(5).hex()[:-1], kb(5).hex() + "0", kb(5).hex()[:-2], kb(5).hex() + "00", "0x" + kb(5).hex()[2:],
                " " + kb(5).hex(), kb(5).hex() + " ", "g" + kb(5).hex()[1:]]:
        A("key.from_hex", text(bad))
    for v in [0, N, N + 1, 2 ** 256 - 1, N - 1, 1]:
        A("key.from_bytes", v.to_bytes(32, "big").hex())
        A("key.from_hex", text(v.to_bytes(32, "big").hex()))
    for n in [0, 1, 31, 33, 64]:
        A("key.from_bytes", (b"\x01" * n).hex())
    A("key.from_bytes", "00" + kb(7).hex()[2:])
    A("key.from_bytes", "00" + kb(7).hex())

    # ------------------------------------------------------------ WIF
    for d in ks:
        for c in (0, 1):
            A("key.to_wif", kb(d).hex(), c)
            A("key.from_wif", text(wif(kb(d), c)))
    for v in [0, N, 2 ** 256 - 1]:
        A("key.to_wif", v.to_bytes(32, "big").hex(), 1)
    A("key.to_wif", "0102", 0)
    base_k = kb(ks[6])
    # every payload length 0..40 under a valid checksum (version byte 80, bytes of a valid key, then padding)
    for n in range(0, 41):
        payload = (b"\x80" + base_k + b"\x01" + b"\x01" * 8)[:n]
        A("key.from_wif", text(b58check(payload)))
    # 34-byte payloads whose suffix is not 01; 33-byte payload ending in 01
    for sfx in [0x00, 0x02, 0xff, 0x81]:
        A("key.from_wif", text(b58check(b"\x80" + base_k + bytes([sfx]))))
    A("key.from_wif", text(b58check(b"\x80" + base_k[:-1] + b"\x01")))
    A("key.from_wif", text(b58check(b"\x80" + base_k[:-1] + b"\x01" + b"\x01")))
    # version byte other than 80 (valid checksum)
    for pre in [0xef, 0x00, 0x81, rng.randrange(256)]:
        for c in (0, 1):
            A("key.from_wif", text(wif(base_k, c, prefix=pre)))
    # key out of range under a valid checksum
    for v in [0, N, N + 1, 2 ** 256 - 1]:
        for c in (0, 1):
            A("key.from_wif", text(wif(v.to_bytes(32, "big"), c)))
    # corrupted checksum bytes / payload bytes (Base58 of the changed byte string)
    for c in (0, 1):
        payload = b"\x80" + base_k + (b"\x01" if c else b"")
        full = payload + sha256d(payload)[:4]
        for i in list(range(len(full) - 4, len(full))) + [0, 1, 17, 32]:
            for bit in (0, 7):
                t = bytearray(full); t[i] ^= 1 << bit
                A("key.from_wif", text(b58enc(bytes(t))))
        A("key.from_wif", text(b58enc(full[:-1])))
        A("key.from_wif", text(b58enc(full + b"\x00")))
        A("key.from_wif", text(b58enc(payload)))
    # single-character substitutions
    for c in (0, 1):
        w = wif(base_k, c)
        if thorough:
            for s in subst_chars(rng, w, 5):
                A("key.from_wif", text(s))
        else:
            for s in subst_chars(rng, w, 1, positions=sorted(rng.sample(range(len(w)), 14)) + [0, len(w) - 1]):
                A("key.from_wif", text(s))
        A("key.from_wif", text(w[:-1])); A("key.from_wif", text(w + "1")); A("key.from_wif", text("1" + w)); A("key.from_wif", text(w[1:]))
        A("key.from_wif", text(w[:10] + "0" + w[11:])); A("key.from_wif", text(w[:10] + "l" + w[11:])); A("key.from_wif", text(w + " "))
        A("key.from_wif", text(w.swapcase()))
    for s in ["", "1", "11", "1111", "11111", "111111", "3QJmnh", "2", "z", "zzzzzz", "0", "O", "I", "l", "5HueCGU8rMjxEXxiPuD5BDku4MkFqeZyd4dZ1jvhTVqvbTLvyTJ+"[:-1] + "_"]:
        A("key.from_wif", text(s))
    # the 4-byte string that is its own "checksum of nothing": payload empty, 4 checksum bytes
    A("key.from_wif", text(b58enc(sha256d(b"")[:4])))
    A("key.from_wif", text(b58enc(b"\x80" + sha256d(b"\x80")[:4])))

    # ------------------------------------------------------------ public keys from private keys, addresses of keys
    ec_keys = ks if thorough else ks[:4] + ks[7:11]
    for d in ec_keys:
        for c in (0, 1):
            A("key.to_pub", kb(d).hex(), c)
    for d in (ks if thorough else ks[:3] + ks[9:13]):
        for c in (0, 1):
            for pre in (prefixes if thorough else [prefixes[(d + c) % 4]]):
                A("key.address", kb(d).hex(), c, "%02x" % pre)
    A("key.to_pub", (0).to_bytes(32, "big").hex(), 1)
    A("key.address", N.to_bytes(32, "big").hex(), 0, "00")

    # ------------------------------------------------------------ candidate public keys
    pts = [pmul(d, G) for d in ks[:6] + ks[7:(27 if thorough else 12)]]
    cands = []
    for pt in pts:
        cpr, unc = sec1(pt, True), sec1(pt, False)
        cands += [cpr, unc]
        # tag corruptions
        cands.append(bytes([cpr[0] ^ 1]) + cpr[1:])                     # 02 <-> 03: the other root
        cands.append(b"\x04" + cpr[1:]); cands.append(b"\x02" + unc[1:]); cands.append(b"\x03" + unc[1:])
        for t in rng.sample([0x00, 0x01, 0x05, 0x06, 0x07, 0x08, 0x84, 0xff], 2):
            cands.append(bytes([t]) + cpr[1:]); cands.append(bytes([t]) + unc[1:])
        # byte corruptions: x of the compressed form (about half stay on the curve), x or y of the uncompressed form (off-curve)
        for _ in range(3):
            t = bytearray(cpr); t[rng.randrange(1, 33)] ^= 1 << rng.randrange(8); cands.append(bytes(t))
        t = bytearray(unc); t[rng.randrange(1, 33)] ^= 1 << rng.randrange(8); cands.append(bytes(t))
        t = bytearray(unc); t[rng.randrange(33, 65)] ^= 1 << rng.randrange(8); cands.append(bytes(t))
        # y replaced by p - y (valid: the negated point) and by y + p when that fits (non-canonical)
        x, y = pt
        cands.append(b"\x04" + x.to_bytes(32, "big") + (P - y).to_bytes(32, "big"))
        if y + P < 2 ** 256:
            cands.append(b"\x04" + x.to_bytes(32, "big") + (y + P).to_bytes(32, "big"))
        if x + P < 2 ** 256:
            cands.append(bytes([cpr[0]]) + (x + P).to_bytes(32, "big"))
            cands.append(b"\x04" + (x + P).to_bytes(32, "big") + y.to_bytes(32, "big"))
        # lengths
        cands += [cpr[:-1], cpr + b"\x00", unc[:-1], unc + b"\x00", cpr[:1], unc[:33]]
    for xv in [0, 1, 2, 3, 5, P - 1, P, P + 1, 2 ** 256 - 1]:
        for t in (2, 3):
            cands.append(bytes([t]) + xv.to_bytes(32, "big"))
        cands.append(b"\x04" + xv.to_bytes(32, "big") + (7).to_bytes(32, "big"))
    cands += [b"", b"\x00", b"\x02", b"\x04", b"\x00" * 33, b"\x00" * 65, b"\x05" + b"\x00" * 31 + b"\x01"]
    for _ in range(60 if thorough else 12):
        cands.append(bytes([rng.choice([2, 3])]) + rnd_bytes(rng, 32))
        cands.append(b"\x04" + rnd_bytes(rng, 64))
    seen = set()
    for i, cnd in enumerate(cands):
        if cnd in seen:
            continue
        seen.add(cnd)
        A("pub.parse", cnd.hex())
        r = i % 3
        A(["pub.compress", "pub.decompress", "pub.address"][r], cnd.hex())
        if thorough:
            A(["pub.compress", "pub.decompress", "pub.address"][(r + 1) % 3], cnd.hex())
    for pt in pts[:8]:
        for c in (True, False):
            A("pub.compress", sec1(pt, c).hex()); A("pub.decompress", sec1(pt, c).hex()); A("pub.address", sec1(pt, c).hex())

    # ------------------------------------------------------------ addresses
    hashes = []
    for k in range(0, 21):
        tail = rnd_bytes(rng, 20 - k)
        if tail and tail[0] == 0:
            tail = b"\x01" + tail[1:]
        hashes.append(b"\x00" * k + tail)
    hashes += [b"\xff" * 20, rnd_bytes(rng, 20), bytes.fromhex("62e907b15cbf27d5425399ebf6f0fb50ebb88f18")]
    for h in hashes:
        for pre in ([0x00, 0x6f, rng.randrange(256)] if not thorough else [0x00, 0x6f, 0x05, 0xff, rng.randrange(256), rng.randrange(256)]):
            A("addr.to_string", "%02x" % pre, h.hex())
            A("addr.from_string", text(address(pre, h)))
        A("addr.from_hash", h.hex())
        A("addr.locking", "%02x" % rng.choice(prefixes), h.hex())
        A("addr.set_chain", text(address(rng.randrange(256), h)), "%02x" % rng.randrange(256))
    h0 = hashes[22]
    for pre in range(256):
        A("addr.to_string", "%02x" % pre, (h0 if pre % 2 else hashes[pre % 21]).hex())
        if thorough or pre % 4 == 1:
            A("addr.from_string", text(address(pre, hashes[pre % 21])))
    for n in [0, 1, 19, 21, 32]:
        A("addr.from_hash", rnd_bytes(rng, n).hex()); A("addr.to_string", "00", rnd_bytes(rng, n).hex()); A("addr.locking", "00", rnd_bytes(rng, n).hex())
    # decoded length other than 25 under a valid checksum
    for n in [0, 1, 3, 4, 5, 19, 20, 22, 33]:
        A("addr.from_string", text(b58check(b"\x00" + rnd_bytes(rng, n))))
        A("addr.from_string", text(b58check(rnd_bytes(rng, n))))
    A("addr.from_string", text(b58check(b"\x00" * 20)))      # 24 decoded bytes, all-ones-looking
    A("addr.from_string", text(b58check(b"\x00" * 22)))      # 26
    for h in [hashes[0], hashes[3], hashes[20], hashes[22]]:
        for pre in (0x00, 0x6f):
            a = address(pre, h)
            full = bytes([pre]) + h + sha256d(bytes([pre]) + h)[:4]
            for i in [0, 1, 10, 20, 21, 22, 23, 24]:
                t = bytearray(full); t[i] ^= 1 << rng.randrange(8)
                A("addr.from_string", text(b58enc(bytes(t))))
            A("addr.from_string", text("1" + a)); A("addr.from_string", text(a[1:])); A("addr.from_string", text(a + "1")); A("addr.from_string", text(a[:-1]))
            A("addr.from_string", text(a + " ")); A("addr.from_string", text(" " + a)); A("addr.from_string", text(a[:5] + "0" + a[6:])); A("addr.from_string", text(a.swapcase()))
            if thorough:
                subs = subst_chars(rng, a, 3)
            else:
                subs = subst_chars(rng, a, 1, positions=sorted(set(rng.sample(range(len(a)), min(8, len(a))) + [0, len(a) - 1])))
            for s in subs:
                A("addr.from_string", text(s))
            A("addr.set_chain", text(a), "%02x" % rng.randrange(256))
    for s in ["", "1", "1111111111111111111114oLvT2", "1111111111111111111114oLvT3", "111111111111111111114oLvT2", "11111111111111111111114oLvT2",
              "1A1zP1eP5QGefi2DMPTfTL5SLmv7DivfNa", "1A1zP1eP5QGefi2DMPTfTL5SLmv7DivfNb", "1A1zP1eP5QGefi2DMPTfTL5SLmv7DivfN", "0A1zP1eP5QGefi2DMPTfTL5SLmv7DivfNa"]:
        A("addr.from_string", text(s))
        A("addr.set_chain", text(s), "6f")

    # ------------------------------------------------------------ unlocking scripts
    sigs = [(1, 1), (N - 1, N - 1), (2 ** 255, 2 ** 255 - 1), (rng.randrange(1, N), rng.randrange(1, N // 2)), (0x7f, 0x80), (rng.randrange(1, 2 ** 128), rng.randrange(1, 2 ** 250))]
    for i, pt in enumerate(pts[:(12 if thorough else 6)]):
        for c in (True, False):
            pk = sec1(pt, c)
            r, s = sigs[(i + c) % len(sigs)]
            fl = FLAGS_OK[(i + c) % len(FLAGS_OK)]
            h = hash160(pk)
            for pre in (prefixes if thorough else prefixes[:2] + [prefixes[2 + (i % 2)]]):
                A("pub.unlock_own", pk.hex(), "%02x" % pre, der(r, s).hex(), "%02x" % fl)
            A("addr.unlocking", "%02x" % prefixes[i % 4], h.hex(), pk.hex(), der(r, s).hex(), "%02x" % fl)
            # the other encoding of the same point hashes differently; one flipped bit; a foreign key; an invalid key
            A("addr.unlocking", "00", h.hex(), sec1(pt, not c).hex(), der(r, s).hex(), "%02x" % fl)
            t = bytearray(h); t[rng.randrange(20)] ^= 1 << rng.randrange(8)
            A("addr.unlocking", "%02x" % prefixes[(i + 1) % 4], bytes(t).hex(), pk.hex(), der(r, s).hex(), "%02x" % fl)
            A("addr.unlocking", "00", h.hex(), sec1(pts[(i + 1) % len(pts)], c).hex(), der(r, s).hex(), "%02x" % fl)
    pk = sec1(pts[0], True)
    A("addr.unlocking", "00", hash160(pk).hex(), (b"\x02" + (5).to_bytes(32, "big")).hex(), der(1, 1).hex(), "41")
    A("addr.unlocking", "00", hash160(pk)[:19].hex(), pk.hex(), der(1, 1).hex(), "41")
    A("addr.unlocking", "00", hash160(pk).hex(), pk.hex(), der(1, 1).hex(), "00")           # not a sighash flag
    A("addr.unlocking", "00", hash160(pk).hex(), pk.hex(), "3006020101020100", "41")        # s = 0: not a signature
    A("pub.unlock_own", pk.hex(), "6f", der(1, 1).hex(), "04")

    # ============================================================ audit additions (deterministic)
    # --- value-dependent triggers: private keys with leading zero bytes / top bit set, public keys whose x or y has
    #     leading zero bytes (d = 153: x < 2^248, d = 122: y < 2^248, d = 44629: x < 2^240), HASH160 with a leading
    #     zero byte (d = 182 compressed, d = 411 uncompressed, d = 202760: two zero bytes, compressed)
    special = [2 ** 248 - 1, 2 ** 248, 2 ** 255, 0xff, 0x10, 2 ** 128, 153, 122, 44629, 182, 411, 202760]
    pfx_classes = ["00", "6f", "05", "90", "ff"]          # mainnet, testnet, other < 0x90, >= 0x90 (35-character strings)
    for i, d in enumerate(special):
        A("key.from_bytes", kb(d)[1:].hex())               # 31 bytes: the padding must not be dropped on the way in
        A("key.from_hex", text(kb(d).hex().lstrip("0") or "0"))
        for c in (0, 1):
            A("key.to_wif", kb(d).hex(), c)
            A("key.from_wif", text(wif(kb(d), c)))
            A("key.from_hex", text(kb(d).hex()))
            A("key.to_pub", kb(d).hex(), c)
            A("key.address", kb(d).hex(), c, pfx_classes[(i + c) % 5])
            e = pub_of(d, bool(c))
            A("pub.parse", e.hex()); A("pub.from_hex", text(e.hex())); A("pub.address", e.hex())
            A("pub.compress", e.hex()); A("pub.decompress", e.hex())
    # --- PublicKey::from_hex: case, odd length, bad characters, prefixes
    g1 = pub_of(1, True).hex()
    for s in [g1, g1.upper(), g1[:10].upper() + g1[10:], g1[:-1], g1 + "0", "0x" + g1, " " + g1, g1 + " ", "", "00", "zz",
              pub_of(1, False).hex(), pub_of(1, False).hex().upper(), "02" + "00" * 31 + "05", "04" + "00" * 64, g1[:-2] + "gg"]:
        A("pub.from_hex", text(s))
    A("key.random")
    # --- every prefix byte through from_string (strings for prefixes >= 0x90 have 35 characters)
    for pre in range(256):
        A("addr.from_string", text(address(pre, hashes[(pre * 7) % 21])))
    for pre in (0x8f, 0x90, 0x91, 0xfe, 0xff):
        for h in (hashes[0], hashes[1], hashes[20]):
            A("addr.set_chain", text(address(0, h)), "%02x" % pre)
            A("addr.locking", "%02x" % pre, h.hex())
    # --- named chain parameters
    for name in ("mainnet", "testnet", "regtest", "stn", "default"):
        A("addr.chain_named", hashes[2].hex(), name)
        A("addr.chain_named", hashes[20].hex(), name)
    A("addr.chain_named", hashes[2][:19].hex(), "testnet")
    # --- hashes whose hex text looks like numbers / opcodes in the ASM that the script builders go through
    for h in [b"\x11" * 20, b"\x10" * 20, b"\x00" * 19 + b"\x10", bytes(range(0x50, 0x64)), b"\xac" * 20, b"\x76\xa9\x14" + b"\x88" * 17,
              bytes.fromhex("1234567890123456789012345678901234567890")]:
        A("addr.locking", "00", h.hex()); A("addr.to_string", "00", h.hex()); A("addr.from_string", text(address(0x6f, h)))
    # --- WIF payload lengths 0..70 under a valid checksum, for every marker-byte situation
    long_body = b"\x80" + base_k + b"\x01" + bytes((7 * j + 3) % 251 + 2 for j in range(40))
    for n in range(0, 71):
        p = long_body[:n]
        A("key.from_wif", text(b58check(p)))                                    # as it comes (ends in 01 only for n = 34)
        if n >= 1:
            A("key.from_wif", text(b58check(p[:-1] + b"\x01")))                 # last byte 01 at every length
            A("key.from_wif", text(b58check(p[:-1] + b"\x00")))                 # last byte 00 at every length
        if n >= 2:
            A("key.from_wif", text(b58check(p[:-2] + b"\x01\x01")))             # two marker bytes
    # --- unlocking: own key, the other compression form of the same point, a foreign key — under every prefix class
    for i, d in enumerate([ks[6], 153, 182]):
        for c in (True, False):
            own = pub_of(d, c); other_form = pub_of(d, not c); foreign = pub_of(d + 1, c)
            h = hash160(own)
            for pre in pfx_classes:
                A("pub.unlock_own", own.hex(), pre, der(*sigs[i]).hex(), "41")
                A("addr.unlocking", pre, h.hex(), own.hex(), der(*sigs[i]).hex(), "c1")
                A("addr.unlocking", pre, h.hex(), other_form.hex(), der(*sigs[i]).hex(), "41")
                A("addr.unlocking", pre, h.hex(), foreign.hex(), der(*sigs[i]).hex(), "41")
    # ============================================================ call histories on ONE object
    # PrivateKey: observe -> mutate -> observe, every (observer, mutator, observer) triple, and observe-all / mutate chains
    KO, KM = "pwgfakh", "culW"
    hk = [kb(ks[6]).hex(), kb(153).hex(), kb(2 ** 248 - 1).hex()] + ([kb(d).hex() for d in ks[:6]] if thorough else [])
    n = 0
    for o1 in KO:
        for m in ("c", "u"):
            for o2 in KO:
                A("key.history", hk[n % len(hk)], o1 + m + o2)
                n += 1
    for key in hk:
        for m1 in KM:
            A("key.history", key, KO + m1 + KO[::-1])
            A("key.history", key, m1 + KO)
            for m2 in KM:
                A("key.history", key, "p" + m1 + "pa" + m2 + "pwk")
                if thorough:
                    A("key.history", key, KO + m1 + KO + m2 + KO)
        A("key.history", key, "pupcpupWplp"); A("key.history", key, "uWpcWp"); A("key.history", key, "aukcak"); A("key.history", key, "fgufgcfg")
    # PublicKey: to_compressed / to_decompressed / clone chains with every observation after each step
    PO = "bxah"
    pts_h = [pmul(ks[6], G), pmul(153, G), pmul(122, G)] + ([pmul(d, G) for d in ks[:5]] if thorough else [])
    for pt in pts_h:
        for c in (True, False):
            e = sec1(pt, c).hex()
            for m1 in "cdl":
                A("pub.history", e, PO + m1 + PO)
                for m2 in "cdl":
                    A("pub.history", e, "b" + m1 + "ba" + m2 + "bh")
                    if thorough:
                        for m3 in "cd":
                            A("pub.history", e, PO + m1 + PO + m2 + PO + m3 + PO)
            A("pub.history", e, "acadacah"); A("pub.history", e, "dcdcb"); A("pub.history", e, "hdhch")
    A("pub.history", (b"\x02" + (5).to_bytes(32, "big")).hex(), "bcb")
    # P2PKHAddress: set_chain_params chains (mainnet -> X -> mainnet, non-mainnet string -> mainnet, named chains), clone,
    # re-parse; prefix / string / locking script / hash observed after every step
    AO = "o.k.h"
    muts = ["m", "t", "s00", "s05", "s6f", "s90", "f", "l", "r", "n"]
    hh = hashes[22]
    starts = [("s", text(address(0x6f, hh))), ("s", text(address(0x00, hashes[1]))), ("s", text(address(0xc4, hashes[20]))), ("h", hh.hex())]
    n = 0
    for m1 in muts:
        for st in starts:
            A("addr.history", st[0], st[1], "o." + m1 + "." + AO)
        for m2 in muts:
            st = starts[n % 4]; n += 1
            A("addr.history", st[0], st[1], AO + "." + m1 + "." + AO + "." + m2 + "." + AO)
            if thorough:
                for st in starts:
                    A("addr.history", st[0], st[1], m1 + "." + m2 + ".o")
    for x, y in [("m", "t"), ("t", "m"), ("s00", "s6f"), ("s6f", "s00"), ("s90", "m"), ("m", "s05"), ("n", "s00"), ("f", "m"), ("t", "f")]:
        for st in starts:
            A("addr.history", st[0], st[1], "o." + x + ".o." + y + ".o." + x + ".o.k")
    A("addr.history", "s", text("1111111111111111111114oLvT2"), "o.t.o.m.o.f.o")
    A("addr.history", "h", hh[:19].hex(), "o.m.o")
    A("addr.history", "s", text(address(0x6f, hh)[:-1]), "o.m.o")

    # ============================================================ crafted near-valid strings
    # payloads whose 4-byte checksum ends in 00 / starts with 00 (found by search), then: last byte dropped, 00 appended,
    # leading 00 inserted / removed, a '1' character added / removed in front — each WITHOUT fixing the checksum and WITH a
    # checksum recomputed over the altered body.  Accepted only when it is exactly version || body || checksum of the right length.
    import hashlib

    def crafted(op, payload):
        full = payload + sha256d(payload)[:4]
        outs = [full[:-1], full + b"\x00", b"\x00" + full, full[1:], full[:-1] + b"\x00", full[:-2], full[:-4]]
        for body in (payload[:-1], payload + b"\x00", b"\x00" + payload, payload[1:], payload[:-1] + b"\x00"):
            outs.append(body + sha256d(body)[:4])
        for raw in outs:
            A(op, text(b58enc(raw)))
        st = b58enc(full)
        A(op, text(st)); A(op, text("1" + st)); A(op, text(st[1:])); A(op, text("11" + st))

    def search(prefix_bytes, bodylen, want_end):
        i = 0
        while True:
            body = hashlib.sha256(b"c07-%d-%d" % (bodylen, i)).digest() * 2
            payload = prefix_bytes + body[:bodylen]
            ck = sha256d(payload)[:4]
            if (want_end and ck[3] == 0) or (not want_end and ck[0] == 0):
                return payload
            i += 1

    for pre in (0x00, 0x6f, 0x05, 0x90, 0xff):
        for want_end in (True, False):
            crafted("addr.from_string", search(bytes([pre]), 20, want_end))
    # a hash that itself starts / ends with 00 together with a checksum ending in 00
    crafted("addr.from_string", search(b"\x00\x00", 19, True))
    crafted("addr.from_string", search(b"\x6f\x00", 19, True))
    for want_end in (True, False):
        for c in (0, 1):
            # WIF: version 80, 32 key bytes (top bit cleared so that the key is in range), optional 01
            p = search(b"\x80\x01", 31, want_end)
            if c:
                i = 0
                while True:
                    body = b"\x80\x01" + hashlib.sha256(b"c07w-%d" % i).digest()[:31] + b"\x01"
                    ck = sha256d(body)[:4]
                    if (want_end and ck[3] == 0) or (not want_end and ck[0] == 0):
                        p = body
                        break
                    i += 1
            crafted("key.from_wif", p)

    # every sighash flag value, signatures whose DER has leading-zero / high-bit integers
    for fl in (0x40, 0x01, 0x02, 0x03, 0x80, 0x41, 0x42, 0x43, 0xc1, 0xc2, 0xc3, 0x81, 0x82, 0x83):
        A("pub.unlock_own", pub_of(ks[6], True).hex(), "6f", der(2 ** 255 + 1, 2 ** 247).hex(), "%02x" % fl)
    return cases


def nontrivial(case, impl_out):
    return impl_out.startswith("OK")


def neighbours(case, rng):
    op, args = case
    out = []
    if op in ("key.from_wif", "addr.from_string") and args:
        try:
            s = bytes.fromhex(args[0]).decode("ascii")
        except Exception:
            return out
        for i in range(len(s)):
            c = rng.choice(B58)
            if c != s[i]:
                out.append((op, [text(s[:i] + c + s[i + 1:])]))
        out.append((op, [text(s[:-1])])); out.append((op, [text("1" + s)]))
    if op in ("pub.parse", "pub.compress", "pub.decompress", "pub.address") and args and len(args[0]) >= 2:
        b = bytes.fromhex(args[0])
        for t in (0, 2, 3, 4, 5, 6, 7):
            out.append((op, [(bytes([t]) + b[1:]).hex()]))
    return out[:200]


def search_cases(rng, broken):
    out = []
    k = (0x0c28fca386c7a227600b2fe50b7cae11ec86d3bf1fbe471be89827e19d72aa1d).to_bytes(32, "big")
    for n in range(0, 41):
        payload = (b"\x80" + k + b"\x01" * 9)[:n]
        out.append(("key.from_wif", [text(b58check(payload))]))
    for c in (0, 1):
        out.append(("key.to_wif", [k.hex(), str(c)]))
        out.append(("key.to_pub", [k.hex(), str(c)]))
        out.append(("key.address", [k.hex(), str(c), "6f"]))
    for z in range(0, 21):
        h = b"\x00" * z + b"\x11" * (20 - z)
        out.append(("addr.to_string", ["00", h.hex()]))
        out.append(("addr.from_string", [text(address(0x6f, h))]))
        out.append(("addr.locking", ["6f", h.hex()]))
    for n in (20, 22):
        out.append(("addr.from_string", [text(b58check(b"\x00" * n))]))
    pt = pmul(7, G)
    for c in (True, False):
        e = sec1(pt, c)
        for op in ("pub.parse", "pub.compress", "pub.decompress", "pub.address"):
            out.append((op, [e.hex()]))
        out.append(("pub.unlock_own", [e.hex(), "6f", der(1, 1).hex(), "41"]))
        out.append(("addr.unlocking", ["6f", hash160(e).hex(), e.hex(), der(1, 1).hex(), "41"]))
    out.append(("pub.parse", [(b"\x02" + (5).to_bytes(32, "big")).hex()]))
    out.append(("pub.parse", ["00"]))
    return out
