"""C08 — case generator: BIP32 extended keys (from_seed, derive, derive_from_path, to_string, from_string).

Parents for derive / to_string are given field by field (the driver builds them with `new`):
  xprv parent = key comp cc depth index fp ; xpub parent = pubkey cc depth index fp   (fp "-" = None)
Key strings and paths travel as hex of their UTF-8 bytes.  A small pure-Python secp256k1 / Base58Check is
used on the generator side only (to make valid public keys and strings that are then corrupted)."""
import hashlib
import hmac

ID = "C08"
LEVEL = "proof"
RULE = ("seeds of length 0..128 (incl. 16/32/64 and the BIP32 test-vector seeds with their chains), child indices "
        "{0,1,2^31-1,2^31,2^31+1,2^32-1} and random ones on explicit parents (private, public, neuter-then-derive), "
        "parents at depth 254/255, non-standard parents (uncompressed key, odd chain-code / fingerprint lengths), paths of "
        "depth 1..12 in all spellings (m/M, ' h H), lenient and malformed path strings, to_string of random fields, "
        "from_string of valid strings, sampled single-character corruptions, payloads with right checksum but wrong "
        "length / key range / point / version; non-trivial = the model returns OK; distinct by (op, arguments)")
TRUSTED = ["hand-written Gallina model coq/Model/Bip32.v of src/keypair/extended_{private,public}_key.rs (tied by this correspondence run)",
           "Prim/Secp256k1.v formulas = k256 (tied by this run and by Proofs/Secp256k1Kat.v); Prim/Base58.v = bs58",
           "Spec/Bip32Spec.v = BIP32 text (BIP32 test vectors 1-3 as Examples in Proofs/Bip32Kat.v)"]
ASSUMPTIONS = ["group laws of secp256k1 (distributivity of scalar multiplication over addition, G of order exactly n, SEC1 "
               "decode inverts encode) are premises of C08_neuter_commutes / C08_ckd_pub_eq_spec, not proved for the concrete formulas",
               "IL = 0 (refused by the library, valid in BIP32) needs an HMAC-SHA512 preimage and is excluded by hypothesis"]
EXTRA_TARGETS = ["Proofs/Bip32Kat.vo", "Proofs/ConstsTie.vo"]

P = 2 ** 256 - 2 ** 32 - 977
N = 0xFFFFFFFFFFFFFFFFFFFFFFFFFFFFFFFEBAAEDCE6AF48A03BBFD25E8CD0364141
G = (0x79BE667EF9DCBBAC55A06295CE870B07029BFCDB2DCE28D959F2815B16F81798,
     0x483ADA7726A3C4655DA4FBFC0E1108A8FD17B448A68554199C47D08FFB10D4B8)
H = 2 ** 31
ALPHA = "123456789ABCDEFGHJKLMNPQRSTUVWXYZabcdefghijkmnopqrstuvwxyz"


def ec_add(a, b):
    if a is None: return b
    if b is None: return a
    if a[0] == b[0]:
        if (a[1] + b[1]) % P == 0: return None
        l = 3 * a[0] * a[0] * pow(2 * a[1], -1, P) % P
    else:
        l = (b[1] - a[1]) * pow(b[0] - a[0], -1, P) % P
    x = (l * l - a[0] - b[0]) % P
    return (x, (l * (a[0] - x) - a[1]) % P)


def ec_mul(k, pt):
    r = None
    while k:
        if k & 1: r = ec_add(r, pt)
        pt = ec_add(pt, pt)
        k >>= 1
    return r


def ser_pub(pt, comp=True):
    if comp:
        return bytes([2 + (pt[1] & 1)]) + pt[0].to_bytes(32, "big")
    return b"\x04" + pt[0].to_bytes(32, "big") + pt[1].to_bytes(32, "big")


def b58(b):
    n = int.from_bytes(b, "big")
    s = ""
    while n:
        n, r = divmod(n, 58)
        s = ALPHA[r] + s
    z = len(b) - len(b.lstrip(b"\0"))
    return "1" * z + s


def sha256d(b):
    return hashlib.sha256(hashlib.sha256(b).digest()).digest()


def b58check(p):
    return b58(p + sha256d(p)[:4])


def T(s):
    return s.encode("utf-8").hex()


XPRV = bytes.fromhex("0488ade4")
XPUB = bytes.fromhex("0488b21e")


def rb(rng, n):
    return bytes(rng.randrange(256) for _ in range(n))


def rkey(rng):
    return rng.randrange(1, N)


def xprv_args(k, comp=1, cc=None, depth=0, index=0, fp=b"\0\0\0\0"):
    return [k.to_bytes(32, "big").hex(), str(comp), cc.hex(), str(depth), str(index), "-" if fp is None else fp.hex()]


def xpub_args(pk, cc, depth=0, index=0, fp=b"\0\0\0\0"):
    return [pk.hex(), cc.hex(), str(depth), str(index), "-" if fp is None else fp.hex()]


def payload_priv(k, cc, depth, index, fp, version=XPRV, pad=0):
    return version + bytes([depth]) + fp + index.to_bytes(4, "big") + cc + bytes([pad]) + k.to_bytes(32, "big")


def payload_pub(pk, cc, depth, index, fp, version=XPUB):
    return version + bytes([depth]) + fp + index.to_bytes(4, "big") + cc + pk


def py_master(seed):
    I = hmac.new(b"Bitcoin seed", seed, hashlib.sha512).digest()
    return int.from_bytes(I[:32], "big"), I[32:]


def py_ckd(k, c, i):
    """generator-side CKDpriv (only to FIND / BUILD inputs with leading zero bytes): (child key, chain code, IL)"""
    data = (b"\0" + k.to_bytes(32, "big") if i >= H else ser_pub(ec_mul(k, G))) + i.to_bytes(4, "big")
    I = hmac.new(c, data, hashlib.sha512).digest()
    il = int.from_bytes(I[:32], "big")
    return (il + k) % N, I[32:], il


def py_fp(k):
    return hashlib.new("ripemd160", hashlib.sha256(ser_pub(ec_mul(k, G))).digest()).digest()[:4]


# children of the BIP32 test-vector-1 master whose serialisation has a leading zero byte somewhere (found once with
# find_leading_zero below): hardened index -> what starts with 00
LZ_HARDENED = {47: "fingerprint of the child (hash160 of its public key)", 78: "public key x", 156: "chain code",
               280: "private key (ser256)", 1031: "IL"}
LZ_NORMAL = {71: "chain code", 121: "private key (ser256)"}


def find_leading_zero(seed, hardened, limit=4000):
    """indices i (hardened or normal children of the master of [seed]) with a leading zero byte in key / chain code / IL /
    public key x / fingerprint"""
    k, c = py_master(seed)
    out = {}
    for i in range(limit):
        ki, ci, il = py_ckd(k, c, i + (H if hardened else 0))
        if ki >> 248 == 0: out.setdefault("key", i)
        if ci[0] == 0: out.setdefault("cc", i)
        if il >> 248 == 0: out.setdefault("il", i)
        if "fp" not in out or "px" not in out:
            pt = ec_mul(ki, G)
            if pt[0] >> 248 == 0: out.setdefault("px", i)
            if py_fp(ki)[0] == 0: out.setdefault("fp", i)
        if len(out) == 5:
            break
    return out


def spell(rng, idx, lead="m"):
    parts = []
    for i in idx:
        if i >= H:
            parts.append(str(i - H) + rng.choice(["'", "h", "H"]))
        else:
            parts.append(str(i))
    return lead + "/" + "/".join(parts)


TV1 = "000102030405060708090a0b0c0d0e0f"
TV2 = ("fffcf9f6f3f0edeae7e4e1dedbd8d5d2cfccc9c6c3c0bdbab7b4b1aeaba8a5a29f9c999693908d8a8784817e7b7875726f6c696663605d5a5754514e4b484542")
TV3 = ("4b381541583be4423346c643850da4b320e46a87ae3d2a4e6da11eba819cd4acba45d239319ac14f863b8d5ab5a0d0c64d2e8a1e7d1457df2e5a3c51c73235be")

LENIENT = ["m0", "M0", "m/+1", "m//1", "m/1/", "m///1//2///", "m/1''", "m/1hh", "m/1HH", "m/1Hh'", "m/1HHhh''", "m/01", "m/000000000001",
           "M1h/2", "m/+0'", "m/2147483647", "m/2147483647'", "m/+2147483647H", "m1/2/3"]
MALFORMED = ["", "m", "M", "m/", "m//", "/", "n/0", "0", "/0", "mm/0", "m/m", "m/0'h", "m/0hH", "m/0h'H", "m/0'H", "m/2147483648", "m/2147483648'",
             "m/4294967295", "m/4294967296", "m/99999999999999999999", "m/-1", "m/-0", "m/+", "m/++1", "m/+-1", "m/ 1", "m/1 ", "m /1", " m/1",
             "m/1.0", "m/0x1", "m/1e3", "m/'", "m/h", "m/H", "m/h'", "m/1/x", "m/x/1", "m/1\n", "m\\1", "m/1,2", "m/١", "é/0", "mé",
             "m/1é", "m/1'/2h/3H/4x", "m/1/2/3/4/5/6/7/8/9/10/11/-12", "m/1_000", "m/١'", "M/", "m/+'", "m/''", "m/0''h"]


def generate(rng, tier):
    quick = tier == "quick"
    cases = []
    A = lambda op, args: cases.append((op, list(args)))

    # 1. seeds
    for n in [0, 1, 15, 16, 17, 31, 32, 33, 63, 64, 65, 127, 128] + ([] if quick else [2, 8, 100, 129, 200, 256]):
        A("xprv.from_seed", ["l:%d:%d" % (rng.randrange(1, 10 ** 6), n)])
    A("xprv.from_seed", [TV1]); A("xprv.from_seed", [TV2]); A("xprv.from_seed", [TV3])
    A("xprv.from_seed", ["r:00:32"]); A("xprv.from_seed", ["r:ff:64"])

    # 2. BIP32 test-vector chains (every prefix in the thorough tier)
    tv1 = ["0'", "1", "2'", "2", "1000000000"]
    tv2 = ["0", "2147483647'", "1", "2147483646'", "2"]
    for seed, chain in ((TV1, tv1), (TV2, tv2)):
        ks = [len(chain)] if quick else range(1, len(chain) + 1)
        for k in ks:
            A("xprv.seed_path", [seed, T("m/" + "/".join(chain[:k]))])
    A("xprv.seed_path", [TV3, T("m/0'")])
    A("xpub.seed_path", [TV2, T("m/0")])
    A("xpub.seed_path", [TV1, T("m/0'")])          # hardened from public: refused
    A("xprv.seed_path", [TV1, T("m")]); A("xpub.seed_path", [TV1, T("M")])
    if not quick:
        A("xpub.seed_path", [TV2, T("m/0/1/2/3")])

    # 2b. leading zero bytes: children of the test-vector-1 master whose private key / chain code / IL / public key x /
    #     fingerprint starts with 00 (ser256 and friends must keep the zeros), then one more level below them, and their
    #     strings read back
    mk, mc = py_master(bytes.fromhex(TV1))
    for i, _what in sorted(LZ_HARDENED.items()):
        A("xprv.seed_path", [TV1, T("m/%d'" % i)])
        ki, ci, _ = py_ckd(mk, mc, H + i)
        fpm = py_fp(mk)
        if quick and i not in (47, 78, 280):
            continue
        A("xprv.seed_path", [TV1, T("m/%dh/1" % i)])              # normal child below it: parent public key / fingerprint in the data
        A("xprv.seed_path", [TV1, T("m/%dh/1H" % i)])             # hardened child below it: parent private key in the data
        A("xprv.from_string", [T(b58check(payload_priv(ki, ci, 1, H + i, fpm)))])
        A("xpub.from_string", [T(b58check(payload_pub(ser_pub(ec_mul(ki, G)), ci, 1, H + i, fpm)))])
        A("xpub.derive", xpub_args(ser_pub(ec_mul(ki, G)), ci, 1, H + i, fpm) + ["1"])
        A("xprv.neuter_derive", xprv_args(ki, 1, ci, 1, H + i, fpm) + ["1"])
    for i, _what in sorted(LZ_NORMAL.items()):
        A("xprv.seed_path", [TV1, T("m/%d" % i)])
        A("xpub.seed_path", [TV1, T("m/%d" % i)])
    if not quick:
        sd = rb(rng, 32)
        for hardened in (True, False):
            for _kind, i in sorted(find_leading_zero(sd, hardened, 1500).items()):
                A("xprv.seed_path", [sd.hex(), T("m/%d%s/1" % (i, "'" if hardened else ""))])
                if not hardened:
                    A("xpub.seed_path", [sd.hex(), T("m/%d/1" % i)])

    # 2c. audit additions ------------------------------------------------------------------------------------------
    # from_seed on every length 0..130 (thorough) / around the SHA-512 block and padding boundaries (quick); the public twin
    seedlens = range(0, 131) if not quick else [2, 3, 4, 5, 6, 7, 8, 48, 110, 111, 112, 113, 129, 130]
    for n in seedlens:
        A("xprv.from_seed", ["l:%d:%d" % (rng.randrange(1, 10 ** 6), n)])
    for n in (0, 16, 64) if quick else (0, 1, 16, 32, 64, 128, 130):
        A("xpub.from_seed", ["l:%d:%d" % (rng.randrange(1, 10 ** 6), n)])
    A("xpub.from_seed", [TV2])
    A("xprv.from_random", []); A("xpub.from_random", [])

    # header fields at their extremes, written and read by both key kinds (depth 0 with a non-zero index / fingerprint is
    # refused since 7aed395: BIP32 test vector 5)
    hk, hcc = rkey(rng), b"\0\0" + rb(rng, 30)
    hpk = ser_pub(ec_mul(hk, G))
    combos = [(d, ix, fp) for d in (0, 1, 254, 255) for ix in (0, H - 1, H, 2 ** 32 - 1) for fp in (b"\0" * 4, b"\xff" * 4)]
    if quick:
        combos = [c for j, c in enumerate(combos) if c[0] == 0 or j % 3 == 0]
    for (d, ix, fp) in combos:
        A("xprv.to_string", xprv_args(hk, 1, hcc, d, ix, fp))
        A("xpub.to_string", xpub_args(hpk, hcc, d, ix, fp))
        A("xprv.from_string", [T(b58check(payload_priv(hk, hcc, d, ix, fp)))])
        A("xpub.from_string", [T(b58check(payload_pub(hpk, hcc, d, ix, fp)))])
    # the four strings of the 7aed395 report
    for st in ("xprv9s21ZrQH143K4cBn1cYytsxUM8DAxTmbZXiN8jAGNUYjN74VwVYmCfMKh5PSPSPXSRL4BPA8En7S32LjGDsbffc2US7Ng3GyLevoxMUk37e",
               "xprv9s2SVEMYPrA5xukjkx2AnX3dDHUh6QrGoe7kVkJMkB1Tr2C9nsEd7dfVKTFCPGoNAEwuUXbqXC3aS441WHeKz4ike9kTL7cJqaW9SJGasFf"):
        A("xprv.from_string", [T(st)])
    for st in ("xpub661MyMwAqRbcH6GF7e5zG1uCuA3fMvVSvkdxw7Zsvp5iEuPeV2s1kTfoYMhgZE9inaDjdprXa99dgpKARhDZ55kj596ewfsg1BX5e8aDYE3",
               "xpub661ntjtSEDiPBPqCryZB9ezMmKKBVsa8As3MJ8hyJWYSipXJLQYsfRyyAjZSZ4ZZWPqavyJErZ5n5r2SfkzHPUsTErjjbkD1W76R8ANTe8d"):
        A("xpub.from_string", [T(st)])
    # BIP32 test vector 5 classes, built with a correct checksum: key type / version mismatch, key prefixes 04 and 01,
    # unknown version, private key 0 and n, point not on the curve (the checksum class is in section 8)
    tfp, tcc = rb(rng, 4), rb(rng, 32)
    body_prv = b"\0" + hk.to_bytes(32, "big")
    for ver, keydata in ((XPUB, body_prv), (XPRV, hpk), (XPUB, b"\x04" + hpk[1:]), (XPRV, b"\x04" + hk.to_bytes(32, "big")),
                         (XPUB, b"\x01" + hpk[1:]), (XPRV, b"\x01" + hk.to_bytes(32, "big")), (bytes(4), body_prv), (bytes(4), hpk),
                         (XPRV, bytes(33)), (XPRV, b"\0" + N.to_bytes(32, "big")), (XPUB, b"\x02" + (7).to_bytes(32, "big"))):
        st = T(b58check(ver + bytes([2]) + tfp + (5).to_bytes(4, "big") + tcc + keydata))
        A("xprv.from_string", [st]); A("xpub.from_string", [st])
    # every header / padding / key-tag byte altered one at a time, checksum recomputed, both readers
    goodp = payload_priv(hk, tcc, 3, 4, tfp); goodu = payload_pub(hpk, tcc, 3, 4, tfp)
    positions = [0, 1, 2, 3, 4, 5, 8, 9, 12, 45] + ([13, 44] if quick else list(range(5, 46)))
    for pos in sorted(set(positions)):
        for mask in (0x01, 0x80):
            for op, base in (("xprv.from_string", goodp), ("xpub.from_string", goodu)):
                b = bytearray(base); b[pos] ^= mask
                A(op, [T(b58check(bytes(b)))])
    # the object returned by from_string used directly (cached public key), and from_xpriv followed by derive
    sp = b58check(payload_priv(hk, hcc, 254, 9, tfp)); su = b58check(payload_pub(hpk, hcc, 254, 9, tfp))
    sp255 = b58check(payload_priv(hk, hcc, 255, 9, tfp)); su255 = b58check(payload_pub(hpk, hcc, 255, 9, tfp))
    for i in (0, H - 1, H, 2 ** 32 - 1):
        A("xprv.string_derive", [T(sp), str(i)]); A("xpub.string_derive", [T(su), str(i)])
        A("xpub.from_xprv_derive", xprv_args(hk, 1, hcc, 254, 9, tfp) + [str(i)])
    for i in (0, H):
        A("xprv.string_derive", [T(sp255), str(i)]); A("xpub.string_derive", [T(su255), str(i)])
        A("xpub.from_xprv_derive", xprv_args(hk, 1, hcc, 255, 9, tfp) + [str(i)])
    A("xprv.string_derive", [T(sp[:-1]), "0"]); A("xpub.string_derive", [T(su[:-1]), "0"])
    # path components at the numeric boundaries with every marker, on both key kinds
    for v in (H - 1, H, 2 ** 32 - 1, 2 ** 32):
        for mk in ("", "'", "h", "H"):
            A("xprv.derive_path", xprv_args(hk, 1, hcc, 3, 9, tfp) + [T("m/%d%s" % (v, mk))])
            A("xpub.derive_path", xpub_args(hpk, hcc, 3, 9, tfp) + [T("m/0/%d%s" % (v, mk))])
    # the same index in consecutive steps, the same component with and without a marker
    for pth in ("m/1/1", "m/0'/0'", "m/5/5'/5", "m/0/0/0/0"):
        A("xprv.derive_path", xprv_args(hk, 1, hcc, 3, 9, tfp) + [T(pth)])
    A("xpub.derive_path", xpub_args(hpk, hcc, 3, 9, tfp) + [T("m/1/1")]); A("xpub.derive_path", xpub_args(hpk, hcc, 3, 9, tfp) + [T("m/0/0/0/0")])
    # `new` with a chain code longer than the HMAC-SHA512 block (the key is hashed first) and lengths that wrap a u8
    for cl in (129, 288):
        A("xprv.derive", xprv_args(hk, 1, rb(rng, cl), 1, 1, rb(rng, 260)) + [str(H + 1)])
        A("xpub.derive", xpub_args(hpk, rb(rng, cl), 1, 1, rb(rng, 260)) + ["1"])
        A("xprv.to_string", xprv_args(hk, 1, rb(rng, cl), 1, 1, rb(rng, 260)))
        A("xpub.to_string", xpub_args(hpk, rb(rng, cl), 1, 1, rb(rng, 260)))
    A("xprv.to_string", xprv_args(hk, 1, b"", 0, 0, b"")); A("xprv.derive", xprv_args(hk, 1, b"", 0, 0, b"") + ["0"])

    # 2d. call history on ONE object: path A, path B, path A again, a sibling object with path A, the object afterwards
    hist = [("m/0", "m/1"), ("m/1'", "m/1"), ("m/2/3", "m/2/4")] if quick else \
           [("m/0", "m/1"), ("m/1'", "m/1"), ("m/2/3", "m/2/4"), ("m/0'", "m/0h"), ("M/7", "m/7"), ("m/1/2'", "m/1/2")]
    for (pa_, pb_) in hist:
        A("xprv.history", xprv_args(hk, 1, hcc, 2, 9, tfp) + [T(pa_), T(pb_)])
    for (pa_, pb_) in [("m/0", "m/1"), ("m/2/3", "m/2/4")] + ([] if quick else [("m/5", "m/5'"), ("M/7", "m/7")]):
        A("xpub.history", xpub_args(hpk, hcc, 2, 9, tfp) + [T(pa_), T(pb_)])
    A("xprv.history", xprv_args(hk, 1, hcc, 254, 9, tfp) + [T("m/0"), T("m/0/0")])

    # 3. explicit parents x boundary indices
    idxs = [0, 1, H - 1, H, H + 1, 2 ** 32 - 1]
    nparents = 1 if quick else 4
    for _ in range(nparents):
        k, cc = rkey(rng), rb(rng, 32)
        depth, index, fp = rng.randrange(0, 255), rng.randrange(2 ** 32), rb(rng, 4)
        pk = ser_pub(ec_mul(k, G))
        for i in idxs + [rng.randrange(H), H + rng.randrange(H)]:
            A("xprv.derive", xprv_args(k, 1, cc, depth, index, fp) + [str(i)])
            A("xprv.neuter_derive", xprv_args(k, 1, cc, depth, index, fp) + [str(i)])
            A("xpub.derive", xpub_args(pk, cc, depth, index, fp) + [str(i)])
        A("xpub.from_xprv", xprv_args(k, 1, cc, depth, index, fp))
    # small / large scalars
    for k in [1, 2, N - 1] if quick else [1, 2, 3, N - 2, N - 1, 2 ** 255]:
        cc = rb(rng, 32)
        A("xprv.derive", xprv_args(k, 1, cc, 0, 0, None) + [str(rng.choice([0, H]))])
    # invalid constructor arguments (driver: PrivateKey::from_bytes / PublicKey::from_bytes fail)
    A("xprv.derive", ["00" * 32, "1", "00" * 32, "0", "0", "-", "0"])
    A("xprv.derive", [N.to_bytes(32, "big").hex(), "1", "00" * 32, "0", "0", "-", "0"])
    A("xprv.derive", ["01", "1", "00" * 32, "0", "0", "-", "0"])
    A("xpub.derive", ["02" + "00" * 31 + "05", "00" * 32, "0", "0", "-", "0"])

    # 4. depth boundary
    k, cc = rkey(rng), rb(rng, 32)
    pk = ser_pub(ec_mul(k, G))
    for d in (254, 255):
        A("xprv.derive", xprv_args(k, 1, cc, d, 7, rb(rng, 4)) + [str(rng.choice([0, H + 5]))])
        A("xpub.derive", xpub_args(pk, cc, d, 7, rb(rng, 4)) + ["3"])
    A("xprv.derive_path", xprv_args(k, 1, cc, 252, 0, None) + [T("m/1/2'/3")])
    A("xprv.derive_path", xprv_args(k, 1, cc, 253, 0, None) + [T("m/1/2'/3")])
    A("xpub.derive_path", xpub_args(pk, cc, 254, 0, None) + [T("m/1/2")])

    # 5. non-standard parents reachable through `new` (compared with the model only)
    k, cc = rkey(rng), rb(rng, 32)
    pt = ec_mul(k, G)
    A("xprv.derive", xprv_args(k, 0, cc, 1, 2, rb(rng, 4)) + ["0"])
    A("xprv.derive", xprv_args(k, 0, cc, 1, 2, rb(rng, 4)) + [str(H)])
    A("xprv.neuter_derive", xprv_args(k, 0, cc, 1, 2, rb(rng, 4)) + ["5"])
    A("xpub.derive", xpub_args(ser_pub(pt, False), cc, 1, 2, rb(rng, 4)) + ["5"])
    A("xprv.derive", xprv_args(k, 1, rb(rng, 31), 0, 0, None) + ["1"])
    A("xprv.derive", xprv_args(k, 1, rb(rng, 33), 0, 0, rb(rng, 5)) + [str(H + 1)])
    A("xprv.to_string", xprv_args(k, 1, rb(rng, 33), 0, 0, rb(rng, 3)))
    A("xprv.to_string", xprv_args(k, 0, cc, 9, 9, None))
    A("xpub.to_string", xpub_args(ser_pub(pt, False), cc, 1, 2, rb(rng, 4)))
    A("xpub.to_string", xpub_args(ser_pub(pt), b"", 1, 2, b""))
    A("xpub.from_xprv", xprv_args(k, 0, cc, 1, 2, rb(rng, 4)))

    # 6. paths
    depths = [1, 2, 3, 5, 12] if quick else list(range(1, 13)) * 2
    for d in depths:
        idx = [rng.choice([rng.randrange(H), H + rng.randrange(H), rng.randrange(3), H + rng.randrange(3), H - 1, 2 * H - 1]) for _ in range(d)]
        lead = rng.choice(["m", "M"])
        if d <= 3 or not quick:
            A("xprv.seed_path", ["l:%d:%d" % (rng.randrange(10 ** 6), rng.choice([16, 32, 64])), T(spell(rng, idx, lead))])
        else:
            k, cc = rkey(rng), rb(rng, 32)
            A("xprv.derive_path", xprv_args(k, 1, cc, rng.randrange(200), rng.randrange(2 ** 32), rb(rng, 4)) + [T(spell(rng, idx, lead))])
    for d in ([1, 4, 8] if quick else [1, 2, 3, 4, 6, 8, 12]):
        idx = [rng.choice([rng.randrange(H), rng.randrange(3), H - 1]) for _ in range(d)]
        k, cc = rkey(rng), rb(rng, 32)
        A("xpub.derive_path", xpub_args(ser_pub(ec_mul(k, G)), cc, rng.randrange(200), rng.randrange(2 ** 32), rb(rng, 4)) + [T(spell(rng, idx))])
    # a hardened component somewhere in a public path
    k, cc = rkey(rng), rb(rng, 32)
    pk = ser_pub(ec_mul(k, G))
    A("xpub.derive_path", xpub_args(pk, cc, 0, 0, None) + [T("m/1/2'/3")])
    A("xpub.derive_path", xpub_args(pk, cc, 0, 0, None) + [T("m/1h")])
    # lenient / malformed strings: mostly on a public parent (no scalar multiplication needed to build it)
    # (the two files carry separate copies of the parser: both are driven; hardened spellings are only
    #  distinguishable on the private side, where a parent costs one scalar multiplication)
    for i, p in enumerate(LENIENT):
        A("xprv.derive_path", xprv_args(k, 1, cc, 0, 0, None) + [T(p)])
        A("xpub.derive_path", xpub_args(pk, cc, 0, 0, None) + [T(p)])
    for i, p in enumerate(MALFORMED):
        A("xpub.derive_path", xpub_args(pk, cc, 0, 0, None) + [T(p)])
        if i % 3 == 0 or not quick:
            A("xprv.derive_path", xprv_args(k, 1, cc, 0, 0, None) + [T(p)])
    for _ in range(20 if quick else 200):
        # random strings over the path alphabet
        s = rng.choice(["m", "M", "m/", "m/"]) + "".join(rng.choice("0123456789/'hH+") for _ in range(rng.randrange(1, 8)))
        A("xpub.derive_path", xpub_args(pk, cc, 0, 0, None) + [T(s)])

    # 7. to_string on random fields
    for _ in range(6 if quick else 40):
        k, cc = rkey(rng), rb(rng, 32)
        d, ix, fp = rng.choice([0, 1, 127, 128, 255, rng.randrange(256)]), rng.choice([0, 1, H - 1, H, 2 ** 32 - 1, rng.randrange(2 ** 32)]), rb(rng, 4)
        A("xprv.to_string", xprv_args(k, 1, cc, d, ix, fp))
        A("xpub.to_string", xpub_args(ser_pub(ec_mul(k, G)), cc, d, ix, fp))

    # 8. from_string
    valid_prv, valid_pub = [], []
    for _ in range(2 if quick else 5):
        k, cc = rkey(rng), rb(rng, 32)
        d, ix, fp = rng.randrange(256), rng.randrange(2 ** 32), rb(rng, 4)
        sp = b58check(payload_priv(k, cc, d, ix, fp))
        su = b58check(payload_pub(ser_pub(ec_mul(k, G)), cc, d, ix, fp))
        valid_prv.append(sp); valid_pub.append(su)
        A("xprv.from_string", [T(sp)]); A("xpub.from_string", [T(su)])
    tv1_xprv = "xprv9s21ZrQH143K3QTDL4LXw2F7HEK3wJUD2nW2nRk4stbPy6cq3jPPqjiChkVvvNKmPGJxWUtg6LnF5kejMRNNU3TGtRBeJgk33yuGBxrMPHi"
    tv1_xpub = "xpub661MyMwAqRbcFtXgS5sYJABqqG9YLmC4Q1Rdap9gSE8NqtwybGhePY2gZ29ESFjqJoCu1Rupje8YtGqsefD265TMg7usUDFdp6W1EGMcet8"
    A("xprv.from_string", [T(tv1_xprv)]); A("xpub.from_string", [T(tv1_xpub)])
    valid_prv.append(tv1_xprv); valid_pub.append(tv1_xpub)
    # single-character corruptions (all 57 alternatives at every position in the thorough tier for one string)
    for op, strs in (("xprv.from_string", valid_prv), ("xpub.from_string", valid_pub)):
        for si, s in enumerate(strs):
            if quick:
                pos = rng.sample(range(len(s)), 40 if si == 0 else 8) + [0, len(s) - 1]
                for p in pos:
                    c = rng.choice([a for a in ALPHA if a != s[p]])
                    A(op, [T(s[:p] + c + s[p + 1:])])
            else:
                for p in range(len(s)):
                    alts = [a for a in ALPHA if a != s[p]]
                    for c in (alts if si == 0 else rng.sample(alts, 2)):
                        A(op, [T(s[:p] + c + s[p + 1:])])
        s = strs[0]
        # deletions, insertions, non-alphabet characters, truncations
        for p in rng.sample(range(len(s)), 6):
            A(op, [T(s[:p] + s[p + 1:])]); A(op, [T(s[:p] + rng.choice(ALPHA) + s[p:])])
        for bad in "0OIl +/=_":
            p = rng.randrange(len(s)); A(op, [T(s[:p] + bad + s[p + 1:])])
        for cut in (0, 1, 4, 5, 50, len(s) - 1):
            A(op, [T(s[:cut])])
        A(op, [T(s + "1")]); A(op, [T("1" + s)]); A(op, [T(s + s)]); A(op, [T(s[:20] + "é" + s[21:])])
    # payloads with a correct checksum that must still be refused
    k, cc, fp = rkey(rng), rb(rng, 32), rb(rng, 4)
    pk = ser_pub(ec_mul(k, G))
    good = payload_priv(k, cc, 3, 4, fp)
    for p in (good[:-1], good + b"\0", good[:77], b"", good[:4], good[:45], good * 2):
        A("xprv.from_string", [T(b58check(p))])
    for kk in (0, N, N + 1, 2 ** 256 - 1):
        A("xprv.from_string", [T(b58check(XPRV + bytes([3]) + fp + (4).to_bytes(4, "big") + cc + b"\0" + kk.to_bytes(32, "big")))])
    A("xprv.from_string", [T(b58check(payload_priv(N - 1, cc, 255, 2 ** 32 - 1, fp)))])
    A("xprv.from_string", [T(b58check(payload_priv(1, cc, 0, 0, fp)))])
    goodp = payload_pub(pk, cc, 3, 4, fp)
    for p in (goodp[:-1], goodp + b"\0", b"", goodp[:45]):
        A("xpub.from_string", [T(b58check(p))])
    x_off = next(x for x in range(5, 200) if pow((x ** 3 + 7) % P, (P - 1) // 2, P) != 1)
    for badpk in (b"\x02" + x_off.to_bytes(32, "big"), b"\x02" + P.to_bytes(32, "big"), b"\x04" + pk[1:], b"\x05" + pk[1:], b"\x00" * 33,
                  b"\x06" + pk[1:], bytes([pk[0] ^ 1]) + pk[1:]):
        A("xpub.from_string", [T(b58check(payload_pub(badpk, cc, 3, 4, fp)))])
    # right checksum, wrong version / padding byte (repaired in 15973cd: must be refused)
    A("xprv.from_string", [T(tv1_xpub)]); A("xpub.from_string", [T(tv1_xprv)])
    for ver in ("04358394", "0488b21e", "0488ade5", "0588ade4", "00000000"):
        A("xprv.from_string", [T(b58check(payload_priv(k, cc, 3, 4, fp, version=bytes.fromhex(ver))))])
    for pad in (1, 2, 128, 255):
        A("xprv.from_string", [T(b58check(payload_priv(k, cc, 3, 4, fp, pad=pad)))])
    for ver in ("043587cf", "0488ade4", "0488b21f", "0488b31e"):
        A("xpub.from_string", [T(b58check(payload_pub(pk, cc, 3, 4, fp, version=bytes.fromhex(ver))))])
    return cases


def nontrivial(case, impl_out):
    return impl_out.startswith("OK")


def search_cases(rng, broken):
    out = []
    k, cc, fp = rkey(rng), rb(rng, 32), rb(rng, 4)
    pk = ser_pub(ec_mul(k, G))
    for i in [0, 1, H - 1, H, H + 1, 2 ** 32 - 1]:
        out.append(("xprv.derive", xprv_args(k, 1, cc, 1, 1, fp) + [str(i)]))
        out.append(("xprv.neuter_derive", xprv_args(k, 1, cc, 1, 1, fp) + [str(i)]))
        out.append(("xpub.derive", xpub_args(pk, cc, 1, 1, fp) + [str(i)]))
    for p in ["m/0", "m/0'", "m/1h/2H/3'", "M/5/6", "m/+1", "m", "m/2147483648"]:
        out.append(("xprv.seed_path", [TV1, T(p)]))
        out.append(("xpub.derive_path", xpub_args(pk, cc, 1, 1, fp) + [T(p)]))
    s = b58check(payload_priv(k, cc, 3, 4, fp))
    su = b58check(payload_pub(pk, cc, 3, 4, fp))
    out.append(("xprv.from_string", [T(s)])); out.append(("xpub.from_string", [T(su)]))
    for p in (0, 5, 50, len(s) - 1):
        c = "2" if s[p] != "2" else "3"
        out.append(("xprv.from_string", [T(s[:p] + c + s[p + 1:])]))
        out.append(("xpub.from_string", [T(su[:p] + c + su[p + 1:])]))
    out.append(("xprv.to_string", xprv_args(k, 1, cc, 3, 4, fp)))
    out.append(("xpub.to_string", xpub_args(pk, cc, 3, 4, fp)))
    out.append(("xprv.from_seed", [TV1]))
    return out
