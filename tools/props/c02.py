"""C02 — case generator: script parsing / push encoding."""
ID = "C02"
EXTRA_TARGETS = ["Proofs/OpcodeTie.vo"]   # regenerated opcode enum == protocol table
LEVEL = "proof"
RULE = ("grammar-based scripts (all opcode bytes, every push form, nested conditionals), boundary push lengths, "
        "truncations/mutations, exhaustive 1- and 2-byte scripts in the thorough tier; "
        "non-trivial = the model accepts the input (not an early error); distinct by (op, arguments)")
TRUSTED = ["hand-written Gallina model coq/Model/Script.v of src/script/mod.rs (tied by this correspondence run)"]
ASSUMPTIONS = ["native-stack exhaustion of the recursive parser on very deep nesting is outside the Gallina model"]

IFS = [99, 100, 101, 102]


def hexb(bs):
    return bytes(bs).hex()


def push(rng, n=None):
    if n is None:
        n = rng.choice([0, 1, 1, 2, 3, 5, 20, 32, 33, 65, 74, 75, 76, 77, 100, 255, 256, 300])
    data = bytes(rng.randrange(256) for _ in range(n))
    if n == 0:
        return b"\x00"
    form = rng.randrange(10)
    if n <= 75 and form < 7:
        return bytes([n]) + data
    if n <= 255 and form < 8:
        return b"\x4c" + bytes([n]) + data
    if n <= 65535 and form < 9:
        return b"\x4d" + n.to_bytes(2, "little") + data
    return b"\x4e" + n.to_bytes(4, "little") + data


def script(rng, depth, size):
    out = b""
    for _ in range(size):
        r = rng.random()
        if r < 0.35:
            out += push(rng)
        elif r < 0.5 and depth > 0:
            out += bytes([rng.choice(IFS)]) + script(rng, depth - 1, rng.randrange(0, 4))
            if rng.random() < 0.6:
                out += b"\x67" + script(rng, depth - 1, rng.randrange(0, 4))
                if rng.random() < 0.1:
                    out += b"\x67" + script(rng, depth - 1, rng.randrange(0, 2))
            out += b"\x68"
        elif r < 0.9:
            out += bytes([rng.choice(OPS)])
        else:
            out += bytes([rng.randrange(256)])
    return out


OPS = [0, 79, 81, 82, 96, 97, 105, 106, 107, 117, 118, 135, 136, 147, 169, 171, 172, 174, 103, 104, 251, 253, 255, 80, 186]


def generate(rng, tier):
    cases = []
    P = lambda h: cases.append(("script.parse", [h]))
    # fixed boundary cases
    for h in ["", "00", "0101", "0501", "4c00", "4c0101", "4c0501", "4d0100ff", "4d0500ff", "4e01000000ff", "4e05000000ff",
              "4c", "4d", "4d01", "4e", "4e010000", "63", "6368", "636768", "63676768", "6367", "67", "68", "6768",
              "636368", "63636868", "6363686768", "64516751676868", "65", "66", "6568", "ba", "bb", "fa", "ff", "50", "b1", "b2"]:
        P(h)
    # push-length prefixes across the boundaries
    for n in [74, 75, 76, 77, 254, 255, 256, 257, 1000, 65535, 65536, 65537]:
        P("4c%02x+l:%d:%d" % (n % 256, n, n) if n < 256 else "4d%s+l:%d:%d" % (n.to_bytes(2, "little").hex(), n, n) if n < 65536 else "4e%s+l:%d:%d" % (n.to_bytes(4, "little").hex(), n, n))
        P("4e%s+l:%d:%d" % (n.to_bytes(4, "little").hex(), n + 1, n))
        P("4d%s+l:%d:%d" % ((n % 65536).to_bytes(2, "little").hex(), n + 2, max(0, n % 65536 - 1)))
        if n <= 75:
            P("%02x+l:%d:%d" % (n, n, n)); P("%02x+l:%d:%d" % (n, n, n - 1)); P("%02x+l:%d:%d+ac" % (n, n, n))
        cases.append(("script.pushdata_prefix", [str(n)]))
        cases.append(("script.encode_pushdata", ["l:%d:%d" % (n + 7, n)]))
    for n in [0, 1, 2, 4294967295, 4294967296, 4294967297, 2 ** 63, 2 ** 64 - 1, 16777216]:
        cases.append(("script.pushdata_prefix", [str(n)]))
    for n in [0, 1, 2]:
        cases.append(("script.encode_pushdata", ["l:1:%d" % n]))
    # value-dependent behaviour of the push helper: every one-byte payload, and two-byte script-number look-alikes
    for b in range(256):
        cases.append(("script.encode_pushdata", ["%02x" % b]))
    for h in ["0000", "0080", "8000", "0100", "ff00", "ff7f", "ffff", "0081", "1000", "000000", "00000080"]:
        cases.append(("script.encode_pushdata", [h]))
    P("4effffffff"); P("4effffffff00"); P("4e00000080+r:00:10"); P("4dffff+r:01:100")
    # every single-byte script; PUSHDATA1 with every declared length 0..255 (exact payload and one byte short);
    # every direct push length exact / one short / followed by an opcode
    for a in range(256):
        P("%02x" % a)
        P("4c%02x+l:%d:%d" % (a, a + 3, a))
        if a:
            P("4c%02x+l:%d:%d" % (a, a + 3, a - 1))
    for n in range(1, 76):
        P("%02x+l:%d:%d" % (n, n + 5, n)); P("%02x+l:%d:%d" % (n, n + 5, n - 1)); P("%02x+l:%d:%d+ac" % (n, n + 5, n))
    for n in [0, 1, 255, 256, 257, 511, 512, 513, 4095, 4096, 32767, 32768, 65280]:
        P("4d%s+l:%d:%d" % (n.to_bytes(2, "little").hex(), n + 9, n))
        P("4e%s+l:%d:%d" % (n.to_bytes(4, "little").hex(), n + 9, n))
    # each IF-family opener inside each reader position, closed and unclosed
    for A in IFS:
        for B in IFS:
            a, b = "%02x" % A, "%02x" % B
            for body in (a + b + "6868", a + "67" + b + "6868", a + b + "676868", a + "67" + b + "67" + "6868", a + b + "68", a + "67" + b + "68",
                         a + b + "6867" + "68", a + "51" + b + "52" + "68" + "67" + b + "53" + "67" + "54" + "68" + "68"):
                P(body)
    # the name and value every opcode byte parses to, against the protocol table
    for a in range(256):
        cases.append(("script.opname", [str(a)]))
    # grammar-based
    ngram = 250 if tier == "quick" else 3000
    for i in range(ngram):
        s = script(rng, rng.randrange(0, 5), rng.randrange(0, 9))
        P(hexb(s))
        r = rng.random()
        if r < 0.25 and len(s) > 1:      # truncation
            P(hexb(s[: rng.randrange(len(s))]))
        elif r < 0.4 and len(s) > 0:     # byte mutation
            k = rng.randrange(len(s)); t = bytearray(s); t[k] = rng.randrange(256); P(hexb(t))
        elif r < 0.5:
            P(hexb(s) + hexb(bytes([rng.randrange(1, 76)])) + hexb(bytes(rng.randrange(256) for _ in range(rng.randrange(0, 5)))))
    # deep nesting
    for d in ([8, 64] if tier == "quick" else [8, 64, 200, 512]):
        P("r:63:%d+51+r:68:%d" % (d, d)); P("r:63:%d+51+r:68:%d" % (d, d - 1)); P("r:64:%d+r:67:1+r:68:%d" % (d, d))
    # every truncation of one valid nested script with all push forms
    base = bytes.fromhex("63") + b"\x02\xaa\xbb" + b"\x4c\x03\x01\x02\x03" + b"\x67" + b"\x4d\x02\x00\x09\x08" + b"\x4e\x01\x00\x00\x00\x07" + b"\x68\xac"
    for k in range(len(base) + 1):
        P(hexb(base[:k]))
    # large payloads
    P("4e%s+l:9:70000" % (70000).to_bytes(4, "little").hex())
    if tier == "thorough":
        P("4e%s+l:9:300000+63+68" % (300000).to_bytes(4, "little").hex())
        for a in range(256):
            P("%02x" % a)
            for b in range(256):
                P("%02x%02x" % (a, b))
    # standard script shapes with ONE thing wrong: every byte position perturbed, every truncation, an overrunning
    # push or an unclosed conditional appended (a shortcut taken for a recognised prefix / length / suffix must still
    # apply the general rules)
    q = tier == "quick"
    h20, h33, h65 = "11" * 20, "02" + "22" * 32, "04" + "33" * 64
    shapes = ["76a914" + h20 + "88ac", "21" + h33 + "ac", "41" + h65 + "ac", "a914" + h20 + "87",
              "006a04deadbeef4c050102030405", "6a04deadbeef", "5221" + h33 + "21" + h33 + "52ae", "0063ac6751ac68"]
    few = [0x00, 0x01, 0x13, 0x14, 0x15, 0x4b, 0x4c, 0x4d, 0x4e, 0x4f, 0x63, 0x67, 0x68, 0x6a, 0xab, 0xff]
    for si, sh in enumerate(shapes):
        b = bytes.fromhex(sh)
        wide = set([0, 1, 2, 3, len(b) - 2, len(b) - 1]) if si in (0, 4) else set([0, len(b) - 1])
        for i in range(len(b)):
            vals = range(256) if (i in wide and (not q or i in (0, 2, len(b) - 1))) else sorted(set(few + [(b[i] + 1) % 256, (b[i] - 1) % 256]))
            if q and i not in wide and i % 3:
                continue
            for v in vals:
                if v != b[i]:
                    P((b[:i] + bytes([v]) + b[i + 1:]).hex())
        for k in range(len(b)):
            P(b[:k].hex())
        for tail in ("4c05aabb", "4d0500aa", "4e05000000aa", "4c", "4d01", "4e010000", "63", "6367", "67", "68", "05aa"):
            P(sh + tail)
            P(sh[:4] + tail)
            P(sh[:4] + tail + sh[4:])
    # the other public routes to the same script (get_script_length, to_hex, from_hex, from_script_bits) on the same inputs;
    # every PUSHDATA1/2/4 form with payload lengths around the compact-size classes (a length computed from the payload
    # size instead of the stored push opcode differs exactly there)
    parse = [a for (op, a) in cases if op == "script.parse"]
    if len(parse) > 3000:
        parse = parse[:1500] + rng.sample(parse[1500:], 1500)
    for a in parse:
        cases.append(("script.routes", list(a)))
    for n in [0, 1, 75, 76, 252, 253, 254, 255]:
        cases.append(("script.routes", ["4c%02x+l:%d:%d" % (n, n + 1, n)]))
        cases.append(("script.routes", ["51+4c%02x+l:%d:%d+ac" % (n, n + 1, n)]))
    for n in [0, 1, 75, 76, 252, 253, 255, 256, 65535]:
        cases.append(("script.routes", ["4d%s+l:%d:%d" % (n.to_bytes(2, "little").hex(), n + 1, n)]))
        cases.append(("script.routes", ["4e%s+l:%d:%d" % (n.to_bytes(4, "little").hex(), n + 1, n)]))
        cases.append(("script.routes", ["63+4d%s+l:%d:%d+68" % (n.to_bytes(2, "little").hex(), n + 1, n)]))
    return cases


def neighbours(case, rng):
    op, args = case
    out = []
    if op == "script.parse" and args and all(c in "0123456789abcdef" for c in args[0]):
        h = args[0]
        for k in range(0, len(h), 2):
            out.append((op, [h[:k]]))
    return out[:200]


def search_cases(rng, broken):
    # systematic probes independent of the failing case: every push prefix with exact / short / long payloads
    out = []
    for n in [1, 2, 75, 76, 255, 256, 65535, 65536]:
        for form in ("direct", "4c", "4d", "4e"):
            if form == "direct" and n > 75: continue
            if form == "4c" and n > 255: continue
            if form == "4d" and n > 65535: continue
            pre = {"direct": "%02x" % n, "4c": "4c%02x" % (n % 256), "4d": "4d" + (n % 65536).to_bytes(2, "little").hex(), "4e": "4e" + n.to_bytes(4, "little").hex()}[form]
            for m in (n, n - 1, n + 1):
                out.append(("script.parse", ["%s+l:3:%d" % (pre, m)]))
        out.append(("script.encode_pushdata", ["l:5:%d" % n]))
        out.append(("script.pushdata_prefix", [str(n)]))
    return out
