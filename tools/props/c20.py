"""C20 — case generator: AES-CBC / AES-CTR through AES::encrypt / AES::decrypt.

Ciphertexts for the decryption cases are produced by the small pure-Python AES below (checked against the
FIPS-197 C.1 / C.3 vectors at import), so that truncations, corruptions and crafted paddings are real inputs."""
ID = "C20"
LEVEL = "proof"
RULE = ("four modes x message lengths 0..80 (encrypt, decrypt of the real ciphertext, encrypt-then-decrypt), block-boundary and "
        "large messages up to 20 KiB (64 KiB thorough) via descriptors, CTR IVs with carries between counter bytes inside "
        "the low 64 bits (and wraps of the low 64 bits, compared with the model only), every truncation of 3-block "
        "ciphertexts, every last-block and previous-block byte corruption, crafted paddings 0..49/255, every final-byte value "
        "0..255 of the raw decryption (three constructions, both key sizes), carries after 1..7 ff bytes, 16 KiB +-1, empty "
        "inputs on every entry point (encrypt/decrypt/encrypt_impl/decrypt_impl), every key and IV length 0..40, message "
        "lengths in every residue class mod 256, constant/edge-valued keys and IVs, key = IV; call-history stream: every "
        "ordered pair of (mode, encrypt/decrypt, length class) back to back in the one driver process (de Bruijn sequence), "
        "long-then-short and failing-then-good calls for every pair of modes; "
        "non-trivial = the model returns OK; distinct by (op, arguments)")
TRUSTED = ["hand-written Gallina model coq/Model/AesApi.v of src/encryption/mod.rs + block-modes 0.8.1 / block-padding 0.2.1 / "
           "aes 0.7.5 CTR flavour (tied by this correspondence run)",
           "Prim/Aes.v equals the published algorithm: FIPS-197 C.1-C.3, SP 800-38A F.2/F.5 and openssl vectors (Examples)"]
ASSUMPTIONS = ["CTR equality with the 128-bit-counter standard is claimed only while the low 64 counter bits do not wrap "
               "(aes 0.7.5 uses a 64-bit counter); outside that domain the library is compared with the model only"]

MODES = ["128cbc", "256cbc", "128ctr", "256ctr"]

# ------------------------------------------------------------------ pure-Python AES (generator side only)
def _xt(a):
    a <<= 1
    return (a ^ 0x11b) & 0xff if a & 0x100 else a


def _gm(a, b):
    r = 0
    while b:
        if b & 1:
            r ^= a
        a = _xt(a)
        b >>= 1
    return r


def _mk_sbox():
    inv = [0] * 256
    for a in range(1, 256):
        for b in range(1, 256):
            if _gm(a, b) == 1:
                inv[a] = b
                break
    rl = lambda x, n: ((x << n) | (x >> (8 - n))) & 0xff
    return [inv[a] ^ rl(inv[a], 1) ^ rl(inv[a], 2) ^ rl(inv[a], 3) ^ rl(inv[a], 4) ^ 0x63 for a in range(256)]


SB = _mk_sbox()
ISB = [0] * 256
for _i, _v in enumerate(SB):
    ISB[_v] = _i


def _expand(key):
    nk = len(key) // 4
    w = [list(key[4 * i:4 * i + 4]) for i in range(nk)]
    rc = 1
    for i in range(nk, 4 * (nk + 7)):
        t = list(w[-1])
        if i % nk == 0:
            t = [SB[t[1]] ^ rc, SB[t[2]], SB[t[3]], SB[t[0]]]
            rc = _xt(rc)
        elif nk > 6 and i % nk == 4:
            t = [SB[x] for x in t]
        w.append([a ^ b for a, b in zip(w[i - nk], t)])
    return [sum(w[4 * r:4 * r + 4], []) for r in range(nk + 7)]


def _enc_block(rks, b):
    s = [x ^ k for x, k in zip(b, rks[0])]
    for r in range(1, len(rks)):
        s = [SB[x] for x in s]
        s = [s[(i + 4 * (i % 4)) % 16] for i in range(16)]
        if r != len(rks) - 1:
            t = []
            for c in range(4):
                a = s[4 * c:4 * c + 4]
                t += [_gm(a[0], 2) ^ _gm(a[1], 3) ^ a[2] ^ a[3], a[0] ^ _gm(a[1], 2) ^ _gm(a[2], 3) ^ a[3],
                      a[0] ^ a[1] ^ _gm(a[2], 2) ^ _gm(a[3], 3), _gm(a[0], 3) ^ a[1] ^ a[2] ^ _gm(a[3], 2)]
            s = t
        s = [x ^ k for x, k in zip(s, rks[r])]
    return bytes(s)


assert _enc_block(_expand(bytes(range(16))), bytes.fromhex("00112233445566778899aabbccddeeff")).hex() == "69c4e0d86a7b0430d8cdb78070b4c55a"
assert _enc_block(_expand(bytes(range(32))), bytes.fromhex("00112233445566778899aabbccddeeff")).hex() == "8ea2b7ca516745bfeafc49904b496089"


def cbc_nopad(key, iv, data):
    rks = _expand(key)
    out, prev = b"", iv
    for i in range(0, len(data), 16):
        prev = _enc_block(rks, bytes(a ^ b for a, b in zip(data[i:i + 16], prev)))
        out += prev
    return out


def cbc_pkcs7(key, iv, msg):
    n = 16 - len(msg) % 16
    return cbc_nopad(key, iv, msg + bytes([n]) * n)


def ctr128(key, iv, msg):
    rks = _expand(key)
    c = int.from_bytes(iv, "big")
    out = b""
    for i in range(0, len(msg), 16):
        ks = _enc_block(rks, ((c + i // 16) % (1 << 128)).to_bytes(16, "big"))
        out += bytes(a ^ b for a, b in zip(msg[i:i + 16], ks))
    return out


# ------------------------------------------------------------------
def rb(rng, n):
    return bytes(rng.randrange(256) for _ in range(n))


def klen(mode):
    return 16 if mode.startswith("128") else 32


def generate(rng, tier):
    cases = []
    E = lambda m, k, iv, d: cases.append(("aes.encrypt", [m, k.hex() if isinstance(k, bytes) else k, iv.hex() if isinstance(iv, bytes) else iv, d.hex() if isinstance(d, bytes) else d]))
    D = lambda m, k, iv, d: cases.append(("aes.decrypt", [m, k.hex() if isinstance(k, bytes) else k, iv.hex() if isinstance(iv, bytes) else iv, d.hex() if isinstance(d, bytes) else d]))
    R = lambda m, k, iv, d: cases.append(("aes.roundtrip", [m, k.hex() if isinstance(k, bytes) else k, iv.hex() if isinstance(iv, bytes) else iv, d.hex() if isinstance(d, bytes) else d]))

    # 1. all four modes, message lengths 0..80
    for mode in MODES:
        for n in range(0, 81):
            key, iv, msg = rb(rng, klen(mode)), rb(rng, 16), rb(rng, n)
            if mode.endswith("ctr"):
                iv = iv[:8] + bytes([iv[8] & 0x7f]) + iv[9:]          # far from a low-64 wrap
            E(mode, key, iv, msg)
            ct = cbc_pkcs7(key, iv, msg) if mode.endswith("cbc") else ctr128(key, iv, msg)
            D(mode, key, iv, ct)
            if n % 5 == 0 or n in (15, 16, 17, 31, 32, 33, 47, 48, 49, 63, 64, 79):
                R(mode, key, iv, msg)

    # 2. larger messages through descriptors (outputs compared as length + checksum)
    big = [255, 256, 257, 511, 512, 1023, 1024, 1025, 1039, 1040, 4095, 4096, 20479, 20480]
    if tier == "thorough":
        big += [2048, 8191, 8192, 16384, 32768, 65535, 65536]
    for mode in MODES:
        for n in big:
            key, iv = rb(rng, klen(mode)), rb(rng, 8) + b"\x00\x00" + rb(rng, 6)
            seed = rng.randrange(1, 1 << 31)
            # above 4 KiB most of the message is a constant filler in the quick tier (the LCG expansion dominates the Coq cost)
            desc = lambda sd: ("l:%d:%d" % (sd, n)) if (n < 4000 or tier == "thorough") else "l:%d:1000+r:%02x:%d" % (sd, sd % 256, n - 1000)
            if n != 20479 or tier == "thorough":
                R(mode, key, iv, desc(seed))
            if n in (1024, 1025, 4096, 20479, 20480) or tier == "thorough":
                E(mode, key, iv, desc(seed + 1))
                if mode.endswith("ctr") or n < 4000 or tier == "thorough":
                    D(mode, key, iv, desc(seed + 2))                  # CTR: a real decryption; CBC: raw decryption + padding check
        R(mode, rb(rng, klen(mode)), rb(rng, 16)[:8] + b"\x00" * 8, "r:00:1000")
        R(mode, rb(rng, klen(mode)), rb(rng, 16)[:8] + b"\x00" * 8, "r:ff:1030+r:10:16")

    # 3. CTR: carries between counter bytes inside the low 64 bits
    for mode in ("128ctr", "256ctr"):
        for low in ["00000000000000ff", "000000000000ffff", "00000000ffffffff", "000000ffffffffff", "00ffffffffffffff",
                    "00000000000000fe", "000000000000fffe", "00000000fffffffd", "7fffffffffffffff", "0000000000ff00ff",
                    "00000001fffffffe", "fffffffffffffff0", "fffffffffffffffa"]:
            for hi in [rb(rng, 8), b"\xff" * 8, b"\x00" * 8]:
                key, msg = rb(rng, klen(mode)), rb(rng, rng.choice([17, 33, 40, 64, 65, 80]))
                iv = hi + bytes.fromhex(low)
                E(mode, key, iv, msg)
                D(mode, key, iv, ctr128(key, iv, msg))
        # the low 64 bits wrap: outside the claimed domain (spec "-"), the model follows the 64-bit counter of aes 0.7.5
        for low, n in [("ffffffffffffffff", 40), ("fffffffffffffffe", 33), ("fffffffffffffffe", 32), ("fffffffffffffffe", 31),
                       ("ffffffffffffffff", 16), ("ffffffffffffffff", 15), ("ffffffffffffffff", 0), ("fffffffffffffffd", 80)]:
            for hi in [rb(rng, 8), b"\xff" * 8]:
                key = rb(rng, klen(mode))
                E(mode, key, hi + bytes.fromhex(low), rb(rng, n))
                R(mode, key, hi + bytes.fromhex(low), rb(rng, n))

    # 4. every truncation of a three-block ciphertext; 5. every last-block / previous-block byte corruption
    for mode in ("128cbc", "256cbc"):
        for mlen in (33, 47, 32):
            key, iv, msg = rb(rng, klen(mode)), rb(rng, 16), rb(rng, mlen)
            ct = cbc_pkcs7(key, iv, msg)
            assert len(ct) == 48
            if mlen != 32 or tier == "thorough":
                for k in range(len(ct)):
                    D(mode, key, iv, ct[:k])
            D(mode, key, iv, ct + b"\x00")
            D(mode, key, iv, ct + ct[:16])
            for pos in range(16, 48):
                for mask in ((0x01, 0x80, 0xff, 0x10) if mlen != 32 else (0x01, 0x11)):
                    t = bytearray(ct); t[pos] ^= mask
                    D(mode, key, iv, bytes(t))
        # single block: the IV plays the role of the previous block
        key, iv, msg = rb(rng, klen(mode)), rb(rng, 16), rb(rng, 7)
        ct = cbc_pkcs7(key, iv, msg)
        for pos in range(16):
            for mask in (0x01, 0x08, 0xff):
                t = bytearray(iv); t[pos] ^= mask
                D(mode, key, bytes(t), ct)
                t = bytearray(ct); t[pos] ^= mask
                D(mode, key, iv, bytes(t))

        # crafted raw plaintexts: last n bytes equal n (n = 0..49, 255), and near misses
        for n in list(range(0, 50)) + [64, 128, 255]:
            key, iv = rb(rng, klen(mode)), rb(rng, 16)
            body = bytes(x if x != n else x ^ 1 for x in rb(rng, 48))
            raw = (body + bytes([n]) * n)[-48:] if 1 <= n <= 48 else body[:47] + bytes([n])
            D(mode, key, iv, cbc_nopad(key, iv, raw))
            if 2 <= n <= 48:
                for off in sorted({2, n, (n + 2) // 2}):                 # one padding byte wrong
                    if 2 <= off <= n:
                        t = bytearray(raw); t[-off] ^= 0x01
                        D(mode, key, iv, cbc_nopad(key, iv, bytes(t)))
            if n in (16, 32, 48):                                        # whole buffer is padding
                D(mode, key, iv, cbc_nopad(key, iv, bytes([n]) * n))
        D(mode, rb(rng, klen(mode)), rb(rng, 16), b"")

    # 6. wrong key / IV sizes
    for mode in MODES:
        good_k, other_k = klen(mode), 48 - klen(mode)
        for kl in (0, 1, 15, 17, 24, 31, 33, other_k, 64):
            E(mode, rb(rng, kl), rb(rng, 16), rb(rng, 20))
            D(mode, rb(rng, kl), rb(rng, 16), rb(rng, 32))
        for il in (0, 1, 8, 12, 15, 17, 24, 31, 32, 33):
            E(mode, rb(rng, good_k), rb(rng, il), rb(rng, 20))
            D(mode, rb(rng, good_k), rb(rng, il), rb(rng, 32))
        E(mode, b"", b"", b""); D(mode, b"", b"", b"")
        E(mode, rb(rng, 15), rb(rng, 15), b""); D(mode, rb(rng, 33), rb(rng, 17), rb(rng, 16))

    # 8. deterministic audit cases --------------------------------------------------------------
    EI = lambda m, k, iv, d: cases.append(("aes.encrypt_impl", [m, k.hex(), iv.hex(), d.hex()]))
    DI = lambda m, k, iv, d: cases.append(("aes.decrypt_impl", [m, k.hex(), iv.hex(), d.hex()]))
    # 8a. every final byte value 0x00..0xff of the raw CBC decryption, both key sizes, three constructions:
    #     crafted single block; IV trick on a one-block ciphertext; previous-block trick on a two-block ciphertext
    for mode in ("128cbc", "256cbc"):
        key, iv = rb(rng, klen(mode)), rb(rng, 16)
        ct1 = cbc_pkcs7(key, iv, rb(rng, 11))            # one block, pad 5
        ct2 = cbc_pkcs7(key, iv, rb(rng, 29))            # two blocks, pad 3
        body = rb(rng, 15)
        for v in range(256):
            D(mode, key, iv, cbc_nopad(key, iv, bytes(x if x != v else x ^ 2 for x in body) + bytes([v])))
            t = bytearray(iv); t[15] ^= 5 ^ v
            D(mode, key, bytes(t), ct1)
            t = bytearray(ct2); t[15] ^= 3 ^ v
            D(mode, key, iv, bytes(t))
        # whole final run equal to v for the interesting pad values, in buffers of 1, 2, 3 and 16 blocks
        for v in (0, 1, 2, 15, 16, 17, 31, 32, 33, 48, 64, 127, 128, 129, 254, 255):
            for nblk in (1, 2, 3, 16):
                L = 16 * nblk
                raw = (bytes(x if x != v else x ^ 2 for x in rb(rng, L)) + bytes([v]) * v)[-L:] if v else rb(rng, L - 1) + b"\x00"
                D(mode, key, iv, cbc_nopad(key, iv, raw))
                DI(mode, key, iv, cbc_nopad(key, iv, raw))
            D(mode, key, iv, cbc_nopad(key, iv, bytes([v]) * 256))      # 256 bytes all equal v
    # 8b. CTR carries at every byte boundary inside the low 64 bits, both key sizes, messages crossing the carry;
    #     low-64 values with the top bit set / leading zero bytes
    for mode in ("128ctr", "256ctr"):
        for nff in range(1, 8):
            for pre in (b"\x00", b"\x7f", b"\xfe"):
                low = (pre * (8 - nff))[: 8 - nff] + b"\xff" * nff
                if low == b"\xff" * 8:
                    continue
                for hi in (rb(rng, 8), b"\xff" * 8):
                    for n in (16, 17, 32, 33, 48):
                        key, msg = rb(rng, klen(mode)), rb(rng, n)
                        E(mode, key, hi + low, msg)
                        if n == 17:
                            D(mode, key, hi + low, ctr128(key, hi + low, msg))
                            R(mode, key, hi + low, msg)
            low = b"\x00" * (8 - nff) + b"\xff" * (nff - 1) + b"\xfe"              # carry at the third block
            E(mode, rb(rng, klen(mode)), rb(rng, 8) + low, rb(rng, 49))
        for low in ("8000000000000000", "80000000ffffffff", "ffffffff00000000", "ffffffff7fffffff", "0000000080000000",
                    "000000007fffffff", "0000000100000000", "00000000000000" + "00", "7fffffffffffffff", "fffffffffffffff0"):
            for hi in (b"\x00" * 8, b"\x80" + b"\x00" * 7, rb(rng, 8)):
                key, msg = rb(rng, klen(mode)), rb(rng, 40)
                E(mode, key, hi + bytes.fromhex(low), msg)
                DI(mode, key, hi + bytes.fromhex(low), ctr128(key, hi + bytes.fromhex(low), msg))
    # 8c. around 16 KiB in all four modes (mostly constant filler: the LCG expansion dominates the Coq cost otherwise)
    for mode in MODES:
        for n in (16383, 16384, 16385):
            key, iv = rb(rng, klen(mode)), rb(rng, 8) + b"\x00\x00" + rb(rng, 6)
            d = "l:%d:700+r:%02x:%d" % (rng.randrange(1, 1 << 31), rng.randrange(256), n - 700)
            if n == 16384 or tier == "thorough":
                R(mode, key, iv, d)
            else:
                cases.append(("aes.encrypt", [mode, key.hex(), iv.hex(), d]))
                if mode.endswith("ctr"):
                    cases.append(("aes.decrypt", [mode, key.hex(), iv.hex(), d]))
        if tier == "thorough":
            cases.append(("aes.encrypt_impl", [mode, rb(rng, klen(mode)).hex(), (rb(rng, 8) + b"\x00" * 8).hex(), "l:%d:16400" % rng.randrange(1, 1 << 31)]))
            cases.append(("aes.decrypt_impl", [mode, rb(rng, klen(mode)).hex(), (rb(rng, 8) + b"\x00" * 8).hex(), "l:%d:16400" % rng.randrange(1, 1 << 31)]))
    # 8d. the empty message / ciphertext, every mode, every entry point
    for mode in MODES:
        key, iv = rb(rng, klen(mode)), rb(rng, 8) + b"\x00" + rb(rng, 7)
        E(mode, key, iv, b""); D(mode, key, iv, b""); EI(mode, key, iv, b""); DI(mode, key, iv, b""); R(mode, key, iv, b"")
        D(mode, key, iv, cbc_pkcs7(key, iv, b"") if mode.endswith("cbc") else b"")
    # 8e. every key length and every IV length 0..40, every mode, encrypt and decrypt
    for mode in MODES:
        for n in range(0, 41):
            E(mode, rb(rng, n), rb(rng, 16), rb(rng, 5)); D(mode, rb(rng, n), rb(rng, 16), rb(rng, 16))
            E(mode, rb(rng, klen(mode)), rb(rng, n), rb(rng, 5)); D(mode, rb(rng, klen(mode)), rb(rng, n), rb(rng, 16))
        for n in (0, 15, 17, 24, 31, 33, 48 - klen(mode)):
            EI(mode, rb(rng, n), rb(rng, 16), rb(rng, 5)); DI(mode, rb(rng, klen(mode)), rb(rng, n), rb(rng, 16))
            R(mode, rb(rng, n), rb(rng, 16), rb(rng, 5)); R(mode, rb(rng, klen(mode)), rb(rng, n), rb(rng, 5))
    # 8f. message lengths in every residue class mod 256 (81..336), all modes; *_impl entry points on short messages
    for mode in MODES:
        key, iv = rb(rng, klen(mode)), rb(rng, 8) + b"\x00" + rb(rng, 7)
        for n in range(81, 337):
            if tier == "quick" and mode != "128cbc" and n % 3 != MODES.index(mode) % 3 and n % 16 not in (0, 15):
                continue                                             # quick: full sweep for one mode, every third length for the others
            if mode.endswith("cbc") or tier == "thorough" or n % 16 in (0, 1, 15):
                R(mode, key, iv, "l:%d:%d" % (n, n))
            else:                                                    # CTR decryption is the same function
                cases.append(("aes.encrypt" if n % 2 else "aes.decrypt", [mode, key.hex(), iv.hex(), "l:%d:%d" % (n, n)]))
        for n in (0, 1, 15, 16, 17, 31, 32, 33, 64, 255, 256, 257):
            msg = rb(rng, n)
            EI(mode, key, iv, msg)
            DI(mode, key, iv, cbc_pkcs7(key, iv, msg) if mode.endswith("cbc") else ctr128(key, iv, msg))
        for n in (511, 512, 513, 767, 768, 769, 2047, 2048, 2049, 4097):
            R(mode, key, iv, "l:%d:%d" % (n, n))
    # 8g. value patterns and coincidences: all-zero / all-ff / leading-zero keys and IVs, key = IV, constant messages
    for mode in MODES:
        kl = klen(mode)
        pats = [bytes(kl), b"\xff" * kl, b"\x00" * (kl - 1) + b"\x01", b"\x80" + bytes(kl - 1), b"\x00\x00" + rb(rng, kl - 2)]
        ivs = [bytes(16), b"\x00" * 15 + b"\x01", b"\x80" + bytes(15), b"\xff" * 8 + bytes(8), b"\x00\x00" + rb(rng, 6) + b"\x00\x00" + rb(rng, 6)]
        for key in pats:
            for iv in ivs:
                R(mode, key, iv, rb(rng, 23))
                E(mode, key, iv, bytes(32))
        key = rb(rng, kl)
        R(mode, key, key[:16], rb(rng, 40))                 # IV = (prefix of) key
        E(mode, key, key[-16:], b"\xff" * 33)
        iv = rb(rng, 8) + b"\x00" + rb(rng, 7)
        E(mode, key, iv, key); E(mode, key, iv, iv); R(mode, key, iv, bytes(48)); R(mode, key, iv, b"\x10" * 16); R(mode, key, iv, b"\x01")
        if kl == 16:
            E(mode, iv, key, rb(rng, 20))                   # roles swapped (same type, same length)

    # 9. call-history stream: the driver runs all cases in ONE process in order, so consecutive cases are consecutive
    #    library calls.  States = mode x {encrypt, decrypt} x length class {empty, 5, 32, 150 bytes}; the sequence below is
    #    a de Bruijn sequence B(32, 2), i.e. EVERY ordered pair of states occurs back to back exactly once (longer-then-
    #    shorter, shorter-then-longer, CBC-then-CTR, 128-then-256, encrypt-then-decrypt, same call twice, ...).  Keys and
    #    IVs are reused from the previous call of the same key size half of the time, fresh otherwise.
    states = [(m, o, L) for m in MODES for o in ("e", "d") for L in (0, 5, 32, 150)]
    k = len(states)
    seq, a = [], [0] * (2 * k)

    def db(t, p):
        if t > 2:
            if 2 % p == 0:
                seq.extend(a[1:p + 1])
        else:
            a[t] = a[t - p]
            db(t + 1, p)
            for j in range(a[t - p] + 1, k):
                a[t] = j
                db(t + 1, t)
    db(1, 1)
    seq = seq + seq[:1]
    assert len(seq) == k * k + 1 and len({(seq[i], seq[i + 1]) for i in range(k * k)}) == k * k
    last = {16: (rb(rng, 16), rb(rng, 16)), 32: (rb(rng, 32), rb(rng, 16))}
    for i in seq:
        mode, o, L = states[i]
        kl = klen(mode)
        if rng.random() < 0.5:
            last[kl] = (rb(rng, kl), rb(rng, 8) + bytes([rng.randrange(128)]) + rb(rng, 7))
        elif rng.random() < 0.3:
            last[kl] = (last[kl][0], last[48 - kl][1])              # same key, the IV of the other key size's last call
        key, iv = last[kl]
        msg = rb(rng, L)
        if o == "e":
            (E if rng.random() < 0.8 else EI)(mode, key, iv, msg)
        else:
            ct = cbc_pkcs7(key, iv, msg) if mode.endswith("cbc") else ctr128(key, iv, msg)
            (D if rng.random() < 0.8 else DI)(mode, key, iv, ct)
    # a long call immediately followed by short ones of every mode (a reused scratch buffer would leak its tail),
    # and a failing call (bad padding / wrong sizes) followed by a good one
    for big in MODES:
        for small in MODES:
            kb, ks = rb(rng, klen(big)), rb(rng, klen(small))
            iv = rb(rng, 8) + b"\x00" + rb(rng, 7)
            R(big, kb, iv, "l:%d:3000" % rng.randrange(1, 1 << 31))
            E(small, ks, iv, rb(rng, 1)); R(small, ks, iv, rb(rng, 17)); E(small, ks, iv, b"")
            D(big, kb, iv, "l:%d:1600" % rng.randrange(1, 1 << 31))
            D(small, ks, iv, cbc_pkcs7(ks, iv, b"ab") if small.endswith("cbc") else ctr128(ks, iv, b"ab"))
            E(big, rb(rng, 5), iv, rb(rng, 40)); E(small, ks, iv, rb(rng, 40)); D(big, kb, rb(rng, 3), rb(rng, 32)); R(small, ks, iv, rb(rng, 16))

    # 7. random sizes
    nrand = 150 if tier == "quick" else 2500
    for _ in range(nrand):
        mode = rng.choice(MODES)
        key, iv = rb(rng, klen(mode)), rb(rng, 8) + bytes([rng.randrange(128)]) + rb(rng, 7)
        msg = rb(rng, rng.choice([rng.randrange(0, 200), rng.randrange(0, 40), 16 * rng.randrange(0, 12)]))
        r = rng.random()
        if r < 0.4:
            R(mode, key, iv, msg)
        elif r < 0.6:
            E(mode, key, iv, msg)
        else:
            ct = cbc_pkcs7(key, iv, msg) if mode.endswith("cbc") else ctr128(key, iv, msg)
            if rng.random() < 0.3 and ct:
                t = bytearray(ct); t[rng.randrange(len(t))] ^= 1 << rng.randrange(8); ct = bytes(t)
            D(mode, key, iv, ct)
    return cases


def nontrivial(case, out):
    return out.startswith("OK:")


def neighbours(case, rng):
    op, args = case
    out = []
    if op == "aes.decrypt" and all(c in "0123456789abcdef" for c in args[3]):
        h = args[3]
        for k in range(0, len(h), 32):
            out.append((op, args[:3] + [h[:k]]))
        for pos in range(max(0, len(h) // 2 - 32), len(h) // 2):
            t = bytearray(bytes.fromhex(h)); t[pos] ^= 0x01
            out.append((op, args[:3] + [bytes(t).hex()]))
    if op in ("aes.encrypt", "aes.roundtrip") and all(c in "0123456789abcdef" for c in args[3]):
        h = args[3]
        for k in range(0, len(h) + 2, 2):
            out.append((op, args[:3] + [h[:k]]))
    return out[:300]


def search_cases(rng, broken):
    out = []
    for mode in MODES:
        key, iv = rb(rng, klen(mode)), rb(rng, 8) + b"\x00" + rb(rng, 7)
        for n in (0, 1, 15, 16, 17, 31, 32, 33):
            out.append(("aes.roundtrip", [mode, key.hex(), iv.hex(), rb(rng, n).hex()]))
        if mode.endswith("cbc"):
            for n in range(0, 34):
                raw = (rb(rng, 32) + bytes([n]) * n)[-32:]
                out.append(("aes.decrypt", [mode, key.hex(), iv.hex(), cbc_nopad(key, iv, raw).hex()]))
        for kl in (0, 15, 17, 24, 31, 33):
            out.append(("aes.encrypt", [mode, rb(rng, kl).hex(), iv.hex(), "00"]))
            out.append(("aes.decrypt", [mode, key.hex(), rb(rng, kl).hex(), "00" * 16]))
    return out
