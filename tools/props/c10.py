"""C10 — case generator: legacy (pre-fork) signature-hash preimage and code-separator removal."""
from . import _sighash_common as G

ID = "C10"
LEVEL = "proof"
RULE = ("transactions with 1-6 inputs/outputs, every input index incl. out-of-range, all six legacy flags (plus the two bare enum "
        "values FORKID / ANYONECANPAY that take the same code path), subscripts with OP_CODESEPARATOR at every position, inside "
        "nested IF/ELSE and inside push data, boundary subscript lengths; tx.sighash_ann: annotated inputs (stored locking script vs empty / different subscript) on objects obtained directly, by clone, JSON, CBOR, construction API, hex; script.rm_codesep on the same scripts; "
        "non-trivial = the model returns a preimage / a script; distinct by (op, arguments)")
TRUSTED = ["hand-written Gallina model coq/Model/Sighash.v of src/transaction/sighash.rs and Script::remove_codeseparators (tied by this correspondence run)",
           "coq/Model/Tx.v, coq/Model/Script.v (transaction / script parsing and serialisation, properties C01 / C02)"]
ASSUMPTIONS = ["subscripts are Script values as Script::from_bytes produces them (direct pushes <= 75 bytes, no coinbase blob): hypothesis plain_bits, proved for every parsed script",
               "the reference algorithm's error value for SINGLE without a matching output is replaced by a refusal (permitted by the property)"]

BASE = bytes.fromhex("76a914") + bytes(range(20)) + bytes.fromhex("88ac")          # P2PKH, 25 bytes
NESTED = bytes.fromhex("6351" "64" "52" "67" "53" "68" "67" "54" "63" "55" "68" "68" "ac")  # IF 1 NOTIF 2 ELSE 3 ENDIF ELSE 4 IF 5 ENDIF ENDIF CHECKSIG


def positions(s):
    """insert 0xab at every element boundary of a script made of one-byte opcodes"""
    return [s[:k] + b"\xab" + s[k:] for k in range(len(s) + 1)]


def generate(rng, tier):
    cases = []
    S = lambda tx, idx, fl, sub, v=0: cases.append(("tx.sighash", [tx.hex(), str(idx), str(fl), sub, str(v)]))
    R = lambda sub: cases.append(("script.rm_codesep", [sub]))
    # 1. shapes x indices x six flags
    shapes = [(i, o) for i in range(1, 7) for o in range(1, 7)]
    if tier == "quick":
        shapes = [s for s in shapes if s in {(1, 1), (1, 3), (2, 1), (2, 2), (3, 1), (3, 3), (3, 5), (4, 4), (5, 2), (6, 1), (6, 6), (2, 6)}]
    for (nin, nout) in shapes:
        tx = G.mk_tx(rng, nin, nout, nonpal=True)
        sub = rng.choice([G.P2PKH, G.codesep_script(rng, 2, 6).hex(), G.codesep_script(rng, 3, 4).hex()])
        for idx in list(range(nin)) + [nin, nin + 1]:
            for fl in G.LEGACY_FLAGS:
                S(tx, idx, fl, sub)
    for (nin, nout) in [(2, 0), (0, 2), (1, 0), (3, 2)]:
        tx = G.mk_tx(rng, nin, nout, nonpal=False)
        for idx in range(max(nin, 1) + 1):
            for fl in G.LEGACY_FLAGS + G.OTHER_FLAGS:
                S(tx, idx, fl, G.P2PKH)
    # 2. code separators at every position of a flat and of a nested script
    tx = G.mk_tx(rng, 3, 3)
    flat_ops = bytes.fromhex("76a9") + bytes.fromhex("88ac")
    for s in positions(flat_ops) + positions(NESTED):
        R(s.hex())
        S(tx, rng.randrange(3), rng.choice(G.LEGACY_FLAGS), s.hex())
    for s in [b"", b"\xab", b"\xab\xab\xab", b"\x01\xab", b"\x02\xab\xab\xab", b"\x4c\x01\xab", b"\x4d\x01\x00\xab\xab", b"\x4e\x01\x00\x00\x00\xab",
              b"\x63\xab\x68", b"\x63\xab\x67\xab\x68", b"\x63\x63\xab\x68\x67\x64\xab\x67\xab\x68\x68\xab", b"\xab\x63\xab\x68\xab",
              b"\x63\x68", b"\x67\xab", b"\x68\xab\x67", b"\x63\xab", b"\xab\x68\x63", b"\x01", b"\x05\xab"]:
        R(s.hex())
        for fl in (G.LEGACY_FLAGS if tier == "thorough" else [1, 0x83]):
            S(tx, 1, fl, s.hex())
    # 3. random scripts with separators
    for _ in range(150 if tier == "quick" else 2000):
        s = G.codesep_script(rng, rng.randrange(0, 5), rng.randrange(0, 8))
        R(s.hex())
        if rng.random() < 0.5:
            nin, nout = rng.randrange(1, 6), rng.randrange(0, 6)
            S(G.mk_tx(rng, nin, nout, nonpal=rng.random() < 0.7), rng.randrange(nin + 1), rng.choice(G.LEGACY_FLAGS), s.hex(), G.value(rng))
    # 4. subscript lengths across the compact-size boundaries, with a separator in front
    for n in [0, 1, 251, 252, 253, 254, 65534, 65535, 65536]:
        d = G.sized_script(rng, n)
        S(tx, rng.randrange(3), rng.choice(G.LEGACY_FLAGS), ("ab+" + d) if d else "ab")
        S(tx, rng.randrange(3), rng.choice(G.LEGACY_FLAGS), d)
        R(("ab+" + d + "+ab") if d else "abab")
    # 4b. audit classes, deterministic.  32-bit fields on the boundaries on the signed and on the other inputs (sequence
    # handling differs per flag), distinct outputs, outpoint index != position, duplicate outpoints: every flag x every index
    for t in G.EXTREME_TXS + [G.LONG_OUT_TX]:
        for fl in G.LEGACY_FLAGS + G.OTHER_FLAGS:
            for idx in range(4):
                S(t, idx, fl, "ab" + G.P2PKH, G.VALUES[idx])
    for t in G.SHAPE_TXS:
        for fl in G.LEGACY_FLAGS:
            for idx in range(3):
                S(t, idx, fl, "76ab", 1)
    # separators in every neighbourhood: removal (script.rm_codesep) and inside the preimage (core ones under every flag)
    for k, sc in enumerate(G.SEP_SCRIPTS):
        R(sc)
        for fl in (G.LEGACY_FLAGS if sc in G.CORE_SEP else [G.LEGACY_FLAGS[k % 6], G.LEGACY_FLAGS[(k + 3) % 6]]):
            S(G.EXTREME_TXS[k % 3], k % 3, fl, sc, 1000 + k)
    # values are not part of this preimage: the answer must not depend on them, whatever their size
    for fl in G.LEGACY_FLAGS:
        for v in G.VALUES[:4]:
            S(G.EXTREME_TXS[2], 2, fl, "ab51", v)
    # subscript lengths on the compact-size thresholds, with and without a leading separator: every flag
    for n in G.SUB_LENS:
        for k, fl in enumerate(G.LEGACY_FLAGS):
            if n >= 65021 and tier == "quick" and k % 3 != (n % 3):
                continue
            body = "4d%s+l:%d:%d" % ((n - 3).to_bytes(2, "little").hex(), n, n - 3) if 259 <= n <= 65538 else G.sized_script(rng, n)
            S(G.EXTREME_TXS[1], k % 3, fl, body if k % 2 else "ab+" + body, 0)
    # 253 inputs / 256 outputs
    for (fl, idx) in [(1, 252), (3, 252), (0x81, 0), (0x83, 252), (2, 1), (3, 255)]:
        cases.append(("tx.sighash", [G.BIG_COUNT_TX, str(idx), str(fl), "abac", "0"]))
    # 4b'. null (coinbase) outpoint and each half of it at the signed index and elsewhere, duplicate null outpoints, sequences
    # 0 / 0xfffffffe / 0xffffffff, version / locktime 0 and 2^32-1, zero- and max-value outputs with empty scripts: every flag x index
    for t in G.COINBASE_TXS:
        for fl in G.LEGACY_FLAGS + G.OTHER_FLAGS:
            for idx in range(4):
                S(t, idx, fl, "ab" + G.P2PKH, G.VALUES[(idx + fl) % len(G.VALUES)])
    # 4c. state carried in the object: optional annotations (satoshis, locking script) on the signed and on the other inputs, equal
    # and unequal to the call arguments (incl. value 0 / 2^64-1 and the empty subscript), on objects obtained directly, through clone,
    # JSON, CBOR, the construction API and hex; the preimage is a function of the wire fields and the arguments only
    A = lambda tx, idx, fl, sub, v, ann, route: cases.append(("tx.sighash_ann", [tx.hex(), str(idx), str(fl), sub, str(v), ann, route]))
    subs = ["", G.P2PKH, "ab51ab", ""]
    n = 0
    for fi, fl in enumerate(G.LEGACY_FLAGS):
        for i in range(3):
            v = [0, G.U64 - 1, 12345, 2 ** 63][(fi + i) % 4]
            for ai, ann in enumerate(G.annotation_sets(i, v)):
                routes = G.ROUTES if (tier == "thorough" or ai in (0, 2, 3)) else [G.ROUTES[(n + ai) % 6]]
                for r in routes:
                    A(G.EXTREME_TXS[(fi + ai) % 3], i, fl, subs[(n + ai) % 4], v, ann, r)
                n += 1
    A(G.EXTREME_TXS[0], 0, G.LEGACY_FLAGS[0], "ac", 5, "-", "j")
    A(G.EXTREME_TXS[0], 3, G.LEGACY_FLAGS[0], "ac", 5, "0,7,-", "b")
    # 5. huge indices
    for idx in [3, 255, 2 ** 32, 2 ** 64 - 1]:
        S(tx, idx, rng.choice(G.LEGACY_FLAGS), G.P2PKH)
    # 6. deep nesting
    for d in ([8, 40] if tier == "quick" else [8, 40, 150]):
        R("r:63:%d+ab+r:68:%d" % (d, d))
        R("+".join(["63ab"] * d + ["ab"] + ["67ab68"] * d))
    # 7. the FORKID flags once each (dispatch)
    for fl in G.FORKID_FLAGS:
        S(tx, 1, fl, "ab" + G.P2PKH)
    return cases


def neighbours(case, rng):
    op, args = case
    out = []
    if op == "tx.sighash":
        for fl in G.LEGACY_FLAGS:
            for idx in range(4):
                out.append((op, [args[0], str(idx), str(fl), args[3], args[4]]))
    return out


def search_cases(rng, broken):
    out = []
    for nin, nout in [(1, 1), (2, 2), (3, 1), (2, 3)]:
        tx = G.mk_tx(rng, nin, nout)
        for idx in range(nin + 1):
            for fl in G.LEGACY_FLAGS:
                out.append(("tx.sighash", [tx.hex(), str(idx), str(fl), "ab63ab68", "0"]))
    for s in ["ab", "63ab68", "63ab67ab68", "6363ab6868"]:
        out.append(("script.rm_codesep", [s]))
    return out


def nontrivial(case, out):
    return out.startswith("OK:")
