"""C13 — case generator: hashes, HMAC, PBKDF2, streaming digest adapters."""
ID = "C13"
LEVEL = "partial"
RULE = ("every message length over the 55/56/64 and 111/112/128 padding boundaries for each of the six hash functions "
        "(0..130 quick, 0..300 thorough) plus longer random inputs; HMAC keys below/at/above the 64- and 128-byte block "
        "sizes (all lengths 0..200 thorough) for all six HMAC functions and for hmac::Hmac over the three adapters fed in "
        "pieces; PBKDF2-SHA1/256/512 with 0..20 iterations and output lengths 0..200 (several hash blocks, non-multiples); "
        "all 2-chunkings of short inputs and random chunkings (with empty chunks) of long ones for the three adapters, with "
        "reverse() taken at every position, reset in the middle, get_hash_digest; deterministic audit block: empty input for every entry point / variant / mode, 0x00/0x80/0xff runs at the padding boundaries, outputs with leading/trailing zero bytes, all PBKDF2 arms x password and salt lengths 0..200 around both block sizes through both entry points, sequences over every adapter entry point (update, chain, reverse, reset, clone, finalize_fixed_reset, finalize_into_reset, Digest::finalize_reset, Hash160::new, get_hash_digest as start state); "
        "non-trivial = the library returned a value; distinct by (op, arguments)")
TRUSTED = ["hand-written Gallina model coq/Model/HashApi.v of src/hash/*.rs, src/kdf/pbkdf2_kdf.rs and of the generic code of the "
           "hmac 0.11 / pbkdf2 0.8 crates (tied by this correspondence run)",
           "Gallina reference implementations coq/Prim/{Sha1,Sha256,Sha512,Ripemd160,Hmac,Pbkdf2}.v, anchored by NIST / ISO / "
           "RFC 4231 / RFC 2202 / RFC 2286 / RFC 6070 vectors and python hashlib values proved by vm_compute",
           "equality of the external sha2 / sha-1 / ripemd160 engines with those references is validated by this run, not proved"]
ASSUMPTIONS = ["PBKDF2 output longer than (2^32 - 1) hash blocks (>= 80 GiB) is outside the tied range (index overflow)",
               "the random salt of KDF::pbkdf2(None) is only checked for shape and self-consistency"]

HASHES = ["sha1", "sha256", "sha256d", "sha512", "ripemd160", "hash160"]
ADAPTERS = ["sha256d", "sha256r", "hash160"]
DIGESTS = ["sha1", "sha256", "sha512", "ripemd160", "sha256d", "sha256r", "hash160"]
ALGOS = ["sha1", "sha256", "sha512"]
HLEN = {"sha1": 20, "sha256": 32, "sha512": 64}


def lcg(rng, n):
    return "l:%d:%d" % (rng.randrange(1, 2 ** 31), n)


def rnd_hex(rng, n):
    return bytes(rng.randrange(256) for _ in range(n)).hex()


def data(rng, n):
    """a descriptor of n bytes: explicit hex for short inputs, LCG stream or a run otherwise"""
    r = rng.random()
    if n <= 40 and r < 0.6:
        return rnd_hex(rng, n)
    if r < 0.9:
        return lcg(rng, n)
    return "r:%02x:%d" % (rng.choice([0, 0x80, 0xff, 0x36, 0x5c, rng.randrange(256)]), n)


def split_points(rng, n, k):
    pts = sorted(rng.randrange(0, n + 1) for _ in range(k - 1))
    pts = [0] + pts + [n]
    return [pts[i + 1] - pts[i] for i in range(k)]


def chunk_descr(seed, sizes):
    """chunks of one LCG stream cannot be addressed by offset, so each chunk gets its own stream"""
    return ["l:%d:%d" % (seed + i, s) if s else "" for i, s in enumerate(sizes)]


def _lcg_bytes(seed, n):
    out, x = bytearray(), seed
    for _ in range(n):
        x = (x * 1664525 + 1013904223) % 4294967296
        out.append((x >> 16) & 0xff)
    return bytes(out)


def _zero_byte_inputs():
    """for every hash / HMAC / adapter: an input whose output starts with 0x00 and one whose output ends with 0x00
    (a dropped leading zero, or a reversal that loses one, shows only on such values). Deterministic search."""
    import hashlib, hmac as pyhmac
    out = []
    try:
        rmd = lambda b: hashlib.new("ripemd160", b).digest()
        rmd(b"")
    except Exception:
        return out
    sha256 = lambda b: hashlib.sha256(b).digest()
    fns = {"sha1": lambda b: hashlib.sha1(b).digest(), "sha256": sha256, "sha256d": lambda b: sha256(sha256(b)),
           "sha512": lambda b: hashlib.sha512(b).digest(), "ripemd160": rmd, "hash160": lambda b: rmd(sha256(b))}
    for name, f in fns.items():
        need = {"lead": None, "trail": None}
        s = 1
        while (need["lead"] is None or need["trail"] is None) and s < 5000:
            d = f(_lcg_bytes(s, 9))
            if d[0] == 0 and need["lead"] is None: need["lead"] = s
            if d[-1] == 0 and need["trail"] is None: need["trail"] = s
            s += 1
        for s in need.values():
            if s is None: continue
            out.append(("hash." + name, ["l:%d:9" % s]))
            ad = {"sha256d": "sha256d", "sha256": "sha256r", "hash160": "hash160"}.get(name)
            if ad:
                out.append(("digest.chunked", [ad, "r0", "l:%d:9" % s]))
                out.append(("digest.seq", [ad, "d", "u=l:%d:9" % s, "c", "r", "c"]))
            if name in ("sha256", "sha256d"):
                # get_hash_digest(Sha256d, m) finalizes to sha256d(m); (Sha256, m) to sha256(m)
                out.append(("digest.get", [name, "0", "l:%d:9" % s])); out.append(("digest.get", [name, "1", "l:%d:9" % s]))
    return out


def _zero_byte_seeds():
    import hashlib, hmac as pyhmac
    found, want = [], {"k0": None, "c0": None}
    s = 1
    while (want["k0"] is None or want["c0"] is None) and s < 5000:
        i = pyhmac.new(b"Bitcoin seed", _lcg_bytes(s, 16), "sha512").digest()
        if i[0] == 0 and want["k0"] is None: want["k0"] = s
        if i[32] == 0 and want["c0"] is None: want["c0"] = s
        s += 1
    return ["l:%d:16" % v for v in want.values() if v is not None]


# byte strings that a 'helpful' normalisation (trim, case folding, Unicode normalisation, NUL handling) would change
def _norm_inputs():
    w = b"abandon ability able"
    out = [b" " + w, w + b" ", w + b"\n", w + b"\r\n", b"\t" + w, w + b"\t", w + b"\x0c", b"\x0c" + w, w + b"\x0b", b"\x0b" + w,
           b"\r" + w, b" \t\r\n" + w + b"\n\r\t ", w.replace(b" ", b"  "), w.replace(b" ", b"\t"), w.replace(b" ", b"\n"),
           b"abandon\x0cability\x0bable", w + b"\x00", b"\x00" + w, b"abandon\x00ability", w.upper(), w.title(), b"Abandon ability able",
           "caf\u00e9 na\u00efve".encode(), "cafe\u0301 nai\u0308ve".encode(),          # NFC vs NFD
           "\ufb01ne \uff21\uff22 \u2460".encode(), "fine AB 1".encode(),                 # NFKC/NFKD-sensitive: ligature, full-width, circled digit
           "\u3000wide\u00a0space\u2003".encode(), "\ufeffbom".encode(), b"\xff\xfe\x80", b" ", b"\n", b"\x00", b"  ", b""]
    return out


def _mnemonic_expected(m, passphrase):
    """what the code at HEAD (and the model) computes: PBKDF2-HMAC-SHA512 over the bytes as given, salt = passphrase if
    given else b'mnemonic', 2048 rounds, 64 bytes; then HMAC-SHA512 keyed 'Bitcoin seed'. Independent implementation: hashlib."""
    import hashlib, hmac as pyhmac
    salt = passphrase if passphrase is not None else b"mnemonic"
    seed = hashlib.pbkdf2_hmac("sha512", m, salt, 2048, 64)
    i = pyhmac.new(b"Bitcoin seed", seed, "sha512").digest()
    return i[:32].hex(), i[32:].hex()


def generate(rng, tier):
    thorough = tier == "thorough"
    cases = []
    A = lambda op, args: cases.append((op, [str(a) for a in args]))

    # ---------------------------------------------------------------- hashes
    top = 300 if thorough else 260      # every residue class mod 256, both tiers
    for h in HASHES:
        for n in range(0, top + 1):
            A("hash." + h, [data(rng, n)])
        extra = [183, 184, 191, 192, 193, 239, 240, 247, 248, 255, 256, 257, 383, 384, 385, 511, 512, 513, 1000]
        for n in (extra if not thorough else extra + [1023, 1024, 1025, 2047, 2048, 4096, 5000, 10000]):
            if n > top:
                A("hash." + h, [lcg(rng, n)])
        for _ in range(6 if not thorough else 40):
            A("hash." + h, [data(rng, rng.randrange(0, 700))])
        # fixed anchors
        A("hash." + h, ["616263"])
        A("hash." + h, ["r:61:1000"])
        A("hash." + h, ["r:00:64"]); A("hash." + h, ["r:ff:128"]); A("hash." + h, ["r:80:55"])

    # ---------------------------------------------------------------- HMAC
    if thorough:
        keylens = list(range(0, 201))
    else:
        keylens = sorted(set([0, 1, 2, 16, 20, 32, 33, 100, 111, 112, 150, 199, 200] + list(range(54, 74)) + list(range(118, 138))))
    for h in HASHES:
        for kl in keylens:
            ml = rng.choice([0, 1, 8, 28, 50, 55, 56, 63, 64, 65, 100, 111, 112, 128, 152, rng.randrange(0, 200)])
            A("hmac." + h, [data(rng, ml), data(rng, kl)])
        for _ in range(4 if not thorough else 30):
            A("hmac." + h, [data(rng, rng.randrange(0, 400)), data(rng, rng.randrange(0, 260))])
        # RFC 4231 / 2202 shapes: key 20 x 0b, "Hi There"; 131 x aa
        A("hmac." + h, ["4869205468657265", "r:0b:20"])
        A("hmac." + h, ["7768617420646f2079612077616e7420666f72206e6f7468696e673f", "4a656665"])
        A("hmac." + h, ["r:dd:50", "r:aa:20"])
        A("hmac." + h, ["54657374205573696e67204c6172676572205468616e20426c6f636b2d53697a65204b6579202d2048617368204b6579204669727374", "r:aa:131"])
        # swapped roles must differ: same two strings in both orders
        a, b = rnd_hex(rng, 7), rnd_hex(rng, 70)
        A("hmac." + h, [a, b]); A("hmac." + h, [b, a])
        # a long key and its hash as key give the same MAC (RFC 2104); both are ordinary cases
        A("hmac." + h, ["00", "r:11:65"]); A("hmac." + h, ["00", "r:11:129"])
    # hmac::Hmac<D> fed in pieces, over engines and adapters
    for d in DIGESTS:
        for kl in ([0, 20, 64, 65, 128, 129, 200] if not thorough else [0, 1, 20, 63, 64, 65, 100, 127, 128, 129, 130, 200]):
            n = rng.randrange(0, 200)
            k = rng.randrange(1, 5)
            A("hmac.chunked", [d, data(rng, kl)] + chunk_descr(rng.randrange(1, 2 ** 30), split_points(rng, n, k)))
        A("hmac.chunked", [d, "6b6579"])
        A("hmac.chunked", [d, "6b6579", "", ""])

    # ---------------------------------------------------------------- PBKDF2
    for algo in ALGOS:
        hl = HLEN[algo]
        # RFC 6070 shapes
        A("kdf.pbkdf2", ["70617373776f7264", "73616c74", algo, 1, 20])
        A("kdf.pbkdf2", ["70617373776f7264", "73616c74", algo, 2, 20])
        A("kdf.pbkdf2", ["70617373776f726450415353574f524470617373776f7264", "73616c7453414c5473616c7453414c5473616c7453414c5473616c7453414c5473616c74", algo, 3, 25])
        A("kdf.pbkdf2", ["7061737300776f7264", "7361006c74", algo, 2, 16])
        # zero rounds behave like one round; empty output; empty password and salt
        A("kdf.pbkdf2", ["70617373776f7264", "73616c74", algo, 0, hl])
        A("kdf.pbkdf2", ["70617373776f7264", "73616c74", algo, 1, 0])
        A("kdf.pbkdf2", ["", "", algo, 1, hl + 1])
        A("kdf.pbkdf2", ["", "", algo, 2, 1])
        # output lengths around the block boundaries, one or two rounds
        lens = sorted(set([1, 2, hl - 1, hl, hl + 1, 2 * hl - 1, 2 * hl, 2 * hl + 1, 3 * hl, 3 * hl + 1, 100, 131, 199, 200]))
        if thorough:
            lens = list(range(1, 201))
        for L in lens:
            A("kdf.pbkdf2", [data(rng, rng.randrange(0, 40)), data(rng, rng.randrange(0, 40)), algo, rng.choice([1, 1, 2]), L])
        # iteration counts 1..20, short outputs
        for c in range(1, 21):
            L = rng.choice([1, hl - 1, hl, hl + 1, 2 * hl]) if c <= 10 else rng.choice([1, hl - 1, hl])
            A("kdf.pbkdf2", [data(rng, rng.randrange(0, 30)), data(rng, rng.randrange(0, 30)), algo, c, L])
        # password longer than the HMAC block (hashed first), at the block size, salt longer than a block
        for pl in [63, 64, 65, 127, 128, 129, 150]:
            A("kdf.pbkdf2", [lcg(rng, pl), lcg(rng, rng.choice([0, 8, 70, 130])), algo, rng.choice([1, 2, 3]), rng.choice([hl, hl + 3])])
        for _ in range(3 if not thorough else 25):
            A("kdf.pbkdf2", [data(rng, rng.randrange(0, 100)), data(rng, rng.randrange(0, 100)), algo, rng.randrange(1, 6), rng.randrange(1, 3 * hl)])
        A("kdf.pbkdf2_random", ["70617373776f7264", algo, 2, hl + 5])
    # ExtendedPrivateKey::from_seed (HMAC-SHA512 keyed "Bitcoin seed"): BIP32 vector 1 seed, other lengths
    A("kdf.seed", ["000102030405060708090a0b0c0d0e0f"])
    for n in [0, 1, 16, 32, 64, 111, 112, 128, 200]:
        A("kdf.seed", [data(rng, n)])
    if thorough:
        # ExtendedPrivateKey::from_mnemonic (PBKDF2-HMAC-SHA512, 2048 rounds): without and with a passphrase
        mn = "7661706f722063616262616765206a61636b657420756e7665696c207065726d697420776562206c69766520707972616d69642068757362616e642066696e616c20706c7567206d6574616c"
        A("kdf.mnemonic", [mn, 0, ""])
        A("kdf.mnemonic", [mn, 1, "54524552"])
        # BIP39 shape: PBKDF2-HMAC-SHA512, 2048 rounds, 64 bytes
        A("kdf.pbkdf2", ["6162616e646f6e206162616e646f6e2061626f7574", "6d6e656d6f6e6963", "sha512", 2048, 64])
        A("kdf.pbkdf2", ["70617373776f7264", "73616c74", "sha1", 4096, 20])

    # ---------------------------------------------------------------- audit classes (deterministic)
    # (1) empty input for every entry point and variant; inputs made of 0x00 / 0x80 / 0xff bytes at the padding
    #     boundaries; outputs with a leading / trailing zero byte (searched with hashlib, deterministic)
    for h in HASHES:
        A("hash." + h, [""])
        for bv in ["00", "80", "ff"]:
            for n in [1, 55, 56, 63, 64, 65, 111, 112, 119, 120, 127, 128, 129]:
                A("hash." + h, ["r:%s:%d" % (bv, n)])
        for (a, b) in [("", ""), ("", "6b"), ("6d", ""), ("", "r:00:64"), ("", "r:00:65"), ("", "r:00:128"), ("", "r:00:129"),
                       ("r:00:64", ""), ("00", "00"), ("r:80:64", "r:80:64"), ("r:ff:65", "r:ff:65"), ("r:36:64", "r:5c:64"), ("r:5c:128", "r:36:128")]:
            A("hmac." + h, [a, b])
        # same bytes as key and as message; key = ipad / opad constants
        x = rnd_hex(rng, 33)
        A("hmac." + h, [x, x])
        # (2) every HMAC x key lengths around BOTH block sizes and long keys, fixed message; message length bands
        for kl in [63, 64, 65, 66, 127, 128, 129, 130, 199, 200, 255, 256, 257]:
            A("hmac." + h, ["6d7367", "l:%d:%d" % (1000 + kl, kl)])
        for ml in [119, 120, 183, 184, 247, 248, 255, 256, 257, 300]:
            A("hmac." + h, ["l:%d:%d" % (2000 + ml, ml), "6b6579"])
    for (name, fn) in _zero_byte_inputs():
        A(name, fn)
    # (2)+(6) PBKDF2: every hash arm x password lengths around both block sizes and long, 1 and 2 rounds,
    #     through both entry points; output lengths at the u8 boundary; password = salt; empty vs one zero byte
    for algo in ALGOS:
        hl = HLEN[algo]
        for pl in [0, 1, 63, 64, 65, 127, 128, 129, 200]:
            A("kdf.pbkdf2", ["l:%d:%d" % (300 + pl, pl), "73616c74", algo, 1, hl])
            A("kdf.pbkdf2_impl", ["l:%d:%d" % (300 + pl, pl), "73616c74", algo, 2, hl + 1])
        for sl in [0, 1, 63, 64, 65, 127, 128, 129, 200]:
            A("kdf.pbkdf2_impl", ["70617373", "l:%d:%d" % (400 + sl, sl), algo, 1, hl])
        for L in [0, 1, 255, 256, 257]:
            A("kdf.pbkdf2", ["7077", "73", algo, 1, L])
        A("kdf.pbkdf2", ["r:61:70", "r:61:70", algo, 2, hl])
        A("kdf.pbkdf2_impl", ["", "", algo, 0, 0])
        A("kdf.pbkdf2_impl", ["00", "", algo, 1, hl]); A("kdf.pbkdf2_impl", ["", "00", algo, 1, hl])
        A("kdf.pbkdf2_impl", ["r:00:64", "r:00:64", algo, 1, hl]); A("kdf.pbkdf2_impl", ["r:00:65", "r:80:4", algo, 3, 2 * hl + 1])
        A("kdf.pbkdf2_random", ["", algo, 0, 0]); A("kdf.pbkdf2_random", ["r:61:129", algo, 1, 1])
    # (1) get_hash_digest: both SigningHash values x reversed or not x the listed lengths (empty first)
    for algo in ["sha256", "sha256d"]:
        for rv in [0, 1]:
            for n in [0, 1, 31, 32, 33, 55, 56, 63, 64, 65]:
                A("digest.get", [algo, rv, "l:%d:%d" % (500 + n, n) if n else ""])
            A("digest.get", [algo, rv, "r:00:32"]); A("digest.get", [algo, rv, "r:80:1"])
    # (3)+(4)+(5) every adapter entry point on the in-memory object, in sequences
    for ad in ADAPTERS:
        for m in ["", "00", "616263", "r:00:64", "l:77:65", "l:78:200"]:
            A("digest.oneshot", [ad, m])
        starts = ["d"] + (["t", "f"] if ad == "hash160" else []) + (["g0=", "g1=", "g0=616263", "g1=616263", "g0=l:9:64", "g1=l:9:65", "g1=r:00:32"] if ad == "sha256r" else [])
        seqs = [
            [],                                   # nothing at all: the empty input
            ["r"], ["x"], ["f"], ["i"], ["g"], ["c"],
            ["r", "r"], ["r", "x"], ["x", "r"], ["r", "f"], ["r", "i"], ["r", "g"], ["f", "r"], ["r", "c", "c"],
            ["u="], ["h="], ["u=", "u="], ["u=", "r", "u="],
            ["u=616263"], ["h=616263"], ["u=6162", "h=63"], ["h=6162", "u=63"],
            ["u=616263", "f"], ["u=616263", "i"], ["u=616263", "g"], ["u=616263", "x"], ["u=616263", "c"],
            ["u=616263", "f", "u=616263"], ["u=616263", "i", "u=646566"], ["u=616263", "g", "u=646566"], ["u=616263", "x", "u=646566"],
            ["u=616263", "f", "f"], ["u=616263", "f", "i", "g"], ["f", "u=616263", "f", "u=616263"],
            ["r", "u=616263", "f", "u=646566", "f"], ["u=616263", "r", "f", "u=646566"], ["u=616263", "f", "r", "u=646566"],
            ["u=616263", "c", "u=646566", "c", "r", "c"], ["u=616263", "c", "x", "c"], ["c", "u=616263", "c"],
            ["u=616263", "x", "x", "u=616263", "r", "x", "u=616263"],
            ["u=l:5:55", "u=l:6:1", "u=l:7:8", "c", "u=l:8:64", "f", "u=l:9:119", "i", "u=l:10:120"],
            ["u=l:5:64", "f", "u=l:5:64", "r", "g", "u=l:5:64"],
            ["h=r:00:32", "c", "h=r:00:32", "c"], ["u=r:80:55", "c", "u=80", "c"],
        ]
        for st in starts:
            for sq in seqs:
                A("digest.seq", [ad, st] + sq)
        # empty input under reversed mode and after reset / finalize_reset, old ops too
        A("digest.chunked", [ad, "r0", ""]); A("digest.chunked", [ad, "r1", "", ""]); A("digest.chunked", [ad, "n", "", "", ""])
        A("digest.reset", [ad, "r0", 0]); A("digest.reset", [ad, "r0", 1, ""]); A("digest.reset", [ad, "n", 1, "", ""]); A("digest.reset", [ad, "r0", 2, "616263", "", ""])
    # hmac::Hmac<D> over every digest: empty key / empty message / key lengths around the digest's block size
    for d in DIGESTS:
        A("hmac.chunked", [d, ""]); A("hmac.chunked", [d, "", ""]); A("hmac.chunked", [d, "", "", "616263"])
        for kl in [63, 64, 65, 127, 128, 129, 200]:
            A("hmac.chunked", [d, "l:%d:%d" % (600 + kl, kl), "6d", "7367"])
    # from_seed: leading zero byte in the private key / chain code halves of I (searched, deterministic); empty seed
    A("kdf.seed", [""]); A("kdf.seed", ["00"]); A("kdf.seed", ["r:00:64"]); A("kdf.seed", ["r:ff:64"])
    for sd in _zero_byte_seeds():
        A("kdf.seed", [sd])

    # ---------------------------------------------------------------- inputs a normalisation would change
    norms = _norm_inputs()
    base_mn = b"vapor cabbage jacket unveil permit web live pyramid husband final plug metal"
    mn_variants = [base_mn] + [x for x in [b" " + base_mn, base_mn + b" ", base_mn + b"\n", base_mn + b"\r\n", b"\t" + base_mn, base_mn + b"\t",
                   base_mn + b"\x0c", b"\x0c" + base_mn, base_mn + b"\x0b", b"\r" + base_mn, b"\n" + base_mn + b"\n",
                   base_mn.replace(b" ", b"  "), base_mn.replace(b" ", b"\t", 1), base_mn + b"\x00", b"\x00" + base_mn,
                   base_mn.upper(), base_mn.title(), b"V" + base_mn[1:]]] + norms
    pass_variants = [None, b"", b"TREZOR", b"trezor", b" TREZOR", b"TREZOR ", b"TREZOR\n", b"\tTREZOR", b"TREZOR\x00", b"\x00", b" ", b"\n",
                     "caf\u00e9".encode(), "cafe\u0301".encode(), "\ufb01".encode(), b"mnemonic", b"mnemonicTREZOR"]
    seen = set()
    def MN(m, ps, kat):
        key = (m, ps)
        if key in seen or len(m) == 32 or (ps is not None and len(ps) == 32):
            return
        seen.add(key)
        flag, ph = (0, "") if ps is None else (1, ps.hex())
        A("kdf.mnemonic_route", [m.hex(), flag, ph])
        if kat:
            k, c = _mnemonic_expected(m, ps)
            A("kdf.mnemonic_kat", ["%s/%d/%s/%s/%s" % (m.hex(), flag, ph, k, c)])
    for i, m in enumerate(mn_variants):          # every mnemonic variant, without and with a passphrase
        MN(m, None, thorough or i % 3 == 0)
        MN(m, b"TREZOR", thorough or i % 3 == 1)
    for i, ps in enumerate(pass_variants):       # every passphrase variant on the clean mnemonic and on one with a trailing newline
        MN(base_mn, ps, thorough or i % 2 == 0)
        MN(base_mn + b"\n", ps, thorough or i % 2 == 1)
    MN(b"", None, True); MN(b"", b"", True); MN(b" ", b" ", True)
    if thorough:
        A("kdf.mnemonic", [(base_mn + b"\n").hex(), 0, ""])      # the Gallina evaluation on a whitespace-carrying phrase
    # a representative of every normalisation kind through every byte-taking entry point
    w = b"abandon ability able"
    fan = [b" " + w, w + b" ", w + b"\n", w + b"\r\n", b"\t" + w, w + b"\x0c", w + b"\x0b", w + b"\x00", b"\x00" + w,
           w.replace(b" ", b"  "), w.upper(), w.title(), "caf\u00e9 na\u00efve".encode(), "cafe\u0301 nai\u0308ve".encode(),
           "\ufb01ne \uff21\uff22 \u2460".encode(), b" "]
    for x in fan:
        hx = x.hex()
        for h in HASHES:
            A("hash." + h, [hx])
            A("hmac." + h, [hx, "6b6579"]); A("hmac." + h, ["6d7367", hx])
        for algo in ALGOS:
            A("kdf.pbkdf2", [hx, "73616c74", algo, 1, HLEN[algo]])
            A("kdf.pbkdf2_impl", ["70617373", hx, algo, 2, HLEN[algo]])
        for ad in ADAPTERS:
            A("digest.oneshot", [ad, hx])
            A("digest.seq", [ad, "d", "u=" + hx, "c", "r"])
        A("digest.get", ["sha256", 0, hx]); A("digest.get", ["sha256d", 1, hx])
        A("kdf.seed", [hx])
    # ---------------------------------------------------------------- short-then-long and long-then-short updates
    pairs = [(1, 63), (63, 1), (1, 64), (64, 1), (1, 127), (127, 1), (1, 128), (128, 1), (3, 125), (125, 3), (1, 200), (200, 1),
             (63, 65), (65, 63), (127, 129), (129, 127)]
    for (a, b) in pairs:
        for ad in ADAPTERS:
            A("digest.chunked", [ad, "n", "l:%d:%d" % (700 + a, a), "l:%d:%d" % (800 + b, b)])
            A("digest.seq", [ad, "d", "u=l:%d:%d" % (700 + a, a), "h=l:%d:%d" % (800 + b, b), "c", "u=l:%d:%d" % (900 + a, a)])
        for d in DIGESTS:
            A("hmac.chunked", [d, "6b6579", "l:%d:%d" % (700 + a, a), "l:%d:%d" % (800 + b, b)])

    # ---------------------------------------------------------------- adapters
    for ad in ADAPTERS:
        # all 2-chunkings of short inputs, reverse at every position
        for n in ([0, 1, 5, 12] if not thorough else [0, 1, 2, 3, 5, 8, 12, 20]):
            m = bytes(rng.randrange(256) for _ in range(n))
            for k in range(n + 1):
                a, b = m[:k].hex(), m[k:].hex()
                A("digest.chunked", [ad, "n", a, b])
                A("digest.chunked", [ad, "r%d" % rng.randrange(0, 3), a, b])
        # splits across the 64-byte block boundary of the inner engine
        for n in [55, 56, 63, 64, 65, 119, 120, 128]:
            for k in sorted(set([0, 1, n // 2, max(0, n - 1), n, min(n, 55), min(n, 56), min(n, 64)])):
                A("digest.chunked", [ad, rng.choice(["n", "r0", "r1", "r2"])] + chunk_descr(rng.randrange(1, 2 ** 30), [k, n - k]))
        # random chunkings of longer inputs, empty chunks included
        for _ in range(12 if not thorough else 150):
            n = rng.randrange(0, 300)
            k = rng.randrange(1, 7)
            sizes = split_points(rng, n, k)
            mode = rng.choice(["n", "n", "r0", "r%d" % rng.randrange(0, k + 2)])
            A("digest.chunked", [ad, mode] + chunk_descr(rng.randrange(1, 2 ** 30), sizes))
        A("digest.chunked", [ad, "n"]); A("digest.chunked", [ad, "r0"]); A("digest.chunked", [ad, "r5", "616263"])
        # reset in the middle
        for _ in range(6 if not thorough else 60):
            n = rng.randrange(0, 200)
            k = rng.randrange(1, 6)
            sizes = split_points(rng, n, k)
            A("digest.reset", [ad, rng.choice(["n", "r0"]), rng.randrange(0, k + 1)] + chunk_descr(rng.randrange(1, 2 ** 30), sizes))
        A("digest.reset", [ad, "n", 0]); A("digest.reset", [ad, "r0", 1, "616263"]); A("digest.reset", [ad, "n", 1, "616263", "616263"])
    for algo in ["sha256", "sha256d"]:
        for rv in [0, 1]:
            for n in [0, 1, 32, 55, 56, 64, 100, 157, 300]:
                A("digest.get", [algo, rv, data(rng, n)])
    return cases


def neighbours(case, rng):
    op, args = case
    out = []
    if op.startswith("hash.") or op.startswith("hmac.") and op != "hmac.chunked":
        # same shape with lengths around the one that failed
        for a in range(len(args)):
            for n in [0, 1, 55, 56, 63, 64, 65, 111, 112, 127, 128, 129]:
                b = list(args); b[a] = "l:7:%d" % n
                out.append((op, b))
    return out[:200]


def search_cases(rng, broken):
    out = []
    for h in HASHES:
        for n in [0, 1, 3, 55, 56, 57, 63, 64, 65, 111, 112, 113, 119, 120, 127, 128, 129, 200]:
            out.append(("hash." + h, ["l:3:%d" % n]))
        for kl in [0, 1, 63, 64, 65, 127, 128, 129]:
            out.append(("hmac." + h, ["l:5:40", "l:9:%d" % kl]))
            out.append(("hmac." + h, ["l:9:%d" % kl, "l:5:40"]))
    for algo in ALGOS:
        for c in [0, 1, 2, 3]:
            for L in [0, 1, HLEN[algo], HLEN[algo] + 1, 2 * HLEN[algo] + 1]:
                out.append(("kdf.pbkdf2", ["70617373", "73616c74", algo, str(c), str(L)]))
    for ad in ADAPTERS:
        for mode in ["n", "r0", "r1", "r2"]:
            out.append(("digest.chunked", [ad, mode, "6162", "63"]))
            out.append(("digest.reset", [ad, mode, "1", "6162", "63"]))
    return out


def sibling_ok(op, args):
    """the 2048-round evaluations cost minutes each inside Coq: not repeated by the sibling / echo streams"""
    if op == "kdf.mnemonic":
        return False
    if op == "kdf.pbkdf2" and len(args) >= 4:
        try:
            return int(args[3]) < 500
        except ValueError:
            return True
    return True
