"""C13 — case generator: hashes, HMAC, PBKDF2, streaming digest adapters."""
ID = "C13"
LEVEL = "partial"
RULE = ("every message length over the 55/56/64 and 111/112/128 padding boundaries for each of the six hash functions "
        "(0..130 quick, 0..300 thorough) plus longer random inputs; HMAC keys below/at/above the 64- and 128-byte block "
        "sizes (all lengths 0..200 thorough) for all six HMAC functions and for hmac::Hmac over the three adapters fed in "
        "pieces; PBKDF2-SHA1/256/512 with 0..20 iterations and output lengths 0..200 (several hash blocks, non-multiples); "
        "all 2-chunkings of short inputs and random chunkings (with empty chunks) of long ones for the three adapters, with "
        "reverse() taken at every position, reset in the middle, get_hash_digest; "
        "non-trivial = the library returned a value; distinct by (op, arguments)")
TRUSTED = ["hand-written Gallina model coq/Model/HashApi.v of src/hash/*.rs, src/kdf/pbkdf2_kdf.rs and of the generic code of the "
           "hmac 0.11 / pbkdf2 0.8 crates (tied by this correspondence run)",
           "Gallina reference implementations coq/Prim/{Sha1,Sha256,Sha512,Ripemd160,Hmac,Pbkdf2}.v, anchored by NIST / ISO / "
           "RFC 4231 / RFC 2202 / RFC 2286 / RFC 6070 vectors and python hashlib values proved by vm_compute",
           "equality of the external sha2 / sha-1 / ripemd160 engines with those references is validated by this run, not proved"]
ASSUMPTIONS = ["PBKDF2 output longer than (2^32 - 1) hash blocks (>= 80 GiB) is outside the tied range (index overflow)",
               "the random salt of KDF::pbkdf2(None) is only checked for shape and self-consistency"]

HASHES = ["sha1", "sha256", "sha256d", "sha512", "ripemd160", "hash160"]
ADAPTERS = ["sha256d", "sha256r", "hash160"]
DIGESTS = ["sha1", "sha256", "sha512", "ripemd160", "sha256d", "sha256r", "hash160"]
ALGOS = ["sha1", "sha256", "sha512"]
HLEN = {"sha1": 20, "sha256": 32, "sha512": 64}


def lcg(rng, n):
    return "l:%d:%d" % (rng.randrange(1, 2 ** 31), n)


def rnd_hex(rng, n):
    return bytes(rng.randrange(256) for _ in range(n)).hex()


def data(rng, n):
    """a descriptor of n bytes: explicit hex for short inputs, LCG stream or a run otherwise"""
    r = rng.random()
    if n <= 40 and r < 0.6:
        return rnd_hex(rng, n)
    if r < 0.9:
        return lcg(rng, n)
    return "r:%02x:%d" % (rng.choice([0, 0x80, 0xff, 0x36, 0x5c, rng.randrange(256)]), n)


def split_points(rng, n, k):
    pts = sorted(rng.randrange(0, n + 1) for _ in range(k - 1))
    pts = [0] + pts + [n]
    return [pts[i + 1] - pts[i] for i in range(k)]


def chunk_descr(seed, sizes):
    """chunks of one LCG stream cannot be addressed by offset, so each chunk gets its own stream"""
    return ["l:%d:%d" % (seed + i, s) if s else "" for i, s in enumerate(sizes)]


def generate(rng, tier):
    thorough = tier == "thorough"
    cases = []
    A = lambda op, args: cases.append((op, [str(a) for a in args]))

    # ---------------------------------------------------------------- hashes
    top = 300 if thorough else 136
    for h in HASHES:
        for n in range(0, top + 1):
            A("hash." + h, [data(rng, n)])
        extra = [183, 184, 191, 192, 193, 239, 240, 247, 248, 255, 256, 257, 383, 384, 385, 511, 512, 513, 1000]
        for n in (extra if not thorough else extra + [1023, 1024, 1025, 2047, 2048, 4096, 5000, 10000]):
            if n > top:
                A("hash." + h, [lcg(rng, n)])
        for _ in range(6 if not thorough else 40):
            A("hash." + h, [data(rng, rng.randrange(0, 700))])
        # fixed anchors
        A("hash." + h, ["616263"])
        A("hash." + h, ["r:61:1000"])
        A("hash." + h, ["r:00:64"]); A("hash." + h, ["r:ff:128"]); A("hash." + h, ["r:80:55"])

    # ---------------------------------------------------------------- HMAC
    if thorough:
        keylens = list(range(0, 201))
    else:
        keylens = sorted(set([0, 1, 2, 16, 20, 32, 33, 100, 111, 112, 150, 199, 200] + list(range(54, 74)) + list(range(118, 138))))
    for h in HASHES:
        for kl in keylens:
            ml = rng.choice([0, 1, 8, 28, 50, 55, 56, 63, 64, 65, 100, 111, 112, 128, 152, rng.randrange(0, 200)])
            A("hmac." + h, [data(rng, ml), data(rng, kl)])
        for _ in range(4 if not thorough else 30):
            A("hmac." + h, [data(rng, rng.randrange(0, 400)), data(rng, rng.randrange(0, 260))])
        # RFC 4231 / 2202 shapes: key 20 x 0b, "Hi There"; 131 x aa
        A("hmac." + h, ["4869205468657265", "r:0b:20"])
        A("hmac." + h, ["7768617420646f2079612077616e7420666f72206e6f7468696e673f", "4a656665"])
        A("hmac." + h, ["r:dd:50", "r:aa:20"])
        A("hmac." + h, ["54657374205573696e67204c6172676572205468616e20426c6f636b2d53697a65204b6579202d2048617368204b6579204669727374", "r:aa:131"])
        # swapped roles must differ: same two strings in both orders
        a, b = rnd_hex(rng, 7), rnd_hex(rng, 70)
        A("hmac." + h, [a, b]); A("hmac." + h, [b, a])
        # a long key and its hash as key give the same MAC (RFC 2104); both are ordinary cases
        A("hmac." + h, ["00", "r:11:65"]); A("hmac." + h, ["00", "r:11:129"])
    # hmac::Hmac<D> fed in pieces, over engines and adapters
    for d in DIGESTS:
        for kl in ([0, 20, 64, 65, 128, 129, 200] if not thorough else [0, 1, 20, 63, 64, 65, 100, 127, 128, 129, 130, 200]):
            n = rng.randrange(0, 200)
            k = rng.randrange(1, 5)
            A("hmac.chunked", [d, data(rng, kl)] + chunk_descr(rng.randrange(1, 2 ** 30), split_points(rng, n, k)))
        A("hmac.chunked", [d, "6b6579"])
        A("hmac.chunked", [d, "6b6579", "", ""])

    # ---------------------------------------------------------------- PBKDF2
    for algo in ALGOS:
        hl = HLEN[algo]
        # RFC 6070 shapes
        A("kdf.pbkdf2", ["70617373776f7264", "73616c74", algo, 1, 20])
        A("kdf.pbkdf2", ["70617373776f7264", "73616c74", algo, 2, 20])
        A("kdf.pbkdf2", ["70617373776f726450415353574f524470617373776f7264", "73616c7453414c5473616c7453414c5473616c7453414c5473616c7453414c5473616c74", algo, 3, 25])
        A("kdf.pbkdf2", ["7061737300776f7264", "7361006c74", algo, 2, 16])
        # zero rounds behave like one round; empty output; empty password and salt
        A("kdf.pbkdf2", ["70617373776f7264", "73616c74", algo, 0, hl])
        A("kdf.pbkdf2", ["70617373776f7264", "73616c74", algo, 1, 0])
        A("kdf.pbkdf2", ["", "", algo, 1, hl + 1])
        A("kdf.pbkdf2", ["", "", algo, 2, 1])
        # output lengths around the block boundaries, one or two rounds
        lens = sorted(set([1, 2, hl - 1, hl, hl + 1, 2 * hl - 1, 2 * hl, 2 * hl + 1, 3 * hl, 3 * hl + 1, 100, 131, 199, 200]))
        if thorough:
            lens = list(range(1, 201))
        for L in lens:
            A("kdf.pbkdf2", [data(rng, rng.randrange(0, 40)), data(rng, rng.randrange(0, 40)), algo, rng.choice([1, 1, 2]), L])
        # iteration counts 1..20, short outputs
        for c in range(1, 21):
            L = rng.choice([1, hl - 1, hl, hl + 1, 2 * hl]) if c <= 10 else rng.choice([1, hl - 1, hl])
            A("kdf.pbkdf2", [data(rng, rng.randrange(0, 30)), data(rng, rng.randrange(0, 30)), algo, c, L])
        # password longer than the HMAC block (hashed first), at the block size, salt longer than a block
        for pl in [63, 64, 65, 127, 128, 129, 150]:
            A("kdf.pbkdf2", [lcg(rng, pl), lcg(rng, rng.choice([0, 8, 70, 130])), algo, rng.choice([1, 2, 3]), rng.choice([hl, hl + 3])])
        for _ in range(3 if not thorough else 25):
            A("kdf.pbkdf2", [data(rng, rng.randrange(0, 100)), data(rng, rng.randrange(0, 100)), algo, rng.randrange(1, 6), rng.randrange(1, 3 * hl)])
        A("kdf.pbkdf2_random", ["70617373776f7264", algo, 2, hl + 5])
    # ExtendedPrivateKey::from_seed (HMAC-SHA512 keyed "Bitcoin seed"): BIP32 vector 1 seed, other lengths
    A("kdf.seed", ["000102030405060708090a0b0c0d0e0f"])
    for n in [0, 1, 16, 32, 64, 111, 112, 128, 200]:
        A("kdf.seed", [data(rng, n)])
    if thorough:
        # ExtendedPrivateKey::from_mnemonic (PBKDF2-HMAC-SHA512, 2048 rounds): without and with a passphrase
        mn = "7661706f722063616262616765206a61636b657420756e7665696c207065726d697420776562206c69766520707972616d69642068757362616e642066696e616c20706c7567206d6574616c"
        A("kdf.mnemonic", [mn, 0, ""])
        A("kdf.mnemonic", [mn, 1, "54524552"])
        # BIP39 shape: PBKDF2-HMAC-SHA512, 2048 rounds, 64 bytes
        A("kdf.pbkdf2", ["6162616e646f6e206162616e646f6e2061626f7574", "6d6e656d6f6e6963", "sha512", 2048, 64])
        A("kdf.pbkdf2", ["70617373776f7264", "73616c74", "sha1", 4096, 20])

    # ---------------------------------------------------------------- adapters
    for ad in ADAPTERS:
        # all 2-chunkings of short inputs, reverse at every position
        for n in ([0, 1, 5, 12] if not thorough else [0, 1, 2, 3, 5, 8, 12, 20]):
            m = bytes(rng.randrange(256) for _ in range(n))
            for k in range(n + 1):
                a, b = m[:k].hex(), m[k:].hex()
                A("digest.chunked", [ad, "n", a, b])
                A("digest.chunked", [ad, "r%d" % rng.randrange(0, 3), a, b])
        # splits across the 64-byte block boundary of the inner engine
        for n in [55, 56, 63, 64, 65, 119, 120, 128]:
            for k in sorted(set([0, 1, n // 2, max(0, n - 1), n, min(n, 55), min(n, 56), min(n, 64)])):
                A("digest.chunked", [ad, rng.choice(["n", "r0", "r1", "r2"])] + chunk_descr(rng.randrange(1, 2 ** 30), [k, n - k]))
        # random chunkings of longer inputs, empty chunks included
        for _ in range(12 if not thorough else 150):
            n = rng.randrange(0, 300)
            k = rng.randrange(1, 7)
            sizes = split_points(rng, n, k)
            mode = rng.choice(["n", "n", "r0", "r%d" % rng.randrange(0, k + 2)])
            A("digest.chunked", [ad, mode] + chunk_descr(rng.randrange(1, 2 ** 30), sizes))
        A("digest.chunked", [ad, "n"]); A("digest.chunked", [ad, "r0"]); A("digest.chunked", [ad, "r5", "616263"])
        # reset in the middle
        for _ in range(6 if not thorough else 60):
            n = rng.randrange(0, 200)
            k = rng.randrange(1, 6)
            sizes = split_points(rng, n, k)
            A("digest.reset", [ad, rng.choice(["n", "r0"]), rng.randrange(0, k + 1)] + chunk_descr(rng.randrange(1, 2 ** 30), sizes))
        A("digest.reset", [ad, "n", 0]); A("digest.reset", [ad, "r0", 1, "616263"]); A("digest.reset", [ad, "n", 1, "616263", "616263"])
    for algo in ["sha256", "sha256d"]:
        for rv in [0, 1]:
            for n in [0, 1, 32, 55, 56, 64, 100, 157, 300]:
                A("digest.get", [algo, rv, data(rng, n)])
    return cases


def neighbours(case, rng):
    op, args = case
    out = []
    if op.startswith("hash.") or op.startswith("hmac.") and op != "hmac.chunked":
        # same shape with lengths around the one that failed
        for a in range(len(args)):
            for n in [0, 1, 55, 56, 63, 64, 65, 111, 112, 127, 128, 129]:
                b = list(args); b[a] = "l:7:%d" % n
                out.append((op, b))
    return out[:200]


def search_cases(rng, broken):
    out = []
    for h in HASHES:
        for n in [0, 1, 3, 55, 56, 57, 63, 64, 65, 111, 112, 113, 119, 120, 127, 128, 129, 200]:
            out.append(("hash." + h, ["l:3:%d" % n]))
        for kl in [0, 1, 63, 64, 65, 127, 128, 129]:
            out.append(("hmac." + h, ["l:5:40", "l:9:%d" % kl]))
            out.append(("hmac." + h, ["l:9:%d" % kl, "l:5:40"]))
    for algo in ALGOS:
        for c in [0, 1, 2, 3]:
            for L in [0, 1, HLEN[algo], HLEN[algo] + 1, 2 * HLEN[algo] + 1]:
                out.append(("kdf.pbkdf2", ["70617373", "73616c74", algo, str(c), str(L)]))
    for ad in ADAPTERS:
        for mode in ["n", "r0", "r1", "r2"]:
            out.append(("digest.chunked", [ad, mode, "6162", "63"]))
            out.append(("digest.reset", [ad, mode, "1", "6162", "63"]))
    return out
