"""C06 — case generator: signature encodings (DER, DER + flag, compact) and public key recovery."""
from . import _secp as S

ID = "C06"
EXTRA_TARGETS = ["Proofs/EcdsaRefine.vo", "Proofs/EcdsaAbstractInst.vo"]
LEVEL = "partial"
RULE = ("digests 0, 1, n-1, n, n+1, 2^256-1 (reduced modulo n by every entry point) through digest signing -> recovery from the digest (direct and after the compact round trip) -> verify_hashbuf; CROSS PRODUCT every way a signature is produced (13 ways: deterministic x hash x reverse_k, sign_message, caller nonce x hash incl. nonces with raw s above AND below n/2, digest signing x hash, randomised x hash x reverse_k) x recovery through the signer's object and after a compact round trip x message and digest entry point x compression marker, spec = the signer's key; every public function of src/signature/mod.rs and SighashSignature is reached by some op (hex and bytes variants, accessors, "
        "get_public_key* and recover_public_key* cross-checked, from_compact_impl, RecoveryInfo::new / from_byte); signature objects "
        "with recovery info from the signer (used in memory, without a round trip), from from_compact_bytes and without recovery info "
        "(from_der) through to_compact_bytes(None / equal / different explicit info), recovery and verify_message; minimal (8-byte) and "
        "maximal (72-byte) DER bare and with every flag; both hashes x both nonce modes on the empty message; "
        "deterministic members of the leading-zero-byte class (r = x(kG) < 2^248 / 2^240, small s) in every encoding and in recovery; identity-recovering compact signatures (R = kG, s = z/k) for nine fixed and some random k covering both parities of y(R), both compression markers, digest and message form, with the other parity / other message as controls; (r, s) in {1, 2, 0x7f, 0x80, 2^247.., 2^248-1, 2^255-1, 2^255, n/2, n/2+1, n-2, n-1, random} (and rejected: 0, n, 2^256-1, "
        "wrong lengths), s biased so that the final DER byte takes each of the fourteen flag values; DER round trip, DER+flag round "
        "trip for all fourteen flags (all 256 flag bytes in the thorough tier); from_der / SighashSignature::from_bytes on every "
        "truncation and every single-byte mutation (xor 01, xor 80, 00, ff; all 255 values in the thorough tier) of valid encodings, "
        "appended flag / non-flag / two bytes, doubled flag, missing flag, long-form and indefinite lengths, non-minimal and negative "
        "integers; compact round trip for all 4 recovery ids x compression; from_compact_bytes for all 256 header bytes and lengths "
        "0..66; recovery from signatures of an independent Python ECDSA with every recovery id, other message / digest, x not on the "
        "curve, the crafted identity case (s*R = z*G), digests of wrong length; sign -> compact -> parse -> recover through the library "
        "with the same and with another message / hash; non-trivial = the model returns a value; distinct by (op, arguments)")
TRUSTED = ["hand-written Gallina model coq/Model/Sig.v of src/signature/mod.rs and SighashSignature::{to_bytes,from_bytes} "
           "(tied by this correspondence run)",
           "coq/Prim/Der.v as the DER codec of ecdsa 0.13.4 / der 0.5.1 (tied by this run: malformed stream); "
           "coq/Prim/Secp256k1.v recover_g as k256 0.10.4 recover_verify_key_from_digest_bytes",
           "GROUP HYPOTHESES (premise `secp256k1_group` of the recovery theorems, Proofs/EcdsaSecp.v): same three statements as for C05 "
           "(padd associative, smul (a+b) P = padd (smul a P) (smul b P), smul (a*b) P = smul a (smul b P)) on the valid "
           "points of Prim/Secp256k1.v; closure of padd/pneg/smul, commutativity, inverses, smul 1 P = P, lift_x (xcoord P) (yodd P) = Some P, "
           "yodd (pneg P) = negb (yodd P) and the exact order of G are proved (Proofs/SecpGroupPartial.v)",
           "tools/gen_tables.py: the fourteen SigHash enum values are regenerated from src/transaction/sighash.rs",
           "execution runs the BigZ instance (Uint63 primitives); Proofs/Secp256k1Refine.v proves it equal to the Z instance"]
ASSUMPTIONS = ["'malformed DER is rejected' is proved for the Gallina codec (der_exact) and the model built on it; that the der / ecdsa "
               "crates implement that codec is validated by the malformed stream of this run",
               "recovery theorems assume x(kG) < n (k256 never records the other case: such signatures are produced with a recovery "
               "id that does not recover the key; probability 2^-128) and are conditional on the group hypotheses",
               "'recovery for a different message returns a different key or fails' is proved at the level of points "
               "(C06_recover_other_z, needs z' <> z mod n, i.e. no SHA-256 collision modulo n); sampled on the library"]

N = S.N
FLAGS = S.FLAGS
SPECIAL = [1, 2, 0x7F, 0x80, 0xFF, 0x100, 2 ** 247, 2 ** 248 - 1, 2 ** 248, 2 ** 255 - 1, 2 ** 255, N // 2, N // 2 + 1, N - 2, N - 1]


# nonces k with x(kG) < 2^248 (153, 246: y even; 1158, 1417: y odd) and < 2^240 (44629, 58165: y odd)
LZ_NONCES = [153, 246, 1158, 1417, 44629, 58165]
# nonces for the identity-recovering signatures: both parities of y(kG) occur (asserted below)
ID_NONCES = [1, 2, 3, 5, 153, 1158, 0x1234567, N - 1, N - 2]


def leading_zero_and_identity_cases(A, rng, thorough):
    H = S.h32
    # ---- r / s with leading zero bytes in every encoding (fixed-width compact fields, minimal DER integers) ----
    lz_r = [S.mul(k, S.G)[0] for k in LZ_NONCES]
    assert all(x < 2 ** 248 for x in lz_r) and lz_r[4] < 2 ** 240
    lz_vals = lz_r + [2 ** 247, 2 ** 240 - 1, 0xFF, 0x80, 1]
    for v in lz_vals:
        w = rng.choice(lz_vals)
        A("sig.der_roundtrip", [H(v), H(w)])
        A("sig.der_roundtrip", [H(rng.randrange(1, N)), H(v)])
        A("sig.compact", [H(v), H(w), rng.randrange(4), rng.randrange(2)])
        A("sig.compact", [H(rng.randrange(1, N)), H(v), rng.randrange(4), rng.randrange(2)])
        A("sig.from_compact", ["%02x" % rng.randrange(27, 35) + H(v) + H(w)])
        A("sighashsig.roundtrip", [H(v), H(w), rng.choice(FLAGS)])
        A("sig.from_der", [S.der(v, w).hex()])
        A("sighashsig.parse", [(S.der(w, v) + bytes([rng.choice(FLAGS)])).hex()])
    # genuine signatures with such r (caller nonce, made by the Python ECDSA): recovery with the right and the wrong id
    for k in (LZ_NONCES if thorough else LZ_NONCES[1:5]):
        d = rng.randrange(1, N)
        mb = bytes(rng.randrange(256) for _ in range(rng.randrange(1, 40)))
        double = rng.random() < 0.5
        r, s_, odd = S.sign(d, k, int.from_bytes(S.h256(mb, double), "big") % N)
        c = rng.randrange(2)
        A("sig.recover", ["%02x" % (27 + odd + 4 * c) + H(r) + H(s_), mb.hex(), "sha256d" if double else "sha256"])
        A("sig.recover_digest", ["%02x" % (27 + (1 - odd) + 4 * (1 - c)) + H(r) + H(s_), S.h256(mb, double).hex()])
    # signatures made by the library whose r or s starts with a zero byte (found by search, see tools/props/c05.py LZ_DET)
    for (d, m, hn) in [(1, b"lz62", "sha256"), (1, b"lz49", "sha256"), (1, b"lz37", "sha256d"), (1, b"lz56", "sha256d")]:
        r, s_, _ = S.sign_msg(d, m, hn == "sha256d")
        assert r < 2 ** 248 or s_ < 2 ** 248
        A("sig.sign_recover", [H(d), rng.randrange(2), m.hex(), hn, 0, m.hex(), hn])
    # ---- signatures that recover to the point at infinity: R = kG, r = x(R) mod n, s = z / k mod n  (s*R = z*G) ----
    parities = set()
    nonces = (ID_NONCES + [rng.randrange(1, N) for _ in range(20)]) if thorough else [1, 2, 153, 1158, N - 1, rng.randrange(1, N)]
    for k in nonces:
        R = S.mul(k, S.G)
        r, odd = R[0] % N, R[1] & 1
        parities.add(odd)
        kinv = pow(k, N - 2, N)
        # digest form: any z; message form: z = H(m) mod n
        z = rng.randrange(1, N)
        s_ = z * kinv % N
        assert S.mul(s_, R) == S.mul(z, S.G)
        for c in (0, 1):
            A("sig.recover_digest", ["%02x" % (27 + odd + 4 * c) + H(r) + H(s_), H(z)])          # identity: must be an error
        A("sig.recover_digest", ["%02x" % (27 + (1 - odd) + 4) + H(r) + H(s_), H(z)])            # other parity: an ordinary key
        if z + N < 2 ** 256:
            A("sig.recover_digest", ["%02x" % (27 + odd) + H(r) + H(s_), H(z + N)])              # digest >= n, same z
        for hn in (("sha256", "sha256d") if thorough else (("sha256", "sha256d")[k % 2],)):
            mb = bytes(rng.randrange(256) for _ in range(rng.randrange(0, 50)))
            zm = int.from_bytes(S.h256(mb, hn == "sha256d"), "big") % N
            sm = zm * kinv % N
            if sm == 0:
                continue
            c = rng.randrange(2)
            A("sig.recover", ["%02x" % (27 + odd + 4 * c) + H(r) + H(sm), mb.hex(), hn])         # identity
            A("sig.recover", ["%02x" % (27 + odd + 4 * c) + H(r) + H(sm), mb.hex() + "00", hn])  # other message: a key
    assert parities == {0, 1}


INFOS = ["n", "00", "01", "10", "11", "20", "21", "30", "31"]


def audit_cases(A, rng, thorough):
    """state carried in signature objects (recovery info present / absent / overridden) used without a round trip,
    every public function, minimal (8-byte) and maximal (72-byte) DER with and without every flag, empty inputs"""
    H = S.h32
    der_min = S.der(1, 1)
    der_max = S.der(N - 1, N - 2)
    assert len(der_min) == 8 and len(der_max) == 72
    # --- minimal / maximal DER x every flag: bare, with suffix, through SighashSignature, round trips ---
    for dd, (r, s_) in ((der_min, (1, 1)), (der_max, (N - 1, N - 2))):
        A("sig.from_der", [dd.hex()])
        A("sighashsig.parse", [dd.hex()])
        A("sig.der_roundtrip", [H(r), H(s_)])
        A("sig.compact_der", [dd.hex(), "n"])
        for f in S.FLAGS:
            A("sig.from_der", [(dd + bytes([f])).hex()])
            A("sighashsig.parse", [(dd + bytes([f])).hex()])
            A("sighashsig.roundtrip", [H(r), H(s_), f])
        A("sig.compact_der", [(dd + bytes([0x41])).hex(), "31"])
    # minimal DER whose last byte is itself a flag value (s = flag, one content byte), with and without suffix
    for f in S.FLAGS:
        if f < 0x80:
            dd = S.der(rng.choice([1, 0x7F, f]), f)
            A("sig.from_der", [dd.hex()])
            A("sighashsig.parse", [dd.hex()])
            A("sighashsig.parse", [(dd + bytes([f])).hex()])
    # --- objects WITHOUT recovery info (from_der): to_compact_bytes(None | Some(each info)); recovery must be an error ---
    for j in range(6 if not thorough else 20):
        dd = S.der(rscalar(rng), rscalar(rng))
        for i in (INFOS if j < 2 or thorough else []):
            A("sig.compact_der", [dd.hex(), i])
        A("sig.recover_der", [dd.hex(), bytes(rng.randrange(256) for _ in range(32)).hex(), "sha256"])   # 32 bytes: digest form gets past its length guard
        A("sig.recover_der", [(dd + b"\x41").hex(), "6162", "sha256d"])
    A("sig.recover_der", [der_min.hex(), "", "sha256"])
    A("sig.recover_der", ["3006020101020100", "00", "sha256"])
    A("sig.compact_der", ["", "n"])
    # --- objects that carry recovery info from from_compact_bytes: explicit info equal to / different from the carried one
    #     (sig.compact builds its object from header 27, i.e. carried = (0, uncompressed)) ---
    r, s_ = rscalar(rng), rscalar(rng)
    for recid in range(4):
        for c in (0, 1):
            A("sig.compact", [H(r), H(s_), recid, c])
    # --- the in-memory object returned by the signer: None / equal / different explicit info, recovery and verify_message
    #     without a round trip, same and other message / hash, both hashes, both nonce modes, the empty message ---
    d = 0x1111111111111111111111111111111111111111111111111111111111111111
    k = 0
    for c in (0, 1):
        for i in (INFOS if thorough else ["n", "01", "10", "31"]):
            h = ["sha256", "sha256d"][k % 2]
            m = ["", "616263", "00"][k % 3]
            A("sig.signed", [H(d if k % 2 else rng.randrange(1, N)), c, m, h, (k // 2) % 2, i, m, h])
            k += 1
    for h in ("sha256", "sha256d"):
        for rk in (0, 1):
            A("sig.signed", [H(d), rk, "", h, rk, "n", "", h])
            A("sig.sign_recover", [H(d), 1 - rk, "", h, rk, "", h])
        A("sig.signed", [H(d), 1, "", h, 0, "n", "00", h])                                   # other message
        A("sig.signed", [H(d), 1, "6162", h, 0, "n", "6162", "sha256" if h == "sha256d" else "sha256d"])   # other hash
        A("sig.sign_recover", [H(d), 1, "", h, 0, "00", h])
        # recovery from a Python-made signature over the empty message
        r, s_, odd = S.sign_msg(d, b"", h == "sha256d")
        A("sig.recover", ["%02x" % (27 + odd + 4) + H(r) + H(s_), "", h])
        A("sig.recover_digest", ["%02x" % (27 + odd) + H(r) + H(s_), S.h256(b"", h == "sha256d").hex()])
    A("sig.signed", [H(0), 1, "00", "sha256", 0, "n", "00", "sha256"])
    # --- the recovered key's FORM follows the recorded marker: both entry points x both markers x both hashes ---
    for h in ("sha256", "sha256d"):
        double = h == "sha256d"
        for c in (0, 1):
            dk = rng.randrange(1, N)
            mb = bytes(rng.randrange(256) for _ in range(rng.randrange(0, 50)))
            dg = S.h256(mb, double)
            # library-made signatures: exact key bytes are prescribed (message entry and digest entry)
            A("sig.sign_recover", [H(dk), c, mb.hex(), h, c, mb.hex(), h])
            A("sig.sign_recover_digest", [H(dk), c, mb.hex(), h, 1 - c, dg.hex()])
            A("sig.sign_recover_digest", [H(d), c, "", h, c, S.h256(b"", double).hex()])
            A("sig.sign_recover_digest", [H(dk), c, mb.hex(), h, 0, S.h256(mb + b"!", double).hex()])     # other digest
            # signatures made elsewhere (Python ECDSA): the form (33 / 65 bytes) is prescribed by the header
            r, s_, odd = S.sign_msg(dk, mb, double)
            cb = "%02x" % (27 + odd + 4 * c) + H(r) + H(s_)
            A("sig.recover", [cb, mb.hex(), h])
            A("sig.recover_digest", [cb, dg.hex()])
    A("sig.sign_recover_digest", [H(d), 1, "00", "sha256", 0, "r:00:31"])                               # digest of wrong length
    A("sig.sign_recover_digest", [H(0), 1, "00", "sha256", 0, "r:00:32"])
    # --- empty inputs, length bands ---
    A("sig.recover", ["", "00", "sha256"])
    A("sig.recover_digest", ["", ""])
    A("sig.recover_digest", ["1f" + H(5) + H(5), ""])
    for ln in (321, 577):                                                                     # 65 + 256, 65 + 512
        A("sig.from_compact", ["1f" + H(5) + H(5) + "+r:00:%d" % (ln - 65)])
    A("sig.from_der", [S.der(5, 6).hex() + "+r:00:256"])
    A("sighashsig.parse", [S.der(5, 6).hex() + "+r:41:256"])
    A("sig.from_hex_der", [(S.der(5, 6).hex() + "41").encode().hex()])


WAYS = [("det", "sha256", 0), ("det", "sha256", 1), ("det", "sha256d", 0), ("det", "sha256d", 1), ("msg", "sha256", 0),
        ("k", "sha256", 0), ("k", "sha256d", 1), ("dig", "sha256", 0), ("dig", "sha256d", 0),
        ("rnd", "sha256", 0), ("rnd", "sha256", 1), ("rnd", "sha256d", 0), ("rnd", "sha256d", 1)]
FORMS = [("mem", "m"), ("mem", "d"), ("cmp", "m"), ("cmp", "d")]


def cross_cases(A, rng, thorough):
    """every way a signature is produced x every form of recovery (signer's object / compact round trip, message / digest
    entry point) x both compression markers; the specification column demands the signer's key.  For the caller-nonce signer:
    nonces for which the raw s is in the upper half (normalised to n - s, recovery bit flipped) AND nonces for which it is not."""
    H = S.h32
    idx = 0
    for (signer, h, rk) in WAYS:
        for (route, entry) in FORMS:
            for c in ((0, 1) if thorough else (idx % 2,)):
                d = rng.randrange(1, N)
                m = bytes(rng.randrange(256) for _ in range(rng.randrange(0, 60))).hex()
                aux = H(rng.randrange(1, N)) if signer == "k" else ("l:%d:32" % rng.randrange(1, 2 ** 31) if signer == "rnd" else "00")
                A("sig.cross", [signer, H(d), c, m, h, rk, aux, route, entry])
            idx += 1
    found = {True: 0, False: 0}
    want = 6 if thorough else 3
    while min(found.values()) < want:
        d, k = rng.randrange(1, N), rng.randrange(1, N)
        mb = bytes(rng.randrange(256) for _ in range(rng.randrange(0, 40)))
        double = rng.random() < 0.5
        z = int.from_bytes(S.h256(mb, double), "big") % N
        r = S.mul(k, S.G)[0] % N
        high = pow(k, N - 2, N) * (z + r * d) % N > N // 2
        if found[high] >= want:
            continue
        found[high] += 1
        hn = "sha256d" if double else "sha256"
        for j, (route, entry) in enumerate(FORMS if thorough else [FORMS[found[high] % 4], FORMS[(found[high] + 2) % 4]]):
            A("sig.cross", ["k", H(d), (found[high] + j) % 2, mb.hex(), hn, j % 2, H(k), route, entry])
    A("sig.cross", ["k", H(5), 1, "00", "sha256", 0, H(0), "mem", "m"])
    A("sig.cross", ["det", H(0), 1, "00", "sha256", 0, "00", "cmp", "d"])


def digest_cases(A, rng, thorough):
    """digests at and above the group order (and 0, 1, leading zeros) through sign_digest -> recovery from the same digest,
    directly and after the compact round trip, and verify_hashbuf; both markers"""
    H = S.h32
    digs = [0, 1, N - 1, N, N + 1, 2 ** 256 - 1, N + 2 ** 128, 2 ** 255, 0xAB << 200]
    for i, v in enumerate(digs):
        d = rng.randrange(1, N) if i % 2 else 0x1111111111111111111111111111111111111111111111111111111111111111
        for route in (("mem", "cmp") if thorough or v >= N - 1 else (("mem", "cmp")[i % 2],)):
            A("sig.digest_cross", [H(d), (i + (route == "cmp")) % 2, H(v), route])
        # the same through the raw entry point: a Python-made signature over z = v mod n, digest given unreduced
        z = v % N
        k = S.rfc6979(d, z)
        r, s_, odd = S.sign(d, k, z)
        A("sig.recover_digest", ["%02x" % (27 + odd + 4 * (i % 2)) + H(r) + H(s_), H(v)])
    A("sig.digest_cross", [H(5), 1, "r:00:31", "mem"])
    A("sig.digest_cross", [H(0), 1, H(5), "cmp"])


def rscalar(rng):
    r = rng.random()
    if r < 0.25:
        return rng.choice(SPECIAL)
    if r < 0.35:
        return rng.randrange(1, 2 ** rng.choice([8, 16, 64, 128, 200, 247, 248]))
    return rng.randrange(1, N)


def with_last(v, b):
    w = (v >> 8 << 8) | b
    if not (0 < w < N):
        w = (1 << 8) | b
    return w


def mutations(enc, thorough):
    out = []
    for i in range(len(enc)):
        vals = range(256) if thorough else {enc[i] ^ 1, enc[i] ^ 0x80, 0, 0xFF}
        for v in vals:
            if v != enc[i]:
                out.append(enc[:i] + bytes([v]) + enc[i + 1:])
    for i in range(len(enc)):
        out.append(enc[:i])
    return out


def generate(rng, tier):
    thorough = tier == "thorough"
    mult = 8 if thorough else 1
    cases = []
    A = lambda op, args: cases.append((op, [str(a) for a in args]))
    H = S.h32

    # ---------------------------------------------------------------- DER round trip
    for v in SPECIAL:
        A("sig.der_roundtrip", [H(v), H(rscalar(rng))])
        A("sig.der_roundtrip", [H(rscalar(rng)), H(v)])
    for f in FLAGS:
        for _ in range(2 * mult):
            A("sig.der_roundtrip", [H(rscalar(rng)), H(with_last(rscalar(rng), f))])
    for _ in range(20 * mult):
        A("sig.der_roundtrip", [H(rscalar(rng)), H(rscalar(rng))])
    for (r, s) in [(0, 1), (1, 0), (N, 1), (1, N), (2 ** 256 - 1, 1), (1, N + 1)]:
        A("sig.der_roundtrip", [H(r), H(s)])
    A("sig.der_roundtrip", [H(1)[2:], H(1)])
    A("sig.der_roundtrip", [H(1), H(1) + "00"])

    # ---------------------------------------------------------------- DER + flag round trip
    for f in FLAGS:
        A("sighashsig.roundtrip", [H(rscalar(rng)), H(rscalar(rng)), f])
        A("sighashsig.roundtrip", [H(rscalar(rng)), H(with_last(rscalar(rng), rng.choice(FLAGS))), f])
        A("sighashsig.roundtrip", [H(rng.choice([2 ** 255, N - 1])), H(with_last(N - 2, rng.choice(FLAGS))), f])  # 72-byte DER
    for f in (range(256) if thorough else [0, 4, 5, 0x10, 0x20, 0x3F, 0x44, 0x7F, 0x84, 0xC0, 0xC4, 0xFF]):
        if f not in FLAGS:
            A("sighashsig.roundtrip", [H(rscalar(rng)), H(rscalar(rng)), f])
    A("sighashsig.roundtrip", [H(0), H(1), 1])
    A("sighashsig.roundtrip", [H(1), H(N), 65])

    # ---------------------------------------------------------------- from_der / sighashsig.parse: valid, mutated, truncated, extended
    seeds = []
    r0 = 0x934B1EA10A4B3C1757E2B0C017D0B6143CE3C9A7E6A4A49860D7A6AB210EE3D8
    s0 = 0x2442CE9D2B916064108014783E923EC36B49743E2FFA1C4496F01A512AAFD9E5
    seeds.append(S.der(r0, with_last(s0, 0x41)))                # 71 bytes, final byte a flag
    if thorough:
        seeds.append(S.der(r0, s0))                              # 71 bytes, final byte not a flag
        seeds.append(S.der(N - 1, with_last(N - 2, 0x01)))       # 72 bytes
        seeds.append(S.der(5, 0x80))                             # tiny
    for sd in seeds:
        A("sig.from_der", [sd.hex()])
        for m in mutations(sd, thorough):
            A("sig.from_der", [m.hex()])
        for m in mutations(sd + b"\x41", False):
            A("sighashsig.parse", [m.hex()])
    pool = [S.der(rscalar(rng), rscalar(rng)) for _ in range(10 * mult)] + \
           [S.der(rscalar(rng), with_last(rscalar(rng), f)) for f in FLAGS] + \
           [S.der(rng.choice([2 ** 255, N - 1, r0]), with_last(N - 2 - 256 * i, f)) for i, f in enumerate(FLAGS[:6])]
    for d in pool:
        A("sig.from_der", [d.hex()])
        A("sighashsig.parse", [d.hex()])                                       # missing flag
        f = rng.choice(FLAGS)
        A("sig.from_der", [(d + bytes([f])).hex()])                            # flag suffix
        A("sighashsig.parse", [(d + bytes([f])).hex()])
        nf = rng.choice([0, 4, 0x44, 0x7F, 0xFF, 0x30])
        A("sig.from_der", [(d + bytes([nf])).hex()])                           # other trailing byte
        A("sighashsig.parse", [(d + bytes([nf])).hex()])
        A("sig.from_der", [(d + bytes([f, rng.choice(FLAGS)])).hex()])         # two trailing bytes
        A("sighashsig.parse", [(d + bytes([f, rng.choice(FLAGS)])).hex()])     # doubled flag
    for f in FLAGS:
        d = S.der(rscalar(rng), with_last(rscalar(rng), rng.choice(FLAGS)))
        A("sig.from_der", [(d + bytes([f])).hex()])
        A("sighashsig.parse", [(d + bytes([f])).hex()])
    hand = ["", "30", "3000", "300602010102", "3006020101020101", "3006020100020101", "3006020101020100", "30060201ff020101",
            "3007020200010201" + "01", "300702010102020001", "30080203000080020101", "308106020101020101", "300702810101020101",
            "30800201010201010000", "3106020101020101", "3006030101020101", "3006020101040101", "3005020101020101", "3007020101020101",
            "3003020101", "3009020101020101020101", "30050200020101", "30050201010200", "3006020180020101", "300702020080020101",
            "30260221" + "01" + "00" * 32 + "020101", "30260222" + "0080" + "00" * 32 + "020101",
            S.der(N, 1).hex(), S.der(1, N).hex(), S.der(2 ** 256 - 1, 1).hex(), S.der(N - 1, N - 1).hex(), S.der(0, 0).hex()]
    for h in hand:
        A("sig.from_der", [h])
        A("sighashsig.parse", [h])
        A("sighashsig.parse", [h + "41"])
        A("sig.from_der", [h + "01"])
    A("sighashsig.parse", ["41"])
    A("sighashsig.parse", ["r:41:73"])
    A("sig.from_der", ["r:30:200"])
    # from_hex_der: case, odd length, non-hex characters
    dh = S.der(r0, s0).hex()
    for t in [dh, dh.upper(), dh[:-1], dh + "4", "zz", "", dh + "41", " " + dh, dh[:10] + "G" + dh[11:], "c3a9"]:
        A("sig.from_hex_der", [t.encode().hex() if t != "c3a9" else "c3a9"])

    # ---------------------------------------------------------------- compact form
    for recid in range(4):
        for c in (0, 1):
            A("sig.compact", [H(rscalar(rng)), H(rscalar(rng)), recid, c])
            A("sig.compact", [H(rng.choice(SPECIAL)), H(rng.choice(SPECIAL)), recid, c])
    for (r, s) in [(0, 1), (1, 0), (N, 1), (1, N)]:
        A("sig.compact", [H(r), H(s), 0, 1])
    r, s = rscalar(rng), rscalar(rng)
    for hd in range(256):
        A("sig.from_compact", ["%02x" % hd + H(r) + H(s)])
    for ln in list(range(0, 8)) + [32, 33, 63, 64, 66, 67, 130]:
        A("sig.from_compact", [("1f" + H(r) + H(s) + "00" * 70)[:2 * ln]])
    for (rr, ss) in [(0, s), (r, 0), (N, s), (r, N), (2 ** 256 - 1, s), (N - 1, N - 1), (1, 1)]:
        A("sig.from_compact", ["%02x" % rng.randrange(27, 35) + H(rr) + H(ss)])

    # ---------------------------------------------------------------- recovery from signatures made by the Python ECDSA
    for _ in range(3 if not thorough else 40):
        d = rng.choice([1, 2, N - 1, rng.randrange(1, N), rng.randrange(1, N)])
        double = rng.random() < 0.5
        hname = "sha256d" if double else "sha256"
        mb = bytes(rng.randrange(256) for _ in range(rng.randrange(0, 70)))
        r, s, odd = S.sign_msg(d, mb, double)
        for recid in (range(4) if thorough else [odd, 1 - odd, rng.choice([2, 3])]):
            c = rng.randrange(2)
            cb = "%02x" % (27 + recid + 4 * c) + H(r) + H(s)
            if rng.random() < 0.6:
                A("sig.recover", [cb, mb.hex(), hname])
            else:
                A("sig.recover_digest", [cb, S.h256(mb, double).hex()])
        cb = "%02x" % (27 + odd + 4) + H(r) + H(s)
        A("sig.recover", [cb, (mb + b"!").hex(), hname])                     # other message
        A("sig.recover", [cb, mb.hex(), "sha256" if double else "sha256d"])  # other hash
    # x not on the curve / identity / digest lengths
    GX = H(S.GX)
    one = H(1)
    A("sig.recover_digest", ["1b" + GX + one, one])                          # s*R = z*G: identity (was a panic)
    A("sig.recover_digest", ["1f" + GX + one, one])
    A("sig.recover_digest", ["1c" + GX + one, one])                          # other parity: fine
    A("sig.recover", ["1b" + GX + S.h256(b"abc").hex(), "616263", "sha256"])
    A("sig.recover", ["1f" + GX + S.h256(b"abc", True).hex(), "616263", "sha256d"])
    A("sig.recover_digest", ["1b" + GX + H(2), H(2 + N) if 2 + N < 2 ** 256 else H(2)])   # z reduced modulo n
    for x in [5, 6, 7, 8]:                                                    # some of these x are not on the curve
        A("sig.recover_digest", ["1b" + H(x) + one, one])
    for ln in [0, 1, 31, 33, 64]:
        A("sig.recover_digest", ["1f" + GX + one, "r:00:%d" % ln])
    A("sig.recover_digest", ["00" + GX + one, one])
    A("sig.recover", ["1f" + GX, "00", "sha256"])
    A("sig.recover_digest", ["1b" + GX + one, H(0)])                         # z = 0

    # ---------------------------------------------------------------- leading zero bytes; recovery to the identity
    leading_zero_and_identity_cases(A, rng, thorough)
    audit_cases(A, rng, thorough)
    cross_cases(A, rng, thorough)
    digest_cases(A, rng, thorough)

    # ---------------------------------------------------------------- sign -> compact -> parse -> recover through the library
    for _ in range(5 if not thorough else 96):
        d = rng.choice([1, 2, N - 1, N - 2, 2 ** 255, rng.randrange(1, N), rng.randrange(1, N), rng.randrange(1, N)])
        n = rng.choice([0, 1, 32, 55, 56, 64, 100, rng.randrange(0, 200)])
        m = bytes(rng.randrange(256) for _ in range(n)).hex()
        h = rng.choice(["sha256", "sha256d"])
        A("sig.sign_recover", [H(d), rng.randrange(2), m, h, rng.randrange(2), m, h])
    for _ in range(3 if not thorough else 48):
        d = rng.randrange(1, N)
        m = bytes(rng.randrange(256) for _ in range(rng.randrange(1, 40))).hex()
        h = rng.choice(["sha256", "sha256d"])
        if rng.random() < 0.5:
            A("sig.sign_recover", [H(d), rng.randrange(2), m, h, rng.randrange(2), m + "00", h])
        else:
            A("sig.sign_recover", [H(d), rng.randrange(2), m, h, rng.randrange(2), m, "sha256" if h == "sha256d" else "sha256d"])
    A("sig.sign_recover", [H(0), 1, "00", "sha256", 0, "00", "sha256"])
    return cases


def nontrivial(case, out):
    return out.startswith("OK:")
