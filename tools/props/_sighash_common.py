"""Shared case builders for C03 / C10 / C04: transactions, subscripts, values."""

FORKID_FLAGS = [0x41, 0x42, 0x43, 0xC1, 0xC2, 0xC3]
LEGACY_FLAGS = [0x01, 0x02, 0x03, 0x81, 0x82, 0x83]
OTHER_FLAGS = [0x40, 0x80]          # enum values outside both properties (correspondence only)
U64 = 2 ** 64


def varint(n):
    if n <= 252:
        return bytes([n])
    if n <= 0xFFFF:
        return b"\xfd" + n.to_bytes(2, "little")
    if n <= 0xFFFFFFFF:
        return b"\xfe" + n.to_bytes(4, "little")
    return b"\xff" + n.to_bytes(8, "little")


def rbytes(rng, n):
    return bytes(rng.randrange(256) for _ in range(n))


def small_script(rng):
    """a short valid script (no conditionals needed here)"""
    k = rng.randrange(6)
    if k == 0:
        return b""
    if k == 1:
        return b"\x76\xa9\x14" + rbytes(rng, 20) + b"\x88\xac"
    if k == 2:
        n = rng.randrange(1, 40)
        return bytes([n]) + rbytes(rng, n)
    if k == 3:
        return b"\x00\x6a" + bytes([4]) + rbytes(rng, 4)
    if k == 4:
        return b"\x4c\x03" + rbytes(rng, 3) + b"\xac"
    return bytes(rng.choice([0x51, 0x52, 0x61, 0x75, 0x87, 0xac, 0xab]) for _ in range(rng.randrange(1, 5)))


def sequence(rng, nonpal):
    if nonpal:
        # four distinct bytes, first != last: never reads the same in both byte orders
        b = rng.sample(range(256), 4)
        return int.from_bytes(bytes(b), "little")
    return rng.choice([0xFFFFFFFF, 0, 0xFFFFFFFE, 1, 0x80000000, rng.randrange(2 ** 32)])


def value(rng):
    return rng.choice([0, 1, 546, 2 ** 32 - 1, 2 ** 32, 2 ** 63 - 1, 2 ** 63, U64 - 1, rng.randrange(U64), rng.randrange(10 ** 9)])


def txin(rng, nonpal=True):
    txid = rbytes(rng, 32)
    vout = rng.choice([0, 1, 2, 0xFFFFFFFE, rng.randrange(2 ** 32)])
    scr = small_script(rng)
    return txid + vout.to_bytes(4, "little") + varint(len(scr)) + scr + sequence(rng, nonpal).to_bytes(4, "little")


def txout(rng):
    scr = small_script(rng)
    return value(rng).to_bytes(8, "little") + varint(len(scr)) + scr


def mk_tx(rng, nin, nout, nonpal=True):
    ver = rng.choice([1, 2, 0, 0xFFFFFFFF, rng.randrange(2 ** 32)])
    lt = rng.choice([0, 1, 499999999, 500000000, 0xFFFFFFFF, rng.randrange(2 ** 32)])
    return (ver.to_bytes(4, "little") + varint(nin) + b"".join(txin(rng, nonpal) for _ in range(nin))
            + varint(nout) + b"".join(txout(rng) for _ in range(nout)) + lt.to_bytes(4, "little"))


def sized_script(rng, n):
    """descriptor of a valid script of exactly n bytes (n >= 0)"""
    if n == 0:
        return ""
    if n <= 5 or rng.random() < 0.3:
        return "r:%02x:%d" % (rng.choice([0x61, 0x51, 0xac]), n)
    seed = rng.randrange(1, 10 ** 6)
    if n - 2 <= 255 and rng.random() < 0.5:
        return "4c%02x+l:%d:%d" % (n - 2, seed, n - 2)
    if n - 3 <= 65535 and rng.random() < 0.5:
        return "4d%s+l:%d:%d" % ((n - 3).to_bytes(2, "little").hex(), seed, n - 3)
    return "4e%s+l:%d:%d" % ((n - 5).to_bytes(4, "little").hex(), seed, n - 5)


def codesep_script(rng, depth, size):
    """valid script with OP_CODESEPARATOR (0xab) sprinkled at every level, also as push data"""
    out = b""
    for _ in range(size):
        r = rng.random()
        if r < 0.3:
            out += b"\xab"
        elif r < 0.45:
            n = rng.randrange(1, 6)
            out += bytes([n]) + bytes(rng.choice([0xab, 0x63, 0x68, rng.randrange(256)]) for _ in range(n))
        elif r < 0.5:
            out += b"\x4c\x02\xab\xab"
        elif r < 0.7 and depth > 0:
            out += bytes([rng.choice([0x63, 0x64])]) + codesep_script(rng, depth - 1, rng.randrange(0, 4))
            if rng.random() < 0.6:
                out += b"\x67" + codesep_script(rng, depth - 1, rng.randrange(0, 4))
            out += b"\x68"
        else:
            out += bytes([rng.choice([0x51, 0x76, 0xa9, 0x88, 0xac, 0x61, 0x00, 0x75])])
    return out


P2PKH = "76a914" + "11" * 20 + "88ac"
