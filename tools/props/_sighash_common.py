"""Shared case builders for C03 / C10 / C04: transactions, subscripts, values."""

FORKID_FLAGS = [0x41, 0x42, 0x43, 0xC1, 0xC2, 0xC3]
LEGACY_FLAGS = [0x01, 0x02, 0x03, 0x81, 0x82, 0x83]
OTHER_FLAGS = [0x40, 0x80]          # enum values outside both properties (correspondence only)
U64 = 2 ** 64


def varint(n):
    if n <= 252:
        return bytes([n])
    if n <= 0xFFFF:
        return b"\xfd" + n.to_bytes(2, "little")
    if n <= 0xFFFFFFFF:
        return b"\xfe" + n.to_bytes(4, "little")
    return b"\xff" + n.to_bytes(8, "little")


def rbytes(rng, n):
    return bytes(rng.randrange(256) for _ in range(n))


def small_script(rng):
    """a short valid script (no conditionals needed here)"""
    k = rng.randrange(6)
    if k == 0:
        return b""
    if k == 1:
        return b"\x76\xa9\x14" + rbytes(rng, 20) + b"\x88\xac"
    if k == 2:
        n = rng.randrange(1, 40)
        return bytes([n]) + rbytes(rng, n)
    if k == 3:
        return b"\x00\x6a" + bytes([4]) + rbytes(rng, 4)
    if k == 4:
        return b"\x4c\x03" + rbytes(rng, 3) + b"\xac"
    return bytes(rng.choice([0x51, 0x52, 0x61, 0x75, 0x87, 0xac, 0xab]) for _ in range(rng.randrange(1, 5)))


def sequence(rng, nonpal):
    if nonpal:
        # four distinct bytes, first != last: never reads the same in both byte orders
        b = rng.sample(range(256), 4)
        return int.from_bytes(bytes(b), "little")
    return rng.choice([0xFFFFFFFF, 0, 0xFFFFFFFE, 1, 0x80000000, rng.randrange(2 ** 32)])


def value(rng):
    return rng.choice([0, 1, 546, 2 ** 32 - 1, 2 ** 32, 2 ** 63 - 1, 2 ** 63, U64 - 1, rng.randrange(U64), rng.randrange(10 ** 9)])


def txin(rng, nonpal=True):
    txid = rbytes(rng, 32)
    vout = rng.choice([0, 1, 2, 0xFFFFFFFE, rng.randrange(2 ** 32)])
    scr = small_script(rng)
    return txid + vout.to_bytes(4, "little") + varint(len(scr)) + scr + sequence(rng, nonpal).to_bytes(4, "little")


def txout(rng):
    scr = small_script(rng)
    return value(rng).to_bytes(8, "little") + varint(len(scr)) + scr


def mk_tx(rng, nin, nout, nonpal=True):
    ver = rng.choice([1, 2, 0, 0xFFFFFFFF, rng.randrange(2 ** 32)])
    lt = rng.choice([0, 1, 499999999, 500000000, 0xFFFFFFFF, rng.randrange(2 ** 32)])
    return (ver.to_bytes(4, "little") + varint(nin) + b"".join(txin(rng, nonpal) for _ in range(nin))
            + varint(nout) + b"".join(txout(rng) for _ in range(nout)) + lt.to_bytes(4, "little"))


def sized_script(rng, n):
    """descriptor of a valid script of exactly n bytes (n >= 0)"""
    if n == 0:
        return ""
    if n <= 5 or rng.random() < 0.3:
        return "r:%02x:%d" % (rng.choice([0x61, 0x51, 0xac]), n)
    seed = rng.randrange(1, 10 ** 6)
    if n - 2 <= 255 and rng.random() < 0.5:
        return "4c%02x+l:%d:%d" % (n - 2, seed, n - 2)
    if n - 3 <= 65535 and rng.random() < 0.5:
        return "4d%s+l:%d:%d" % ((n - 3).to_bytes(2, "little").hex(), seed, n - 3)
    return "4e%s+l:%d:%d" % ((n - 5).to_bytes(4, "little").hex(), seed, n - 5)


def codesep_script(rng, depth, size):
    """valid script with OP_CODESEPARATOR (0xab) sprinkled at every level, also as push data"""
    out = b""
    for _ in range(size):
        r = rng.random()
        if r < 0.3:
            out += b"\xab"
        elif r < 0.45:
            n = rng.randrange(1, 6)
            out += bytes([n]) + bytes(rng.choice([0xab, 0x63, 0x68, rng.randrange(256)]) for _ in range(n))
        elif r < 0.5:
            out += b"\x4c\x02\xab\xab"
        elif r < 0.7 and depth > 0:
            out += bytes([rng.choice([0x63, 0x64])]) + codesep_script(rng, depth - 1, rng.randrange(0, 4))
            if rng.random() < 0.6:
                out += b"\x67" + codesep_script(rng, depth - 1, rng.randrange(0, 4))
            out += b"\x68"
        else:
            out += bytes([rng.choice([0x51, 0x76, 0xa9, 0x88, 0xac, 0x61, 0x00, 0x75])])
    return out


P2PKH = "76a914" + "11" * 20 + "88ac"


# ---------------------------------------------------------------- deterministic boundary material (audit classes 1-6)
def build_tx(ver, ins, outs, lt):
    """ins: [(txid32 bytes, vout, script bytes, seq)], outs: [(value, script bytes)]"""
    b = ver.to_bytes(4, "little") + varint(len(ins))
    for (txid, vout, scr, seq) in ins:
        b += txid + vout.to_bytes(4, "little") + varint(len(scr)) + scr + seq.to_bytes(4, "little")
    b += varint(len(outs))
    for (val, scr) in outs:
        b += val.to_bytes(8, "little") + varint(len(scr)) + scr
    return b + lt.to_bytes(4, "little")


def tid(n):
    return bytes((n * 37 + k * 11 + 1) % 256 for k in range(32))


P2 = lambda n: bytes.fromhex("76a914") + bytes([n]) * 20 + bytes.fromhex("88ac")

# 3-in / 3-out transactions whose 32-bit fields sit on the signed / unsigned and 0 / 1 / max boundaries, every input with a
# different sequence and an outpoint index different from its own position, every output with a different value and script
EXTREME_TXS = [
    build_tx(0x80000000, [(tid(1), 0xFFFFFFFF, b"\x51", 0xFFFFFFFF), (tid(2), 0x80000001, b"", 0x80000000), (tid(3), 0, b"\x01\xab", 1)],
             [(2 ** 63, P2(1)), (1, b""), (U64 - 1, P2(3))], 0xFFFFFFFF),
    build_tx(0xFFFFFFFF, [(tid(4), 2, b"", 0), (tid(5), 0xFFFFFFFE, b"\x00", 0xFFFFFFFE), (tid(6), 1, b"\x51", 0x7FFFFFFF)],
             [(0, b"\x6a"), (2 ** 32, P2(5)), (2 ** 63 - 1, b"\x51")], 0x80000000),
    build_tx(0, [(tid(7), 1, b"", 1), (tid(8), 0x7FFFFFFF, b"", 0), (tid(9), 0x80000000, b"", 0xFFFFFFFF)],
             [(0x00FF000000000000, P2(7)), (255, P2(8)), (256, P2(9))], 1),
    build_tx(1, [(tid(10), 0, b"", 0xFFFFFFFE), (tid(10), 0, b"", 0xFFFFFFFE), (tid(11), 0, b"", 0xFFFFFFFD)],      # duplicate outpoint
             [(5, P2(1)), (5, P2(1)), (6, P2(1))], 0xFFFFFFFE),
]
# output scripts on the compact-size boundary inside hashOutputs
LONG_OUT_TX = build_tx(2, [(tid(12), 3, b"", 0x01020304), (tid(13), 0, b"", 0x05060708), (tid(14), 1, b"", 0x090A0B0C)],
                       [(1, b"\x61" * 252), (2, b"\x61" * 253), (3, b"")], 0x11223344)
SHAPE_TXS = [
    build_tx(1, [(tid(20), 5, b"\x51", 0x01020304)], [], 7),
    build_tx(1, [(tid(21), 5, b"\x51", 0x01020304)], [(9, P2(2))], 7),
    build_tx(1, [(tid(22), 5, b"", 0x04030201)], [(9, P2(2)), (10, P2(3)), (11, b"")], 7),
    build_tx(1, [(tid(23), 1, b"", 0x0A0B0C0D), (tid(24), 0, b"", 0x0D0C0B0A), (tid(25), 2, b"", 0x00000100)], [], 0x01000000),
]
VALUES = [2 ** 63 - 1, 2 ** 63, 2 ** 63 + 1, U64 - 1, 1, 255, 256, 2 ** 32, 0x00FF000000000000, 2 ** 56 - 1, 0x0000000000010000]

# subscripts with OP_CODESEPARATOR (0xab) in every syntactic neighbourhood; legacy removes the opcodes, FORKID keeps the bytes
SEP_SCRIPTS = [
    "ab", "abab", "ababab", "ab76", "76ab", "76abab88", "ab76ab88ab", "abab76abab",
    "ab635168", "63ab5168", "6351ab68", "635168ab", "63ab68", "63abab68", "ab63ab51ab68ab",
    "ab645168", "64ab5168", "6451ab68", "645168ab",
    "6351ab675268", "635167ab5268", "63516752ab68", "63ab67ab68", "63abab67abab68", "6351ab67ab68ab",
    "636351ab67ab52686764ab53ab6768ab68", "63ab63ab63ab68ab68ab68", "6367ab6351ab67ab52ab6868", "64ab67ab64ab67ab6868ab",
    "abab63abab51abab67abab52abab68abab", "ab6368", "6368ab", "ab63ab67ab68ab",
    "01ab", "02abab", "01abab", "ab01ab", "4c01ab", "4c02ababab", "4d0100ab", "4e01000000ab", "0263ab", "02ab68ab",
    "6301ab68", "63ab01abab68", "630051ab6700ab68", "ab00ab", "00abab51",
]
CORE_SEP = ["abab", "ab63ab51ab68ab", "63ab67ab68", "63abab67abab68", "636351ab67ab52686764ab53ab6768ab68", "02abab", "ab01ab", "abab63abab51abab67abab52abab68abab"]
# subscript lengths: compact-size thresholds and totals whose low byte looks like a threshold / zero
SUB_LENS = [252, 253, 255, 256, 509, 65021, 65535, 65536]
# 253 identical all-zero inputs and 256 all-zero outputs (counts on the compact-size boundary): descriptor, not a literal
BIG_COUNT_TX = "02000000+fdfd00+r:00:%d+fd0001+r:00:%d+00000000" % (253 * 41, 256 * 9)


def cs(n, form):
    """compact size of n in a chosen (possibly non-minimal) form: '' minimal, 'fd', 'fe', 'ff'"""
    if form == "":
        return varint(n)
    w = {"fd": 2, "fe": 4, "ff": 8}[form]
    return bytes.fromhex(form) + n.to_bytes(w, "little")


def build_tx_nc(ver, ins, outs, lt, f_nin="", f_inscr="", f_nout="", f_outscr=""):
    """like build_tx, with non-minimal compact sizes where asked (accepted by the parser, normalised by the serialiser)"""
    b = ver.to_bytes(4, "little") + cs(len(ins), f_nin)
    for (txid, vout, scr, seq) in ins:
        b += txid + vout.to_bytes(4, "little") + cs(len(scr), f_inscr) + scr + seq.to_bytes(4, "little")
    b += cs(len(outs), f_nout)
    for (val, scr) in outs:
        b += val.to_bytes(8, "little") + cs(len(scr), f_outscr) + scr
    return b + lt.to_bytes(4, "little")


NC_INS = [(tid(31), 1, b"\x51", 0x01020304), (tid(32), 0, b"", 0x0A0B0C0D)]
NC_OUTS = [(1234, P2(4)), (2 ** 40, b"\x6a")]
NONCANONICAL_TXS = ([build_tx_nc(2, NC_INS, NC_OUTS, 9, **{k: f}) for k in ("f_nin", "f_inscr", "f_nout", "f_outscr") for f in ("fd", "fe", "ff")]
                    + [build_tx_nc(2, NC_INS, NC_OUTS, 9, f, f, f, f) for f in ("fd", "fe", "ff")]
                    + [build_tx_nc(2, NC_INS, NC_OUTS, 9, "fd", "ff", "fe", "fd")])


# state carried in the object that the preimage must not depend on: annotation sets for a 3-input transaction, relative to the
# signed index i (o1, o2 = the other two), the call's value v and subscript; "-" = none
def annotation_sets(i, v):
    o1, o2 = (i + 1) % 3, (i + 2) % 3
    other_v = (v + 1) % U64 if v != 12345 else 54321
    return [
        "%d,%d,-" % (i, other_v),                                   # satoshis on the signed input, different from the argument
        "%d,%d,-" % (i, v),                                         # ... equal to the argument
        "%d,%d,76a914+r:07:20+88ac" % (i, other_v),                 # satoshis and a locking script on the signed input
        "%d,-,51ab52" % i,                                          # locking script only (with a separator inside)
        "%d,%d,ac/%d,0,-" % (o1, other_v, o2),                      # only on the other inputs
        "%d,0,6a/%d,18446744073709551615,ab/%d,%d,76a9" % (i, o1, o2, v),   # all three
    ]


ROUTES = ["d", "c", "j", "b", "a", "h"]


# special values of fields the preimage only copies: the null (coinbase) outpoint and each half of it, at every position
Z32 = bytes(32)
CB_SCRIPT = bytes.fromhex("04ffff001d0104")          # coinbase data (arbitrary bytes)
COINBASE_TXS = [
    build_tx(0xFFFFFFFF, [(Z32, 0xFFFFFFFF, CB_SCRIPT, 0xFFFFFFFF), (Z32, 0, b"", 0), (tid(41), 0xFFFFFFFF, b"\x51", 0xFFFFFFFE)],
             [(0, b""), (U64 - 1, b""), (0, P2(6))], 0),
    build_tx(0, [(tid(42), 0xFFFFFFFF, b"", 0xFFFFFFFE), (Z32, 0xFFFFFFFF, b"\x51\xab", 0), (Z32, 0xFFFFFFFF, b"\x51\xab", 0)],      # null outpoint twice
             [(U64 - 1, P2(7)), (0, b""), (0, b"")], 0xFFFFFFFF),
    build_tx(1, [(Z32, 5, b"", 0xFFFFFFFF), (tid(43), 0, b"", 0xFFFFFFFF), (Z32, 0xFFFFFFFF, b"\x00", 0xFFFFFFFF)],
             [(50 * 10 ** 8, P2(8))], 0),
    build_tx(1, [(Z32, 0xFFFFFFFF, CB_SCRIPT, 0xFFFFFFFF)], [(50 * 10 ** 8, P2(9))], 0),                                           # a real coinbase shape
]


# "the rest looks like data" shapes: OP_RETURN (top level and inside branches) with separators before / after it, OP_FALSE OP_RETURN
# <pushes> <separator>, separators inside push payloads (must stay), separator as last byte, only separators
RETURN_SCRIPTS = ["76abac6aab02beefab", "6aab", "ab6a", "6aabab", "ab6aab6aab", "006aab", "00ab6a", "006a02beefab", "006a02abab", "006a02ababab51",
                  "006a4c03abababab", "6a01abab", "6a01ab", "51ab6a4c02ababab", "63ab6aab68ab", "636a67ab6aab68", "636a68ab", "6a63ab68", "64006aab6751ab68ab6aab",
                  "6a", "006a", "abababab", "ab", "6aab6a", "76a914" + "ab" * 20 + "88ac6aab", "6a04abababab02abab"]
SEP_SCRIPTS += RETURN_SCRIPTS
CORE_SEP += ["76abac6aab02beefab", "006a02beefab", "636a67ab6aab68", "ab6aab6aab"]
