"""C09 — decoders are total: every public decoder on malformed input (value or error, never panic/abort, bounded memory)."""
import struct, hashlib

B58 = "123456789ABCDEFGHJKLMNPQRSTUVWXYZabcdefghijkmnopqrstuvwxyz"


def b58(b):
    n = int.from_bytes(b, "big")
    out = ""
    while n:
        n, r = divmod(n, 58)
        out = B58[r] + out
    return "1" * (len(b) - len(b.lstrip(b"\0"))) + out


def b58check(payload):
    return b58(payload + hashlib.sha256(hashlib.sha256(payload).digest()).digest()[:4])

ID = "C09"
LEVEL = "proof"
RULE = ("for each of ~40 decoder entry points: valid encodings produced by the library itself (presample), every/sampled prefix, "
        "byte and character mutations, length/count fields overwritten with extremes up to 2^64-1, random bytes, long inputs; "
        "non-trivial = the input is not empty and not a verbatim valid sample; distinct by (op, arguments)")
TRUSTED = ["Gallina models of the repository's own decoders (Model/Script.v, Model/Tx.v, Model/AesApi.v) for the <impl> class; "
           "decoders inside external crates (serde_json, ciborium, bs58, hex, der, k256) are exercised, not modelled",
           "allocator high-water mark measured by the driver's counting global allocator"]
ASSUMPTIONS = ["native-stack exhaustion on >= 10000 nested conditionals is a recorded finding (class deep-nesting)",
               "memory bound checked: peak <= 1024 * input length + 4 MiB per call"]

TEXT_DECODERS = ["wif", "privhex", "pubhex", "xprv", "xpub", "addr", "derhex", "asm", "template", "json_tx",
                 "tx_hex", "txin_hex", "txout_hex", "script_hex", "cbor_tx_hex", "cbor_txin_hex", "path_xprv", "path_xpub"]
BYTE_DECODERS = ["tx", "txin", "txout", "outpoint", "script", "privbytes", "pub", "der", "compact", "sighashsig", "ecies",
                 "cbor_tx", "cbor_txin", "verify_hashbuf", "sign_digest", "recover_digest", "compact_recover",
                 "pubkey_hash", "seed_xprv", "seed_xpub", "chunks", "template_of_script", "interp_tx", "ecies_decrypt_msg"]
SAMPLES = {"wif": "wif", "privhex": "privhex", "pub": "pub", "addr": "addr", "xprv": "xprv", "xpub": "xpub", "der": "der",
           "compact": "compact", "sighashsig": "sighashsig", "ecies": "ecies", "ecies_nopk": "ecies_nopk", "json_tx": "json_tx",
           "cbor_tx": "cbor_tx", "cbor_txin": "cbor_txin"}


def MEM_BOUND(case):
    n = 0
    for a in case[1]:
        for part in a.split("+"):
            f = part.split(":")
            if len(f) == 3 and f[0] in ("r", "l"):
                n += int(f[2])
            else:
                n += len(part) // 2
    return 1024 * n + 4 * 1024 * 1024


def presample(rng, tier):
    out = []
    for name in SAMPLES:
        for seed in range(1, 5 if tier == "quick" else 13):
            out.append(("sample." + name, [str(seed)]))
    return out


def varint(n):
    if n <= 252:
        return bytes([n])
    if n <= 0xffff:
        return b"\xfd" + struct.pack("<H", n)
    if n <= 0xffffffff:
        return b"\xfe" + struct.pack("<I", n)
    return b"\xff" + struct.pack("<Q", n)


def mk_tx(rng):
    nin, nout = rng.randrange(0, 4), rng.randrange(0, 4)
    b = struct.pack("<I", rng.randrange(2 ** 32)) + varint(nin)
    for _ in range(nin):
        s = bytes([0x51, 0x02, 0xaa, 0xbb, 0x63, 0x52, 0x67, 0x68][: rng.randrange(0, 9)])
        if s.count(0x63) and not s.count(0x68):
            s += b"\x68"
        b += bytes(rng.randrange(256) for _ in range(32)) + struct.pack("<I", rng.randrange(2 ** 32)) + varint(len(s)) + s + struct.pack("<I", rng.randrange(2 ** 32))
    b += varint(nout)
    for _ in range(nout):
        s = bytes([0x76, 0xa9, 0x14]) + bytes(rng.randrange(256) for _ in range(20)) + bytes([0x88, 0xac])
        b += struct.pack("<Q", rng.randrange(2 ** 64)) + varint(len(s)) + s
    return b + struct.pack("<I", rng.randrange(2 ** 32))


EXTREMES = [b"\x00", b"\x01", b"\xfc", b"\xfd\xfd\x00", b"\xfd\xff\xff", b"\xfe\x00\x00\x01\x00", b"\xfe\xff\xff\xff\xff",
            b"\xff\x00\x00\x00\x00\x01\x00\x00\x00", b"\xff\x00\x00\x00\x00\x00\x00\x00\x80", b"\xff" * 9]


def mutations(rng, b, nprefix, nflip):
    out = set()
    n = len(b)
    if n <= nprefix:
        for k in range(n + 1):
            out.add(bytes(b[:k]))
    else:
        for _ in range(nprefix):
            out.add(bytes(b[: rng.randrange(n + 1)]))
    for _ in range(nflip):
        if n:
            t = bytearray(b)
            k = rng.randrange(n)
            t[k] = rng.choice([0, 1, 0x7f, 0x80, 0xff, t[k] ^ (1 << rng.randrange(8)), rng.randrange(256)])
            out.add(bytes(t))
    out.add(bytes(b) + b"\x00")
    out.add(bytes(b) + bytes(rng.randrange(256) for _ in range(rng.randrange(1, 40))))
    if n > 2:
        k = rng.randrange(n)
        out.add(bytes(b[:k]) + rng.choice(EXTREMES) + bytes(b[k + 1:]))
    return out


def generate(rng, tier, pre):
    q = tier == "quick"
    cases = []
    samples = {}
    for (op, args), out in pre:
        if out.startswith("OK:"):
            samples.setdefault(op[len("sample."):], []).append(bytes.fromhex(out[3:]))

    def add(dec, b, extra=None):
        args = [bytes(b).hex()] + (extra or [])
        cases.append(("dec." + dec, args))

    # 1. fixed extremes for every decoder
    for dec in TEXT_DECODERS + BYTE_DECODERS:
        for b in [b"", b"\x00", b"1", b" ", b"\xff", b"\xff\xfe", b"0", b"00", b"OP_", b"{}", b"[]", b"\"", b"\xf8", b"\x9f", b"\xbf"]:
            add(dec, b)
        cases.append(("dec." + dec, ["r:00:%d" % (3000 if q else 60000)]))
        cases.append(("dec." + dec, ["r:ff:%d" % (3000 if q else 60000)]))
        cases.append(("dec." + dec, ["r:31:%d" % (1500 if q else 6000)]))
        cases.append(("dec." + dec, ["l:%d:%d" % (rng.randrange(1000), rng.choice([1, 7, 33, 65, 78, 82, 200, 1000]))]))
        for _ in range(6 if q else 40):
            add(dec, bytes(rng.randrange(256) for _ in range(rng.randrange(1, 90))))
    for has in ("0", "1"):
        for n in range(0, 80 if q else 140):
            cases.append(("dec.ecies", ["l:%d:%d" % (n + 3, n), has]))
    # 2. mutations of valid samples, each sample fed to its decoder(s)
    route = {"wif": ["wif"], "privhex": ["privhex"], "pub": ["pub"], "addr": ["addr"], "xprv": ["xprv", "xpub"], "xpub": ["xpub", "xprv"],
             "der": ["der", "sighashsig"], "compact": ["compact", "compact_recover"], "sighashsig": ["sighashsig", "der"],
             "ecies": ["ecies"], "ecies_nopk": ["ecies"], "json_tx": ["json_tx"], "cbor_tx": ["cbor_tx", "cbor_txin"], "cbor_txin": ["cbor_txin", "cbor_tx"]}
    for name, lst in samples.items():
        for b in lst:
            for dec in route.get(name, []):
                extra = ["0"] if name == "ecies_nopk" else (["1"] if name == "ecies" else None)
                add(dec, b, extra)
                for m in mutations(rng, b, 24 if q else 120, 10 if q else 60):
                    if len(m) <= 1000:
                        add(dec, m, extra)
                if name == "pub":
                    add("pubhex", b.hex().encode())
                    for m in mutations(rng, b.hex().encode(), 6, 6):
                        add("pubhex", m)
                if name == "der":
                    add("derhex", b.hex().encode())
    # 2a. every value of the first and of the last byte (tag / header / version / flag bytes) of each valid sample
    for name, lst in samples.items():
        for b in lst[:(1 if q else 3)]:
            for dec in route.get(name, []):
                extra = ["0"] if name == "ecies_nopk" else (["1"] if name == "ecies" else None)
                if not (0 < len(b) <= 1000):
                    continue
                for v in range(256):
                    add(dec, bytes([v]) + b[1:], extra)
                    if not q or v % 4 == 0 or v in (0x7f, 0x81, 0xff, 0x41, 0x42, 0x43, 0xc1, 0xc2, 0xc3):
                        add(dec, b[:-1] + bytes([v]), extra)
    # 2a'. text decoders on non-ASCII text: multi-byte UTF-8 characters inserted at every position of valid texts
    #      (byte-offset arithmetic on strings - split_at, slicing by a fixed length - panics off a character boundary)
    texts = {"template": ["OP_DATA=20", "OP_DATA>=3 OP_DATA<=5", "OP_DUP OP_HASH160 OP_PUBKEYHASH OP_EQUALVERIFY OP_CHECKSIG",
                          "OP_DATA>2 OP_DATA<9 OP_SIG OP_PUBKEY", "00ff OP_1 OP_RETURN"],
             "asm": ["OP_1 OP_IF 00ff OP_ELSE OP_2 OP_ENDIF", "0 OP_RETURN 6a6b", "OP_PUSHDATA1 02 beef"],
             "path_xprv": ["m/0'/1/2h"], "path_xpub": ["m/0/1/2"], "privhex": ["11" * 32], "derhex": ["3006020101020101"],
             "json_tx": ['{"version":1,"inputs":[],"outputs":[],"n_locktime":0}'], "tx_hex": ["01000000000000000000"]}
    for name in ("wif", "xprv", "xpub", "addr"):
        for b in samples.get(name, [])[:1]:
            texts.setdefault(name, []).append(b.decode("latin-1"))
    for b in samples.get("pub", [])[:1]:
        texts.setdefault("pubhex", []).append(b.hex())
    uni = ["\u00e9", "\u2265", "\u2028", "\U0001F600", "\u0301", "\u00a0"]
    for dec, lst in texts.items():
        for t in lst:
            pos = list(range(len(t) + 1))
            if q and len(pos) > 24:
                pos = sorted(set(pos[:14] + pos[-6:] + rng.sample(pos, 6)))
            for i in pos:
                for u in (uni if not q else [uni[(i + k) % len(uni)] for k in range(2)]):
                    add(dec, (t[:i] + u + t[i:]).encode("utf-8"))
                    if i < len(t):
                        add(dec, (t[:i] + u + t[i + 1:]).encode("utf-8"))
    # 2b. Base58Check strings with a VALID checksum over payloads of every length (incl. the empty payload) and
    #     plausible version bytes: the length / slice arithmetic behind the checksum test must not panic either
    for n in list(range(0, 40)) + [45, 72, 73, 74, 77, 78, 79, 81, 82, 90]:
        for lead in (b"", b"\x80", b"\x00", b"\x04\x88\xad\xe4", b"\x04\x88\xb2\x1e", b"\xef"):
            if len(lead) > n:
                continue
            if q and n > 8 and rng.random() < 0.5:
                continue
            body = lead + bytes(rng.randrange(256) for _ in range(n - len(lead)))
            t = b58check(body).encode()
            for dec in ("wif", "addr", "xprv", "xpub"):
                add(dec, t)
            add("wif", b58(body).encode())
    # 3. transactions / inputs / outputs / scripts with crafted extremes
    txs = [bytes.fromhex("01000000010000000000000000000000000000000000000000000000000000000000000000ffffffff4d04ffff001d0104455468652054696d65732030332f4a616e2f32303039204368616e63656c6c6f72206f6e206272696e6b206f66207365636f6e64206261696c6f757420666f722062616e6b73ffffffff0100f2052a01000000434104678afdb0fe5548271967f1a67130b7105cd6a828e03909a67962e0ea1f61deb649f6bc3f4cef38c4f35504e51ec112de5c384df7ba0b8d578a4c702b6bf11d5fac00000000")]
    txs += [mk_tx(rng) for _ in range(6 if q else 40)]
    for t in txs:
        add("tx", t)
        add("tx_hex", t.hex().encode())
        for m in mutations(rng, t, 30 if q else 200, 20 if q else 120):
            add("tx", m)
        for m in mutations(rng, t.hex().encode(), 5, 5):
            add("tx_hex", m)
        # every varint position replaced by extremes: version(4) then count
        for e in EXTREMES:
            add("tx", t[:4] + e + t[5:])
            add("tx", t[:4] + e)
            add("txin", bytes(36) + e)
            add("txin", bytes(36) + e + bytes(8))
            add("txout", bytes(8) + e)
            add("txout", bytes(8) + e + bytes(8))
            add("script", b"\x4e" + e[1:5].ljust(4, b"\xff"))
            add("script", b"\x4d" + e[1:3].ljust(2, b"\xff") + b"\x00" * 3)
    for n in ([35, 36, 37, 0, 72]):
        add("outpoint", bytes(rng.randrange(256) for _ in range(n)))
    # 4. deep nesting on the recursive parser (known finding above ~10^4 levels)
    for d in ([100, 2000] if q else [100, 2000, 9000]):
        cases.append(("dec.script", ["r:63:%d+r:68:%d" % (d, d)]))
        cases.append(("dec.script", ["r:63:%d" % d]))
        cases.append(("dec.asm", ["+".join(["4f505f494620"] * min(d, 300))]))
    # 5. AES key / iv / data lengths
    for mode in ("128cbc", "256cbc", "128ctr", "256ctr"):
        for kl in (0, 1, 15, 16, 17, 24, 31, 32, 33, 64):
            for il in (0, 1, 15, 16, 17, 32):
                if q and rng.random() < 0.6:
                    continue
                for dl in (0, 1, 15, 16, 17, 32):
                    if rng.random() < (0.15 if q else 0.5):
                        cases.append(("dec.aes_enc", [mode, "l:1:%d" % kl, "l:2:%d" % il, "l:3:%d" % dl]))
                        cases.append(("dec.aes_dec", [mode, "l:1:%d" % kl, "l:2:%d" % il, "l:3:%d" % dl]))
    # 5b. compact signatures crafted so that public-key recovery lands on the point at infinity (s*R = z*G), for R of
    #     both parities and both compression markers, through the digest and the message entry points; plus near misses
    from . import _secp as S
    import hashlib
    for k in list(range(1, 9 if q else 40)) + [S.N - 1, S.N - 2]:
        R = S.mul(k, S.G)
        r = R[0] % S.N
        for z in ([1, 2, 0x8000000000000000000000000000000000000000000000000000000000000001] if q else [1, 2, 3, S.N - 1, 2 ** 255 + 5]):
            s_ = (z * pow(k, -1, S.N)) % S.N
            if r == 0 or s_ == 0:
                continue
            for comp in (0, 4):
                hdr = 27 + (R[1] & 1) + comp
                sig = bytes([hdr]) + r.to_bytes(32, "big") + s_.to_bytes(32, "big")
                cases.append(("dec.recover_digest2", [sig.hex(), z.to_bytes(32, "big").hex()]))
                cases.append(("dec.recover_digest2", [(bytes([hdr ^ 1]) + sig[1:]).hex(), z.to_bytes(32, "big").hex()]))
                cases.append(("dec.recover_digest2", [sig.hex(), ((z + 1) % S.N).to_bytes(32, "big").hex()]))
        # the message form: z = sha256(msg) / sha256d(msg)
        msg = b"identity-%d" % (k % 1000)
        for dbl in (False, True):
            z = int.from_bytes(hashlib.sha256(hashlib.sha256(msg).digest()).digest() if dbl else hashlib.sha256(msg).digest(), "big") % S.N
            s_ = (z * pow(k, -1, S.N)) % S.N
            if r and s_:
                sig = bytes([27 + (R[1] & 1) + 4]) + r.to_bytes(32, "big") + s_.to_bytes(32, "big")
                cases.append(("dec.recover_msg2", [sig.hex(), msg.hex()]))
    # 5c. lengths 0..70 for the fixed-length byte inputs, and derivation paths with extreme components
    for n in range(0, 71 if not q else 45):
        for dec in ("pubkey_hash", "privbytes", "outpoint", "seed_xprv"):
            cases.append(("dec." + dec, ["l:%d:%d" % (n + 1, n)]))
    for pth in ["m", "M", "m/", "m/0", "m/0'", "m/0h", "m/0H", "m/2147483647", "m/2147483648", "m/2147483647'", "m/2147483648'",
                "m/4294967295", "m/4294967296", "m/18446744073709551616", "m/-1", "m/+1", "m/1/", "m//1", "m/1'/", "m/''", "m/'", "m/h",
                "m/0x10", "m/1e3", "m/ 1", "m/1 ", "/", "", "m/" + "/".join(["1"] * 300), "m/" + "/".join(["0'"] * 260), "m/9" * 400]:
        for dec in ("path_xprv", "path_xpub"):
            cases.append(("dec." + dec, [pth.encode().hex()]))
    for t in txs[:3]:
        for idx in (0, 1, 2, 255, 4294967296, 18446744073709551615):
            cases.append(("dec.interp_tx", [t.hex(), str(idx)]))
    for name in ("ecies",):
        for b in samples.get(name, [])[:3]:
            add("ecies_decrypt_msg", b)
            for m in list(mutations(rng, b, 6, 6))[:12]:
                add("ecies_decrypt_msg", m)
    # 5d. truncated compact-size integers at every position a transaction has one (marker byte with 0..7 payload bytes
    #     missing), and fixed-length byte arguments of every length through the remaining public entry points
    for marker, width in ((b"\xfd", 2), (b"\xfe", 4), (b"\xff", 8)):
        for have in range(width):
            e = marker + b"\x01" * have
            add("tx", b"\x01\x00\x00\x00" + e)                                  # input count
            add("tx", b"\x01\x00\x00\x00\x01" + bytes(36) + e)                  # script length of input 0
            add("tx", b"\x01\x00\x00\x00\x00" + e)                              # output count
            add("tx", b"\x01\x00\x00\x00\x00\x01" + bytes(8) + e)              # script length of output 0
            add("txin", bytes(36) + e)
            add("txout", bytes(8) + e)
            add("tx_hex", (b"\x01\x00\x00\x00" + e).hex().encode())
    for n in range(0, 71 if not q else 45):
        for dec in ("getpub_digest", "getpub_msg", "coinbase_script", "outpoint_txin", "prev_txid", "bsm_verify", "key_from_k"):
            cases.append(("dec." + dec, ["l:%d:%d" % (n + 2, n)]))
    for m in (b"", b" ", b"abandon " * 11 + b"about", b"\xff\xfe", b"a" * 300):
        cases.append(("dec.mnemonic", [m.hex()]))
        cases.append(("dec.mnemonic", [m.hex(), b"TREZOR".hex()]))
        cases.append(("dec.mnemonic", [m.hex(), ""]))
    # 5e. combinations: a BIE1 buffer with an UNCOMPRESSED sender key (tag 04, a valid point) at every total length
    #     around the minimum sizes of both layouts; JSON / CBOR transactions combining the null outpoint with an empty,
    #     one-byte and truncated script_sig (and the halves of the null outpoint)
    upub = [b for b in samples.get("pub", []) if len(b) == 65][:1]
    for u in upub:
        for total in list(range(60, 112)) + [133, 134, 165]:
            body = b"BIE1" + u + bytes((7 * i + total) % 256 for i in range(max(0, total - 69)))
            for has in ("1", "0"):
                add("ecies", body[:total], [has])
            add("ecies_decrypt_msg", body[:total])
        add("ecies", b"BIE1" + bytes([4]) + u[1:33] + bytes(32) + bytes(40), ["1"])     # 04 with an off-curve y
    null_txid, some_txid = "00" * 32, "11" * 32
    for txid in (null_txid, some_txid):
        for vout in (4294967295, 0, 4294967294):
            for ss in ("[]", '[""]', '["00"]', '["ff"]', '["OP_0"]', '["4c"]', '[[]]', 'null', '""'):
                for extra in ("", ',"satoshis":0', ',"satoshis":18446744073709551615,"locking_script":[]'):
                    j = ('{"version":1,"inputs":[{"prev_tx_id":"%s","vout":%d,"script_sig":%s,"sequence":0%s}],"outputs":[],"n_locktime":0}'
                         % (txid, vout, ss, extra))
                    add("json_tx", j.encode())
    for b in samples.get("cbor_tx", [])[:2]:
        # the same combination in CBOR: blank the txid text and shrink the script array of the first input in place
        i = b.find(b"script_sig")
        if i > 0 and b[i + 10] in range(0x81, 0x98):
            add("cbor_tx", b[:i + 10] + b"\x80" + b[i + 11:])                       # array header -> empty array, items left behind
            add("cbor_tx", b[:i + 10] + b"\x80")                                    # ... and truncated there
    # 6. digests of every length 0..70
    for n in range(0, 71 if not q else 40):
        for dec in ("verify_hashbuf", "sign_digest", "recover_digest"):
            cases.append(("dec." + dec, ["l:%d:%d" % (n, n)]))
    return cases


def nontrivial(case, impl_out):
    return any(len(a) > 2 for a in case[1])
