"""C01 — case generator: transaction wire format (parse / serialise / accessors / construction API / compact sizes)."""
from . import c02
import hashlib

ID = "C01"
LEVEL = "proof"
RULE = ("structured transactions (0..40 inputs/outputs with scripts from the C02 grammar, coinbase inputs, full-range "
        "version/vout/sequence/value/locktime), uniform runs giving 252/253/254/300 (thorough: also 255/256/1000/4000) inputs or outputs, "
        "script lengths 0/1/75/76/252/253/254/255/256/1000/65535/65536 (thorough: 65537, 100000) in inputs and outputs, every compact size also in its "
        "non-minimal 3/5/9-byte forms, trailing bytes, every field-boundary truncation and random truncations, byte flips, "
        "counts and lengths replaced by extremes up to 2^64-1, output totals on both sides of 2^64, the same field lists "
        "through the construction API (tx.build), and again with set_locking_script / set_satoshis annotations (empty, P2PKH, "
        "data-carrier, 252/253/1000/70000-byte locking scripts; before add_input or via get_input/set_input) on a random subset "
        "of the inputs (tx.build_ext: bytes, txid, size, per-input to_bytes and get_unlocking_script_size), TxIn/TxOut::from_hex on the pieces, TxIn::from_outpoint_bytes, and the "
        "the other construction routes (tx.build_alt: add_inputs/add_outputs, Transaction::default + set_version/set_nlocktime + "
        "TxIn::default + setters, prepend_*, insert_*, set_input/set_output over placeholders, clone), compact sizes whose payload "
        "has the top bit set in every width (as values, counts, lengths), ids with leading/trailing zero bytes, transaction ids "
        "with leading/trailing zero bytes, every getter incl. *_as_bytes, *_hex and both endianness options on every parsed "
        "transaction, from_hex (both cases) against from_bytes, and the "
        "call histories on one Transaction object (tx.mutate: observe id/size/bytes/accessors, again, on a clone, then after each of "
        "set_version / set_nlocktime (on the object and on the returned clone), add/prepend/insert/set input and output, "
        "get_input + each TxIn setter + set_input, clone, alone and in sequences, each observation compared with a fresh parse), "
        "compact-size writers/readers/helper on both sides of 252/253, 65535/65536, 2^32-1/2^32 and at 2^64-1; "
        "non-trivial = the implementation model accepts the input; distinct by (op, arguments)")
TRUSTED = ["hand-written Gallina models coq/Model/Tx.v, coq/Model/VarInt.v (and coq/Model/Script.v of C02) of "
           "src/transaction/{mod,txin,txout}.rs, src/traits/varint.rs (tied by this correspondence run)",
           "Gallina SHA-256 reference coq/Prim/Sha256.v (NIST vectors proved by vm_compute); its equality with the sha2 crate "
           "is validated by this run and by C13, not proved; the txid theorem is stated for an arbitrary hash function"]
ASSUMPTIONS = ["list lengths and script lengths are below 2^64 (usize); stated as hypotheses of the round-trip theorems",
               "satoshis_out is tied in the overflow-checking (debug/test) profile of the driver; the model carries the profile as a parameter"]

U32 = 2 ** 32
U64 = 2 ** 64
EDGE32 = [0, 1, 2, 0x7fffffff, 0x80000000, 0xfffffffe, 0xffffffff, 0xfd, 0xfe, 0xff, 0x100, 0xffff, 0x10000,
          0x7f, 0x80, 0x7fff, 0x8000, 0x00ffffff, 0x01000000, 0x80000001, 0xff000000, 0x000000ff]
EDGE64 = [0, 1, 546, 5000000000, 2100000000000000, 2 ** 63 - 1, 2 ** 63, 2 ** 64 - 1, 0xfd, 0xffff, 0x10000, 0xffffffff, 0x100000000,
          0x80, 0x8000, 2 ** 31, 2 ** 31 - 1, 2 ** 56 - 1, 2 ** 56, 0xff00000000000000, 0x8000000000000001, 2 ** 32 + 1]
GOOD_OPS = [0, 79, 81, 82, 96, 97, 105, 106, 107, 117, 118, 135, 136, 147, 169, 171, 172, 174, 186, 255, 80, 103, 104]


def le(n, k):
    return (n % (1 << (8 * k))).to_bytes(k, "little").hex()


def cs(n, width=None):
    """compact size; width in (1,3,5,9) forces a (possibly non-minimal) form"""
    if width is None:
        width = 1 if n < 253 else 3 if n < 0x10000 else 5 if n < U32 else 9
    if width == 1:
        return "%02x" % n
    if width == 3:
        return "fd" + le(n, 2)
    if width == 5:
        return "fe" + le(n, 4)
    return "ff" + le(n, 8)


def r32(rng):
    return rng.choice(EDGE32) if rng.random() < 0.35 else rng.randrange(U32)


def r64(rng, small=False):
    if small:
        return rng.choice([0, 1, 546, 1000, 5000000000]) if rng.random() < 0.4 else rng.randrange(2 ** 40)
    return rng.choice(EDGE64) if rng.random() < 0.35 else rng.randrange(U64)


def good_script(rng, depth=2, size=None):
    """bytes of a script that every conforming parser accepts (complete pushes, balanced conditionals)"""
    if size is None:
        size = rng.randrange(0, 6)
    out = b""
    for _ in range(size):
        r = rng.random()
        if r < 0.4:
            out += c02.push(rng, rng.choice([0, 1, 1, 2, 3, 5, 20, 32, 33]))
        elif r < 0.55 and depth > 0:
            out += bytes([rng.choice(c02.IFS)]) + good_script(rng, depth - 1, rng.randrange(0, 3))
            if rng.random() < 0.5:
                out += b"\x67" + good_script(rng, depth - 1, rng.randrange(0, 3))
            out += b"\x68"
        else:
            out += bytes([rng.choice(GOOD_OPS[:-2])])
    return out


def any_script(rng):
    r = rng.random()
    if r < 0.8:
        return good_script(rng).hex()
    if r < 0.9:
        return c02.script(rng, 2, rng.randrange(0, 5)).hex()      # may be invalid
    if r < 0.95:
        return (good_script(rng) + bytes([rng.randrange(1, 76)]) + bytes(rng.randrange(256) for _ in range(rng.randrange(0, 3)))).hex()
    return bytes(rng.randrange(256) for _ in range(rng.randrange(0, 8))).hex()


class In:
    def __init__(self, ident, vout, script, seq, slen_width=None):
        self.id, self.vout, self.script, self.seq, self.w = ident, vout, script, seq, slen_width   # id: descriptor of the WIRE bytes


class Out:
    def __init__(self, value, script, slen_width=None):
        self.value, self.script, self.w = value, script, slen_width


def dlen(d):
    """byte length of a descriptor"""
    n = 0
    for part in d.split("+"):
        if not part:
            continue
        f = part.split(":")
        n += int(f[2]) if len(f) == 3 else len(part) // 2
    return n


def join(parts):
    return "+".join(p for p in parts if p != "")


def in_wire(i):
    return join([i.id, le(i.vout, 4) + cs(dlen(i.script), i.w), i.script, le(i.seq, 4)])


def out_wire(o):
    return join([le(o.value, 8) + cs(dlen(o.script), o.w), o.script])


def tx_wire(ver, ins, outs, lt, win=None, wout=None, nin=None, nout=None):
    return join([le(ver, 4) + cs(len(ins) if nin is None else nin, win)] + [in_wire(i) for i in ins]
                + [cs(len(outs) if nout is None else nout, wout)] + [out_wire(o) for o in outs] + [le(lt, 4)])


def rand_id(rng):
    r = rng.random()
    if r < 0.6:
        return "l:%d:32" % rng.randrange(1, 2 ** 31)
    if r < 0.75:
        k = rng.randrange(1, 9)          # leading / trailing zero bytes, 0x80 / 0xff at either end
        body = "l:%d:%d" % (rng.randrange(1, 2 ** 31), 32 - k)
        return rng.choice(["r:00:%d+%s" % (k, body), "%s+r:00:%d" % (body, k), "r:ff:%d+%s" % (k, body), "%s+r:80:%d" % (body, k)])
    if r < 0.85:
        return "r:00:32"
    if r < 0.9:
        return "r:00:31+01"
    return bytes(rng.randrange(256) for _ in range(32)).hex()


def rand_in(rng, coinbase=False):
    if coinbase:
        s = rng.choice([bytes(rng.randrange(256) for _ in range(rng.randrange(0, 12))).hex(), "03", "0501", "4c05", "ff", good_script(rng).hex()])
        return In("r:00:32", 0xffffffff, s, r32(rng))
    return In(rand_id(rng), r32(rng), any_script(rng) if rng.random() < 0.15 else good_script(rng).hex(), r32(rng))


def rand_out(rng, small=True):
    return Out(r64(rng, small), any_script(rng) if rng.random() < 0.15 else good_script(rng).hex())


def flat_build_args(ver, ins, outs, lt, rng=None):
    """tx.build argument list; ids are passed in display order = reverse of the wire bytes, so they are given as literal hex"""
    a = [str(ver), str(lt), str(len(ins)), str(len(outs))]
    for i in ins:
        a += [i.id, str(i.vout), i.script, "-" if (i.seq == 0xffffffff and rng is not None and rng.random() < 0.7) else str(i.seq)]
    for o in outs:
        a += [str(o.value), o.script]
    return a


def expand_py(d):
    out = b""
    for part in d.split("+"):
        if not part:
            continue
        f = part.split(":")
        if len(f) == 3 and f[0] == "r":
            out += bytes([int(f[1], 16)]) * int(f[2])
        elif len(f) == 3 and f[0] == "l":
            x = int(f[1])
            b = bytearray()
            for _ in range(int(f[2])):
                x = (x * 1664525 + 1013904223) % 4294967296
                b.append((x // 65536) % 256)
            out += bytes(b)
        else:
            out += bytes.fromhex(part)
    return out


def lock_script(rng):
    """a locking script a signer would attach: empty, P2PKH, data carrier, long, or from the grammar"""
    r = rng.random()
    if r < 0.15:
        return ""
    if r < 0.5:
        return "76a914+l:%d:20+88ac" % rng.randrange(1, 2 ** 31)
    if r < 0.6:
        return "006a" + c02.push(rng, rng.choice([1, 20, 75, 76, 255, 256])).hex()
    if r < 0.75:
        n = rng.choice([252, 253, 300, 1000, 70000]) if r < 0.63 else rng.choice([252, 253, 300, 1000])
        return "r:51:%d" % n
    if r < 0.85:
        n = rng.choice([253, 300, 600])
        return "4d" + le(n, 2) + "+l:%d:%d" % (rng.randrange(1, 1000), n)
    return good_script(rng).hex()


def ext_build_args(ver, ins, outs, lt, rng, p_annot=0.6):
    """tx.build_ext argument list: a random subset of the inputs carries set_locking_script / set_satoshis"""
    a = [str(ver), str(lt), str(len(ins)), str(len(outs))]
    for i in ins:
        ann = rng.random() < p_annot
        lock = lock_script(rng) if ann and rng.random() < 0.85 else "-"
        sat = str(r64(rng, rng.random() < 0.7)) if ann and rng.random() < 0.7 else "-"
        a += [i.id, str(i.vout), i.script, "-" if (i.seq == 0xffffffff and rng.random() < 0.7) else str(i.seq),
              lock, sat, rng.choice("ab")]
    for o in outs:
        a += [str(o.value), o.script]
    return a


def hist_id(rng):
    return "l:%d:32" % rng.randrange(1, 2 ** 31) if rng.random() < 0.7 else bytes(rng.randrange(256) for _ in range(32)).hex()


def hist_in_fields(rng):
    if rng.random() < 0.08:
        return ["r:00:32", "4294967295", bytes(rng.randrange(256) for _ in range(rng.randrange(1, 6))).hex(), "-"]
    return [hist_id(rng), str(r32(rng)), good_script(rng, 1, rng.randrange(0, 3)).hex(), "-" if rng.random() < 0.3 else str(r32(rng))]


def hist_out_fields(rng):
    return [str(r64(rng, True)), good_script(rng, 1, rng.randrange(0, 3)).hex()]


def hist_step(rng, kind, nin, nout):
    """one step of a call history (tx.mutate) and the counts after it; None when the step needs an item that is not there"""
    if kind in ("sv", "svc", "sl", "slc"):
        return "%s,%d" % (kind, r32(rng)), nin, nout
    if kind in ("ai", "pi"):
        return ",".join([kind] + hist_in_fields(rng)), nin + 1, nout
    if kind == "ii":
        return ",".join([kind, str(rng.randrange(nin + 1))] + hist_in_fields(rng)), nin + 1, nout
    if kind == "si":
        if nin == 0:
            return None
        return ",".join([kind, str(rng.randrange(nin))] + hist_in_fields(rng)), nin, nout
    if kind in ("ao", "po"):
        return ",".join([kind] + hist_out_fields(rng)), nin, nout + 1
    if kind == "io":
        return ",".join([kind, str(rng.randrange(nout + 1))] + hist_out_fields(rng)), nin, nout + 1
    if kind == "so":
        if nout == 0:
            return None
        return ",".join([kind, str(rng.randrange(nout))] + hist_out_fields(rng)), nin, nout
    if kind.startswith("gi"):
        if nin == 0:
            return None
        fld = kind[2:]
        val = {"vo": lambda: str(r32(rng)), "sq": lambda: str(r32(rng)), "sa": lambda: str(r64(rng)),
               "id": lambda: hist_id(rng), "us": lambda: good_script(rng, 1, rng.randrange(0, 3)).hex(),
               "ls": lambda: lock_script(rng) if rng.random() < 0.5 else "76a914+r:11:20+88ac"}[fld]()
        return "gi,%d,%s,%s" % (rng.randrange(nin), fld, val), nin, nout
    return kind, nin, nout          # cl / ob


HIST_KINDS = ["sv", "svc", "sl", "slc", "ai", "pi", "ii", "si", "ao", "po", "io", "so",
              "givo", "gisq", "gisa", "giid", "gius", "gils", "cl", "ob"]


def hist_base(rng, nin, nout):
    ins = [In(hist_id(rng), r32(rng), good_script(rng, 1, rng.randrange(0, 3)).hex(), r32(rng)) for _ in range(nin)]
    outs = [Out(r64(rng, True), good_script(rng, 1, rng.randrange(0, 3)).hex()) for _ in range(nout)]
    return tx_wire(r32(rng), ins, outs, r32(rng))


def hist_case(rng, base, nin, nout, kinds):
    steps = []
    for k in kinds:
        r = hist_step(rng, k, nin, nout)
        if r is None:
            continue
        st, nin, nout = r
        steps.append(st)
    return ("tx.mutate", [base] + steps)


ALT = ["bulk", "default", "prepend", "insert", "set", "clone"]


def sha256d(b):
    return hashlib.sha256(hashlib.sha256(b).digest()).digest()


def txid_with(pred, tries=200000):
    """a small transaction whose id (display order) satisfies pred, found by varying the lock time"""
    for lt in range(tries):
        raw = bytes.fromhex("01000000" + "00" + "01" + le(lt * 7 + 1, 8) + "0151" + le(lt, 4))
        if pred(sha256d(raw)[::-1]):
            return raw.hex()
    return None


FIXED = [
    # tests/transaction.rs
    "01000000029e8d016a7b0dc49a325922d05da1f916d1e4d4f0cb840c9727f3d22ce8d1363f000000008c493046022100e9318720bee5425378b4763b0427158b1051eec8b08442ce3fbfbf7b30202a44022100d4172239ebd701dae2fbaaccd9f038e7ca166707333427e3fb2a2865b19a7f27014104510c67f46d2cbb29476d1f0b794be4cb549ea59ab9cc1e731969a7bf5be95f7ad5e7f904e5ccf50a9dc1714df00fbeb794aa27aaff33260c1032d931a75c56f2ffffffffa3195e7a1ab665473ff717814f6881485dc8759bebe97e31c301ffe7933a656f020000008b48304502201c282f35f3e02a1f32d2089265ad4b561f07ea3c288169dedcf2f785e6065efa022100e8db18aadacb382eed13ee04708f00ba0a9c40e3b21cf91da8859d0f7d99e0c50141042b409e1ebbb43875be5edde9c452c82c01e3903d38fa4fd89f3887a52cb8aea9dc8aec7e2c9d5b3609c03eb16259a2537135a1bf0f9c5fbbcbdbaf83ba402442ffffffff02206b1000000000001976a91420bb5c3bfaef0231dc05190e7f1c8e22e098991e88acf0ca0100000000001976a9149e3e2d23973a04ec1b02be97c30ab9f2f27c3b2c88ac00000000",
    "01000000010000000000000000000000000000000000000000000000000000000000000000ffffffff63038d361604747a77610840000000230000004e2f686f77206c6f6e672063616e207468697320626520746573742074657374206170706172656e746c7920707265747479206c6f6e67206f6b20776f772031323334353637383930313220f09fa68d2f0000000001c817a804000000001976a91454b34b1ba228ba1d75dca5a40a114dc0f13a268788ac00000000",
    # genesis coinbase
    "01000000010000000000000000000000000000000000000000000000000000000000000000ffffffff4d04ffff001d0104455468652054696d65732030332f4a616e2f32303039204368616e63656c6c6f72206f6e206272696e6b206f66207365636f6e64206261696c6f757420666f722062616e6b73ffffffff0100f2052a01000000434104678afdb0fe5548271967f1a67130b7105cd6a828e03909a67962e0ea1f61deb649f6bc3f4cef38c4f35504e51ec112de5c384df7ba0b8d578a4c702b6bf11d5fac00000000",
]


def generate(rng, tier):
    thorough = tier == "thorough"
    cases = []
    P = lambda d: cases.append(("tx.parse", [d]))
    A = lambda op, *args: cases.append((op, [str(a) for a in args]))

    # ---------------------------------------------------------------- fixed
    for h in FIXED:
        P(h)
        P(h + "00")                      # trailing byte
        P(h[:-2])                        # one byte short
    for h in ["", "00", "01000000", "0100000000", "010000000000", "01000000000000000000", "0100000000000000000000",
              "02000000" + "00" + "00" + "ffffffff", "02000000" + "fd0000" + "fe00000000" + "00000000",
              "02000000" + "ff0000000000000000" + "00" + "00000000"]:
        P(h)

    # ---------------------------------------------------------------- structured, mostly valid
    nstruct = 3000 if thorough else 330
    for k in range(nstruct):
        r = rng.random()
        if r < 0.7:
            nin, nout = rng.randrange(0, 4), rng.randrange(0, 4)
        elif r < 0.95:
            nin, nout = rng.randrange(0, 12), rng.randrange(0, 12)
        else:
            nin, nout = rng.randrange(10, 41), rng.randrange(10, 41)
        cb = rng.random() < 0.12
        if nin + nout > 20:
            ins = [In("l:%d:32" % rng.randrange(1, 2 ** 31), r32(rng), good_script(rng, 1, rng.randrange(0, 2)).hex(), r32(rng)) for _ in range(nin)]
            outs = [Out(r64(rng, True), good_script(rng, 1, rng.randrange(0, 2)).hex()) for _ in range(nout)]
        else:
            ins = [rand_in(rng) for _ in range(nin)]
            outs = [rand_out(rng, small=rng.random() < 0.8) for _ in range(nout)]
        if cb:
            if rng.random() < 0.7:
                ins = [rand_in(rng, True)]
            else:
                ins.insert(rng.randrange(len(ins) + 1), rand_in(rng, True))
        ver, lt = r32(rng), r32(rng)
        w = tx_wire(ver, ins, outs, lt)
        P(w)
        m = rng.random()
        raw = None
        if m < 0.45:
            raw = expand_py(w)
        if raw is not None and len(raw) <= 600:
            mm = rng.random()
            if mm < 0.3 and len(raw) > 0:
                P(raw[: rng.randrange(len(raw))].hex())
            elif mm < 0.6 and len(raw) > 0:
                t = bytearray(raw); t[rng.randrange(len(t))] = rng.randrange(256); P(bytes(t).hex())
            elif mm < 0.7:
                t = bytearray(raw); t[rng.randrange(len(t))] ^= 1 << rng.randrange(8); P(bytes(t).hex())
            elif mm < 0.8:
                P(w + "+" + bytes(rng.randrange(256) for _ in range(rng.randrange(1, 5))).hex())
            elif mm < 0.9 and len(raw) > 1:
                k0 = rng.randrange(len(raw)); P((raw[:k0] + raw[k0 + 1:]).hex())
            else:
                k0 = rng.randrange(len(raw) + 1); P((raw[:k0] + bytes([rng.randrange(256)]) + raw[k0:]).hex())
        if rng.random() < 0.3 and len(ins) + len(outs) <= 16:
            # the same fields through the construction API (ids given in display order)
            bi = [In(expand_py(i.id)[::-1].hex(), i.vout, i.script, i.seq) for i in ins]
            A("tx.build", *flat_build_args(ver, bi, outs, lt, rng))
            A("tx.build_alt", rng.choice(ALT), *flat_build_args(ver, bi, outs, lt, rng))
            if rng.random() < 0.6 and bi:
                # ... and with signer annotations on a random subset of the inputs
                A("tx.build_ext", *ext_build_args(ver, bi, outs, lt, rng))
        if rng.random() < 0.12 and ins:
            i = rng.choice(ins); iw = in_wire(i)
            A("txin.parse", iw)
            if rng.random() < 0.5:
                A("txin.parse", iw + "+" + "ab" * rng.randrange(1, 3))
            elif dlen(iw) <= 300:
                b = expand_py(iw); A("txin.parse", b[: rng.randrange(len(b))].hex())
        if rng.random() < 0.12 and outs:
            o = rng.choice(outs); ow = out_wire(o)
            A("txout.parse", ow)
            if rng.random() < 0.5:
                A("txout.parse", ow + "+" + "cd" * rng.randrange(1, 3))
            elif dlen(ow) <= 300:
                b = expand_py(ow); A("txout.parse", b[: rng.randrange(len(b))].hex())

    # ---------------------------------------------------------------- counts across the compact-size boundaries (uniform runs)
    # an all-zero input is 41 zero bytes (id 0, vout 0, empty script, sequence 0); an all-zero output is 9 zero bytes
    # (the Gallina readers re-measure the remaining input on every field read, so the model is quadratic in the
    # item count: 65 536 items do not finish; the 5-byte compact-size class is reached through script lengths instead)
    counts = [252, 253, 254, 300] + ([255, 256, 1000, 4000] if thorough else [])
    for n in counts:
        P(join(["02000000" + cs(n), "r:00:%d" % (41 * n), "00" + "00000000"]))
        P(join(["02000000" + "00" + cs(n), "r:00:%d" % (9 * n), "00000000"]))
        P(join(["02000000" + "00" + cs(n), "r:00:%d" % (9 * n - 1)]))                 # one output short
        P(join(["02000000" + "00" + cs(n + 1), "r:00:%d" % (9 * n), "00000000"]))     # count one too high
        if n <= 1000:
            # outputs "value 0x51..51, 81 x OP_1": 90 bytes 0x51 each; the total overflows u64 from the 4th output on
            P(join(["02000000" + "00" + cs(n), "r:51:%d" % (90 * n), "00000000"]))
            # non-minimal count encodings
            for wd in (3, 5, 9):
                if cs(n, wd) != cs(n):
                    P(join(["02000000" + "00" + cs(n, wd), "r:00:%d" % (9 * n), "00000000"]))
    for n in [0, 1, 2, 3, 4, 5]:
        P(join(["01000000" + "00" + cs(n), "r:51:%d" % (90 * n) if n else "", "00000000"]))
        for wd in (3, 5, 9):
            P(join(["01000000" + cs(n, wd), "r:00:%d" % (41 * n) if n else "", cs(n, wd), "r:00:%d" % (9 * n) if n else "", "00000000"]))
    # mixed: explicit items around a uniform run
    for n in [250, 251, 252]:
        i1 = In("l:7:32", 1, "51", 0xffffffff)
        o1 = Out(1000, "76a988ac")
        P(join(["01000000" + cs(n + 2), in_wire(i1), "r:00:%d" % (41 * n), in_wire(i1), cs(n + 1), "r:00:%d" % (9 * n), out_wire(o1), "00000000"]))

    # ---------------------------------------------------------------- script lengths across the boundaries
    lens = [0, 1, 75, 76, 252, 253, 254, 255, 256, 1000] + ([65535, 65536] if not thorough else [65535, 65536, 65537, 100000])
    for n in lens:
        forms = ["r:51:%d" % n if n else ""]
        if n >= 4 and n <= 65535 + 3:
            forms.append("4d" + le(n - 3, 2) + "+l:%d:%d" % (rng.randrange(1, 1000), n - 3))
        if n >= 6 and n >= 1000:
            forms.append("4e" + le(n - 5, 4) + "+l:%d:%d" % (rng.randrange(1, 1000), n - 5))
        big = n >= 65535
        for fi, s in enumerate(forms):
            if big and fi > 0 and not thorough:
                continue
            P(tx_wire(1, [In("l:3:32", 0, s, 0xfffffffe)], [Out(1, "51")], 0))
            if not big or thorough:
                P(tx_wire(1, [In("l:3:32", 0, "", 0)], [Out(2 ** 64 - 1, s)], 0xffffffff))
                A("txin.parse", in_wire(In("l:4:32", 7, s, 5)))
                A("txout.parse", out_wire(Out(12345, s)))
                P(tx_wire(1, [In("r:00:32", 0xffffffff, "l:9:%d" % n if n else "", 0)], [Out(1, "51")], 0))    # coinbase data of this length
        if not big:
            for wd in (3, 5, 9):
                if cs(n, wd) != cs(n):
                    P(tx_wire(1, [In("l:3:32", 0, forms[0], 0, wd)], [Out(1, forms[0], wd)], 0))
                    A("txout.parse", out_wire(Out(1, forms[0], wd)))
            # declared length one more / one less than present
            P(join(["01000000" + "01", "l:3:32", "00000000" + cs(n + 1), forms[0], "00000000" + "00" + "00000000"]))
            if n:
                P(join(["01000000" + "00" + "01" + "0000000000000000" + cs(n - 1), forms[0], "00000000"]))
            A("tx.build", 1, 0, 1, 1, "l:3:32", 0, forms[0], 0, 1, forms[-1] if not (n >= 1000 and len(forms) > 2) else forms[1])
    # extreme declared counts / lengths
    for ext in [0xfc, 0xfd, 0xffff, 0x10000, 0xffffffff, 0x100000000, 2 ** 63, 2 ** 64 - 1]:
        for wd in (3, 5, 9):
            if ext < (1 << (8 * (wd - 1))):
                P("01000000" + cs(ext, wd))
                P("01000000" + cs(ext, wd) + "00" * 50)
                P("01000000" + "00" + cs(ext, wd) + "00" * 30)
                P("01000000" + "01" + "00" * 36 + cs(ext, wd) + "51" * 10)
                P("01000000" + "00" + "01" + "00" * 8 + cs(ext, wd) + "51" * 10)
                A("txin.parse", "00" * 36 + cs(ext, wd) + "51" * 10)
                A("txout.parse", "00" * 8 + cs(ext, wd) + "51" * 10)

    # ---------------------------------------------------------------- every truncation of one transaction that uses every feature
    base_ins = [In("l:11:32", 1, "4c03010203" + "63516768", 0xfffffffd), In("r:00:32", 0xffffffff, "03aabbcc05", 7)]
    base_outs = [Out(5000000000, "76a914" + "11" * 20 + "88ac"), Out(0, "006a0401020304")]
    base = expand_py(tx_wire(2, base_ins, base_outs, 500000))
    for k in range(len(base) + 1):
        P(base[:k].hex())
    if thorough:
        for k in range(len(base)):
            for bit in range(8):
                t = bytearray(base); t[k] ^= 1 << bit; P(bytes(t).hex())
    else:
        for k in range(len(base)):
            t = bytearray(base); t[k] ^= 1 << rng.randrange(8); P(bytes(t).hex())

    # ---------------------------------------------------------------- coinbase detection
    for idd, vo in [("r:00:32", 0xffffffff), ("r:00:32", 0xfffffffe), ("r:00:31+01", 0xffffffff), ("01+r:00:31", 0xffffffff), ("r:00:32", 0)]:
        for s in ["", "0501", "ff", "4c", "6a", "63", "03aabbcc"]:
            P(tx_wire(1, [In(idd, vo, s, 0xffffffff)], [Out(5000000000, "51")], 0))
            A("txin.parse", in_wire(In(idd, vo, s, 0xffffffff)))
        P(tx_wire(1, [In(idd, vo, "51", 0), In("l:5:32", 0, "51", 0)], [Out(1, "51")], 0))
        P(tx_wire(1, [In(idd, vo, "ff", 0), In(idd, vo, "ff", 1)], [], 0))
        A("tx.build", 1, 0, 1, 0, expand_py(idd).hex(), vo, "ff0501", "-")
        A("txin.outpoint", expand_py(idd)[::-1].hex() + le(vo, 4))

    # ---------------------------------------------------------------- truncated direct push inside a transaction (C02's class)
    for s in ["0501", "05", "4b", "510201", "63680501"]:
        P(tx_wire(1, [In("l:3:32", 0, s, 0)], [Out(1, "51")], 0))
        P(tx_wire(1, [In("l:3:32", 0, "51", 0)], [Out(1, s)], 0))
        A("txin.parse", in_wire(In("l:3:32", 0, s, 0)))
        A("txout.parse", out_wire(Out(1, s)))
        A("tx.build", 1, 0, 1, 1, "l:3:32", 0, s, 0, 1, "51")

    # ---------------------------------------------------------------- output totals around 2^64
    for vals in [[2 ** 64 - 1], [2 ** 64 - 1, 0], [2 ** 64 - 1, 1], [2 ** 63, 2 ** 63], [2 ** 63, 2 ** 63 - 1], [2 ** 63 - 1, 2 ** 63 - 1, 1],
                 [2 ** 63 - 1, 2 ** 63 - 1, 2], [2 ** 64 - 1] * 3, [1, 2 ** 64 - 1], [0, 0, 2 ** 64 - 1, 0, 1], [21 * 10 ** 14] * 5]:
        P(tx_wire(1, [In("l:3:32", 0, "", 0)], [Out(v, "51") for v in vals], 0))
    for _ in range(60 if thorough else 12):
        vals = [rng.choice([2 ** 62, 2 ** 63, 2 ** 64 - 1, rng.randrange(U64)]) for _ in range(rng.randrange(1, 6))]
        P(tx_wire(1, [], [Out(v, "") for v in vals], 0))

    # ---------------------------------------------------------------- construction API, ids of any length, default sequence
    for idlen in [0, 1, 31, 32, 33, 64]:
        A("tx.build", 2, 9, 1, 1, "l:8:%d" % idlen if idlen else "", 3, "0151", "-", 1000, "76a988ac")
    A("tx.build", 0, 0, 0, 0)
    A("tx.build", 4294967295, 4294967295, 0, 0)
    for n in [252, 253] + ([300] if thorough else []):
        A("tx.build", 1, 0, 0, n, *sum([["%d" % k, "51"] for k in range(n)], []))
        A("tx.build", 1, 0, n, 0, *sum([["l:%d:32" % (k + 1), "%d" % k, "", "-"] for k in range(n)], []))

    # ---------------------------------------------------------------- construction API with the extended-format annotations
    # (set_locking_script / set_satoshis before add_input, or through get_input / set_input afterwards)
    for mode in "ab":
        for lock in ["-", "", "51", "76a914+r:11:20+88ac", "r:51:252", "r:51:253", "4d0001+l:5:256", "6351675268"]:
            for sat in ["-", "0", "18446744073709551615"]:
                if lock == "-" and sat == "-" and mode == "a":
                    continue
                for scr in (["", "483045+l:9:70", "r:51:250"] if sat == "-" else ["0151"]):
                    A("tx.build_ext", 1, 0, 1, 1, "l:3:32", 1, scr, "-", lock, sat, mode, 1000, "76a914+r:22:20+88ac")
    A("tx.build_ext", 2, 0, 3, 1, "l:3:32", 0, "", 0, "76a914+r:11:20+88ac", 5000, "b", "l:4:32", 1, "0151", "-", "-", "-", "b",
      "l:5:32", 2, "", 4294967294, "76a914+r:33:20+88ac", 7000, "a", 11000, "76a914+r:22:20+88ac")
    A("tx.build_ext", 1, 0, 1, 1, "l:3:32", 1, "0151", "-", "r:51:70000", 1, "b", 1000, "51")                # very long locking script
    A("tx.build_ext", 1, 0, 1, 1, "l:3:32", 1, "0151", "-", "r:51:70000", "-", "a", 1000, "51")
    A("tx.build_ext", 1, 0, 1, 0, "r:00:32", 4294967295, "03aabbcc", "-", "51", 5000000000, "b")        # annotated coinbase input
    A("tx.build_ext", 1, 0, 1, 1, "l:3:32", 0, "51", 0, "0501", "-", "b", 1, "51")                     # locking script from C02's class
    A("tx.build_ext", 1, 0, 1, 1, "l:3:32", 0, "51", 0, "63", "-", "b", 1, "51")                       # not a script
    for _ in range(400 if thorough else 30):
        nin = rng.randrange(1, 6)
        ins = [In(bytes(rng.randrange(256) for _ in range(32)).hex() if rng.random() < 0.3 else "l:%d:32" % rng.randrange(1, 2 ** 31),
                  r32(rng), good_script(rng).hex(), r32(rng)) for _ in range(nin)]
        outs = [Out(r64(rng, True), good_script(rng).hex()) for _ in range(rng.randrange(0, 3))]
        A("tx.build_ext", *ext_build_args(r32(rng), ins, outs, r32(rng), rng, 0.8))

    # ---------------------------------------------------------------- the other public routes to the same transaction
    alt_cases = [
        (1, 0, [], []),
        (2, 5, [In("l:3:32", 1, "0151", 0xffffffff)], [Out(1000, "76a988ac")]),
        (0x80000000, 0xff000000, [In("l:3:32", 0x80000000, "", 0x80), In("00" * 31 + "80", 0xff, "51", 0xffffffff)],
         [Out(2 ** 63, "51"), Out(0xff, "")]),
        (4294967295, 4294967295, [In("l:4:32", 0, "0151", 7), In("l:5:32", 1, "", 0xffffffff), In("l:6:32", 2, "r:51:253", 0)],
         [Out(1, "51"), Out(2 ** 64 - 1, "r:51:252"), Out(3, "")]),
        (1, 0, [In("r:00:32", 0xffffffff, "03aabbcc", 0xffffffff)], [Out(5000000000, "51")]),
        (1, 0, [In("l:3:32", 0, "0501", 0)], [Out(1, "51")]),
    ]
    for (ver, lt, ins, outs) in alt_cases:
        A("tx.build", *flat_build_args(ver, ins, outs, lt))
        for v in ALT:
            A("tx.build_alt", v, *flat_build_args(ver, ins, outs, lt))
            A("tx.build_alt", v, *flat_build_args(ver, ins, outs, lt, rng))

    # ---------------------------------------------------------------- compact sizes with the top bit of the payload set
    for n in [127, 128, 32767, 32768, 32769, 49152]:
        s1 = "r:51:%d" % n
        big = n > 1000
        if not big or n in (32767, 32768) or thorough:
            P(tx_wire(1, [In("l:3:32", 0, s1, 0xfffffffe)], [Out(1, "51")], 0))
        if not big or n in (32769, 49152) or thorough:
            P(tx_wire(1, [In("l:3:32", 0, "", 0)], [Out(2 ** 63, s1)], 0x80000000))
        if not big or n == 32768 or thorough:
            A("txin.parse", in_wire(In("l:4:32", 0x80000000, s1, 0x80)))
            A("txout.parse", out_wire(Out(2 ** 63 + 1, s1)))
            A("tx.build", 1, 0, 1, 1, "l:3:32", 0, s1, 0, 1, "51")
        if not big or thorough:
            P(tx_wire(1, [In("r:00:32", 0xffffffff, "l:9:%d" % n, 0)], [Out(1, "51")], 0))
    for ext in [0x7f, 0x80, 0xff, 0x7fff, 0x8000, 0xffff, 0x7fffffff, 0x80000000, 0xffffffff, 2 ** 63 - 1, 2 ** 63, 2 ** 64 - 1]:
        A("varint.write", ext); A("varint.bytes", ext)
        for wd in (1, 3, 5, 9):
            if ext < (1 << (8 * (wd - 1))) and not (wd == 1 and ext > 252):
                A("varint.read", cs(ext, wd))
                A("varint.read", cs(ext, wd) + "ff")
                if wd > 1:
                    # as an input count, an output count, a script length (not enough data follows: must be rejected, not misread)
                    P("01000000" + cs(ext, wd) + "00" * 45)
                    P("01000000" + "00" + cs(ext, wd) + "00" * 12)
                    P("01000000" + "01" + "00" * 36 + cs(ext, wd) + "51" * 3 + "00000000" + "00" + "00000000")
                    A("txin.parse", "11" * 36 + cs(ext, wd) + "51" * 3 + "00000000")
                    A("txout.parse", "11" * 8 + cs(ext, wd) + "51" * 3)
    # (a count of 32768+ items cannot be run: the Gallina readers are quadratic in the item count — 32768 outputs do not
    #  finish in 15 minutes.  The same reader/writer functions are exercised with top-bit payloads as script lengths and
    #  through varint.read/write above; as counts only in the rejecting direction.)

    # ---------------------------------------------------------------- script lengths in further residue classes mod 256
    for n in [257, 511, 512, 513, 767, 1023, 1024, 1279]:
        s1 = "r:51:%d" % n
        P(tx_wire(1, [In("l:3:32", 0, s1, 1)], [Out(1, s1)], 0))
        A("tx.build", 1, 0, 1, 1, "l:3:32", 0, s1, 0, 1, s1)

    # ---------------------------------------------------------------- transaction ids with leading / trailing zero bytes
    for pred in [lambda h: h[0] == 0, lambda h: h[-1] == 0, lambda h: h[0] == 0 and h[1] == 0, lambda h: h[0] >= 0x80 and h[-1] >= 0x80 and h[1] == 0]:
        h = txid_with(pred)
        if h:
            P(h)

    # ---------------------------------------------------------------- call histories on one Transaction object (tx.mutate)
    # observe; observe again; observe a clone; then after every public mutator in turn; compare with a fresh parse
    bases = [(hist_base(rng, 2, 2), 2, 2), (hist_base(rng, 1, 1), 1, 1), (FIXED[1], 1, 1), (hist_base(rng, 0, 0), 0, 0)]
    for (base, ni, no) in bases[:3]:
        for k in HIST_KINDS:
            cases.append(hist_case(rng, base, ni, no, [k]))              # every mutator alone, right after the first reads
    for k in ["sv", "svc", "sl", "slc", "ai", "ao", "cl", "ob"]:
        cases.append(hist_case(rng, bases[3][0], 0, 0, [k]))
    for k1 in ["sv", "svc", "sl", "slc"]:
        for k2 in ["sv", "sl", "svc", "slc", "ai", "ao", "gisq", "cl"]:
            cases.append(hist_case(rng, bases[0][0], 2, 2, [k1, k2]))    # header edit followed by another edit, and the reverse
            cases.append(hist_case(rng, bases[0][0], 2, 2, [k2, k1]))
    for _ in range(600 if thorough else 60):
        ni, no = rng.randrange(0, 4), rng.randrange(0, 4)
        cases.append(hist_case(rng, hist_base(rng, ni, no), ni, no, [rng.choice(HIST_KINDS) for _ in range(rng.randrange(1, 6))]))
    cases.append(("tx.mutate", [FIXED[0], "sl,500000", "gi,1,sq,0", "sv,2", "so,0,1000,76a914+r:11:20+88ac"]))
    cases.append(("tx.mutate", [FIXED[0] + "00", "sl,1"]))                                           # trailing byte: non-canonical start
    cases.append(("tx.mutate", [tx_wire(1, [In("l:3:32", 0, "0501", 0)], [Out(1, "51")], 0), "sv,2"]))   # C02's class
    cases.append(("tx.mutate", [tx_wire(1, [In("l:3:32", 0, "51", 0)], [Out(2 ** 63, "51")], 0), "ao,9223372036854775808,51", "sl,7"]))  # total reaches 2^64
    cases.append(("tx.mutate", [hist_base(rng, 1, 1), "ao,1,63"]))                                   # not a script
    cases.append(("tx.mutate", [hist_base(rng, 1, 1)]))

    # ---------------------------------------------------------------- outpoints
    for d in ["", "00", "r:00:35", "r:00:36", "r:00:37", "l:5:36", "l:6:36", "r:ff:36", "l:7:35", "l:7:37", "l:7:72"]:
        A("txin.outpoint", d)

    # ---------------------------------------------------------------- compact sizes
    vs = [0, 1, 2, 127, 128, 251, 252, 253, 254, 255, 256, 257, 300, 65534, 65535, 65536, 65537, 2 ** 24, 2 ** 31, 2 ** 32 - 2, 2 ** 32 - 1, 2 ** 32, 2 ** 32 + 1,
          2 ** 40, 2 ** 63 - 1, 2 ** 63, 2 ** 64 - 2, 2 ** 64 - 1]
    vs += [rng.randrange(1 << rng.choice([8, 16, 17, 32, 33, 64])) for _ in range(200 if thorough else 40)]
    for v in vs:
        A("varint.write", v)
        A("varint.bytes", v)
        A("varint.read", cs(v))
        for wd in (3, 5, 9):
            if v < (1 << (8 * (wd - 1))):
                A("varint.read", cs(v, wd) + ("" if rng.random() < 0.5 else "aabb"))
    for h in ["", "fc", "fd", "fd00", "fd0000", "fe", "fe000000", "fe00000000", "ff", "ff00000000000000", "ff0000000000000000", "ffffffffffffffffff", "fdffff", "feffffffff",
              "fdfc00", "fdfd00", "fe0000010000", "feffff0000", "ff0000000001000000", "ffffffffff00000000"]:
        A("varint.read", h)
    if thorough:
        for b in range(256):
            A("varint.read", "%02x" % b)
            A("varint.read", "%02x0102030405060708" % b)
    return cases


def nontrivial(case, impl_out):
    return impl_out.startswith("OK")


def neighbours(case, rng):
    op, args = case
    out = []
    if op in ("tx.parse", "txin.parse", "txout.parse", "varint.read") and args and all(c in "0123456789abcdef" for c in args[0]):
        h = args[0]
        for k in range(0, len(h), 2):
            out.append((op, [h[:k]]))
    return out[:200]


def search_cases(rng, broken):
    """systematic probes independent of the failing case: every compact-size boundary in every position"""
    out = []
    for n in [0, 1, 252, 253, 254, 255, 256, 65535, 65536, 65537, 2 ** 32 - 1, 2 ** 32, 2 ** 64 - 1]:
        out.append(("varint.write", [str(n)]))
        out.append(("varint.bytes", [str(n)]))
        out.append(("varint.read", [cs(n)]))
    for n in [0, 1, 2, 252, 253, 254, 300]:
        out.append(("tx.parse", [join(["02000000" + cs(n), "r:00:%d" % (41 * n) if n else "", "00" + "00000000"])]))
        out.append(("tx.parse", [join(["02000000" + "00" + cs(n), "r:00:%d" % (9 * n) if n else "", "00000000"])]))
        s = "r:51:%d" % n if n else ""
        out.append(("tx.parse", [tx_wire(1, [In("l:3:32", 1, s, 2)], [Out(3, s)], 4)]))
        out.append(("tx.build", ["1", "4", "1", "1", "l:3:32", "1", s, "2", "3", s]))
        for mode in "ab":
            out.append(("tx.build_ext", ["1", "4", "1", "1", "l:3:32", "1", s, "2", "76a914+r:11:20+88ac", "5", mode, "3", s]))
    for v in EDGE32:
        out.append(("tx.parse", [tx_wire(v, [In("l:3:32", v, "51", v)], [Out(v * 4294967297, "51")], v)]))
        out.append(("tx.build", [str(v), str(v), "1", "1", "l:3:32", str(v), "51", str(v), str(v * 4294967297), "51"]))
    return out
