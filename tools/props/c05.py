"""C05 — case generator: ECDSA signing / verification / ECDH."""
from . import _secp as S

ID = "C05"
EXTRA_TARGETS = ["Proofs/EcdsaRefine.vo", "Proofs/EcdsaAbstractInst.vo"]
LEVEL = "partial"
RULE = ("messages a text normalisation would change (UTF-8 BOM, leading/trailing blank, tab, LF, CR LF, NUL, letter case, NFC/NFD) with their normalised variants through every signing entry point (exact RFC 6979 value) and every verifier (M accepted, variant refused, both directions); CROSS PRODUCT every way a signature is produced (deterministic x hash x reverse_k, sign_message, caller nonce x hash, digest signing x hash, randomised x hash x reverse_k: 13 ways) x every verification entry point (ECDSA::verify_digest, verify_hashbuf, Signature::verify_message, PublicKey::verify_message, is_valid_message) with the other-hash clause for every pair and same / other message / other key rotating (all four in the thorough tier); every public function of src/ecdsa/*.rs, PrivateKey::sign_message, Signature::verify_message, PublicKey::verify_message / "
        "is_valid_message and the r/s accessors is reached by some op; every hash x reverse_k x signing entry point on the empty and "
        "the one-byte message; messages in all length bands up to 1000; signer / nonce-key compression markers in all four "
        "combinations; signature objects with and without recovery info through the verifier; private_key_from_signature_k for small "
        "and large keys and nonces and both public-key forms; "
        "deterministic members of the leading-zero-byte value class (shared ECDH x, r, s, digest, private key starting with 00; nonces k with x(kG) < 2^248 and < 2^240; digests >= n) in every op that carries such a field; keys {1, 2, 3, n-1, n-2, 2^255, 2^255-1, n/2, n/2+1, random} (and rejected ones: 0, n, n+1, 2^256-1, 31/33 bytes) x "
        "messages of length 0..200 (incl. 55/56/64 and long LCG streams) x {sha256, sha256d} x reverse_k x compression for every "
        "signing entry point (deterministic, sign_message, caller nonce incl. k in {1, 2, n-1}, pre-hashed digest incl. 0, n, 2^256-1 "
        "and wrong lengths, randomised nonce); sign-then-verify with the same and with another key / message / hash / compression; "
        "raw verification of signatures made by an independent Python ECDSA (valid, high-S twin, bit flips in r, s, message, key, "
        "r or s out of range, invalid public keys incl. off-curve and identity encodings); ECDH pairs and raw ECDH; "
        "non-trivial = the model returns a value; distinct by (op, arguments)")
TRUSTED = ["hand-written Gallina model coq/Model/Ecdsa.v of src/ecdsa/{sign,verify,ecdh}.rs, PrivateKey::sign_message, "
           "Signature::verify_message (tied by this correspondence run)",
           "coq/Prim/Secp256k1.v, Prim/Rfc6979.v as transcriptions of k256 0.10.4 / rfc6979 0.1.0 / elliptic-curve 0.11 "
           "(tied by this run; anchored by published secp256k1 / RFC 6979 known answers proved by vm_compute)",
           "GROUP HYPOTHESES (premise `secp256k1_group` of the verification / ECDH / recovery theorems, Proofs/EcdsaSecp.v), three "
           "statements about the valid points (on-curve, coordinates in [0,p)) of Prim/Secp256k1.v: padd is "
           "associative; smul (a+b) P = padd (smul a P) (smul b P); smul (a*b) P = smul a (smul b P).  No longer hypotheses, "
           "PROVED for the concrete formulas in Proofs/SecpGroupPartial.v: closure of padd, pneg and smul, commutativity of padd, "
           "padd P (pneg P) = None, smul 1 P = P, yodd (pneg P) = negb (yodd P) (no curve point has y = 0: -7 is not a cube mod p), "
           "lift_x (xcoord P) (yodd P) = Some P, and smul a G = None -> a mod n = 0 (from the two scalar laws, n*G = None by evaluation "
           "and n prime); p and n prime: Proofs/SecpPrimes.v (Pratt certificates checked inside Coq)",
           "execution runs the BigZ instance (Uint63 primitives); Proofs/Secp256k1Refine.v proves it equal to the Z instance"]
ASSUMPTIONS = ["'fails to verify for a different message, hash choice or key' is only sampled (it needs collision resistance of SHA-256 "
               "and the discrete-log structure of the group): ops ecdsa.sign_verify with another key / message / hash / negated key, and "
               "mutated (r, s, message, key) in the raw verify ops; the related proved fact is C06_recover_other_z (recovery with "
               "z' <> z mod n does not give the signer's key)",
               "the 'verifies' and ECDH theorems are conditional on the explicit premise secp256k1_group (see trusted_base); low-S, "
               "ranges and equality with RFC 6979 + ECDSA are unconditional",
               "the OS entropy of sign_with_random_k is an explicit argument of the model (theorems hold for every value); the run "
               "compares behaviour (verifies, low-S, in range, recovers) for one model entropy per case",
               "rfc6979 retry loop: the model gives up after 16 candidates (probability 2^-2048); theorems are stated for successful runs"]

N = S.N
KEYS = [1, 2, 3, N - 1, N - 2, 2 ** 255, 2 ** 255 - 1, N // 2, N // 2 + 1]
BADKEYS = ["00" * 32, S.h32(N), S.h32(N + 1), "ff" * 32, "00" * 31, "00" * 32 + "01", ""]
HASHES = ["sha256", "sha256d"]

# ---- the "leading zero byte" value class, found once by search with _secp.py and re-asserted at generation time ----
# key pairs whose shared x coordinate x((a*b) G) starts with one / two zero bytes (the first four as in tools/props/c11.py)
LEADING_ZERO_PAIRS = [
    (0x300000000000000000000000000000000000000000000000000000000000001f, 0x2222222222222222222222222222222222222222222222222222222222222222),
    (0x400000000000000000000000000000000000000000000000000000000001017c, 0x2222222222222222222222222222222222222222222222222222222222222222),
    (0x30000000000000000000000000000000000000000000000000000000000000ab, 0x1111111111111111111111111111111111111111111111111111111111111111),
    (0x400000000000000000000000000000000000000000000000000000000001db9a, 0x1111111111111111111111111111111111111111111111111111111111111111),
    (9, 17), (6, 41), (1158, 1), (13, 3433),
]
# nonces k with r = x(kG) < 2^248 (one zero byte; the last two: two zero bytes); y(kG) even for 153, 246, odd for the others
LZ_NONCES = [153, 246, 1158, 1417, 44629, 58165]
# a private key with a leading zero byte
LZ_KEY = 0x00c0ffee00000000000000000000000000000000000000000000000000001234
# (key, message, double-hash, what has a leading zero byte) for the deterministic signer
LZ_DET = [(1, b"lz62", False, "r"), (1, b"lz49", False, "s"), (LZ_KEY, b"lz81", False, "r"), (LZ_KEY, b"lz190", False, "s"),
          (1, b"lz37", True, "r"), (1, b"lz56", True, "s"), (LZ_KEY, b"lz210", True, "r"), (LZ_KEY, b"lz10", True, "s")]
# (key, nonce, message): r and s both with a leading zero byte
LZ_SIGN_K = [(LZ_KEY, 153, b"lz266"), (LZ_KEY, 1158, b"lz92")]
# messages whose SHA-256 / double SHA-256 starts with a zero byte; message with a leading-zero s in reversed-nonce mode (key 1)
LZ_DIGEST_MSG, LZ_DIGEST_MSG_D, LZ_RK_MSG = b"lz372", b"lz637", b"lz135"


def lzb(v):
    return (256 - v.bit_length()) // 8


WAYS = [("det", "sha256", 0), ("det", "sha256", 1), ("det", "sha256d", 0), ("det", "sha256d", 1), ("msg", "sha256", 0),
        ("k", "sha256", 0), ("k", "sha256d", 1), ("dig", "sha256", 0), ("dig", "sha256d", 0),
        ("rnd", "sha256", 0), ("rnd", "sha256", 1), ("rnd", "sha256d", 0), ("rnd", "sha256d", 1)]
VERIFIERS = ["vd", "vh", "sm", "pm", "pv"]


def way_aux(rng, signer):
    if signer == "k":
        return S.h32(rkey(rng))
    if signer == "rnd":
        return "l:%d:32" % rng.randrange(1, 2 ** 31)
    return "00"


def cross_cases(A, rng, thorough):
    """every way a signature is produced x every verification entry point x {other hash choice, same, other message, other key}
    (quick tier: the other-hash clause for every pair, the remaining clauses rotating over the pairs)"""
    H = S.h32
    other = lambda h: "sha256d" if h == "sha256" else "sha256"
    idx = 0
    for (signer, h, rk) in WAYS:
        for vf in VERIFIERS:
            d = rkey(rng) if idx % 3 else rng.choice(KEYS)
            c, c2 = idx % 2, (idx // 2) % 2
            m = ["", "00", bytes(rng.randrange(256) for _ in range(rng.randrange(1, 70))).hex()][idx % 3] if idx % 5 == 0 else \
                bytes(rng.randrange(256) for _ in range(rng.randrange(1, 70))).hex()
            base = [signer, H(d), c, m, h, rk, way_aux(rng, signer), vf]
            clauses = {
                "hash": [H(d), c2, m, other(h)],          # for sm/pm/pv the hash argument is ignored: they are SHA-256 verifiers,
                                                          # so on a signature over the double hash THIS is the other-hash case
                "same": [H(d), c2, m, h],
                "msg": [H(d), c2, m + "01", h],
                "key": [H(N - d if idx % 2 else rkey(rng)), c2, m, h],
            }
            pick = ["hash"] + (["same", "msg", "key"] if thorough else ([["same", "msg", "key"][(idx // 3) % 3]] if idx % 3 == 0 else []))
            for cl in pick:
                A("ecdsa.cross", base + clauses[cl])
            idx += 1
    A("ecdsa.cross", ["det", H(0), 1, "00", "sha256", 0, "00", "vd", H(5), 1, "00", "sha256"])
    A("ecdsa.cross", ["k", H(5), 1, "00", "sha256", 0, H(0), "sm", H(5), 1, "00", "sha256"])
    A("ecdsa.cross", ["det", H(5), 1, "00", "sha256", 0, "00", "pv", H(N), 1, "00", "sha256"])


# messages a "helpful" text normalisation would change, each with its normalised variant: BOM, leading / trailing white space,
# CR LF, trailing NUL, letter case, NFC vs NFD.  Signing and verifying are about the EXACT bytes.
NORM_PAIRS = [(b"\xef\xbb\xbfhello", b"hello"), (b" hello", b"hello"), (b"hello ", b"hello"), (b"\thello", b"hello"),
              (b"hello\n", b"hello"), (b"hello\r\n", b"hello\n"), (b"hello\x00", b"hello"), (b"Hello", b"hello"),
              (b"caf\xc3\xa9", b"cafe\xcc\x81"), (b"\xef\xbb\xbf", b"")]


def normalisation_cases(A, rng, thorough):
    H = S.h32
    d = 0x2222222222222222222222222222222222222222222222222222222222222222
    j = 0
    for (m1, m2) in NORM_PAIRS:
        # every signing entry point on the exact bytes (the spec column is RFC 6979 over the hash of exactly these bytes)
        A("ecdsa.sign_message", [H(d), j % 2, m1.hex()])
        A("ecdsa.sign_det", [H(d), j % 2, m1.hex(), HASHES[j % 2], (j // 2) % 2])
        if thorough or j < 2:
            A("ecdsa.sign_k", [H(d), 1, H(rkey(rng)), m1.hex(), HASHES[j % 2]])
            A("ecdsa.sign_random", [H(d), 1, m1.hex(), HASHES[j % 2], j % 2, "r:05:32"])
        # every verifier: a signature over M verifies for M and not for its normalised variant, and vice versa; the production
        # way rotates (quick) / all 13 ways, both directions and the positive control (thorough); for the byte order mark every
        # verifier meets sign_message and the deterministic signer in both roles
        def X(signer, h, rk, vf, a, b):
            hv = h if vf in ("vd", "vh") else "sha256"
            if signer != "msg" and vf not in ("vd", "vh"):
                h = "sha256"                                                             # so that only the message differs
            A("ecdsa.cross", [signer, H(d), 1, a.hex(), h, rk, way_aux(rng, signer), vf, H(d), 0, b.hex(), hv])
        for vi, vf in enumerate(VERIFIERS):
            if thorough:
                for (signer, h, rk) in (WAYS if j < 2 else WAYS[(j % 2)::2]):
                    X(signer, h, rk, vf, m1, m2); X(signer, h, rk, vf, m2, m1)
                    if j < 2:
                        X(signer, h, rk, vf, m1, m1)
                continue
            signer, h, rk = WAYS[(j * 5 + vi * 3) % len(WAYS)]
            a, b = (m1, m2) if (j + vi) % 2 == 0 else (m2, m1)
            X(signer, h, rk, vf, a, b)
            if j == 0:
                for (sg, hh) in (("msg", "sha256"), ("det", "sha256d" if vf in ("vd", "vh") else "sha256")):
                    X(sg, hh, 0, vf, m1, m2); X(sg, hh, 0, vf, m2, m1); X(sg, hh, 0, vf, m1, m1)
        if j == 9 and not thorough:
            X("msg", "sha256", 0, "pm", m1, m1); X("det", "sha256", 0, "pm", m1, m2); X("msg", "sha256", 0, "sm", m1, m2)
        j += 1


def audit_cases(A, rng, thorough):
    """deterministic coverage of: every public entry point, state carried in objects, marker coincidences,
    every hash x reverse_k x entry point on the EMPTY message, long messages in all length bands"""
    H = S.h32
    d1, d2 = 0x1111111111111111111111111111111111111111111111111111111111111111, LZ_KEY
    # --- every hash x reverse_k x entry point, empty message (and a 1-byte one) ---
    for h in HASHES:
        for rk in (0, 1):
            for m in ("", "00"):
                A("ecdsa.sign_det", [H(d1), rk, m, h, rk])
                A("ecdsa.sign_random", [H(d2), 1 - rk, m, h, rk, "l:%d:32" % rng.randrange(1, 2 ** 31)])
                A("ecdsa.sign_verify", [H(d1), 1, m, h, rk, H(d1), 0, m, h])
            A("ecdsa.sign_verify", [H(d1), 1, "", h, rk, H(d1), 0, "00", h])            # empty vs one zero byte
            A("ecdsa.sign_verify", [H(d1), 1, "", h, rk, H(d1), 0, "", HASHES[1 - HASHES.index(h)]])
        A("ecdsa.sign_k", [H(d1), 1, H(7), "", h])
        A("ecdsa.sign_k", [H(d2), 0, H(N - 7), "", h, 0])
        A("ecdsa.privkey_from_k", [H(d1), 1, H(12345), 1, "", h, 1])
        r, s_, _ = S.sign_msg(d1, b"", h == "sha256d")
        pk = S.enc(S.pub(d1), h == "sha256").hex()
        A("ecdsa.verify_digest", ["", pk, H(r), H(s_), h])
        A("ecdsa.verify_hashbuf", [S.h256(b"", h == "sha256d").hex(), pk, H(r), H(s_)])
        A("ecdsa.verify_der", ["", pk, S.der(r, s_).hex(), h])
        A("ecdsa.verify_der", ["00", pk, S.der(r, s_).hex(), h])
        if h == "sha256":
            A("ecdsa.verify_message", ["", pk, H(r), H(s_)])
    A("ecdsa.sign_message", [H(d1), 1, ""])
    A("ecdsa.sign_message", [H(d2), 0, ""])
    # --- long messages: every length band mod 64 / mod 256, both hashes, both nonce modes ---
    for i, n in enumerate([119, 120, 127, 128, 129, 255, 256, 257, 300, 511, 512, 513, 1000]):
        A("ecdsa.sign_det", [H(rkey(rng)), i % 2, "l:%d:%d" % (n + 1, n), HASHES[i % 2], (i // 2) % 2])
    A("ecdsa.sign_k", [H(d1), 1, H(rkey(rng)), "l:5:300", "sha256d"])
    A("ecdsa.sign_random", [H(d1), 1, "l:6:257", "sha256d", 1, "r:11:32"])
    A("ecdsa.sign_message", [H(d1), 1, "l:7:256"])
    # --- caller nonce: signer / nonce key compression markers in all four combinations (the marker of the result is the
    #     signer's), nonce key = signing key with the other marker ---
    for d in (d1, rkey(rng)):
        k = rkey(rng)
        for c in (0, 1):
            for kc in (0, 1):
                A("ecdsa.sign_k", [H(d), c, H(k), msg_descr(rng)[0], rng.choice(HASHES), kc])
    A("ecdsa.sign_k", [H(d1), 1, H(d1), "6162", "sha256", 0])
    A("ecdsa.sign_k", [H(d1), 0, H(d1), "6162", "sha256d", 1])
    # --- ECDSA::private_key_from_signature_k: key, nonce and public-key form combinations, small and large values ---
    for (d, k) in [(5, 7), (123456789, 1), (1, 1), (N - 1, N - 1), (2, N - 2), (d2, 153), (rkey(rng), rkey(rng)), (rkey(rng), rkey(rng))]:
        for pc in (0, 1):
            A("ecdsa.privkey_from_k", [H(d), rng.randrange(2), H(k), rng.randrange(2), msg_descr(rng, rng.randrange(0, 40))[0], rng.choice(HASHES), pc])
    A("ecdsa.privkey_from_k", [H(0), 1, H(5), 1, "00", "sha256", 1])
    # --- signature objects WITHOUT recovery info (from_der) through the verifier; DER + flag suffix; broken DER ---
    for i in range(4 if not thorough else 30):
        d = rkey(rng)
        double = i % 2 == 1
        hn = "sha256d" if double else "sha256"
        mb = bytes(rng.randrange(256) for _ in range(rng.randrange(0, 60)))
        r, s_, _ = S.sign_msg(d, mb, double)
        pk = S.enc(S.pub(d), i % 4 < 2).hex()
        A("ecdsa.verify_der", [mb.hex(), pk, S.der(r, s_).hex(), hn])
        A("ecdsa.verify_der", [mb.hex(), pk, (S.der(r, s_) + bytes([rng.choice(S.FLAGS)])).hex(), hn])
        A("ecdsa.verify_der", [(mb + b"?").hex(), pk, S.der(r, s_).hex(), hn])
        A("ecdsa.verify_der", [mb.hex(), pk, S.der(r, N - s_).hex(), hn])              # high-S twin
    A("ecdsa.verify_der", ["00", S.enc(S.pub(5)).hex(), "3006020101020100", "sha256"])
    A("ecdsa.verify_der", ["00", S.enc(S.pub(5)).hex(), "", "sha256"])
    A("ecdsa.verify_der", ["00", "", "3006020101020101", "sha256"])
    # --- empty / absent fields ---
    pk = S.enc(S.pub(5)).hex()
    A("ecdsa.verify_digest", ["00", pk, "", "", "sha256"])
    A("ecdsa.verify_hashbuf", ["", pk, H(1), H(1)])
    A("ecdsa.verify_message", ["", pk, H(1), ""])
    A("ecdh.derive", ["", pk])
    A("ecdh.derive", [H(5), ""])


def leading_zero_cases(A, rng, thorough):
    """deterministic members of the value class 'a 32-byte field starts with 00'"""
    H = S.h32
    # ECDH: shared x with leading zero bytes, both directions (ecdh.pair does both), all compression combinations, raw op too
    pairs = list(LEADING_ZERO_PAIRS)
    if thorough:
        for nz in (1, 1, 2):
            b = rng.randrange(1, N)
            B = S.pub(b)
            a0 = rng.randrange(1, N - 10 ** 7)
            pt, a = S.mul(a0, B), a0
            for _ in range(400000 if nz == 2 else 4000):
                if lzb(pt[0]) >= nz:
                    pairs.append((a, b))
                    break
                pt, a = S.add(pt, B), a + 1
    for (a, b) in pairs:
        assert lzb(S.mul(a * b % N, S.G)[0]) >= 1
        for (c1, c2) in (((1, 1), (0, 0), (1, 0), (0, 1)) if thorough or (a, b) in LEADING_ZERO_PAIRS[:2] else ((1, 0), (0, 1))):
            A("ecdh.pair", [H(a), c1, H(b), c2])
        A("ecdh.derive", [H(a), S.enc(S.pub(b), True).hex()])
        A("ecdh.derive", [H(b), S.enc(S.pub(a), False).hex()])
    # deterministic signer: r or s with a leading zero byte, both hashes; reversed nonce; digests with a leading zero byte
    for (d, m, double, which) in LZ_DET:
        r, s_, _ = S.sign_msg(d, m, double)
        assert lzb(r if which == "r" else s_) >= 1
        hn = "sha256d" if double else "sha256"
        A("ecdsa.sign_det", [H(d), 1, m.hex(), hn, 0])
        A("ecdsa.sign_verify", [H(d), 0, m.hex(), hn, 0, H(d), 1, m.hex(), hn])
        if not double:
            A("ecdsa.sign_message", [H(d), 0, m.hex()])
    A("ecdsa.sign_det", [H(1), 1, LZ_RK_MSG.hex(), "sha256", 1])
    assert S.h256(LZ_DIGEST_MSG)[0] == 0 and S.h256(LZ_DIGEST_MSG_D, True)[0] == 0
    for rk in (0, 1):
        A("ecdsa.sign_det", [H(LZ_KEY), 1, LZ_DIGEST_MSG.hex(), "sha256", rk])
        A("ecdsa.sign_det", [H(LZ_KEY), 0, LZ_DIGEST_MSG_D.hex(), "sha256d", rk])
        A("ecdsa.sign_random", [H(LZ_KEY), 1, LZ_DIGEST_MSG.hex(), "sha256", rk, "r:00:32"])
    A("ecdsa.sign_message", [H(LZ_KEY), 1, LZ_DIGEST_MSG.hex()])
    # caller nonce: r with one / two leading zero bytes; r and s both
    for k in LZ_NONCES:
        assert lzb(S.mul(k, S.G)[0]) >= 1
        A("ecdsa.sign_k", [H(rng.choice([1, LZ_KEY, rkey(rng)])), rng.randrange(2), H(k), msg_descr(rng)[0], rng.choice(HASHES)])
    for (d, k, m) in LZ_SIGN_K:
        r, s_, _ = S.sign(d, k, int.from_bytes(S.h256(m), "big") % N)
        assert lzb(r) >= 1 and lzb(s_) >= 1
        A("ecdsa.sign_k", [H(d), 1, H(k), m.hex(), "sha256"])
        # the same signature through the raw verifiers (fixed-width 32-byte r, s)
        pk = S.enc(S.pub(d), True).hex()
        A("ecdsa.verify_digest", [m.hex(), pk, H(r), H(s_), "sha256"])
        A("ecdsa.verify_message", [m.hex(), pk, H(r), H(s_)])
        A("ecdsa.verify_hashbuf", [S.h256(m).hex(), pk, H(r), H(s_)])
    # pre-hashed digests with leading zero bytes, and digests >= n (reduced by the library): signer and verifier
    d = LZ_KEY
    pk = S.enc(S.pub(d), False).hex()
    digs = ["00" + "ab" * 31, "0000" + "cd" * 30, "00" * 16 + "ef" * 16, "00" * 31 + "02", H(N), H(N + 1), "ff" * 32, H(N + 2 ** 128)]
    for dg in digs:
        A("ecdsa.sign_digest", [H(d), 1, dg])
        z = int(dg, 16) % N
        r, s_, _ = S.sign(d, S.rfc6979(d, z), z)
        A("ecdsa.verify_hashbuf", [dg, pk, H(r), H(s_)])                       # must verify (z is reduced modulo n)
        A("ecdsa.verify_hashbuf", [H((int(dg, 16) + 1) % 2 ** 256), pk, H(r), H(s_)])   # neighbour digest: must not


def rkey(rng):
    return rng.randrange(1, N)


def msg_descr(rng, n=None):
    """(descriptor, bytes)"""
    if n is None:
        n = rng.choice([0, 1, 2, 31, 32, 33, 55, 56, 57, 63, 64, 65, 100, 119, 120, 128, 199, 200, rng.randrange(0, 201)])
    if n <= 48 and rng.random() < 0.6:
        b = bytes(rng.randrange(256) for _ in range(n))
        return b.hex(), b
    seed = rng.randrange(1, 2 ** 31)
    x, out = seed, bytearray()
    for _ in range(n):
        x = (x * 1664525 + 1013904223) % 4294967296
        out.append((x // 65536) % 256)
    return "l:%d:%d" % (seed, n), bytes(out)


def generate(rng, tier):
    thorough = tier == "thorough"
    mult = 10 if thorough else 1
    cases = []
    A = lambda op, args: cases.append((op, [str(a) for a in args]))
    keypool = lambda: rng.choice(KEYS) if rng.random() < 0.5 else rkey(rng)

    # ---------------------------------------------------------------- deterministic signing
    # published RFC 6979 / secp256k1 vectors (key 1, "Satoshi Nakamoto" etc.) as ordinary cases
    A("ecdsa.sign_det", [S.h32(1), 1, b"Satoshi Nakamoto".hex(), "sha256", 0])
    A("ecdsa.sign_det", [S.h32(N - 1), 1, b"Satoshi Nakamoto".hex(), "sha256", 0])
    A("ecdsa.sign_det", ["f8b8af8ce3c7cca5e300d33939540c10d45ce001b8f252bfbc57ba0342904181", 0, b"Alan Turing".hex(), "sha256", 0])
    for j, d in enumerate(KEYS):
        for h in (HASHES if thorough else [HASHES[j % 2]]):
            rk = rng.randrange(2)
            A("ecdsa.sign_det", [S.h32(d), rng.randrange(2), msg_descr(rng)[0], h, rk])
    for j, n in enumerate([0, 55, 56, 64, 200] + ([1, 63, 65, 119, 120, 127, 128, 1000] if thorough else [])):
        for h in HASHES:
            for rk in ((0, 1) if thorough else ((j + HASHES.index(h)) % 2,)):
                A("ecdsa.sign_det", [S.h32(rkey(rng)), rng.randrange(2), msg_descr(rng, n)[0], h, rk])
    for _ in range(6 if not thorough else 160):
        A("ecdsa.sign_det", [S.h32(keypool()), rng.randrange(2), msg_descr(rng)[0], rng.choice(HASHES), rng.randrange(2)])
    for bk in BADKEYS:
        A("ecdsa.sign_det", [bk, 1, "616263", "sha256", 0])
    for _ in range(3 if not thorough else 80):
        A("ecdsa.sign_message", [S.h32(keypool()), rng.randrange(2), msg_descr(rng)[0]])
    A("ecdsa.sign_message", [BADKEYS[1], 1, "00"])

    # ---------------------------------------------------------------- caller nonce
    for k in [1, 2, N - 1, N - 2, 2 ** 255]:
        A("ecdsa.sign_k", [S.h32(keypool()), rng.randrange(2), S.h32(k), msg_descr(rng)[0], rng.choice(HASHES)])
    for _ in range(5 if not thorough else 140):
        A("ecdsa.sign_k", [S.h32(keypool()), rng.randrange(2), S.h32(rkey(rng)), msg_descr(rng)[0], rng.choice(HASHES)])
    # nonce = key, invalid nonces
    d = rkey(rng)
    A("ecdsa.sign_k", [S.h32(d), 1, S.h32(d), "6162", "sha256"])
    for bk in BADKEYS[:4]:
        A("ecdsa.sign_k", [S.h32(d), 1, bk, "6162", "sha256d"])
    A("ecdsa.sign_k", [BADKEYS[0], 1, S.h32(5), "6162", "sha256d"])

    # ---------------------------------------------------------------- pre-hashed digest
    for dg in ["00" * 32, "00" * 31 + "01", S.h32(N), S.h32(N - 1), S.h32(N + 1), "ff" * 32, "80" + "00" * 31]:
        A("ecdsa.sign_digest", [S.h32(keypool()), rng.randrange(2), dg])
    for _ in range(5 if not thorough else 120):
        A("ecdsa.sign_digest", [S.h32(keypool()), rng.randrange(2), bytes(rng.randrange(256) for _ in range(32)).hex()])
    for ln in [0, 1, 3, 31, 33, 64]:
        A("ecdsa.sign_digest", [S.h32(rkey(rng)), 1, "r:07:%d" % ln])
    A("ecdsa.sign_digest", [BADKEYS[0], 1, "11" * 32])

    # ---------------------------------------------------------------- randomised nonce (behavioural)
    for h in HASHES:
        for rk in (0, 1):
            for c in (0, 1):
                A("ecdsa.sign_random", [S.h32(keypool()), c, msg_descr(rng)[0], h, rk, "l:%d:32" % rng.randrange(1, 2 ** 31)])
    for d in [1, N - 1] + [rkey(rng) for _ in range(1 if not thorough else 60)]:
        A("ecdsa.sign_random", [S.h32(d), rng.randrange(2), msg_descr(rng)[0], rng.choice(HASHES), rng.randrange(2),
                                rng.choice(["r:00:32", "r:ff:32", "l:%d:32" % rng.randrange(1, 2 ** 31)])])
    A("ecdsa.sign_random", [BADKEYS[1], 1, "00", "sha256", 0, "r:00:32"])

    # ---------------------------------------------------------------- sign, then verify with the same / another key, message, hash
    for _ in range(2 if not thorough else 100):
        d = keypool()
        m, _b = msg_descr(rng)
        h = rng.choice(HASHES)
        A("ecdsa.sign_verify", [S.h32(d), rng.randrange(2), m, h, rng.randrange(2), S.h32(d), rng.randrange(2), m, h])
    for _ in range(3 if not thorough else 80):
        d = keypool()
        m, mb = msg_descr(rng, rng.randrange(1, 60))
        h = rng.choice(HASHES)
        other = "sha256d" if h == "sha256" else "sha256"
        # another message (one bit flipped, truncated, extended), another hash, another key (random, n - d, d + 1)
        mb2 = bytearray(mb); mb2[rng.randrange(len(mb2))] ^= 1 << rng.randrange(8)
        variants = [(d, bytes(mb2).hex(), h), (d, mb[:-1].hex(), h), (d, mb.hex() + "00", h), (d, m, other),
                    (N - d, m, h), (d % (N - 1) + 1, m, h), (rkey(rng), m, h)]
        for (d2, m2, h2) in (variants if thorough else rng.sample(variants, 3)):
            A("ecdsa.sign_verify", [S.h32(d), rng.randrange(2), m, h, rng.randrange(2), S.h32(d2), rng.randrange(2), m2, h2])

    # ---------------------------------------------------------------- raw verification (signatures from the Python ECDSA)
    for i in range(8 if not thorough else 120):
        d = keypool()
        double = rng.random() < 0.5
        hname = "sha256d" if double else "sha256"
        m, mb = msg_descr(rng, rng.randrange(0, 80))
        r, s, _ = S.sign_msg(d, mb, double)
        Q = S.pub(d)
        comp = rng.random() < 0.5
        pk = S.enc(Q, comp).hex()
        op = rng.choice(["ecdsa.verify_digest", "ecdsa.verify_hashbuf"] + (["ecdsa.verify_message"] if not double else []))

        def V(mm, pkk, rr, ss):
            if op == "ecdsa.verify_digest":
                A(op, [mm, pkk, rr, ss, hname])
            elif op == "ecdsa.verify_message":
                A(op, [mm, pkk, rr, ss])
            else:
                A(op, [S.h256(bytes.fromhex(mm), double).hex(), pkk, rr, ss])
        V(mb.hex(), pk, S.h32(r), S.h32(s))
        muts = [
            (mb.hex(), pk, S.h32(r), S.h32(N - s)),                               # high-S twin: rejected by k256
            (mb.hex(), pk, S.h32(r ^ (1 << rng.randrange(256))), S.h32(s)),
            (mb.hex(), pk, S.h32(r), S.h32(s ^ (1 << rng.randrange(255)))),
            ((mb + b"x").hex(), pk, S.h32(r), S.h32(s)),
            (mb.hex(), S.enc(S.pub(rkey(rng)), comp).hex(), S.h32(r), S.h32(s)),
            (mb.hex(), S.enc((Q[0], S.P - Q[1]), comp).hex(), S.h32(r), S.h32(s)),  # negated key
            (mb.hex(), S.enc(Q, not comp).hex(), S.h32(r), S.h32(s)),              # other compression: still valid
        ]
        for mu in (muts if thorough else rng.sample(muts, 3)):
            V(*mu)
    # scalars out of range, malformed public keys, digest lengths
    d = rkey(rng); Q = S.pub(d); r, s, _ = S.sign_msg(d, b"abc"); pk = S.enc(Q).hex()
    for (rr, ss) in [(0, s), (r, 0), (N, s), (r, N), (2 ** 256 - 1, s), (r, N - 1), (N - 1, 1), (1, 1)]:
        A("ecdsa.verify_digest", ["616263", pk, S.h32(rr), S.h32(ss), "sha256"])
    A("ecdsa.verify_digest", ["616263", pk, S.h32(r)[2:], S.h32(s), "sha256"])
    A("ecdsa.verify_digest", ["616263", pk, S.h32(r), S.h32(s) + "00", "sha256"])
    badpubs = ["", "00", "02", "02" + "00" * 31 + "05", "02" + S.h32(S.P), "03" + S.h32(S.P + 1), "04" + S.h32(Q[0]) + S.h32(Q[1] ^ 1),
               "04" + S.h32(Q[0]), "05" + S.h32(Q[0]), "06" + S.h32(Q[0]) + S.h32(Q[1]), "07" + S.h32(Q[0]) + S.h32(Q[1]),
               pk + "00", pk[:-2], "04" + S.h32(S.P) + S.h32(Q[1]), "04" + S.h32(Q[0]) + S.h32(S.P + Q[1] if S.P + Q[1] < 2 ** 256 else Q[1] ^ 2)]
    for bp in badpubs:
        A(rng.choice(["ecdsa.verify_digest", "ecdsa.verify_message"]), ["616263", bp, S.h32(r), S.h32(s)] + [])
        if cases[-1][0] == "ecdsa.verify_digest":
            cases[-1][1].append("sha256")
    dg = S.h256(b"abc").hex()
    A("ecdsa.verify_hashbuf", [dg, pk, S.h32(r), S.h32(s)])
    for ln in [0, 1, 3, 31, 33, 64]:
        A("ecdsa.verify_hashbuf", ["r:01:%d" % ln, pk, S.h32(r), S.h32(s)])
    A("ecdsa.verify_hashbuf", [dg, "02" + "00" * 31 + "05", S.h32(r), S.h32(s)])
    # digest >= n is reduced: z = digest - n
    z = int.from_bytes(S.h256(b"abc"), "big") % N
    if z + N < 2 ** 256:
        A("ecdsa.verify_hashbuf", [S.h32(z + N), pk, S.h32(r), S.h32(s)])

    # ---------------------------------------------------------------- leading zero bytes, digests >= n
    leading_zero_cases(A, rng, thorough)
    audit_cases(A, rng, thorough)
    cross_cases(A, rng, thorough)
    normalisation_cases(A, rng, thorough)

    # ---------------------------------------------------------------- ECDH
    for (a, b) in [(1, 1), (1, 2), (2, N - 1), (N - 1, N - 1), (N - 2, 3), (2 ** 255, N // 2)]:
        A("ecdh.pair", [S.h32(a), rng.randrange(2), S.h32(b), rng.randrange(2)])
    for _ in range(3 if not thorough else 80):
        A("ecdh.pair", [S.h32(keypool()), rng.randrange(2), S.h32(rkey(rng)), rng.randrange(2)])
    A("ecdh.pair", [BADKEYS[0], 1, S.h32(5), 1])
    for _ in range(3 if not thorough else 60):
        A("ecdh.derive", [S.h32(keypool()), S.enc(S.pub(rkey(rng)), rng.random() < 0.5).hex()])
    for bp in badpubs[:8]:
        A("ecdh.derive", [S.h32(rkey(rng)), bp])
    A("ecdh.derive", [BADKEYS[1], pk])
    return cases


def nontrivial(case, out):
    return out.startswith("OK:")


def neighbours(case, rng):
    op, args = case
    out = []
    if op.startswith("ecdsa.sign") and len(args) >= 3:
        for _ in range(4):
            a = list(args)
            a[0] = S.h32(rng.randrange(1, N))
            out.append((op, a))
    return out
