"""C14 — case generator: interpreter, non-signature opcodes (also imported by c16.py)."""
ID = "C14"
LEVEL = "proof"
EXTRA_TARGETS = ["Proofs/OpcodeTie.vo"]   # regenerated opcode enum == protocol table
EXEC = "Run.Exec_C14"
RULE = ("every implemented opcode on every stack of depth <= arity+1 over a 12-value alphabet (empty, +0/-0, +-1, 127, "
        "+-255, non-minimal 1, 4-byte -0, a 5-byte number, an 80-byte blob): sampled in the quick tier, enumerated up to a cap in "
        "the thorough tier; random mostly-well-stacked programs with conditionals nested to depth 6; operand-order, encoding and "
        "failure witnesses; non-trivial = the model runs the script to completion (OK); distinct by (op, arguments)")
TRUSTED = ["hand-written Gallina model coq/Model/Interp.v of src/interpreter/*.rs (tied by this correspondence run)",
           "Spec/InterpBSV.v: Bitcoin SV script semantics written from memory of the node's interpreter loop (no copy offline); the choices are listed in its header",
           "Model/HashApi.v + Prim hashes for the five hashing opcodes (tied by C13)"]
ASSUMPTIONS = ["stack items shorter than 2^31 bytes and stacks shallower than 2^31 items (OP_SIZE/OP_DEPTH go through an i32 in the library)",
               "no limits on script size, element size or operation count are modelled on either side"]

# ---------------------------------------------------------------- vocabulary
ALPHA = ["", "00", "80", "01", "81", "7f", "ff00", "ff80", "0100", "00000080", "0102030405", "BLOB"]


def push(h):
    """script-bytes descriptor pushing the item (hex string or BLOB)"""
    if h == "BLOB":
        return "4c50+l:7:80"
    n = len(h) // 2
    if n == 0:
        return "00"
    if n <= 75:
        return "%02x%s" % (n, h)
    if n <= 255:
        return "4c%02x%s" % (n, h)
    return "4d%s%s" % (n.to_bytes(2, "little").hex(), h)


def num(z):
    """minimal script-number encoding (hex)"""
    if z == 0:
        return ""
    a, out = abs(z), []
    while a:
        out.append(a & 0xff); a >>= 8
    if out[-1] & 0x80:
        out.append(0x80 if z < 0 else 0)
    elif z < 0:
        out[-1] |= 0x80
    return bytes(out).hex()


def op(b):
    return "%02x" % b


CONSTS = [0, 79] + list(range(81, 97))
NOPS = [97, 176, 179, 180, 181, 182, 183, 184, 185, 171]
FAILS = [80, 98, 137, 138]
# opcode -> number of main-stack items it looks at
ARITY = {}
for o in CONSTS + NOPS + FAILS + [116, 106, 108]:
    ARITY[o] = 0
for o in [105, 107, 115, 117, 118, 130, 131, 139, 140, 141, 142, 143, 144, 145, 146, 129, 166, 167, 168, 169, 170]:
    ARITY[o] = 1
for o in [121, 122]:            # index + at least one item
    ARITY[o] = 2
for o in [119, 120, 124, 125, 109, 110, 126, 127, 128, 132, 133, 134, 135, 136] + list(range(147, 165)):
    ARITY[o] = 2
for o in [123, 111, 165]:
    ARITY[o] = 3
for o in [112, 114]:
    ARITY[o] = 4
ARITY[113] = 6
IMPLEMENTED = sorted(ARITY)
# net effect on the depth (for the random-program generator)
DELTA = {o: 1 for o in CONSTS}
DELTA.update({o: 0 for o in NOPS + FAILS + [106]})
DELTA.update({116: 1, 108: 1, 105: -1, 107: -1, 115: 1, 117: -1, 118: 1, 130: 1, 131: 0, 129: 0,
              119: -1, 120: 1, 121: 0, 122: -1, 123: 0, 124: 0, 125: 1, 109: -2, 110: 2, 111: 3, 112: 2, 113: 0, 114: 0,
              126: -1, 127: 0, 128: -1, 132: -1, 133: -1, 134: -1, 135: -1, 136: -2, 165: -2})
for o in [139, 140, 141, 142, 143, 144, 145, 146, 166, 167, 168, 169, 170]:
    DELTA[o] = 0
for o in range(147, 165):
    DELTA[o] = -1
DELTA[157] = -2
GROW = {126, 149, 141}          # ops that can double the size of an item
UNSAFE_FREE = {152, 128}
PURE_STACK = {119, 120, 124, 125, 109, 110, 123, 111, 112, 114, 113, 121, 122}   # do not interpret the items        # need a bounded count/length operand: only emitted through patterns


def stack_script(items, o):
    return "+".join([push(x) for x in items] + [op(o)])


def all_stacks(depth):
    if depth == 0:
        yield []
        return
    for s in all_stacks(depth - 1):
        for a in ALPHA:
            yield s + [a]


# ---------------------------------------------------------------- streams
def opcode_alphabet(rng, tier):
    """every opcode x stacks of depth <= arity+1"""
    cases = []
    for o in IMPLEMENTED:
        ar = ARITY[o]
        per_op = []
        for d in range(0, ar + 2):
            total = 12 ** d
            if (d <= min(ar, 2) and not (tier == "quick" and d == 2 and o in PURE_STACK)) or (tier == "thorough" and (d <= 2 or (d == 3 and ar >= 3))):
                per_op.extend(all_stacks(d))
            else:
                k = {"quick": [1, 4, 40, 10, 10, 8, 8, 8][d], "thorough": min(total, 700 if d <= 4 else 300)}[tier]
                k = min(k, total)
                seen = set()
                while len(seen) < k:
                    s = tuple(rng.choice(ALPHA) for _ in range(d))
                    seen.add(s)
                per_op.extend(list(s) for s in sorted(seen))
        for s in per_op:
            cases.append(("interp.run", [stack_script(s, o)]))
    return cases


SMALL = [-2, -1, 0, 1, 2, 3]
EDGE = [127, 128, 129, 255, 256, 32767, 32768, 65535, 65536, 8388607, 8388608, 2 ** 31 - 1, 2 ** 31, 2 ** 32 - 1, 2 ** 32,
        2 ** 39 - 1, 2 ** 39, 2 ** 63 - 1, 2 ** 63, 2 ** 64, 2 ** 127 - 1, 2 ** 127]
TRUTH = ["", "00", "80", "0000", "0080", "8000", "000080", "008000", "800000", "01", "81", "0100", "0001", "000000000001", "0000000080", "ff", "7f"]
UNARY_NUM = [139, 140, 141, 142, 143, 144, 145, 146, 129]
BINARY_NUM = [147, 148, 149, 150, 151, 154, 155, 156, 157, 158, 159, 160, 161, 162, 163, 164]


def boundary_stream(rng, tier):
    """both sides of every threshold: comparisons on adjacent small integers, encodings at every byte boundary,
    truthiness of every zero spelling, index / position operands around the depth / length"""
    out = []
    R = lambda parts: out.append(("interp.run", ["+".join(parts)]))
    for o in BINARY_NUM:
        for a in SMALL:
            for b in SMALL:
                R([push(num(a)), push(num(b)), op(o)])
    for x in SMALL + [4]:
        for mn in SMALL:
            for mx in SMALL:
                if tier == "thorough" or (x + 2 * mn + 3 * mx) % 2 == 0 or x in (mn, mx):
                    R([push(num(x)), push(num(mn)), push(num(mx)), op(165)])
    edges = sorted(set(EDGE + [-e for e in EDGE]))
    for o in UNARY_NUM:
        for e in edges:
            R([push(num(e)), op(o)])
        for h in ["ff0000", "ff0080", "000000", "7f00", "7f80", "ffff0000", "0000008000"]:
            R([push(h), op(o)])
    for o in BINARY_NUM[:5] + [163, 164, 159, 162]:
        for _ in range(30 if tier == "quick" else 400):
            a = rng.choice(edges) + rng.choice([-1, 0, 1]); b = rng.choice(edges + SMALL) + rng.choice([-1, 0, 1])
            R([push(num(a)), push(num(b)), op(o)])
    # audit: every arithmetic / comparison opcode on negative zero, 5- and 9-byte numbers, +-2^31, +-2^63 and the
    # values whose encoding needs an extra sign byte, against small operands of both signs, in both positions,
    # always with a sentinel item below (the whole stack is compared, not only the top)
    WIDE = ["80", "0080", num(2 ** 32 + 5), num(-(2 ** 32 + 5)), num(2 ** 64 + 1), num(-(2 ** 64 + 1)), num(2 ** 31), num(-(2 ** 31)),
            num(2 ** 31 - 1), num(-(2 ** 31 - 1)), num(2 ** 63), num(-(2 ** 63)), num(2 ** 63 - 1), num(127), num(-127), num(128), num(-128),
            num(255), num(-255), num(256), num(-256), num(32767), num(-32767), num(32768), num(-32768), num(8388607), num(8388608), "0500000080", "0100000000"]
    NARROW = [num(-3), num(2), num(128), num(-(2 ** 31)), num(1), ""]
    for o in BINARY_NUM:
        for w in WIDE:
            for v in (NARROW if tier == "thorough" else NARROW[:2]):
                R(["0109", push(w), push(v), op(o)]); R(["0109", push(v), push(w), op(o)])
        for w in WIDE[:12]:
            R(["0109", push(w), push(w), op(o)])
    for a in (7, -7, 8, -8, 0, 1, -1, 2 ** 31, -(2 ** 31), 2 ** 63, -(2 ** 63)):
        for b in (3, -3, 2, -2, 1, -1, 0, 2 ** 31, -(2 ** 63)):
            R(["0109", push(num(a)), push(num(b)), "96"]); R(["0109", push(num(a)), push(num(b)), "97"])
    for e in [127, 128, 255, 256, 32767, 32768, 8388607, 8388608, 2 ** 31 - 1, 2 ** 31, 2 ** 63 - 1, 2 ** 63]:
        for d in (1, -1, 2, -2):
            for sg in (1, -1):
                R(["0109", push(num(sg * e)), push(num(d)), "93"]); R(["0109", push(num(sg * e)), push(num(d)), "94"])
                R(["0109", push(num(sg * e)), push(num(d)), "95"]); R(["0109", push(num(d)), push(num(sg * e)), "94"])
    for w in WIDE:
        for o in UNARY_NUM + [105, 115, 130, 131, 118]:
            R(["0109", push(w), op(o)])
        R(["0109", push(w), push(w), push(w), "a5"]); R(["0109", push(w), "00", push(w), "a5"]); R(["0109", "00", push(w), "51", "a5"])
    # IF / NOTIF (and the VERIF / VERNOTIF conditionals) on condition operands of every width 0..33
    for wd in range(0, 34):
        conds = {"00" * wd, "00" * max(0, wd - 1) + "80" * min(1, wd), "00" * max(0, wd - 1) + "01" * min(1, wd),
                 "80" * min(1, wd) + "00" * max(0, wd - 1), "01" * min(1, wd) + "00" * max(0, wd - 1), "00" * (wd // 2) + "80" * min(1, wd) + "00" * max(0, wd - wd // 2 - 1)}
        for c in sorted(conds):
            for code in ("63", "64"):
                R(["0109", push(c), code, "55", "67", "56", "68"])
            if wd in (0, 1, 2, 4, 5, 8, 9, 33):
                R(["0109", push(c), "65", "55", "67", "56", "68"]); R(["0109", push(c), "66", "55", "67", "56", "68"])
                R(["0109", push(c), "69"]); R(["0109", push(c), "73"]); R(["0109", push(c), "51", "9a"]); R(["0109", push(c), "00", "9b"])
    # truthiness
    for t in TRUTH:
        R([push(t), "65", "55", "67", "56", "68"]); R([push(t), "66", "55", "67", "56", "68"]); R([push(t), "66", "55", "68"])
        R([push(t), "63", "55", "67", "56", "68"]); R([push(t), "64", "55", "67", "56", "68"])
        R([push(t), "63", "55", "68"]); R([push(t), "64", "55", "68"])
        R([push(t), "69"]); R([push(t), "73"]); R([push(t), "91"]); R([push(t), "92"])
        R(["51", push(t), "9a"]); R([push(t), "51", "9a"]); R(["00", push(t), "9b"]); R([push(t), "00", "9b"])
        R([push(t), push(t), "87"]); R([push(t), "00", "87"]); R([push(t), "00", "9c"]); R([push(t), "00", "9e"]); R([push(t), "00", "88"]); R([push(t), "00", "9d"])
    # indices around the depth, distinct items
    for depth in range(0, 6):
        items = [push(num(k + 1)) for k in range(depth)]
        for idx in range(-1, depth + 2):
            R(items + [push(num(idx)), "79"]); R(items + [push(num(idx)), "7a"])
        for h in ["0100", "00", "80", "0000000000", "0100000000", "0200000000000000000000", "0000008000"]:
            R(items + [push(h), "79"]); R(items + [push(h), "7a"])
    for n in range(0, 5):
        x = bytes(range(1, n + 1)).hex()
        for pos in range(-1, n + 2):
            R([push(x), push(num(pos)), "7f"])
        R([push(x), push("0100000000"), "7f"]); R([push(x), push("00"), "7f"]); R([push(x), push("80"), "7f"])
    R(["4c50+l:7:80", push(num(79)), "7f"]); R(["4c50+l:7:80", push(num(80)), "7f"]); R(["4c50+l:7:80", push(num(81)), "7f"])
    # deep stacks (distinct items 0..299 made with OP_DEPTH) and long items: byte- and word-size thresholds
    for idx in [0, 1, 126, 127, 128, 129, 254, 255, 256, 257, 298, 299, 300]:
        R(["r:74:300", push(num(idx)), "79", "77" * 0 + "r:77:299"]); R(["r:74:300", push(num(idx)), "7a", "r:77:299"])
    R(["r:74:300", "74"]); R(["r:74:130", "74", "82", "77"])
    for n in [75, 76, 127, 128, 255, 256, 257, 1000, 32767, 32768, 65535, 65536]:
        item = ("4c%02x" % n if n < 256 else "4d" + n.to_bytes(2, "little").hex() if n < 65536 else "4e" + n.to_bytes(4, "little").hex()) + "+l:3:%d" % n
        R([item, "82", "77"])
        for pos in [n - 1, n, n + 1, 127, 128, 255, 256]:
            R([item, push(num(pos)), "7f", "82", "7c", "82", "7c", "75", "77"])
        R([item, "76", "7e", "82", "77"])
        if n <= 1000:
            R([item, "a8"]); R([item, "a9"]); R([item, "a6"]); R([item, "a7"]); R([item, "aa"])
    # every fixed-arity stack opcode on distinct items, at exactly its arity, one below, one above
    for o in [109, 110, 111, 112, 113, 114, 115, 117, 118, 119, 120, 123, 124, 125, 107, 130, 126, 135, 136]:
        ar = ARITY[o]
        for d in (ar - 1, ar, ar + 1, ar + 2):
            if d >= 0:
                R([push(num(k + 1)) for k in range(d)] + [op(o)])
    R(["51", "52", "6b", "6b", "6c", "6c"]); R(["51", "6b", "52", "6c", "6c"]); R(["51", "52", "53", "6b", "7c", "6c"])
    # bitwise on equal and unequal lengths
    for a, b in [("", ""), ("00", "ff"), ("0f", "f0"), ("0f0f", "f0ff"), ("ff", "ff00"), ("", "00"), ("aa55aa", "0ff00f")]:
        for o in (132, 133, 134):
            R([push(a), push(b), op(o)]); R([push(b), push(a), op(o)])
        R([push(a), "83"])
    return out


def rand_item(rng):
    r = rng.random()
    if r < 0.45:
        return rng.choice(ALPHA)
    if r < 0.8:
        return num(rng.choice([0, 1, -1, 2, 3, 5, 16, 17, 127, 128, -128, 255, 256, -256, 32767, 32768, 2 ** 31 - 1, -(2 ** 31 - 1),
                               2 ** 31, 2 ** 32 + 5, -(2 ** 40), 2 ** 63, 2 ** 64 + 1]))
    return bytes(rng.randrange(256) for _ in range(rng.choice([1, 2, 3, 4, 5, 8, 20, 33]))).hex()


def rand_prog(rng, nest, size, depth, grow):
    """returns (list of descriptor parts, estimated depth)"""
    parts = []
    free_ops = [o for o in IMPLEMENTED if o not in UNSAFE_FREE]
    for _ in range(size):
        r = rng.random()
        if r < 0.30 or depth == 0 and r < 0.6:
            parts.append(push(rand_item(rng))); depth += 1
        elif r < 0.42 and nest > 0:
            # conditional: condition value, IF/NOTIF, branches
            if rng.random() < 0.8:
                parts.append(push(rng.choice(["", "00", "80", "01", "81", "0000", "0080", "0100", "000000000001", "BLOB"]))); depth += 1
            if depth > 0:
                depth -= 1
            parts.append(op(rng.choice([99, 100])))
            p1, d1 = rand_prog(rng, nest - 1, rng.randrange(0, 4), depth, grow)
            parts += p1
            d2 = depth
            if rng.random() < 0.65:
                parts.append("67")
                p2, d2 = rand_prog(rng, nest - 1, rng.randrange(0, 4), depth, grow)
                parts += p2
            parts.append("68")
            depth = min(d1, d2)
        elif r < 0.50:
            # patterns with a bounded size operand
            k = rng.randrange(6)
            if k == 0 and depth >= 1:
                parts += [push(num(rng.randrange(-1, depth + 2))), op(121)]
            elif k == 1 and depth >= 1:
                parts += [push(num(rng.randrange(-1, depth + 2))), op(122)]; depth -= 1
            elif k == 2 and depth >= 1:
                parts += [push(num(rng.randrange(-1, 8))), op(127)]; depth += 1
            elif k == 3 and depth >= 1:
                parts += [push(num(rng.randrange(0, 40))), op(128)]
            elif k == 4 and depth >= 1:
                parts += [push(num(rng.randrange(0, 70))), op(124), op(152)]
            elif k == 5 and depth >= 1:
                parts += [push(num(rng.choice([0, 1, 7, 8, 9, 63, 64, 1000, 2 ** 31 - 1]))), op(124), op(153)]
            else:
                parts.append(push(rand_item(rng))); depth += 1
        else:
            cands = free_ops if rng.random() < 0.12 else [o for o in free_ops if ARITY[o] <= depth and o not in FAILS and o != 106]
            if not cands:
                cands = CONSTS
            o = rng.choice(cands)
            if o in GROW:
                if grow[0] <= 0:
                    o = 118
                else:
                    grow[0] -= 1
            parts.append(op(o))
            depth = max(0, depth + DELTA.get(o, 0))
    return parts, depth


FIXED = [
    # operand order, encodings, truthiness, branches (the repaired defects and the recorded findings)
    "51+52+94", "56+53+96", "57+53+97", "51+52+9f", "51+52+7e", "03010203+51+7f", "03010203+54+7f", "03010203+4f+7f",
    "51+52+6e", "51+52+53+6f", "51+52+53+54+72", "51+52+53+54+55+56+71", "51+52+53+54+70", "51+52+53+7b", "51+52+7d",
    "51+4f+93", "4f+4f+93", "51+52+87", "51+51+87", "020102+0103+84", "52+51+53+a5", "53+51+53+a5", "51+51+53+a5", "57+73", "00+73",
    "00+64+55+67+56+68", "4f+63+55+67+56+68", "050000000001+63+55+67+56+68", "0180+63+55+67+56+68", "0400000080+63+55+67+56+68",
    "050000000000+91", "050000000001+92", "51+00+96", "51+00+97", "57+4f+96", "4f+57+96", "57+4f+97", "4f+57+97", "0181+0102+96",
    "51+6a+52", "51+63+6a+52+68+53", "00+54+80", "51+54+80", "0180+54+80", "020100+51+80", "00+00+80", "4f+51+80", "02ff00+52+80", "02ff00+51+80",
    "51+52+98", "52+51+98", "51+58+0180+98", "0181+51+99", "0181+51+98", "0100+51+98", "02ffff+54+99", "5c+51+99",
    "51+65+52+68", "51+66+52+68", "00+65+52+68", "51+63+65+68+68", "00+63+65+68+68",
    "51+68", "51+67", "51+63+52+67+53+67+54+68", "00+63+52+67+53+67+54+68", "67+68+51",
    "0102+0105+050100000000+79", "0102+0105+050100000000+7a", "03010203+050100000000+7f", "0102+0105+0400000080+79", "0102+0105+020100+79",
    "0501", "51+0501", "00+63+0501", "4b",
    "50", "62", "89", "8a", "00+63+50+68", "51+63+50+68", "00+63+62+67+89+68",
    "5a+5b+a3", "5a+5b+a4", "020001+81", "0180+81", "0400000080+81", "050102030405+81", "4c50+l:7:80+81", "4c50+l:7:80+4c50+l:9:80+95",
    "51+6b+6c", "6c", "6b", "74", "51+52+74", "82", "4c50+l:7:80+82", "00+82", "76", "a6", "00+a6", "00+a7", "00+a8", "00+a9", "00+aa", "03616263+a8",
    "7c", "51+7c", "7b", "51+52+7b", "77", "51+77", "78", "51+78", "7d", "51+7d", "6d", "51+6d", "6e", "51+6e", "6f", "51+52+6f", "70", "51+52+53+70",
    "71", "51+52+53+54+55+71", "72", "51+52+53+72", "79", "51+79", "51+4f+79", "51+51+79", "7a", "51+7a", "51+4f+7a", "51+51+7a",
    "8b", "8c", "8d", "8e", "8f", "90", "4f+8f", "4f+90", "0180+8f", "4f+8d", "4f+8e", "53+8e", "0183+8e", "02ff7f+8d", "02ff7f+8b", "02ffff+8c",
    "ab", "51+ab+52+ab", "b0+b3+b4+b5+b6+b7+b8+b9+61+51",
]


def generate(rng, tier):
    cases = []
    for s in FIXED:
        cases.append(("interp.run", [s]))
        cases.append(("interp.trace", [s]))
    cases += opcode_alphabet(rng, tier)
    cases += boundary_stream(rng, tier)
    nprog = 700 if tier == "quick" else 6000
    for i in range(nprog):
        parts, _ = rand_prog(rng, rng.choice([0, 1, 2, 3, 6]), rng.randrange(1, 14), 0, [6])
        s = "+".join(parts)
        cases.append(("interp.run", [s]))
        if i % 4 == 0:
            cases.append(("interp.trace", [s]))
    # nested conditionals to depth 6: every combination of outcomes along one path
    for mask in range(64):
        conds = [(mask >> k) & 1 for k in range(6)]
        s = []
        for k, c in enumerate(conds):
            s += [push("01" if c else ""), op(99 if k % 2 == 0 else 100), op(81 + k)]
        s += [op(0x5a)]
        for k in reversed(range(6)):
            s += ["67", op(0x5b), "68"]
        cases.append(("interp.run", ["+".join(s)]))
    # canonical trees given as bit trees (same scripts as the parser would build) and non-minimal push forms
    for t in ["o81,o82,o147", "p01,i99.1.1,o82,o83", "p,i100.2.x,o82,o83,o84", "d76.0102,d77.03,d78.,o126,o126",
              "p01,i99.1.0,p02,o118", "p01,i99.0.1,o85", "o81,i99.2.x,o81,i100.1.1,o82,o83,o84",
              # trees the parser cannot produce: outside C14 (specification "-"), correspondence only
              "_", "c00", "o81,c0102,o82", "o99,o81", "o81,o99,o82,o103,o83,o104", "o103,o104", "d81.0102", "i81.1.x,o82", "o81,i103.1.1,o82,o83",
              "o81,i99.0.0", "o0,i100.0.0,o81", "o81,i101.1.1,o82,o83", "o0,i102.1.1,o82,o83", "o81,i99.2.x,o103,o104", "p" + "ab" * 76]:
        cases.append(("interp.runbits", [t]))
        cases.append(("interp.tracebits", [t]))
    return cases


def shrink_candidates(case):
    o, args = case
    parts = args[0].split("+")
    out = []
    for k in range(len(parts)):
        q = parts[:k] + parts[k + 1:]
        if q:
            out.append((o, ["+".join(q)]))
    for k in range(1, len(parts)):
        out.append((o, ["+".join(parts[:k])]))
    return out[:300]


def nontrivial(case, impl_out):
    return impl_out.startswith("OK:") and not impl_out.startswith("OK:E")
