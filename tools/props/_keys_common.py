"""Helpers shared by the C07 / C12 case generators: secp256k1 on Python integers, Base58(Check), WIF, SEC1,
DER, HASH160.  Used only to BUILD inputs (valid encodings and their corruptions); expected results come
from the Coq side."""
import hashlib

P = 2 ** 256 - 2 ** 32 - 977
N = 0xFFFFFFFFFFFFFFFFFFFFFFFFFFFFFFFEBAAEDCE6AF48A03BBFD25E8CD0364141
G = (0x79BE667EF9DCBBAC55A06295CE870B07029BFCDB2DCE28D959F2815B16F81798,
     0x483ADA7726A3C4655DA4FBFC0E1108A8FD17B448A68554199C47D08FFB10D4B8)
B58 = "123456789ABCDEFGHJKLMNPQRSTUVWXYZabcdefghijkmnopqrstuvwxyz"


def padd(a, b):
    if a is None:
        return b
    if b is None:
        return a
    (x1, y1), (x2, y2) = a, b
    if x1 == x2:
        if (y1 + y2) % P == 0:
            return None
        l = 3 * x1 * x1 * pow(2 * y1, -1, P) % P
    else:
        l = (y2 - y1) * pow(x2 - x1, -1, P) % P
    x3 = (l * l - x1 - x2) % P
    return (x3, (l * (x1 - x3) - y1) % P)


def pmul(k, a):
    r = None
    while k:
        if k & 1:
            r = padd(r, a)
        a = padd(a, a)
        k >>= 1
    return r


def sec1(pt, compressed):
    x, y = pt
    if compressed:
        return bytes([2 + (y & 1)]) + x.to_bytes(32, "big")
    return b"\x04" + x.to_bytes(32, "big") + y.to_bytes(32, "big")


def pub_of(d, compressed):
    return sec1(pmul(d, G), compressed)


def sha256d(b):
    return hashlib.sha256(hashlib.sha256(b).digest()).digest()


def b58enc(b):
    z = len(b) - len(b.lstrip(b"\x00"))
    v = int.from_bytes(b, "big")
    s = ""
    while v:
        v, r = divmod(v, 58)
        s = B58[r] + s
    return "1" * z + s


def b58check(payload):
    return b58enc(payload + sha256d(payload)[:4])


def wif(key32, compressed, prefix=0x80):
    return b58check(bytes([prefix]) + key32 + (b"\x01" if compressed else b""))


def address(prefix, h):
    return b58check(bytes([prefix]) + h)


def der_int(v):
    b = v.to_bytes((v.bit_length() + 7) // 8 or 1, "big")
    if b[0] & 0x80:
        b = b"\x00" + b
    return b"\x02" + bytes([len(b)]) + b


def der(r, s):
    body = der_int(r) + der_int(s)
    return b"\x30" + bytes([len(body)]) + body


# ---- RIPEMD-160 (pure Python; hashlib's may be missing with OpenSSL 3) ----
def _rol(x, n):
    return ((x << n) | (x >> (32 - n))) & 0xffffffff


_R1 = [0, 1, 2, 3, 4, 5, 6, 7, 8, 9, 10, 11, 12, 13, 14, 15, 7, 4, 13, 1, 10, 6, 15, 3, 12, 0, 9, 5, 2, 14, 11, 8,
       3, 10, 14, 4, 9, 15, 8, 1, 2, 7, 0, 6, 13, 11, 5, 12, 1, 9, 11, 10, 0, 8, 12, 4, 13, 3, 7, 15, 14, 5, 6, 2,
       4, 0, 5, 9, 7, 12, 2, 10, 14, 1, 3, 8, 11, 6, 15, 13]
_R2 = [5, 14, 7, 0, 9, 2, 11, 4, 13, 6, 15, 8, 1, 10, 3, 12, 6, 11, 3, 7, 0, 13, 5, 10, 14, 15, 8, 12, 4, 9, 1, 2,
       15, 5, 1, 3, 7, 14, 6, 9, 11, 8, 12, 2, 10, 0, 4, 13, 8, 6, 4, 1, 3, 11, 15, 0, 5, 12, 2, 13, 9, 7, 10, 14,
       12, 15, 10, 4, 1, 5, 8, 7, 6, 2, 13, 14, 0, 3, 9, 11]
_S1 = [11, 14, 15, 12, 5, 8, 7, 9, 11, 13, 14, 15, 6, 7, 9, 8, 7, 6, 8, 13, 11, 9, 7, 15, 7, 12, 15, 9, 11, 7, 13, 12,
       11, 13, 6, 7, 14, 9, 13, 15, 14, 8, 13, 6, 5, 12, 7, 5, 11, 12, 14, 15, 14, 15, 9, 8, 9, 14, 5, 6, 8, 6, 5, 12,
       9, 15, 5, 11, 6, 8, 13, 12, 5, 12, 13, 14, 11, 8, 5, 6]
_S2 = [8, 9, 9, 11, 13, 15, 15, 5, 7, 7, 8, 11, 14, 14, 12, 6, 9, 13, 15, 7, 12, 8, 9, 11, 7, 7, 12, 7, 6, 15, 13, 11,
       9, 7, 15, 11, 8, 6, 6, 14, 12, 13, 5, 14, 13, 13, 7, 5, 15, 5, 8, 11, 14, 14, 6, 14, 6, 9, 12, 9, 12, 5, 15, 8,
       8, 5, 12, 9, 12, 5, 14, 6, 8, 13, 6, 5, 15, 13, 11, 11]
_K1 = [0, 0x5a827999, 0x6ed9eba1, 0x8f1bbcdc, 0xa953fd4e]
_K2 = [0x50a28be6, 0x5c4dd124, 0x6d703ef3, 0x7a6d76e9, 0]


def _f(j, x, y, z):
    if j < 16:
        return x ^ y ^ z
    if j < 32:
        return (x & y) | (~x & 0xffffffff & z)
    if j < 48:
        return (x | (~y & 0xffffffff)) ^ z
    if j < 64:
        return (x & z) | (y & (~z & 0xffffffff))
    return x ^ (y | (~z & 0xffffffff))


def ripemd160(msg):
    h = [0x67452301, 0xefcdab89, 0x98badcfe, 0x10325476, 0xc3d2e1f0]
    ml = len(msg)
    msg = msg + b"\x80" + b"\x00" * ((55 - ml) % 64) + (8 * ml).to_bytes(8, "little")
    for off in range(0, len(msg), 64):
        x = [int.from_bytes(msg[off + 4 * i: off + 4 * i + 4], "little") for i in range(16)]
        a, b, c, d, e = h
        a2, b2, c2, d2, e2 = h
        for j in range(80):
            t = (_rol((a + _f(j, b, c, d) + x[_R1[j]] + _K1[j // 16]) & 0xffffffff, _S1[j]) + e) & 0xffffffff
            a, e, d, c, b = e, d, _rol(c, 10), b, t
            t = (_rol((a2 + _f(79 - j, b2, c2, d2) + x[_R2[j]] + _K2[j // 16]) & 0xffffffff, _S2[j]) + e2) & 0xffffffff
            a2, e2, d2, c2, b2 = e2, d2, _rol(c2, 10), b2, t
        t = (h[1] + c + d2) & 0xffffffff
        h = [t, (h[2] + d + e2) & 0xffffffff, (h[3] + e + a2) & 0xffffffff, (h[4] + a + b2) & 0xffffffff, (h[0] + b + c2) & 0xffffffff]
    return b"".join(v.to_bytes(4, "little") for v in h)


assert ripemd160(b"abc").hex() == "8eb208f7e05d987a9b044a8e98c6b087f15a0bfc"
assert ripemd160(b"").hex() == "9c1185a5c5e9fc54612808977ee8f548b2258d31"


def hash160(b):
    return ripemd160(hashlib.sha256(b).digest())


def text(s):
    """text arguments travel as hex of their UTF-8 bytes"""
    return s.encode("utf-8").hex()


def rnd_bytes(rng, n):
    return bytes(rng.randrange(256) for _ in range(n))


def keys(rng, nrandom):
    ks = [1, 2, N - 1, N - 2, (N - 1) // 2, 2 ** 255 % N, 0x0c28fca386c7a227600b2fe50b7cae11ec86d3bf1fbe471be89827e19d72aa1d]
    ks += [rng.randrange(1, N) for _ in range(nrandom)]
    # a key with leading zero bytes
    ks.append(rng.randrange(1, 2 ** 200))
    return ks
