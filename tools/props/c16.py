"""C16 — case generator: interpreter totality, stepping vs run."""
from props import c14

ID = "C16"
LEVEL = "proof"
EXEC = "Run.Exec_C14"
RULE = ("all 256 byte values as the last element of a script (opcodes the parser accepts incl. reserved, disabled and template "
        "pseudo-opcodes; conditional openers with and without their OP_ENDIF) on stacks of depth 0..arity over the C14 alphabet; "
        "negative, boundary, huge and over-long index / position / length / shift-count operands for PICK, ROLL, SPLIT, NUM2BIN, "
        "LSHIFT, RSHIFT; zero divisors; hand-built bit trees (coinbase bit, flat conditional opcodes, odd PUSHDATA codes, conditionals "
        "with arbitrary codes, empty branches, nesting to depth 200); random programs and random byte strings; every case is stepped "
        "Interpreter::from_transaction on one-input transactions with CHECKSIG / CHECKMULTISIG stacks of every shape (counts negative, zero, above the depth, huge, over-long; data that is not a signature); every case is stepped with next() to the end, stepped once more, and run() on a fresh interpreter; non-trivial = the script parses (the model "
        "output is OK:...); distinct by (op, arguments)")
TRUSTED = c14.TRUSTED[:1]
ASSUMPTIONS = ["native-stack exhaustion of the recursive parser / Vec<ScriptBit> clone and drop on very deep nesting is outside the Gallina model (recorded finding of C02/C09)",
               "memory: OP_NUM2BIN and OP_LSHIFT allocate what their numeric operand asks for (up to 2 GiB / 256 MiB); shift counts above 4000 (on non-zero values) and NUM2BIN lengths above 5000 are not generated",
               "CHECKSIG-family opcodes: without a transaction they return Err before touching the stack; with a transaction (interp.txrun) only data that is not a valid signature is supplied, so the transaction side (C15) always answers Err and is modelled as such"]

push, num, op, ALPHA = c14.push, c14.num, c14.op, c14.ALPHA


def S(parts):
    return "+".join(parts)


def generate(rng, tier):
    cases = []
    add = lambda parts: cases.append(("interp.step_vs_run", [S(parts)]))
    addt = lambda t: cases.append(("interp.step_vs_runbits", [t]))
    reps = 2 if tier == "quick" else 12

    # 1. every byte value on stacks of depth 0..arity
    for b in range(256):
        ar = c14.ARITY.get(b, 3)
        tails = [[op(b)]]
        if 99 <= b <= 102:
            tails = [[op(b)], [op(b), "68"], [op(b), "51", "67", "52", "68"], [op(b), "67", "68"]]
        elif 1 <= b <= 75:
            tails = [[op(b) + "ab" * b], [op(b) + "ab" * (b - 1)], [op(b)]]
        elif b == 76:
            tails = [["4c"], ["4c00"], ["4c02abcd"], ["4c03abcd"]]
        elif b == 77:
            tails = [["4d"], ["4d00"], ["4d0000"], ["4d0200abcd"], ["4d0300abcd"]]
        elif b == 78:
            tails = [["4e"], ["4e000000"], ["4e00000000"], ["4e02000000abcd"], ["4effffffff"]]
        for tail in tails:
            for d in range(0, min(ar, 6) + 1):
                for _ in range(1 if d == 0 else reps):
                    items = [rng.choice(ALPHA) for _ in range(d)]
                    add([push(x) for x in items] + tail)
        # the same opcode inside both branches of a conditional and after an error-free prefix
        if b == 0 or b > 78:
            add(["51", "63", op(b), "67", op(b), "68"])
            add(["00", "63", op(b), "67", op(b), "68"])

    # 2. index / position / length / count operands
    def nums_around(depth):
        return [-(2 ** 31), -(2 ** 31) + 1, -(2 ** 31) - 1, -2, -1, 0, 1, depth - 1, depth, depth + 1, 127, 128, 255, 256, 32767, 32768,
                2 ** 31 - 1, 2 ** 31, 2 ** 32, 2 ** 63, 2 ** 64]
    odd = ["0100000000", "0000000080", "00000080", "01000000", "0100", "80", "00", "ffffffff7f", "ffffffffff", "ffffff7f", "ffffffff"]
    for depth in range(0, 5):
        items = [rng.choice(ALPHA) for _ in range(depth)]
        base = [push(x) for x in items]
        for z in nums_around(depth):
            for o in (121, 122):
                add(base + [push(num(z)), op(o)])
        for h in odd:
            for o in (121, 122, 127):
                add(base + [push(h), op(o)])
    for x in ["", "01", "010203", "BLOB"]:
        n = 80 if x == "BLOB" else len(x) // 2
        for z in nums_around(n):
            add([push(x), push(num(z)), op(127)])
            add([push(num(z)), op(127)])
    for idx in [0, 127, 128, 255, 256, 257, 299, 300, 301, 65535, 65536, 2 ** 32 + 299]:
        add(["r:74:300", push(num(idx)), op(121)]); add(["r:74:300", push(num(idx)), op(122)])
    for n in [255, 256, 257, 65535, 65536]:
        item = ("4c%02x" % n if n < 256 else "4d" + n.to_bytes(2, "little").hex() if n < 65536 else "4e" + n.to_bytes(4, "little").hex()) + "+l:3:%d" % n
        for pos in [n - 1, n, n + 1, 2 ** 32 + n]:
            add([item, push(num(pos)), op(127)])
    # NUM2BIN: length operand (top); never above 5000
    for x in ["", "00", "80", "01", "81", "ff00", "ff80", "0100", "00000080", "0102030405", "BLOB", "ffffff7f", "ffffffff"]:
        n = 80 if x == "BLOB" else len(x) // 2
        for z in [-(2 ** 31) + 1, -1, 0, 1, 2, n - 1, n, n + 1, 4, 5, 8, 127, 128, 255, 256, 1000, 5000, 2 ** 32, 2 ** 63]:
            add([push(x), push(num(z)), op(128)])
        for h in odd[:5]:
            add([push(x), push(h), op(128)])
    add([push(num(5)), op(128)])
    # shifts: the library reads `count value OP_xSHIFT`; counts on non-zero values stay <= 4000
    for v in ["", "00", "80", "01", "81", "ff00", "ff80", "0102030405", "BLOB"]:
        for z in [-(2 ** 31) + 1, -1, 0, 1, 7, 8, 9, 31, 32, 33, 63, 64, 65, 127, 128, 129, 1000, 4000, 2 ** 32]:
            add([push(num(z)), push(v), op(152)])
            add([push(num(z)), push(v), op(153)])
            add([push(v), push(num(z)), op(152)])
            add([push(v), push(num(z)), op(153)])
        for z in [2 ** 31 - 1, 2 ** 31 - 2, 2 ** 30]:
            add([push(num(z)), push(v), op(153)])
        for h in odd[:4]:
            add([push(h), push(v), op(152)])
            add([push(h), push(v), op(153)])
    for z in [2 ** 31 - 1, 2 ** 30]:
        add([push(num(z)), "00", op(152)])
        add([push(num(z)), push("80"), op(152)])
        add([push(num(z)), push("0000"), op(152)])
    # zero divisors of every spelling
    for zero in ["", "00", "80", "0000", "0080", "00000080", "0000000000", "0000000080"]:
        for a in ["", "01", "81", "BLOB"]:
            add([push(a), push(zero), op(150)])
            add([push(a), push(zero), op(151)])
            add([push(zero), push(a), op(150)])
    # CHECKSIG family without a transaction, multisig-shaped stacks
    for o in (172, 173, 174, 175):
        for st in [[], ["01"], ["01", "02"], ["", "01", "01", "02", "01"], ["", "01", "01", "02", "05"], ["", "05", "01", "02", "01"], ["00", "81"], ["0102030405"]]:
            add([push(x) for x in st] + [op(o)])

    # 3. hand-built bit trees
    trees = ["_", "c", "c00", "o81,c0102,o82", "c00,o81", "o99", "o100", "o99,o81", "o81,o99,o82,o103,o83,o104", "o101", "o102", "o103,o104",
             "d81.0102", "d0.", "d99.00", "d255.ff", "d76.", "d78.00", "p", "p,p,o135",
             "i81.1.x,o82", "o81,i81.1.x,o82", "o81,i103.1.1,o82,o83", "o0,i104.1.1,o82,o83", "o81,i255.0.0", "o81,i76.1.x,o81",
             "i99.0.x", "i99.0.0", "o81,i99.0.x", "o0,i99.0.x", "o81,i99.0.0", "o0,i100.0.0,o81", "o81,i101.1.1,o82,o83", "o0,i102.1.1,o82,o83",
             "o81,i99.1.x,c00", "o0,i99.1.x,c00", "o0,i99.1.1,c00,o85", "o81,i99.1.x,o99", "o81,i99.2.x,o103,o104",
             "p" + "ab" * 76, "p" + "ab" * 300, "d76." + "ab" * 300, "o81,o81,o81,o172", "o81,o174"]
    for t in trees:
        addt(t)
    for depth in ([10, 60] if tier == "quick" else [10, 60, 200]):
        # every level: condition push, IF/NOTIF with a 2-bit pass branch (the inner level) and a 1-bit else branch
        def build(d):
            if d == 0:
                return ["o85", "o86"]
            inner = build(d - 1)
            return ["o%d" % (81 if d % 3 else 0), "i%d.2.1" % (99 if d % 2 == 0 else 100)] + inner + ["o87"]
        addt(",".join(build(depth)))
        add(["51", "r:63:%d" % depth, "r:68:%d" % depth])
        add(["00", "r:64:%d" % depth, "52", "r:68:%d" % depth])
        add(["r:63:%d" % depth, "r:68:%d" % (depth - 1)])

    # 3b. Interpreter::from_transaction: CHECKSIG family with a transaction present (data that is not a signature:
    #     every path ends in Err; what is tied is the stack protocol, the count checks and the absence of panics)
    addx = lambda u, l, i=0: cases.append(("interp.txrun", [S(u) if u else "", S(l) if l else "", str(i)]))
    garbage = ["", "00", "01", "41", "0141", "c3", "ff", "3006020101020101", "300602010102010141", "02" + "11" * 32, "BLOB"]
    for o in (172, 173):
        for st in [[], ["41"], ["0141", "02" + "11" * 32], ["", ""], ["00", "02" + "11" * 32], ["300602010102010141", "02" + "11" * 32], ["ff", "ff"], ["BLOB", "BLOB"]]:
            addx([push(x) for x in st], [op(o)])
            addx([push(x) for x in st], ["ab", op(o)])
            addx([push(x) for x in st] + ["51", "63", "ab", "68"], ["ab", "51", "75", op(o)])
    counts = [-(2 ** 31) + 1, -1, 0, 1, 2, 3, 4, 5, 16, 17, 127, 128, 2 ** 31 - 1, 2 ** 31, 2 ** 40]
    for o in (174, 175):
        for nk in counts:
            for ns in [-1, 0, 1, 2, 3, 2 ** 31 - 1, 2 ** 32]:
                if rng.random() < (0.35 if tier == "quick" else 1.0):
                    for depth_extra in (0, 1):
                        nkeys = max(0, min(nk, 4)) - (1 if depth_extra == 0 and rng.random() < 0.3 else 0)
                        nsigs = max(0, min(ns, 4)) - (1 if depth_extra == 0 and rng.random() < 0.3 else 0)
                        items = (["00"] if depth_extra or rng.random() < 0.7 else []) + [push(rng.choice(garbage)) for _ in range(max(0, nsigs))] \
                            + [push(num(ns))] + [push(rng.choice(garbage)) for _ in range(max(0, nkeys))] + [push(num(nk))]
                        addx(items[: len(items) // 2], items[len(items) // 2:] + [op(o)])
        for h in odd:
            addx(["00", "0141", "51"], [push("02" + "11" * 32), push(h), op(o)])
            addx(["00", "0141", push(h)], [push("02" + "11" * 32), "51", op(o)])
        addx([], [op(o)]); addx(["51"], [op(o)]); addx(["51", "51"], [op(o)]); addx(["00", "51"], ["51", op(o)])
    for idx in (1, 2, 2 ** 32, 2 ** 63):
        addx(["51"], ["51"], idx)
    addx(["63"], ["68"]); addx(["51", "63"], ["68"]); addx(["0501"], ["51"]); addx(["51"], ["0501"]); addx([], []); addx(["51", "52"], ["93"])

    # 3c. CHECKSIG family actually reached: syntactically valid signatures (DER + every kind of flag byte) and public keys,
    #     OP_CODESEPARATOR at every position including inside taken / untaken IF / ELSE branches, unlocking scripts of
    #     0..3 pushes.  Signatures need not verify; required: no panic, stepping = run, stacks kept after an error.
    addsafe = lambda u, l, nout=1, i=0: cases.append(("interp.txsafe", [S(u) if u else "", S(l) if l else "", str(i), str(nout)]))
    GX = "79be667ef9dcbbac55a06295ce870b07029bfcdb2dce28d959f2815b16f81798"
    GY = "483ada7726a3c4655da4fbfc0e1108a8fd17b448a68554199c47d08ffb10d4b8"
    pks = ["02" + GX, "04" + GX + GY, "03" + GX]
    def sig(flag, long=False):
        der = ("3044" + "0220" + GX + "0220" + "11" * 32) if long else "3006020101020101"
        return der + "%02x" % flag
    flags = [0x01, 0x02, 0x03, 0x41, 0x42, 0x43, 0x81, 0x83, 0xc1, 0xc2, 0xc3]
    def with_sep(tokens):
        yield tokens
        for pos in range(len(tokens) + 1):
            yield tokens[:pos] + ["ab"] + tokens[pos:]
        yield ["ab"] + tokens + ["ab"]
    long_branch = ["51"] * 5 + ["75"] * 5
    lock_templates = []
    for o in ("ac", "ad"):
        tail = [o] if o == "ac" else [o, "51"]
        lock_templates += [tail, ["51", "63", "61", "68"] + tail, ["00", "63", "61", "68"] + tail,
                           ["51", "63", "61", "67", "61", "68"] + tail, ["00", "63", "61", "67", "61", "68"] + tail,
                           ["51", "63"] + long_branch + ["68"] + tail, ["00", "64"] + long_branch + ["67", "61", "68"] + tail,
                           ["51", "63", "51", "63", "61", "68", "68"] + tail, ["51", "63"] + tail + ["67", "61", "68"],
                           ["00", "63", "61", "67"] + tail + ["68"]]
    fi = 0
    for lt in lock_templates:
        for l in with_sep(lt):
            fl = flags[fi % len(flags)]; fi += 1
            pk = pks[fi % len(pks)]
            unlocks = [[], [push(sig(fl))], [push(sig(fl)), push(pk)], [push("07"), push(sig(fl, True)), push(pk)]]
            for u in (unlocks if tier == "thorough" or fi % 2 == 0 else unlocks[2:]):
                addsafe(u, l, nout=fi % 2)
    # the separator in the unlocking script, inside a taken conditional there, and a conditional opened in the unlocking script
    for fl in flags:
        for pk in pks[:2]:
            addsafe(["ab", push(sig(fl)), push(pk)], ["ac"]); addsafe([push(sig(fl)), "ab", push(pk), "ab"], ["ab", "ac"])
            addsafe(["51", "63", "ab", push(sig(fl)), "68", push(pk)], ["ac"], nout=0)
            addsafe([push(sig(fl)), push(pk)], ["76", "ab", "75", "ac"]); addsafe([push(sig(fl, True)), push(pk)], ["ac"], nout=2)
            addsafe([push(sig(fl)), push(pk)], ["ac", "ab", "51"]); addsafe([push(pk), push(sig(fl))], ["ac"])
    addsafe([push("01"), push("01")] + ["51"] * 6, ["63", "51", "51", "51", "51", "ab", "68", "ac"])
    addsafe(["51"] * 6, ["63", "51", "51", "51", "51", "ab", "68", push(sig(1)), push(pks[0]), "ac"])
    # multisig: m-of-n shapes with real-looking data, separators at every position, missing dummy, two different flags
    ms_templates = []
    for o in ("ae", "af"):
        tail = [o] if o == "ae" else [o, "51"]
        for n in (1, 2, 3):
            keys = [push(pks[k % 3]) for k in range(n)]
            for m in range(1, n + 1):
                ms_templates.append((m, [op(80 + m)] + keys + [op(80 + n)] + tail))
                ms_templates.append((m, ["51", "63", op(80 + m)] + keys + [op(80 + n)] + tail[:1] + ["68"] + tail[1:]))
    for m, lt in ms_templates:
        for l in with_sep(lt):
            fi += 1
            sigs = [push(sig(flags[(fi + k) % len(flags)], k % 2 == 1)) for k in range(m)]
            unlocks = [["00"] + sigs, sigs, ["00"] + sigs[:-1], []]
            for u in (unlocks if tier == "thorough" or fi % 3 == 0 else unlocks[:1]):
                addsafe(u, l, nout=fi % 2)
    for nk, ns in [(0, 0), (1, 0), (0, 1), (2, 3), (17, 1), (-1, 1), (1, -1), (2 ** 31 - 1, 1), (1, 2 ** 31 - 1), (3, 3)]:
        addsafe(["00", push(sig(1)), push(sig(0x41))], [push(num(ns)), push(pks[0]), push(pks[1]), push(num(nk)), "ae"])
    addsafe(["51"], ["51"], i=1); addsafe([push(sig(1)), push(pks[0])], ["ac"], i=2 ** 32)
    # IF / NOTIF condition operands of every width 0..33: error and success paths, second next()
    for wd in range(0, 34):
        for c in ["00" * wd, "00" * max(0, wd - 1) + "80" * min(1, wd), "00" * max(0, wd - 1) + "01" * min(1, wd), "01" * min(1, wd) + "00" * max(0, wd - 1)]:
            for code in ("63", "64", "65", "66"):
                add([push(c), code, "55", "67", op(147), "68"])
                add([push(c), code, op(147), "67", "56", "68", op(147)])

    # 3d. call history on ONE Interpreter object: k x next(), clone(), run(), run() on the clone, run() again; State accessors;
    #     every constructor (from_script, from_transaction, from_transaction_and_script_bits with bits that are / are not the input's script)
    hist_scripts = ["", "51", "51+52+93", "51+93+52", "93", "51+63+52+67+53+68+54", "00+63+52+67+53+68+54", "00+64+51+63+55+68+67+56+68+57",
                    "51+6b+52+6c+6c", "51+52+53+7b+7c+87", "51+ab+52+ab+53", "51+68+52", "51+63+52+67+53+67+54+68", "00+63+52+67+53+67+54+68",
                    "51+6a+52", "63+68", "51+63+93+68+52", "0501", "51+69+52+69+00+69+53", "5a+5b+a3+5c+a4+8f+90", "ac", "51+51+ac", "51+ae",
                    "r:74:20+5a+79+77", "51+r:63:8+52+r:68:8", "03010203+52+7f+7e+82", "51+b1+52", "51+50+52", "51+fe+52"]
    for hs in hist_scripts:
        nparts = len(hs.split("+")) if hs else 0
        for k in sorted({0, 1, 2, 3, nparts // 2, max(0, nparts - 1), nparts, nparts + 1, nparts + 5, 40}):
            cases.append(("interp.hist", [hs, str(k)]))
    for t in ["_", "c00", "o81,c00,o82", "o81,i99.1.1,o82,o83,o84", "o0,i100.2.x,o82,o83,o84", "o81,o99,o82", "p0102,d76.03,o147", "o81,i99.1.x,c00,o85"]:
        for k in (0, 1, 2, 3, 9):
            cases.append(("interp.histbits", [t, str(k)]))
    for u, l in [("", "51"), ("51+52", "93"), ("00+0107", "51+0109+51+ae"), ("0107+0109", "ac"), ("0107+0109", "ab+ad+51"), ("51", "63+ab+68+0141+0109+ac"),
                 ("00", "55+ae"), ("51+63", "68"), ("", "")]:
        for k in (0, 1, 2, 3, 4, 7):
            cases.append(("interp.histtx", [u, l, str(k)]))
    for u, l, t in [("51", "52", "o83,o84,o147"), ("51", "52", "_"), ("0107+0109", "ac", "p07,p09,o172"), ("0107+0109", "ac", "p07,p09,o171,o173,o81"),
                    ("", "", "o81,o174"), ("51", "51", "o0,p0141,o81,p09,o81,o174"), ("51", "51", "c00")]:
        for idx in (0, 1, 7):
            for k in (0, 1, 2, 5):
                cases.append(("interp.histtxbits", [u, l, t, str(idx), str(k)]))

    # 3e. bits that only the NON-byte constructors can produce: every opcode of the enum as a bare ScriptBit::OpCode
    #     (incl. OP_PUSHDATA1/2/4, the conditional opcodes as flat bits, the pseudo-opcodes), If blocks and PushData bits
    #     carrying any opcode, at the first / middle / last position, inside taken and untaken branches; built with
    #     from_script_bits, from_asm_string and from_transaction_and_script_bits
    import os, re
    src = open(os.path.join(os.environ.get("VERIF_REPO", "/repo"), "src/script/op_codes.rs"), encoding="utf-8").read()
    enum = sorted({(int(v, 0), n) for n, v in re.findall(r"^\s*(OP_[A-Z0-9_]+)\s*=\s*(0x[0-9a-fA-F]+|\d+)\s*,", src, flags=re.M)})
    for b, name in enum:
        for t in ["o%d" % b, "o81,o%d,o82" % b, "o81,o82,o%d" % b, "o81,i99.1.1,o%d,o83" % b, "o0,i99.1.1,o%d,o83" % b, "o0,i100.2.1,o83,o%d,o84" % b,
                  "o81,i%d.1.1,o82,o83" % b, "o0,i%d.0.x,o85" % b, "d%d.0102,o82" % b, "o81,i99.1.x,d%d.,o82" % b]:
            addt(t)
        cases.append(("interp.histtxbits", ["51", "52", "o81,o%d,o82" % b, "0", "3"]))
        cases.append(("interp.histtxbits", ["51", "52", "o0,i99.1.1,o83,o%d" % b, "0", "1"]))
        asm = ["%s", "OP_1 %s OP_2", "OP_1 OP_IF %s OP_ENDIF OP_2", "OP_0 OP_IF OP_3 OP_ELSE %s OP_ENDIF", "OP_1 OP_2 %s"]
        for a in (asm if tier == "thorough" or b in (76, 77, 78) or 99 <= b <= 104 or b >= 251 else asm[1:4]):
            cases.append(("interp.step_vs_runasm", [(a % name).encode().hex()]))
    for a in ["", "OP_PUSHDATA1", "OP_1 OP_PUSHDATA2 OP_2", "0102 OP_PUSHDATA4", "OP_1 OP_IF OP_PUSHDATA1 OP_ENDIF", "OP_0 OP_IF OP_PUSHDATA1 OP_ENDIF OP_1",
              "OP_ELSE", "OP_1 OP_ENDIF", "OP_IF", "OP_1 OP_IF", "0 1 16 ff", "OP_1 " + "ab" * 80 + " OP_SIZE", "OP_1 OP_VERIF OP_2 OP_ENDIF", "OP_NOPE", "OP_1\tOP_2\nOP_ADD"]:
        cases.append(("interp.step_vs_runasm", [a.encode().decode("unicode_escape").encode().hex()]))
    for t in ["p" + "ab" * 76 + ",o130", "o81,p" + "ab" * 200, "o81,i99.1.x,p" + "ab" * 100, "o0,i99.1.x,p" + "ab" * 100, "c,o81", "o81,c", "o81,i99.1.x,c00,o82", "o0,i99.1.1,c00,o82,o83",
              "o0,i99.1.1,o82,c00", "d76." + "ab" * 80 + ",o130", "d77.,o130", "d78.01", "o81,i99.0.0,o82", "o0,i99.0.0,o82", "o81,i100.0.x", "i99.0.x"]:
        addt(t)
        cases.append(("interp.histbits", [t, "2"]))
        cases.append(("interp.histtxbits", ["51", "52", t, "0", "2"]))

    # 3f. the unlocking / locking boundary on the transaction route: the unlocking script leaves items on the alt stack, is not
    #     push-only, ends inside an open conditional (built as a tree); the first locking opcode fails / succeeds / reads the alt stack
    b_unlocks = ["57+6b", "57+58+6b+6b", "57+6b+58", "57+6b+6c+6b", "51+63+57+6b+68", "00+63+57+6b+67+58+6b+68+59", "57+6b+ab", "", "57",
                 "To87,o107,o81,o99", "To87,o107,o0,o99,o88", "To81,o99,o87,o107", "To87,o107,c00"]
    b_locks = ["93", "6c", "51", "6c+6c", "69", "75", "50", "63+51+68", "ac", "ab+6c", "6c+93", "6b", "68", "67+52+68", "52+6b+68+6c+6c", "0501", ""]
    for bu in b_unlocks:
        for bl in b_locks:
            cases.append(("interp.txrun", [bu, bl, "0"]))
            nb = len(bu.split("+")) if not bu.startswith("T") else len(bu.split(","))
            for k in (nb, nb + 1):
                cases.append(("interp.histtx", [bu, bl, str(k)]))
    for bl in ["T_", "To93", "To108,o81", "Tc00"]:
        cases.append(("interp.txrun", ["57+6b", bl, "0"])); cases.append(("interp.histtx", ["To87,o107", bl, "2"]))

    # 4. random programs, random byte strings
    nprog = 300 if tier == "quick" else 4000
    for i in range(nprog):
        parts, _ = c14.rand_prog(rng, rng.choice([0, 1, 2, 3, 6]), rng.randrange(1, 14), 0, [6])
        add(parts)
    nfuzz = 300 if tier == "quick" else 4000
    safe = [b for b in range(256) if b not in (152, 128, 126, 149, 141)]
    for i in range(nfuzz):
        n = rng.randrange(1, 12)
        bs = bytes(rng.choice(safe) if rng.random() < 0.8 else rng.choice([0, 0x51, 0x63, 0x67, 0x68, 0x76, 0x93]) for _ in range(n))
        add([bs.hex()])
    return cases


shrink_candidates = c14.shrink_candidates


def nontrivial(case, impl_out):
    return impl_out.startswith("OK:")
