"""C12 — case generator: Bitcoin Signed Message sign / verify."""
from props._keys_common import N, G, pmul, sec1, hash160, rnd_bytes, keys

ID = "C12"
LEVEL = "proof"
EXTRA_TARGETS = ["Proofs/ConstsTie.vo"]   # constants regenerated from the Rust source
RULE = ("keys {1, 2, n-1, n-2, (n-1)/2, random, leading-zero} x both compression forms x prefixes 00 / 6f / random; message lengths "
        "0, 1, 2, 55, 56, 64, 100, 252, 253, 254, 300, 1000 and (descriptors) 65535, 65536 (quick: sign only), 70000 (thorough), "
        "through sign, verify against the key's own address, verify after the 65-byte compact round trip, and plain ECDSA "
        "verify_digest(Sha256d) over a preimage built independently by the driver; tampering: single-bit corruptions of message, "
        "of every region of the compact signature (header, r, s) and of the address hash, the address of the other compression "
        "form, the address of another key, and re-prefixed addresses as positive control; explicit compact signatures with headers "
        "26..35, wrong lengths, r/s out of range; sign_message_with_k with both compression forms on both keys and the same key in both "
        "roles; deterministic value-dependent stream: digests / r / s / keys / public x, y / HASH160 with leading zero bytes, top-bit keys; "
        "every negative check (other message, corrupted header / r / s, other hash, other compression form, other key) and the positive "
        "control under each prefix class 00, 6f, 05, 90, ff; message lengths 251..257, 508..512, 509, 65534; is_valid_message and "
        "is_valid_bitcoin_message next to verify_message / verify_bitcoin_message in every verification; "
        "non-trivial = the model returns a value (not an early error); distinct by (op, arguments)")
TRUSTED = ["hand-written Gallina model coq/Model/Bsm.v of src/bsm/mod.rs on top of Model/Ecdsa.v, Model/Sig.v (ECDSA entry points, recovery, "
           "compact form), Model/Keys.v (addresses), Model/VarInt.v (tied by this correspondence run)",
           "Gallina references coq/Prim/{Secp256k1,Rfc6979,Hmac,Sha256,Ripemd160}.v and Spec/BsmSpec.v: the specification column (digest, RFC 6979 "
           "signature, header byte) is computed from them; equality of k256 / rfc6979 / sha2 with the references is validated by this run, not proved",
           "the run evaluates the digest-sharing forms sign_with_digest / verify_with_digest (proved equal to sign_impl / verify_message_impl) over "
           "the BigZ instance with single-entry caches (memo_prims, proved extensionally equal to fast_prims)"]
ASSUMPTIONS = ["secp256k1_group (Proofs/EcdsaSecp.v): on valid points padd is associative, smul (a+b) P = padd (smul a P) (smul b P), "
               "smul (a*b) P = smul a (smul b P) (closure of padd/pneg/smul, commutativity, inverses, lift_x inverts (x, parity), G of order exactly n, "
               "n and p prime are proved: Proofs/SecpGroupPartial.v, Proofs/SecpPrimes.v) — explicit premise of C12_bsm_complete and C12_bsm_other_message_partial; the "
               "abstract-group theorems used are ecdsa_correct, recover_signer, recover_other_z of Proofs/EcdsaAbstract.v",
               "nonce_x_small: the x coordinate of k*G is below n for the RFC 6979 nonce (k256 never records the x-reduced recovery bit; "
               "fails with probability about 2^-128) — explicit premise of the completeness theorem",
               "RFC 6979 candidate search is fuelled in the model (16 rounds); sign returning Err for lack of fuel is excluded by hypothesis",
               "soundness for OTHER messages / keys is modulo collisions of SHA-256d (mod n) and HASH160: C12_bsm_other_message_partial and the "
               "tamper stream (cryptographic, sampled)"]

MSG_LENS = [0, 1, 2, 55, 56, 64, 100, 252, 253, 254, 300, 1000]


def kb(d):
    return d.to_bytes(32, "big").hex()


def msg(rng, n):
    if n <= 64 and rng.random() < 0.7:
        return rnd_bytes(rng, n).hex()
    return "l:%d:%d" % (rng.randrange(1, 2 ** 31), n)


def generate(rng, tier):
    thorough = tier == "thorough"
    cases = []
    A = lambda op, *args: cases.append((op, [str(a) for a in args]))
    ks = keys(rng, 30 if thorough else 6)
    prefixes = lambda: ["00", "6f", "%02x" % rng.randrange(256)]

    # long messages first so that they land in different shards (one SHA-256 block costs ~7 ms in the model)
    A("bsm.sign", kb(ks[7]), 1, "l:11:65535")
    A("bsm.sign", kb(ks[8]), 0, "l:12:65536")
    if thorough:
        A("bsm.sign", kb(ks[9]), 1, "l:13:70000")
        A("bsm.compact_verify", kb(ks[7]), 0, "l:14:65535", "6f")
        A("bsm.compact_verify", kb(ks[8]), 1, "l:15:65536", "00")
        A("bsm.compact_verify", kb(ks[9]), 1, "l:16:70000", "c4")
        A("bsm.tamper", kb(ks[9]), 1, "l:17:65536", "00", "m", 8 * 65535)

    # tests/bsm.rs: key of WIF L17y3TE8AgM6fiWFP4HsbaLnvuBJsQcFKYRoJoZULpTzeTCr2nEC, message "Hello Bitcoin!"
    A("bsm.compact_verify", "74650e3f8a2d0a06959158581a4dfd5a5c7e42cb87fa4b060067578fbe028f6f", 1, "48656c6c6f20426974636f696e21", "00")
    A("bsm.compact_verify", "74650e3f8a2d0a06959158581a4dfd5a5c7e42cb87fa4b060067578fbe028f6f", 0, "48656c6c6f20426974636f696e21", "6f")

    # sign + verify + compact round trip: every key x both forms, lengths across the 252/253 boundary
    i = 0
    for d in (ks if thorough else ks[::2]):
        for c in (0, 1):
            n = MSG_LENS[i % len(MSG_LENS)]
            A("bsm.compact_verify", kb(d), c, msg(rng, n), prefixes()[i % 3])
            i += 1
    for n in MSG_LENS + ([251, 255, 256, 257, 511, 512, 4000] if thorough else []):
        d = rng.choice(ks)
        A("bsm.compact_verify", kb(d), rng.randrange(2), "l:%d:%d" % (rng.randrange(1, 2 ** 31), n), rng.choice(prefixes()))
        A("bsm.sign", kb(rng.choice(ks)), rng.randrange(2), msg(rng, n))
    for _ in range(80 if thorough else 8):
        A("bsm.compact_verify", kb(rng.choice(ks)), rng.randrange(2), msg(rng, rng.randrange(0, 400)), "%02x" % rng.randrange(256))
    # the magic string itself / bytes that look like length prefixes as message
    for m in ["18426974636f696e205369676e6564204d6573736167653a0a", "fd", "fdfd00", "fe00000100", "00", "ff"]:
        A("bsm.compact_verify", kb(ks[0]), 1, m, "00")

    # tampering
    reps = 6 if thorough else 1
    for r in range(reps):
        for d in (ks if thorough else [ks[2], ks[7], ks[8]]):
            c = rng.randrange(2)
            n = rng.choice([0, 1, 14, 100, 252, 253])
            m = msg(rng, n)
            p = rng.choice(prefixes())
            A("bsm.tamper", kb(d), c, m, p, "m", rng.randrange(0, 8 * n + 8))
            A("bsm.tamper", kb(d), c, m, p, "s", rng.choice([rng.randrange(0, 8), rng.randrange(8, 264), rng.randrange(264, 520)]))
            A("bsm.tamper", kb(d), c, m, p, "h", rng.randrange(0, 160))
            if r == 0:
                A("bsm.tamper", kb(d), c, m, p, "c", 0)
                A("bsm.tamper", kb(d), c, m, p, "k", rng.randrange(3, 2 ** 40))
                A("bsm.tamper", kb(d), c, m, p, "p", rng.randrange(256))
    # every header bit, first/last bit of r and s
    d = ks[6]
    for b in list(range(8)) + [8, 263, 264, 519]:
        A("bsm.tamper", kb(d), 1, "616263", "00", "s", b)
    A("bsm.tamper", kb(d), 1, "", "00", "m", 0)
    A("bsm.tamper", kb(d), 0, "l:5:252", "6f", "m", 8 * 252)      # appended byte moves the length across 252/253
    A("bsm.tamper", kb(d), 0, "l:5:253", "6f", "m", 8 * 252 + 7)

    # sign with a caller-chosen nonce: both compression forms on BOTH keys, the same key in both roles
    i = 0
    for _ in range(12 if thorough else 1):
        for c in (0, 1):
            for nc in (0, 1):
                A("bsm.sign_k", kb(rng.choice(ks)), c, kb(rng.randrange(1, N)), nc, msg(rng, MSG_LENS[i % len(MSG_LENS)]), ["00", "6f", "c4"][i % 3])
                i += 1
    A("bsm.sign_k", kb(ks[0]), 1, kb(1), 0, "616263", "00")
    A("bsm.sign_k", kb(ks[2]), 0, kb(N - 1), 1, "", "6f")
    A("bsm.sign_k", kb(ks[6]), 0, kb(ks[6]), 1, "616263", "00")       # signer and nonce are the same key
    A("bsm.sign_k", kb(ks[6]), 1, kb(ks[6]), 0, "616263", "90")
    A("bsm.sign_k", kb(ks[2]), 0, kb(0), 0, "", "00")
    A("bsm.sign_k", kb(0), 0, kb(5), 0, "", "00")
    A("bsm.sign", kb(0), 1, "616263")
    A("bsm.sign", kb(N), 1, "616263")
    A("bsm.sign", "01", 1, "616263")

    # ============================================================ audit additions (deterministic)
    KT = 0x0c28fca386c7a227600b2fe50b7cae11ec86d3bf1fbe471be89827e19d72aa1d
    pfx_classes = ["00", "6f", "05", "90", "ff"]          # mainnet, testnet, other < 0x90, >= 0x90
    # --- value-dependent triggers: digest with leading zero bytes (messages "m300": one, "m7255": two), signatures of KT whose
    #     r ("r562") or s ("r155") has a leading zero byte, keys with leading zero bytes / top bit, public keys whose x / y /
    #     HASH160 have leading zero bytes (d = 153, 122, 44629, 182, 411)
    for j, (d, m) in enumerate([(KT, b"m300"), (KT, b"m7255"), (KT, b"r562"), (KT, b"r155"), (1, b"Hello Bitcoin!"),
                                (2 ** 248 - 1, b"abc"), (2 ** 255, b"abc"), (0xff, b""), (153, b"abc"), (122, b"abc"), (44629, b"x"),
                                (182, b"abc"), (411, b"abc")]):
        for c in (0, 1):
            A("bsm.compact_verify", kb(d), c, m.hex(), pfx_classes[(j + c) % 5])
        if thorough or j % 2 == 0:
            A("bsm.tamper", kb(d), j % 2, m.hex(), pfx_classes[j % 5], "m", 0)
        if thorough or j % 2 == 1:
            A("bsm.tamper", kb(d), (j + 1) % 2, m.hex(), pfx_classes[(j + 2) % 5], "c", 0)
    # --- negative checks on EVERY prefix class: other message, corrupted signature (header / r / s), other hash, other
    #     compression form, other key; and the positive control
    for j, pre in enumerate(pfx_classes):
        for c in ((0, 1) if thorough else (j % 2,)):
            d = [KT, 182, 153][(j + c) % 3]
            A("bsm.tamper", kb(d), c, "48656c6c6f", pre, "m", 3)
            A("bsm.tamper", kb(d), c, "48656c6c6f", pre, "s", [2, 100, 300, 0, 519][j])
            A("bsm.tamper", kb(d), c, "48656c6c6f", pre, "h", 7 * j + c)
            A("bsm.tamper", kb(d), c, "48656c6c6f", pre, "c", 0)
            A("bsm.tamper", kb(d), c, "48656c6c6f", pre, "k", d + 1 if d < 2 ** 40 else 7)
            A("bsm.tamper", kb(d), c, "48656c6c6f", pre, "p", [0x00, 0x6f, 0x05, 0x90, 0xff][(j + 1) % 5])
    # --- call histories on the address / key objects (positive): own -> prefix i -> mainnet -> p ; derive, switch flag, sign
    for j, pre in enumerate(pfx_classes):
        A("bsm.tamper", kb([KT, 182, 153][j % 3]), j % 2, "48656c6c6f", pre, "q", [0x6f, 0x00, 0x90, 0x05, 0xff][j])
        A("bsm.tamper", kb([KT, 182, 153][(j + 1) % 3]), (j + 1) % 2, "48656c6c6f", pre, "o", 0)
    # --- RELATED messages (whitespace / BOM / NUL added or stripped, case, doubled space) through all four verify entry points
    M1, M2 = b"Hello Bitcoin message", b" \tHello Bitcoin \n"
    for t in range(15):
        A("bsm.tamper", kb([KT, 182, 153][t % 3]), t % 2, M1.hex(), pfx_classes[t % 5], "w", t)
    for t in ([4, 0, 7, 8, 9, 1] if not thorough else range(15)):
        A("bsm.tamper", kb(KT), (t + 1) % 2, M2.hex(), pfx_classes[(t + 2) % 5], "w", t)
    A("bsm.tamper", kb(KT), 1, b"HELLO".hex(), "00", "w", 7)        # upper case of an upper-case message: the SAME message, must verify
    A("bsm.tamper", kb(KT), 0, b"hello".hex(), "6f", "w", 4)        # nothing to strip: the SAME message, must verify
    # --- crafted (key, nonce, message): d = -2z/r mod n makes s*R = -(z*G) (same x as z*G, NOT the identity case): must sign,
    #     recover and verify; the genuine identity case s*R = z*G (explicit signature) must be refused
    import hashlib
    def _cs(n):
        return bytes([n]) if n < 253 else b"\xfd" + n.to_bytes(2, "little")
    def _z(m):
        pre = _cs(24) + b"Bitcoin Signed Message:\n" + _cs(len(m)) + m
        return int.from_bytes(hashlib.sha256(hashlib.sha256(pre).digest()).digest(), "big") % N
    for j, (k, m) in enumerate([(7, b"abc"), (KT, b"Hello Bitcoin!"), (N - 3, b""), (2 ** 200 + 1, b"x" * 300)] + ([(rng.randrange(1, N), rnd_bytes(rng, 20)) for _ in range(6)] if thorough else [])):
        R = pmul(k, G); r = R[0] % N; z = _z(m)
        d = (-2 * z * pow(r, -1, N)) % N
        for c in (0, 1):
            A("bsm.sign_k", kb(d), c, kb(k), (c + j) % 2, m.hex(), pfx_classes[(j + c) % 5])
        # identity case as an explicit signature: s = z/k (or n - s with the other parity), recovered point = infinity
        s_ = z * pow(k, -1, N) % N; odd = R[1] & 1
        if s_ > N // 2:
            s_ = N - s_; odd ^= 1
        for hd in (27 + odd, 31 + odd):
            A("bsm.verify", m.hex(), bytes([hd]).hex() + r.to_bytes(32, "big").hex() + s_.to_bytes(32, "big").hex(), pfx_classes[j % 5], rnd_bytes(rng, 20).hex())
    # --- length bands of the message: every length-prefix class boundary and low bytes that look like prefixes (sign only: cheap)
    for n in [251, 255, 256, 257, 508, 509, 510, 511, 512, 0xfd + 256, 0xffff - 1]:
        A("bsm.sign", kb(KT), n % 2, "l:%d:%d" % (n, n))
    A("bsm.compact_verify", kb(KT), 1, "l:3:252", "90")
    A("bsm.compact_verify", kb(KT), 0, "l:3:253", "ff")
    # --- messages that look like something else: the preimage of another message, single bytes 00..16, flag bytes
    for m in ["00", "01", "10", "16", "41", "fc", "fd", "fe", "ff", "18426974636f696e", "0a"]:
        A("bsm.sign", kb(KT), 1, m)

    # explicit compact signatures (not produced by signing): headers, lengths, ranges; random hashes
    h = hash160(sec1(pmul(ks[6], G), True)).hex()
    r32, s32 = rnd_bytes(rng, 32), (rng.randrange(1, N // 2)).to_bytes(32, "big")
    for hd in range(25, 37):
        A("bsm.verify", "616263", bytes([hd]).hex() + r32.hex() + s32.hex(), "00", h)
    body = r32.hex() + s32.hex()
    A("bsm.verify", "616263", "1f" + body[:-2], "00", h)
    A("bsm.verify", "616263", "1f" + body + "00", "00", h)
    A("bsm.verify", "616263", "", "00", h)
    A("bsm.verify", "616263", "1f" + "00" * 32 + s32.hex(), "00", h)
    A("bsm.verify", "616263", "1f" + r32.hex() + "00" * 32, "00", h)
    A("bsm.verify", "616263", "1f" + N.to_bytes(32, "big").hex() + s32.hex(), "00", h)
    A("bsm.verify", "616263", "1f" + r32.hex() + N.to_bytes(32, "big").hex(), "00", h)
    A("bsm.verify", "616263", "1f" + r32.hex() + (N - 1).to_bytes(32, "big").hex(), "00", h)   # high s
    A("bsm.verify", "616263", "1f" + body, "00", h[:-2])                                        # 19-byte hash
    for _ in range(20 if thorough else 6):
        x = rng.randrange(1, N)
        A("bsm.verify", msg(rng, rng.randrange(0, 80)), bytes([rng.randrange(27, 35)]).hex() + x.to_bytes(32, "big").hex()
          + rng.randrange(1, N // 2).to_bytes(32, "big").hex(), "%02x" % rng.randrange(256), rnd_bytes(rng, 20).hex())
    return cases


def nontrivial(case, impl_out):
    return impl_out.startswith("OK")


def search_cases(rng, broken):
    out = []
    k = kb(0x0c28fca386c7a227600b2fe50b7cae11ec86d3bf1fbe471be89827e19d72aa1d)
    for c in (0, 1):
        for n in (0, 1, 252, 253, 300):
            out.append(("bsm.sign", [k, str(c), "l:7:%d" % n]))
        for p in ("00", "6f", "c4"):
            out.append(("bsm.compact_verify", [k, str(c), "616263", p]))
        for kind, i in (("m", 0), ("s", 0), ("s", 2), ("s", 100), ("s", 400), ("h", 5), ("c", 0), ("k", 7), ("p", 111)):
            out.append(("bsm.tamper", [k, str(c), "616263", "6f", kind, str(i)]))
    return out
