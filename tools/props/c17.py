"""C17 — case generator: ASM rendering / parsing of scripts (and the P2PKH scripts built through ASM text)."""
import os, re

ID = "C17"
LEVEL = "proof"
EXTRA_TARGETS = ["Proofs/OpcodeTie.vo"]   # regenerated opcode enum == protocol table
RULE = ("minimally-pushed scripts from the C02 grammar over every opcode of the enum (round trip, plain and extended rendering), "
        "every 1-byte payload and the 1- and 2-byte payloads whose hex is all digits (all 10 000 in the thorough tier), payload "
        "lengths on both sides of 75/76, 255/256, 65535/65536, conditionals with empty / missing branches up to depth 64, "
        "token texts separated by runs drawn from space, LF, CRLF, TAB, VT, FF, malformed tokens (odd-length hex, unknown and "
        "lower-case names, '+5', '017', signs, non-ASCII), non-minimal and truncated pushes (correspondence only), "
        "P2PKH locking / unlocking scripts built from real keys and DER signatures; deterministic audit stream in both tiers: "
        "every one-byte push value and every two-byte all-digit payload (round trip + extended form), every push length 1..300 "
        "and 65534..65537 in every encoding that can carry it, every opcode at top level / pass / else / nested positions, each "
        "IF-family opcode (incl. VERIF/VERNOTIF) as opener in each reader with and without ELSE, alias neighbours ('0k', '+k', "
        "'-k'), the empty input for every op; every rendering is cross-checked against to_asm_string_impl, from_hex, clone and "
        "scripts re-assembled with from_script_bits / push / push_array; pairwise combination stream (every special rendering - OP_0 as '0', OP_1..OP_16 / OP_1NEGATE, numeric-looking and name-like short pushes - before and after every mode-switching looking opcode such as OP_RETURN, OP_CODESEPARATOR, OP_VERIFY, IF / ELSE / ENDIF, big pushes, at top level and nested, bytes side and text side); call-history stream script.build_history: one Script object "
        "grown by push / push_array / from_script_bits / clone in every order of modes and chunks, observed after every step; "
        "non-trivial = the model returns OK; distinct by (op, arguments)")
TRUSTED = ["hand-written Gallina model coq/Model/Asm.v of script_bits_to_asm_string / map_string_to_script_bit / from_asm_string in "
           "src/script/mod.rs and of str::split_whitespace, str::trim (ASCII), hex::encode/decode, strum EnumString/Debug names "
           "(tied by this correspondence run); coq/Model/Script.v as for C02",
           "opcode names and values: coq/Gen/Opcodes_gen.v regenerated from src/script/op_codes.rs on every run"]
ASSUMPTIONS = ["text is modelled byte-wise; the transcription of trim/split_whitespace is exact for ASCII text and for non-ASCII text "
               "without Unicode White_Space characters beyond ASCII (U+0085, U+00A0, U+1680, U+2000-200A, U+2028/9, U+202F, U+205F, U+3000)",
               "the round-trip theorem quantifies over scripts of the shape the library's parsers return (canonical) whose pushes are "
               "minimal: Push carries 1..75 bytes, empty data is the OP_0 opcode; ScriptBit::Push(vec![]) renders as the empty string "
               "and is outside the quantifier (from bytes it arises only inside C02's truncated-direct-push class)"]

ROOT = os.path.dirname(os.path.dirname(os.path.dirname(os.path.abspath(__file__))))


def opcode_table():
    src = open(os.path.join(ROOT, "coq", "Gen", "Opcodes_gen.v")).read()
    body = src[src.index("opcode_table"):]
    body = body[:body.index("].")]
    return [(m.group(1), int(m.group(2))) for m in re.finditer(r'\("([A-Za-z0-9_]+)", (\d+)%N\)', body)]


def sighash_values():
    src = open(os.path.join(ROOT, "coq", "Gen", "Sighash_gen.v")).read()
    return [int(m.group(1)) for m in re.finditer(r', (\d+)%N\)', src)]


IFS = [99, 100, 101, 102]
WS = [" ", "\n", "\r\n", "\t", "  ", " \n ", "\x0b", "\x0c", "\r", " \t\r\n"]


def th(s):
    return s.encode("utf-8").hex()


def min_push(data):
    n = len(data)
    if n == 0:
        return b"\x00"
    if n <= 75:
        return bytes([n]) + data
    if n <= 255:
        return b"\x4c" + bytes([n]) + data
    if n <= 65535:
        return b"\x4d" + n.to_bytes(2, "little") + data
    return b"\x4e" + n.to_bytes(4, "little") + data


def rnd_data(rng, n=None):
    if n is None:
        n = rng.choice([0, 1, 1, 1, 2, 2, 3, 4, 5, 20, 32, 33, 65, 71, 74, 75, 76, 77, 100, 255, 256, 300])
    r = rng.random()
    if r < 0.3:
        return bytes(rng.choice([0x00, 0x01, 0x05, 0x09, 0x10, 0x11, 0x16, 0x17, 0x20, 0x42, 0x99, 0x0a, 0xa0, 0xff]) for _ in range(n))
    return bytes(rng.randrange(256) for _ in range(n))


class Gen:
    """grammar over elements; yields both the bytes and the token texts (aliases are optional on the text side)"""

    def __init__(self, rng, table):
        self.rng = rng
        self.names = {v: n for n, v in table}
        self.plain = [v for n, v in table if v not in IFS and v not in (103, 104, 76, 77, 78)]

    def elems(self, depth, size):
        rng = self.rng
        out_b, out_t = b"", []
        for _ in range(size):
            r = rng.random()
            if r < 0.4:
                d = rnd_data(rng)
                out_b += min_push(d)
                out_t.append("0" if not d else d.hex())
            elif r < 0.6 and depth > 0:
                c = rng.choice(IFS)
                b1, t1 = self.elems(depth - 1, rng.choice([0, 0, 1, 2, 3]))
                out_b += bytes([c]) + b1
                out_t += [self.names[c]] + t1
                if rng.random() < 0.55:
                    b2, t2 = self.elems(depth - 1, rng.choice([0, 0, 1, 2]))
                    out_b += b"\x67" + b2
                    out_t += ["OP_ELSE"] + t2
                    if rng.random() < 0.1:     # a second ELSE is an ordinary opcode inside the else branch
                        out_b += b"\x67"
                        out_t += ["OP_ELSE"]
                out_b += b"\x68"
                out_t.append("OP_ENDIF")
            else:
                c = rng.choice(self.plain)
                out_b += bytes([c])
                out_t.append(self.names[c])
        return out_b, out_t


def alias_variant(rng, toks):
    """replace some OP_n names by their numeric alias (accepted spelling of the same opcode)"""
    out = []
    for t in toks:
        m = re.fullmatch(r"OP_(\d+)", t)
        if m and int(m.group(1)) <= 16 and rng.random() < 0.5:
            out.append(m.group(1))
        else:
            out.append(t)
    return out


def pad(rng, toks, wsset=WS):
    s = rng.choice(["", "", " ", "\n", "\t "])
    for i, t in enumerate(toks):
        if i:
            s += rng.choice(wsset)
        s += t
    return s + rng.choice(["", "", " ", "\r\n", " \t"])


# ---------------------------------------------------------------- secp256k1 (generator side only: real keys / signatures)
P = 2 ** 256 - 2 ** 32 - 977
N = 0xFFFFFFFFFFFFFFFFFFFFFFFFFFFFFFFEBAAEDCE6AF48A03BBFD25E8CD0364141
G = (0x79BE667EF9DCBBAC55A06295CE870B07029BFCDB2DCE28D959F2815B16F81798, 0x483ADA7726A3C4655DA4FBFC0E1108A8FD17B448A68554199C47D08FFB10D4B8)


def _add(a, b):
    if a is None: return b
    if b is None: return a
    if a[0] == b[0] and (a[1] + b[1]) % P == 0: return None
    if a == b:
        l = 3 * a[0] * a[0] * pow(2 * a[1], P - 2, P) % P
    else:
        l = (b[1] - a[1]) * pow(b[0] - a[0], P - 2, P) % P
    x = (l * l - a[0] - b[0]) % P
    return (x, (l * (a[0] - x) - a[1]) % P)


def _mul(k, pt):
    r = None
    while k:
        if k & 1: r = _add(r, pt)
        pt = _add(pt, pt)
        k >>= 1
    return r


def pubkey(k, compressed=True):
    x, y = _mul(k, G)
    if compressed:
        return bytes([2 + (y & 1)]) + x.to_bytes(32, "big")
    return b"\x04" + x.to_bytes(32, "big") + y.to_bytes(32, "big")


def der_int(v):
    b = v.to_bytes((v.bit_length() + 7) // 8 or 1, "big")
    if b[0] & 0x80:
        b = b"\x00" + b
    return b"\x02" + bytes([len(b)]) + b


def der_sig(r, s):
    body = der_int(r) + der_int(s)
    return b"\x30" + bytes([len(body)]) + body


# ----------------------------------------------------------------
def generate(rng, tier):
    table = opcode_table()
    names = {v: n for n, v in table}
    flags = sighash_values()
    quick = tier == "quick"
    cases = []
    RT = lambda h: cases.append(("script.asm_roundtrip", [h]))
    TA = lambda h: cases.append(("script.to_asm", [h]))
    TE = lambda h: cases.append(("script.to_ext_asm", [h]))
    FA = lambda t: cases.append(("script.from_asm", [th(t)])) if len(t.encode("utf-8")) <= 1000 else None
    FAD = lambda d: cases.append(("script.from_asm", [d]))      # text given by a byte descriptor

    # --- fixed boundary scripts
    for h in ["", "00", "0100", "0101", "0109", "010a", "0110", "0111", "0116", "0117", "0120", "0199", "01a0", "01ff",
              "020000", "021000", "021234", "029999", "0210ff", "03000000", "0100+0100", "51", "60", "4f", "61",
              "63", "6368", "636768", "63676768", "6367", "67", "68", "6768", "636368", "63636868", "6363686768",
              "64516751676868", "6500670068", "66516768", "6568", "ba", "bb", "fa", "fb", "fc", "fd", "fe", "ff", "50", "b1", "b2",
              "76a914+r:ab:20+88ac", "6a+0568656c6c6f", "4c00", "4c0111", "4d010011", "4e0100000011", "4c0101", "01", "0501", "5101",
              "634c0068", "63670068", "6300670068", "630068", "63006868", "00630068"]:
        RT(h); TA(h); TE(h)
    # --- every opcode of the enum, alone and inside a script
    for n, v in table:
        RT("%02x" % v)
        FA(n)
        if v not in IFS:
            RT("51%02x0201ff" % v); TE("%02x" % v)
    FA(" ".join(n for n, v in table if v not in IFS and v not in (103, 104))[:1000])
    # --- payloads whose hex looks like a number
    one = range(256) if not quick else sorted(set(list(range(0, 0x30)) + [0x99, 0xa0, 0xff] + [rng.randrange(256) for _ in range(10)]))
    for b in one:
        RT("01%02x" % b)
        if not quick:
            RT("76" + "01%02x" % b + "ac"); FA("%02x" % b); FA("%02X" % b)
    digits2 = [(a, b) for a in range(100) for b in range(100)]
    pick = digits2 if not quick else [digits2[i] for i in sorted(rng.sample(range(10000), 120))] + [(0, 0), (10, 0), (0, 16), (16, 16), (10, 10), (99, 99), (1, 0)]
    for a, b in pick:
        RT("02%02d%02d" % (a, b))
    for k in range(0, 17):
        FA(str(k)); FA("%02d" % k); FA("OP_%d" % k); FA("51 %d 52" % k)
    for h in ["0011", "1100", "001122", "1000000000", "16161616", "0000000000000000", "1234567890", "09", "0009", "99", "17", "20", "016", "160", "00", "000", "0000"]:
        FA(h); FA("OP_1 " + h + " OP_2")
        if len(h) % 2 == 0:
            RT(min_push(bytes.fromhex(h)).hex())
    # --- length classes (bytes side and text side)
    for n in [1, 2, 74, 75, 76, 77, 254, 255, 256, 257, 1000, 1024, 1025, 65535, 65536, 65537] + ([] if quick else [70000, 131072]):
        seed = n % 97 + 1
        pre = min_push(b"\x00" * n)[: -n].hex()
        d = "%s+l:%d:%d" % (pre, seed, n)
        RT(d); TE(d)
        FAD("r:61:%d" % (2 * n))
        if not (quick and n > 1025):        # the 64 KiB payloads cost ~10 s each in Coq: one of each kind in the quick tier
            TA(d); RT("51+" + d + "+ac"); FAD("r:41:%d" % (2 * n)); FAD("r:39:%d" % (2 * n))
        FAD("r:61:%d" % (2 * n + 1))
        FAD("4f505f3120+r:31:%d+0a4f505f32" % (2 * n))
        # non-minimal encodings of the same payload: correspondence only
        if n <= 255:
            RT("4c%02x+l:%d:%d" % (n, seed, n)); TE("4d%s+l:%d:%d" % (n.to_bytes(2, "little").hex(), seed, n))
        if n <= 65535:
            TE("4e%s+l:%d:%d" % (n.to_bytes(4, "little").hex(), seed, n)); RT("4e%s+l:%d:%d" % (n.to_bytes(4, "little").hex(), seed, n))
    # --- grammar-based minimally pushed scripts
    g = Gen(rng, table)
    ngram = 160 if quick else 2500
    for i in range(ngram):
        b, t = g.elems(rng.randrange(0, 5), rng.randrange(0, 8))
        h = b.hex()
        if len(h) > 1800:
            continue
        RT(h)
        r = rng.random()
        if r < 0.3:
            TE(h)
        elif r < 0.5:
            TA(h)
        txt = pad(rng, alias_variant(rng, t))
        if len(txt) < 900:
            FA(txt)
        if rng.random() < 0.3 and t:
            # unbalance / corrupt the text
            k = rng.randrange(len(t))
            t2 = list(t)
            t2[k] = rng.choice(["OP_IF", "OP_ENDIF", "OP_ELSE", "OP_NOTIF", "abc", "op_dup", "OP_", "0x00", "-1", "+5", "017", "OP_PUSH", "OP_FALSE", "OP_TRUE", "g0", "1 2"])
            txt2 = pad(rng, t2)
            if len(txt2) < 900:
                FA(txt2)
    # --- conditionals: empty / missing branches, depth
    for d in [1, 2, 3, 8, 64] + ([] if quick else [200]):
        RT("r:63:%d+r:68:%d" % (d, d)); RT("r:64:%d+51+r:68:%d" % (d, d)); RT("r:63:%d+r:68:%d" % (d, d - 1))
        TE("r:63:%d+r:67:1+r:68:%d" % (d, d)); TA("r:63:%d+r:67:1+r:68:%d" % (d, d))
        FA(" ".join(["OP_IF"] * d + ["OP_ENDIF"] * d)); FA("\n".join(["OP_NOTIF"] * d + ["OP_ELSE"] + ["OP_ENDIF"] * d))
        FA(" ".join(["OP_IF"] * d + ["OP_ENDIF"] * (d - 1)))
    for t in ["OP_IF OP_ENDIF", "OP_IF OP_ELSE OP_ENDIF", "OP_IF OP_ELSE OP_ELSE OP_ENDIF", "OP_IF 1 OP_ELSE OP_ENDIF", "OP_IF OP_ELSE 1 OP_ENDIF",
              "OP_ELSE", "OP_ENDIF", "OP_ENDIF OP_IF OP_ENDIF", "OP_IF", "OP_IF OP_ELSE", "OP_VERIF OP_ENDIF", "OP_VERNOTIF OP_ELSE OP_ENDIF",
              "OP_IF OP_IF OP_ELSE OP_ENDIF OP_ELSE OP_IF OP_ENDIF OP_ENDIF", "OP_IF OP_ENDIF OP_ENDIF OP_ELSE"]:
        FA(t)
    # --- whitespace
    base = ["OP_1", "0a", "OP_IF", "16", "OP_ENDIF", "abcdef", "OP_CHECKSIG"]
    for w in WS + ["\n\n", "\t\t", "\r", "\x0b\x0c", " \x0b ", "\n \n"]:
        FA(w.join(base)); FA(w + w.join(base) + w); FA(w); FA(w + w); FA("OP_1" + w); FA(w + "OP_1")
    for w in ["\x1c", "\x1f", "\x00", "\x08", "\x0e", "\x7f", "_", ",", ";"]:   # not whitespace
        FA(w.join(["OP_1", "OP_2"])); FA("OP_1 " + w + " OP_2"); FA("OP_1" + w)
    for i in range(30 if quick else 300):
        toks = [rng.choice(["OP_1", "OP_DUP", "0", "16", "00", "abcd", "OP_IF", "OP_ENDIF", "OP_ELSE", "7", "ff" * rng.randrange(1, 5)]) for _ in range(rng.randrange(0, 7))]
        FA(pad(rng, toks))
    # --- malformed tokens
    for t in ["a", "abc", "0g", "g0", "0x00", "OP_NOPE", "op_dup", "Op_Dup", "OP_dup", "OP_DUP ", " OP_DUP", "OP_DUP,", "OP_PUSH", "OP_PUSH 1 aa",
              "OP_PUSHDATA1 1 aa", "OP_FALSE", "OP_TRUE", "+5", "-5", "+0", "-0", "017", "007", "00", "0", "1", "17", "18", "99", "100", "160", "016",
              "1 6", "0 ", " 0", "１", "é", "OP_1 é", "ÿÿ", "aa é bb", "OP_DUPé", "𝟘𝟘", "à", "0a0", "AbCd", "ABCD", "aBcD 0A 0a",
              "OP_0", "OP_1NEGATE", "OP_RESERVED", "OP_INVALIDOPCODE", "OP_DATA", "OP_SIG", "OP_PUBKEY", "OP_PUBKEYHASH", "OP_INVALID_ABOVE",
              "OP_1OP_2", "OP_1_OP_2", "O", "OP", "OP_"]:
        FA(t)
    # --- AUDIT (value-dependent triggers / length bands / every variant), deterministic in both tiers
    # every one-byte push value: round trip, plain and extended rendering, and the text side in both cases
    for b in range(256):
        RT("01%02x" % b); TE("01%02x" % b)
        if b % 8 == 0 or b < 0x30:
            FA("%02x" % b); FA("%02X" % b); TA("01%02x" % b)
    # every two-byte payload whose hex is all digits: 100 scripts of 100 pushes each (round trip and extended form)
    for a in range(100):
        h = "".join("02%02d%02d" % (a, b) for b in range(100))
        RT(h)
        if a % 10 == 0 or a <= 16:
            TE(h); TA(h)
    # every one-byte all-digit payload next to its neighbours in one script
    RT("".join("01%02d" % k for k in range(100))); TE("".join("01%02d" % k for k in range(100)))
    # every push length 1..300 and 65534..65537 in every encoding that can carry it: extended and plain rendering,
    # round trip of the minimal form (a length cast to u8 shows only in one residue band)
    for n in list(range(1, 301)) + [65534, 65535, 65536, 65537]:
        seed = n % 251 + 1
        body = "l:%d:%d" % (seed, n)
        forms = []
        if n <= 75:
            forms.append("%02x" % n)
        if n <= 255:
            forms.append("4c%02x" % n)
        if n <= 65535:
            forms.append("4d" + n.to_bytes(2, "little").hex())
        forms.append("4e" + n.to_bytes(4, "little").hex())
        for i, pre in enumerate(forms):
            if n > 300 and i > 0 and quick:
                continue                                            # big non-minimal forms: thorough tier only
            TE(pre + "+" + body)
            if i == 0:
                if n <= 300 or not quick or n == 65534:     # 65535..65537 round trips are in the length-class loop above
                    RT(pre + "+" + body)
                if n <= 300:
                    TA(pre + "+" + body)
                    FAD("r:%02x:%d" % (0x30 + n % 10, 2 * n))      # the same length as text: 2n hex digits
        if n in (75, 76, 255, 256, 300) or (n in (65535, 65536) and not quick):
            RT("51+" + forms[0] + "+" + body + "+63+" + forms[0] + "+" + body + "+67+" + forms[0] + "+" + body + "+68")
    # every opcode in every position: top level, pass branch, else branch, nested pass, nested else
    for n_, v in table:
        o = "%02x" % v
        for h in [o, "63" + o + "68", "6367" + o + "68", "6364" + o + "6868", "63676467" + o + "6868", "51" + o + "52", "64" + o + "67" + o + "68" + o]:
            RT(h); TE(h)
        for t in [n_, "OP_IF " + n_ + " OP_ENDIF", "OP_IF OP_ELSE " + n_ + " OP_ENDIF", "OP_IF OP_NOTIF " + n_ + " OP_ENDIF OP_ENDIF",
                  "OP_IF OP_ELSE OP_NOTIF OP_ELSE " + n_ + " OP_ENDIF OP_ENDIF", "OP_NOTIF " + n_ + " OP_ELSE " + n_ + " OP_ENDIF " + n_]:
            FA(t)
    # each IF-family opcode as opener in each reader (top level / pass branch / else branch), with and without ELSE
    for c in IFS:
        o, nm = "%02x" % c, names[c]
        shapes = [o + "68", o + "5168", o + "6768", o + "51675268", o + "675268",
                  "63" + o + "6868", "63" + o + "516868", "63" + o + "5167526868", "63" + o + "67686768", "63" + o + "6768",
                  "6367" + o + "6868", "6367" + o + "516868", "6367" + o + "5167526868", "6367" + o + "676868", "6367" + o + "68",
                  o + o + "6868", o + "67" + o + "6868", o + o + "67686768", o, o + "67", "63" + o + "68", "6367" + o + "68"]
        for h in shapes:
            RT(h); TE(h); TA(h)
        for t in [nm + " OP_ENDIF", nm + " 1 OP_ELSE 2 OP_ENDIF", "OP_IF " + nm + " 1 OP_ENDIF OP_ENDIF", "OP_IF " + nm + " OP_ELSE OP_ENDIF OP_ELSE OP_ENDIF",
                  "OP_IF OP_ELSE " + nm + " 1 OP_ENDIF OP_ENDIF", "OP_IF OP_ELSE " + nm + " OP_ELSE 2 OP_ENDIF OP_ENDIF", nm, nm + " OP_ELSE",
                  "OP_IF " + nm + " OP_ENDIF", "OP_IF OP_ELSE " + nm + " OP_ENDIF", nm + " " + nm + " OP_ENDIF OP_ENDIF"]:
            FA(t)
    # aliases and their neighbours as text, alone and inside a script (incl. "00".."09", signs, leading zeros)
    for k in range(0, 20):
        for t in [str(k), "%02d" % k, "%03d" % k, "+%d" % k, "-%d" % k, "OP_%d" % k, "0%x" % k if k < 16 else "1%x" % (k - 16)]:
            FA(t); FA("OP_DUP " + t + " OP_DROP")
    # the empty input for every entry point
    RT(""); TA(""); TE(""); FA("")

    # --- STATE / CALL HISTORY: one Script object grown by push / push_array / from_script_bits / clone, observed after each step
    import itertools
    BH = lambda steps: cases.append(("script.build_history", ["/".join("%s.%s" % (m, d) for m, d in steps)]))
    pool = ["51", "00", "0105", "0117", "6a", "76a914+r:11:20+88ac", "63516768", "646768", "6368", "67", "68", "4b+r:05:75", "4c4c+r:05:76",
            "4cff+l:3:255", "4d0001+l:4:256", "fd", "4f", "0200ff", "656768", "66516768", "", "60", "01ff"]
    k = 0
    for modes in itertools.product("panc", repeat=3):           # every order of the four ways to extend the object
        steps = []
        for m in modes:
            steps.append((m, pool[k % len(pool)])); k += 1
        BH(steps)
    for perm in itertools.permutations(["63516768", "0105", "4c4c+r:05:76"]):     # same chunks, every order, every single mode
        for m in "panc":
            BH([(m, d) for d in perm])
    for d in pool:
        for m in "panc":
            BH([(m, d)]); BH([(m, d), (m, d)])
    BH([]); BH([("p", "0111")]); BH([("a", "51"), ("n", "0110"), ("c", "ac")]); BH([("p", "4c0105")]); BH([("a", "0501"), ("p", "51")]); BH([("n", "4c00"), ("a", "51")])
    BH([("p", "r:63:20+51+r:68:20"), ("a", "r:64:20+r:67:1+r:68:20")])

    # --- COMBINATIONS: every special rendering x every 'mode-switching looking' context x before / after x nested or not
    specials = ["00", "51", "5a", "60", "4f", "0100", "0105", "0110", "0117", "01ad", "020add", "0200ff", "4c4c+r:11:76", "026869"]
    ctx = [("6a", ""), ("ab", ""), ("69", ""), ("ac", ""), ("63", "68"), ("64", "68"), ("66", "68"), ("6367", "68"), ("6368", ""),
           ("67", ""), ("68", ""), ("4c4c+r:aa:76", ""), ("00", ""), ("51", ""), ("6a00", ""), ("0105", ""), ("fd", "")]
    cat = lambda *xs: "+".join(x for x in xs if x)
    for sp in specials:
        for pre, suf in ctx:
            RT(cat(pre, sp, suf)); RT(cat(sp, pre, suf, sp))
            RT(cat("63", pre, sp, suf, "68")); RT(cat("51", "64", sp, pre, suf, "67", pre, sp, suf, "68", sp))
    RT("6a00"); RT("006a0568656c6c6f00026869"); RT("006a"); RT("6a5a"); RT("6a0110"); RT("6a00006a00")
    tsp = ["0", "1", "10", "16", "OP_0", "OP_16", "OP_1NEGATE", "00", "05", "17", "ad", "0add", "00ff", "ab" * 76]
    tctx = [("OP_RETURN", ""), ("OP_CODESEPARATOR", ""), ("OP_VERIFY", ""), ("OP_CHECKSIG", ""), ("OP_IF", "OP_ENDIF"), ("OP_NOTIF", "OP_ENDIF"), ("OP_VERNOTIF", "OP_ENDIF"),
            ("OP_IF OP_ELSE", "OP_ENDIF"), ("OP_IF OP_ENDIF", ""), ("OP_ELSE", ""), ("OP_ENDIF", ""), ("cd" * 76, ""), ("0", ""), ("OP_RETURN 0", "")]
    tj = lambda *xs: " ".join(x for x in xs if x)
    for sp in tsp:
        for pre, suf in tctx:
            FA(tj(pre, sp, suf)); FA(tj(sp, pre, suf, sp)); FA(tj("OP_IF", pre, sp, suf, "OP_ELSE", sp, pre, suf, "OP_ENDIF", sp))

    # --- P2PKH scripts built through ASM text
    for h in ["r:00:20", "r:11:20", "r:10:20", "r:ff:20", "l:7:20", "l:8:20", "1000000000000000000000000000000000000000", "r:11:19", "r:11:21", ""]:
        cases.append(("p2pkh.locking_script", [h]))
    for i in range(8 if quick else 60):
        cases.append(("p2pkh.locking_script", [bytes(rng.randrange(256) for _ in range(20)).hex()]))
    for i in range(6 if quick else 40):
        k = rng.choice([1, 2, 3, N - 1, rng.randrange(1, N), rng.randrange(1, N)])
        pk = pubkey(k, compressed=rng.random() < 0.7)
        r = rng.choice([1, 127, 128, 255, 256, rng.randrange(1, N), rng.randrange(1, N), rng.randrange(1, 2 ** 248), N - 1])
        s = rng.choice([1, 127, 128, rng.randrange(1, N), rng.randrange(1, N // 2), N - 1])
        cases.append(("p2pkh.unlocking_script", [pk.hex(), der_sig(r, s).hex(), str(rng.choice(flags))]))
    return cases


def neighbours(case, rng):
    op, args = case
    out = []
    if op in ("script.asm_roundtrip", "script.to_asm", "script.to_ext_asm") and args and re.fullmatch(r"[0-9a-f]*", args[0]):
        h = args[0]
        for k in range(0, len(h), 2):
            out.append(("script.asm_roundtrip", [h[k:k + 2]])) if k < 40 else None
    if op == "script.from_asm" and args and re.fullmatch(r"[0-9a-f]*", args[0]):
        try:
            t = bytes.fromhex(args[0]).decode("utf-8")
            for tok in t.split():
                out.append((op, [th(tok)]))
        except Exception:
            pass
    return out[:200]


def search_cases(rng, broken):
    out = []
    table = opcode_table()
    for n, v in table:
        out.append(("script.from_asm", [th(n)]))
        out.append(("script.asm_roundtrip", ["%02x" % v]))
    for b in range(256):
        out.append(("script.asm_roundtrip", ["01%02x" % b]))
    for k in range(0, 20):
        out.append(("script.from_asm", [th(str(k))]))
    for n in [75, 76, 255, 256, 65535, 65536]:
        out.append(("script.asm_roundtrip", ["%s+l:3:%d" % (min_push(b"\x00" * n)[:-n].hex(), n)]))
        out.append(("script.from_asm", ["r:61:%d" % (2 * n)]))
    for w in WS:
        out.append(("script.from_asm", [th("OP_1" + w + "OP_2")]))
    return out
