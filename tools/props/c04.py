"""C04 — case generator: histories of mutation / sighash calls on one Transaction value."""
import itertools
from . import _sighash_common as G

ID = "C04"
LEVEL = "proof"
RULE = ("bounded-exhaustive histories over a 14-operation alphabet (8 list mutators, set_version, set_nlocktime, one sighash per "
        "cache-filling flag class: 0x41 fills all three slots, 0x42 and 0x43 the prevouts slot, 0xc1 the outputs slot) up to length 3 "
        "(quick: all of length <= 2 and a sample of length 3) / 4 (thorough: all of length <= 3, of length 4 every history that ends in a sighash step after an earlier one, plus a sample), targeted histories [sighash f k; mutator at position k-1/k/k+1 (single or bulk, inputs or outputs); sighash f k; sighash 0x41] for 12 flags x 3 indices, "
        "every other &mut self entry point (add_inputs/add_outputs incl. empty, public hash_inputs, sign, sign_with_k, get_outpoints, the clones returned by set_version/set_nlocktime), "
        "two live objects (fork = clone with copied cache, swap; mutate one, query the other, both directions), starting states new / default / "
        "re-parsed through bytes, hex, JSON and CBOR, parsed from non-canonical encodings (non-minimal compact sizes in each count / length field), "
        "consecutive sign / sighash calls with different amounts, "
        "random histories of length 5-60 over all 14 flags, clone, "
        "all mutators with in-range positions, out-of-range sighash indices, and a few panicking (API misuse) histories; every step compares "
        "preimage, serialisation, fresh-copy preimage and the three cache slots (hook); non-trivial = the history contains a sighash "
        "step that returns a preimage; distinct by (op, arguments)")
TRUSTED = ["hand-written Gallina model coq/Model/Cache.v of the HashCache logic in src/transaction/sighash.rs and the mutators of src/transaction/mod.rs (tied by this correspondence run, slot by slot through the bsv_verif hook)",
           "coq/Model/Sighash.v, coq/Model/Tx.v, coq/Model/Script.v, coq/Model/HashApi.v (properties C03/C10, C01, C02, C13)"]
ASSUMPTIONS = ["out-of-range insert/set positions are API misuse (panic) and end the history",
               "C04_equals_fresh_parse_partial takes the serialise/parse round trip of the current contents (property C01) as a hypothesis",
               "signing calls are sighash_preimage followed by ECDSA on the returned buffer; only the preimage call is in the operation alphabet"]

ALL_FLAGS = G.FORKID_FLAGS + G.LEGACY_FLAGS + G.OTHER_FLAGS


def in_fields(rng, tag):
    """txid descriptor, vout, script, sequence (distinct per tag, non-palindromic sequence)"""
    return "l:%d:32.%d.%s.%d" % (tag, rng.choice([0, 1, 7]), rng.choice(["", "51", "0151", "ac"]), G.sequence(rng, True))


def out_fields(rng, tag):
    return "%d.%s" % (rng.choice([tag, 1000 + tag, 2 ** 40 + tag, G.U64 - 1 - tag]), rng.choice(["51", "76a914+l:%d:20+88ac" % tag, "6a", ""]))


def in_elem(rng, tag):
    return in_fields(rng, tag).replace(".", ",")


def out_elem(rng, tag):
    return out_fields(rng, tag).replace(".", ",")


TARGET_FLAGS = [0x41, 0x42, 0x43, 0xC1, 0xC2, 0xC3, 1, 2, 3, 0x81, 0x82, 0x83]


def targeted(rng, tier):
    """[sh f k; one mutator at a position next to k; sh f k; sh 0x41 0] on a 3-in/3-out transaction: every flag, every
    input index k, every list mutator (single and bulk, inputs and outputs) at positions k-1, k, k+1"""
    out = []
    tag = 300
    for f in TARGET_FLAGS:
        for k in range(3):
            muts = []
            for pos in (k - 1, k, k + 1):
                if 0 <= pos <= 3:
                    muts += ["io.%d.%%O" % pos, "ii.%d.%%I" % pos]
                if 0 <= pos <= 2:
                    muts += ["so.%d.%%O" % pos, "si.%d.%%I" % pos]
            muts += ["po.%O", "ao.%O", "pi.%I", "ai.%I", "aos.%o", "aos.%o/%o", "ais.%i", "ais.%i/%i", "aos.", "ais."]
            if tier == "quick" and f not in (0x41, 0x42, 0x43, 0xC1, 0xC2, 0xC3):
                # legacy flags never touch the cache in the current code: in the quick tier only the same-position mutators
                muts = ["io.%d.%%O" % k, "so.%d.%%O" % k, "ii.%d.%%I" % k, "si.%d.%%I" % k, "aos.%o", "ais.%i"]
            for m in muts:
                tag += 1
                m = (m.replace("%O", out_fields(rng, tag)).replace("%I", in_fields(rng, tag))
                      .replace("%o", out_elem(rng, tag), 1).replace("%o", out_elem(rng, tag + 500))
                      .replace("%i", in_elem(rng, tag), 1).replace("%i", in_elem(rng, tag + 500)))
                sh = "sh.%d.%d.76a9.1000" % (f, k)
                out.append([sh, m, sh, "sh.65.0.76a9.1000"])
    return out


def base_tx(rng):
    return G.mk_tx(rng, 2, 2, nonpal=True)


def alphabet(rng):
    """the 14 operations of the bounded-exhaustive part; valid on any transaction with >= 1 input and >= 1 output"""
    return [
        "ai." + in_fields(rng, 11), "pi." + in_fields(rng, 12), "ii.1." + in_fields(rng, 13), "si.0." + in_fields(rng, 14),
        "ao." + out_fields(rng, 21), "po." + out_fields(rng, 22), "io.1." + out_fields(rng, 23), "so.0." + out_fields(rng, 24),
        "sv.%d" % 7, "sl.%d" % 500000001,
        "sh.65.0.76a9.1000", "sh.66.0.76a9.1000", "sh.193.0.76a9.1000", "sh.67.0.76a9.1000",
    ]


def random_history(rng, n):
    nin, nout = 2, 2
    other = None
    ops, size, tag = [], 0, 100
    for _ in range(n):
        tag += 1
        r = rng.random()
        if r < 0.38:
            fl = rng.choice(ALL_FLAGS) if rng.random() < 0.5 else rng.choice([0x41, 0x41, 0x42, 0x43, 0xC1])
            idx = rng.randrange(nin + 1) if rng.random() < 0.9 else rng.choice([nin + 5, 2 ** 40])
            o = "sh.%d.%d.%s.%d" % (fl, idx, rng.choice(["ac", "76a9", "ab51", "63ab6851", ""]), G.value(rng))
        elif r < 0.5:
            o = "ai." + in_fields(rng, tag); nin += 1
        elif r < 0.55:
            o = "pi." + in_fields(rng, tag); nin += 1
        elif r < 0.62:
            o = "ii.%d." % rng.randrange(nin + 1) + in_fields(rng, tag); nin += 1
        elif r < 0.7 and nin > 0:
            o = "si.%d." % rng.randrange(nin) + in_fields(rng, tag)
        elif r < 0.77:
            o = "ao." + out_fields(rng, tag); nout += 1
        elif r < 0.8:
            o = "po." + out_fields(rng, tag); nout += 1
        elif r < 0.85:
            o = "io.%d." % rng.randrange(nout + 1) + out_fields(rng, tag); nout += 1
        elif r < 0.92 and nout > 0:
            o = "so.%d." % rng.randrange(nout) + out_fields(rng, tag)
        elif r < 0.94:
            o = "sv.%d" % rng.randrange(2 ** 32)
        elif r < 0.96:
            o = "sl.%d" % rng.randrange(2 ** 32)
        elif r < 0.97:
            o = "cl"
        else:
            c = rng.randrange(8)
            if c == 0:
                n = rng.randrange(0, 3); o = "ais." + "/".join(in_elem(rng, tag * 10 + j) for j in range(n)); nin += n
            elif c == 1:
                n = rng.randrange(0, 3); o = "aos." + "/".join(out_elem(rng, tag * 10 + j) for j in range(n)); nout += n
            elif c == 2:
                o = "hi.%d" % rng.choice(ALL_FLAGS)
            elif c == 3:
                o = "go"
            elif c == 4:
                o = rng.choice(["svc.%d" % rng.randrange(2 ** 32), "fk", "sw", "sw", "fb", "fh", "fj", "fc"])
                if o == "fk":
                    other = (nin, nout)
                elif o == "sw" and other is not None:
                    (nin, nout), other = other, (nin, nout)
            elif c == 5:
                o = "slc.%d" % rng.randrange(2 ** 32)
            else:
                o = "%s.%d.%d.%s.%d" % (rng.choice(["sg", "sk"]), rng.choice([0x41, 0x43, 0xC1, 0xC3, 1, 3, 0x83]), rng.randrange(nin + 1), rng.choice(["ac", "76a9"]), G.value(rng))
        if size + len(o) + 1 > 1900:
            break
        ops.append(o); size += len(o) + 1
    return ops


def generate(rng, tier):
    cases = []
    tx = base_tx(rng).hex()
    A = alphabet(rng)
    Hs = lambda ops, t=tx: cases.append(("tx.history", [t, "_".join(ops)]))
    # the documented witness of the repaired defect and its input-side twin come first
    Hs(["sh.65.0.76a9.1000", A[7], "sh.65.0.76a9.1000"])
    Hs(["sh.65.0.76a9.1000", A[3], "sh.65.0.76a9.1000"])
    Hs([])
    # bounded-exhaustive
    depth = 3 if tier == "quick" else 4
    for n in range(1, depth + 1):
        seqs = list(itertools.product(range(14), repeat=n))
        if tier == "quick" and n == 3:
            # all histories with at least two sighash steps around a mutator, plus a sample of the rest
            core = [s for s in seqs if s[0] >= 10 and s[2] >= 10 and s[1] < 10]
            rest = [s for s in seqs if not (s[0] >= 10 and s[2] >= 10 and s[1] < 10)]
            seqs = core + rng.sample(rest, 330)
        if tier == "thorough" and n == 4:
            # every history that ends in a sighash step and has an earlier one (a cache can only go stale after it was filled), others sampled
            interesting = lambda s: s[3] >= 10 and any(k >= 10 for k in s[:3])
            core = [s for s in seqs if interesting(s)]
            rest = [s for s in seqs if not interesting(s)]
            seqs = core + rng.sample(rest, 1500)
        for s in seqs:
            Hs([A[k] for k in s])
    # targeted: same-position and neighbouring-position mutators between two identical sighash calls; bulk mutators
    t33 = G.mk_tx(rng, 3, 3, nonpal=True).hex()
    for h in targeted(rng, tier):
        Hs(h, t33)
    # the remaining &mut self entry points: bulk adds after every cache-filling class, public hash_inputs, sign / sign_with_k,
    # get_outpoints, continuing with the clone returned by set_version / set_nlocktime
    for f in [65, 66, 67, 193, 1]:
        Hs(["sh.%d.0.76a9.1000" % f, "ais." + in_elem(rng, 61) + "/" + in_elem(rng, 62), "sh.%d.0.76a9.1000" % f, "sh.65.1.76a9.1000"], t33)
        Hs(["sh.%d.0.76a9.1000" % f, "aos." + out_elem(rng, 63) + "/" + out_elem(rng, 64), "sh.%d.0.76a9.1000" % f, "sh.65.1.76a9.1000"], t33)
        Hs(["hi.%d" % f, "si.0." + in_fields(rng, 65), "hi.%d" % f, "sh.%d.0.ac.5" % f, "ais." + in_elem(rng, 66), "hi.%d" % f, "hi.65"], t33)
        for sg in ("sg", "sk"):
            Hs(["%s.%d.1.76a9.1000" % (sg, f), "so.1." + out_fields(rng, 67), "%s.%d.1.76a9.1000" % (sg, f), "si.1." + in_fields(rng, 68), "%s.%d.1.76a9.1000" % (sg, f), "%s.%d.7.76a9.1000" % (sg, f)], t33)
        Hs(["sh.%d.0.76a9.1000" % f, "svc.9", "go", "slc.77", "cl", "sh.%d.0.76a9.1000" % f, "sh.65.0.76a9.1000"], t33)
    # two live objects: the clone carries a copy of the cache; mutating one must not disturb the other, in both directions
    for f in [65, 66, 67, 193, 195, 1]:
        sh = "sh.%d.0.76a9.1000" % f
        for m in ["so.0." + out_fields(rng, 71), "si.0." + in_fields(rng, 72), "ao." + out_fields(rng, 73), "ai." + in_fields(rng, 74),
                  "aos." + out_elem(rng, 75), "ais." + in_elem(rng, 76), "io.0." + out_fields(rng, 77), "pi." + in_fields(rng, 78)]:
            Hs([sh, "fk", m, sh, "sw", sh, "sh.65.0.76a9.1000", "sw", sh, "sh.65.0.76a9.1000"], t33)      # mutate the original
            Hs(["fk", sh, "sw", m, sh, "sw", sh, "sh.65.0.76a9.1000"], t33)                                # fill one, mutate the other
        Hs([sh, "cl", "so.1." + out_fields(rng, 79), sh, "cl", "si.1." + in_fields(rng, 80), sh, "sh.65.0.76a9.1000"], t33)
    # starting states: new / default / re-parsed through every codec (empty cache, same contents), before and after cached calls
    for f in [65, 67, 193, 3]:
        sh = "sh.%d.0.ac.7" % f
        Hs(["def", sh, "ai." + in_fields(rng, 81), sh, "ao." + out_fields(rng, 82), sh, "sh.65.0.ac.7", "so.0." + out_fields(rng, 83), sh, "sh.65.0.ac.7"], t33)
        Hs(["new.1.5", "ais." + in_elem(rng, 84) + "/" + in_elem(rng, 85), "aos." + out_elem(rng, 86), sh, "sh.65.1.ac.7", "si.1." + in_fields(rng, 87), "sh.65.1.ac.7", sh], t33)
        for rp in ["fb", "fh", "fj", "fc"]:
            Hs([sh, "sh.65.0.ac.7", rp, sh, "so.0." + out_fields(rng, 88), rp, sh, "sh.65.0.ac.7", "fk", rp, "si.0." + in_fields(rng, 89), "sh.65.0.ac.7", "sw", "sh.65.0.ac.7"], t33)
    # accepted but non-canonical encodings as starting point (initial argument and mid-history via pb / ph): the parsed object must
    # answer like a fresh parse of its own (canonical) serialisation, for every flag class
    classes = ["sh.%d.%d.76a9.%d" % (f, k % 2, 100 + k) for k, f in enumerate([65, 193, 66, 67, 194, 195, 1, 3, 129, 131])]
    for k, t in enumerate(G.NONCANONICAL_TXS):
        Hs(classes + ["fb", "sh.65.0.76a9.100", "sh.193.1.76a9.5"], t.hex())
        Hs(["sh.65.0.ac.1", ("pb." if k % 2 else "ph.") + t.hex(), "sh.65.0.ac.1", "sh.193.1.ac.1", "sh.67.1.ac.1", "so.0." + out_fields(rng, 91), "sh.65.0.ac.1", "sh.193.0.ac.1"], t33)
    # amounts: consecutive sign / sighash calls for the same input with different amounts, also across clone / fork / re-parse
    for f in [65, 67, 193, 195]:
        Hs(["sg.%d.1.76a9.1000" % f, "sh.%d.1.76a9.2000" % f, "sk.%d.1.76a9.3000" % f, "fk", "sh.%d.1.76a9.4000" % f, "sw", "sh.%d.1.76a9.5000" % f,
            "cl", "sg.%d.1.76a9.18446744073709551615" % f, "sh.%d.1.76a9.0" % f, "fb", "sh.%d.1.76a9.6000" % f, "sg.%d.0.76a9.7000" % f, "sh.%d.0.76a9.8000" % f], t33)
    # annotations carried by inputs (satoshis, locking script) that differ from the call arguments, kept by clone / JSON / CBOR and
    # dropped by bytes / hex; sighash and sign with other amounts and with the empty subscript
    for f in [65, 67, 193, 195, 1, 3, 131]:
        Hs(["an.1.777.76a914+r:09:20+88ac", "sh.%d.1.76a9.1000" % f, "sh.%d.1..1000" % f, "sg.%d.1.ac.2000" % f, "an.0.5.-", "an.2.-.ab51",
            "sh.%d.1..0" % f, "fj", "sh.%d.1.76a9.3000" % f, "sh.%d.1..3000" % f, "fc", "sh.%d.1.ac.18446744073709551615" % f, "fk", "an.1.9.6a", "sh.%d.1..4000" % f,
            "sw", "sh.%d.1..4000" % f, "cl", "sk.%d.1.76a9.5" % f, "fb", "sh.%d.1..1000" % f, "sh.65.0.76a9.1"], t33)
    # overwriting an object in place: a.clone_from(&b), a = b.clone(), mem::swap, with a warm (served a sighash) and b warm or cold
    for f in [65, 66, 67, 193, 1]:
        sh = "sh.%d.0.76a9.1000" % f
        for ow in ["cf", "as", "ms"]:
            Hs([sh, "sh.65.0.76a9.1", "fk", "so.0." + out_fields(rng, 93), "si.0." + in_fields(rng, 94), sh, "sw", ow, sh, "sh.65.0.76a9.1", "sg.%d.0.ac.9" % f, "sw", sh], t33)   # b warm
            Hs(["fk", "so.0." + out_fields(rng, 95), "ai." + in_fields(rng, 96), "sw", sh, "sh.65.0.76a9.1", ow, sh, "sh.65.0.76a9.1", "sh.193.0.76a9.1", "sh.66.0.76a9.1"], t33)      # b cold
    # inputs with the null outpoint (and each half of it) through the construction API, at the signed index and elsewhere
    for f in [65, 67, 195, 1, 131]:
        Hs(["pi.r:00:32.4294967295.51.4294967295", "sh.%d.0.76a9.5" % f, "sg.%d.0.76a9.6" % f, "ai.r:00:32.0..0", "ii.1.l:7:32.4294967295..4294967294",
            "sh.%d.0.76a9.5" % f, "sh.%d.1.76a9.5" % f, "sh.%d.2.76a9.5" % f, "ai.r:00:32.4294967295..0", "sh.65.0.76a9.5", "sh.%d.6.76a9.5" % f], t33)
    # replacement inputs DERIVED from the object's own input (get_input -> one setter -> set_input / add_input / insert_input): the new
    # input differs from the old one in exactly one field and carries whatever hidden state the old one had; warm and cold
    mods = [("vo", "7"), ("vo", "4294967295"), ("sq", "16909060"), ("sq", "0"), ("id", "l:555:32"), ("us", "51ab"), ("sa", "4242"), ("lk", "76a9")]
    for f in [65, 66, 67, 1]:
        sh = "sh.%d.1.76a9.1000" % f
        for (fld, val) in mods:
            for dst in ["s", "a", "i1", "i0"]:
                if tier == "quick" and dst == "i0" and f != 65:
                    continue
                Hs([sh, "sh.65.1.76a9.1", "mi.1.%s.%s.%s" % (fld, val, dst), sh, "sh.65.1.76a9.1", "sh.65.0.76a9.1"], t33)
            Hs(["mi.1.%s.%s.s" % (fld, val), sh, "sh.65.1.76a9.1", "mi.1.%s.%s.s" % (fld, val), "mi.0.%s.%s.a" % (fld, val), sh, "sh.65.3.76a9.1"], t33)
    # other starting shapes for the short histories
    for (nin, nout) in [(1, 1), (3, 1), (1, 3)]:
        t = G.mk_tx(rng, nin, nout).hex()
        for s in rng.sample(list(itertools.product(range(14), repeat=3)), 60 if tier == "quick" else 300):
            Hs([A[k] for k in s], t)
    # random long histories
    for _ in range(55 if tier == "quick" else 500):
        t = base_tx(rng).hex()
        Hs(random_history(rng, rng.randrange(5, 61)), t)
    # API misuse: out-of-range positions panic (also after a sighash call)
    for bad in ["ii.3." + in_fields(rng, 31), "si.2." + in_fields(rng, 32), "io.3." + out_fields(rng, 33), "so.2." + out_fields(rng, 34),
                "ii.18446744073709551615." + in_fields(rng, 35), "so.4294967296." + out_fields(rng, 36)]:
        Hs([bad])
        Hs(["sh.65.0.ac.5", bad, "sh.65.0.ac.5"])
    # boundary positions that are allowed: insert at len
    Hs(["sh.65.1.ac.5", "ii.2." + in_fields(rng, 41), "sh.65.2.ac.5", "io.2." + out_fields(rng, 42), "sh.65.2.ac.5", "sh.67.2.ac.5"])
    # replacements that differ from the replaced element in exactly ONE field (a "smart" invalidation that compares
    # old and new element can forget a field): add a known element, fill the cache, replace it, ask again
    base_in = ("l:77:32", 1, "51", 305419896)
    variants_in = [("l:77:32", 2, "51", 305419896), ("l:77:32", 1, "51", 305419897), ("l:77:32", 1, "0151", 305419896),
                   ("l:78:32", 1, "51", 305419896), ("l:77:32", 1, "51", 305419896)]
    fmt_in = lambda f: "%s.%d.%s.%d" % f
    for fl in (65, 66, 67, 193, 194, 195, 1, 3):
        for v in variants_in:
            Hs(["ai." + fmt_in(base_in), "sh.%d.2.76a9.1000" % fl, "si.2." + fmt_in(v), "sh.%d.2.76a9.1000" % fl, "sh.65.0.76a9.1000"])
    base_out = (5000, "76a914+l:9:20+88ac")
    variants_out = [(5001, "76a914+l:9:20+88ac"), (5000, "76a914+l:8:20+88ac"), (5000, "76a914+l:9:20+88ac")]
    for fl in (65, 67, 193, 195, 1, 3):
        for v in variants_out:
            Hs(["ao.%d.%s" % base_out, "sh.%d.1.76a9.1000" % fl, "so.2.%d.%s" % v, "sh.%d.1.76a9.1000" % fl, "sh.65.0.76a9.1000"])
            Hs(["sh.%d.1.76a9.1000" % fl, "io.2.%d.%s" % v, "sh.%d.1.76a9.1000" % fl, "io.0.%d.%s" % v, "sh.%d.1.76a9.1000" % fl])
    # empty transaction built up from nothing
    empty = (2).to_bytes(4, "little") + b"\x00\x00" + (0).to_bytes(4, "little")
    Hs(["sh.65.0.ac.5", "ai." + in_fields(rng, 51), "sh.65.0.ac.5", "sh.67.0.ac.5", "ao." + out_fields(rng, 52), "sh.67.0.ac.5", "sh.65.0.ac.5", "sh.3.0.ac.5"], empty.hex())
    return cases


def shrink_candidates(case):
    op, args = case
    ops = args[1].split("_") if args[1] else []
    out = []
    for k in range(len(ops)):
        out.append((op, [args[0], "_".join(ops[:k] + ops[k + 1:])]))
    for k in range(1, len(ops)):
        out.append((op, [args[0], "_".join(ops[:k])]))
    return out[:300]


def search_cases(rng, broken):
    tx = base_tx(rng).hex()
    A = alphabet(rng)
    out = []
    for a in range(10, 14):
        for m in range(10):
            for b in range(10, 14):
                out.append(("tx.history", [tx, "_".join([A[a], A[m], A[b]])]))
    return out


def nontrivial(case, out):
    if not out.startswith("OK:"):
        return False
    f = out[3:].split(";")
    return any(":" in f[k] for k in range(0, len(f), 6))
