"""C03 — case generator: FORKID signature-hash preimage."""
from . import _sighash_common as G

ID = "C03"
LEVEL = "proof"
RULE = ("transactions with 1-6 inputs/outputs (sequences non-palindromic in most), every input index incl. out-of-range, "
        "all six FORKID flags, subscripts of length 0/1/252/253/65535/65536 and structured ones, values across u64; "
        "tx.sighash_ann: inputs annotated with satoshis / locking scripts (signed and other inputs, equal and unequal to the arguments) on objects obtained directly, by clone, JSON, CBOR, construction API, hex; "
        "tx.sign_verify on a sample; non-trivial = the model returns a preimage; distinct by (op, arguments)")
TRUSTED = ["hand-written Gallina model coq/Model/Sighash.v of src/transaction/sighash.rs (tied by this correspondence run)",
           "coq/Model/Tx.v, coq/Model/Script.v (transaction / script parsing, properties C01 / C02)",
           "coq/Model/HashApi.v sha_256d as the model of Hash::sha_256d (property C13)",
           "tx.sign_verify: the library's own ECDSA::verify_digest is the oracle for 'the signature verifies' (property C05)"]
ASSUMPTIONS = ["the theorems are stated for an arbitrary 32-byte-output hash function H in place of double SHA-256",
               "C03-4 (a signature verifies against the specified preimage) is proved only up to the ECDSA signer, which is a parameter"]

KEYS = ["00" * 31 + "01", "e8f32e723decf4051aefac8e2c93c9c5b214313817cdb01a1494b917c8436b35",
        "fffffffffffffffffffffffffffffffebaaedce6af48a03bbfd25e8cd0364140"]


def generate(rng, tier):
    cases = []
    S = lambda tx, idx, fl, sub, v: cases.append(("tx.sighash", [tx.hex(), str(idx), str(fl), sub, str(v)]))
    # 1. every (nin, nout) shape once, all indices (and two beyond), all six flags
    shapes = [(i, o) for i in range(1, 7) for o in range(1, 7)]
    if tier == "quick":
        shapes = [s for s in shapes if s in {(1, 1), (1, 3), (2, 1), (2, 2), (3, 1), (3, 2), (3, 5), (4, 4), (5, 2), (6, 1), (6, 6), (2, 6)}]
    for (nin, nout) in shapes:
        tx = G.mk_tx(rng, nin, nout, nonpal=True)
        sub = rng.choice([G.P2PKH, G.small_script(rng).hex(), G.codesep_script(rng, 2, 5).hex()])
        v = G.value(rng)
        for idx in list(range(nin)) + [nin, nin + 1]:
            for fl in G.FORKID_FLAGS:
                S(tx, idx, fl, sub, v)
    # 2. palindromic / extreme sequences, zero outputs, zero inputs
    for (nin, nout) in [(2, 2), (3, 0), (0, 2), (1, 0)]:
        tx = G.mk_tx(rng, nin, nout, nonpal=False)
        for idx in range(max(nin, 1) + 1):
            for fl in G.FORKID_FLAGS:
                S(tx, idx, fl, G.P2PKH, G.value(rng))
    # 3. subscript lengths across the compact-size boundaries
    tx = G.mk_tx(rng, 2, 2)
    lens = [0, 1, 2, 75, 76, 252, 253, 254, 255, 256, 65535, 65536, 65537] + ([70000, 100000] if tier == "thorough" else [])
    for n in lens:
        for rep in range(2 if tier == "quick" else 4):
            S(tx, rng.randrange(2), rng.choice(G.FORKID_FLAGS), G.sized_script(rng, n), G.value(rng))
    for fl in G.FORKID_FLAGS:
        S(tx, 1, fl, "r:61:253", 1)
        S(tx, 0, fl, G.sized_script(rng, 65536), 2 ** 64 - 1)
    # 4. values across u64, and huge indices (usize)
    for v in [0, 1, 255, 256, 2 ** 32 - 1, 2 ** 32, 2 ** 56, 2 ** 63 - 1, 2 ** 63, 2 ** 64 - 1]:
        S(tx, 0, rng.choice(G.FORKID_FLAGS), G.P2PKH, v)
    for idx in [2, 3, 255, 256, 2 ** 32 - 1, 2 ** 32, 2 ** 63, 2 ** 64 - 1]:
        S(tx, idx, rng.choice(G.FORKID_FLAGS), G.P2PKH, 5)
    # 4b. audit classes, deterministic.  Values on the signed/unsigned boundary and with leading zero bytes: every flag
    t0 = G.EXTREME_TXS[0]
    for fl in G.FORKID_FLAGS:
        for v in G.VALUES:
            S(t0, 1, fl, G.P2PKH, v)
    # 32-bit fields = 0 / 1 / 0x7fffffff / 0x80000000 / 0xfffffffe / 0xffffffff on the signed and on the other inputs, distinct
    # output values, outpoint index != position, duplicate outpoints: every flag x every index (and one beyond)
    for t in G.EXTREME_TXS + [G.LONG_OUT_TX]:
        for fl in G.FORKID_FLAGS:
            for idx in range(4):
                S(t, idx, fl, G.P2PKH, 2 ** 63 + idx)
    # one input; no outputs
    for t in G.SHAPE_TXS:
        for fl in G.FORKID_FLAGS:
            for idx in range(3):
                S(t, idx, fl, "ac", 1)
    # code separators must be kept verbatim on this path, in every neighbourhood (core ones under every flag)
    for k, sc in enumerate(G.SEP_SCRIPTS):
        for fl in (G.FORKID_FLAGS if sc in G.CORE_SEP else [G.FORKID_FLAGS[k % 6], G.FORKID_FLAGS[(k + 3) % 6]]):
            S(G.EXTREME_TXS[k % 3], k % 3, fl, sc, 1000 + k)
    # subscript lengths on the compact-size thresholds (and totals whose low byte looks like one): every flag
    for n in G.SUB_LENS:
        for k, fl in enumerate(G.FORKID_FLAGS):
            if n >= 65021 and tier == "quick" and k % 3 != (n % 3):
                continue
            S(G.EXTREME_TXS[1], k % 3, fl, "4d%s+l:%d:%d" % ((n - 3).to_bytes(2, "little").hex(), n, n - 3) if 259 <= n <= 65538 else G.sized_script(rng, n), 77)
    # 253 inputs / 256 outputs (counts on the compact-size boundary inside the hashed strings)
    for (fl, idx) in [(0x41, 252), (0x43, 252), (0xC1, 0), (0x43, 255)]:
        cases.append(("tx.sighash", [G.BIG_COUNT_TX, str(idx), str(fl), "ac", "1"]))
    # 4b'. null (coinbase) outpoint and each half of it at the signed index and elsewhere, duplicate null outpoints, sequences
    # 0 / 0xfffffffe / 0xffffffff, version / locktime 0 and 2^32-1, zero- and max-value outputs with empty scripts: every flag x index
    for t in G.COINBASE_TXS:
        for fl in G.FORKID_FLAGS:
            for idx in range(4):
                S(t, idx, fl, G.P2PKH, G.VALUES[(idx + fl) % len(G.VALUES)])
    # 4c. state carried in the object: optional annotations (satoshis, locking script) on the signed and on the other inputs, equal
    # and unequal to the call arguments (incl. value 0 / 2^64-1 and the empty subscript), on objects obtained directly, through clone,
    # JSON, CBOR, the construction API and hex; the preimage is a function of the wire fields and the arguments only
    A = lambda tx, idx, fl, sub, v, ann, route: cases.append(("tx.sighash_ann", [tx.hex(), str(idx), str(fl), sub, str(v), ann, route]))
    subs = [G.P2PKH, "", "ab51", "ac"]
    n = 0
    for fi, fl in enumerate(G.FORKID_FLAGS):
        for i in range(3):
            v = [0, G.U64 - 1, 12345, 2 ** 63][(fi + i) % 4]
            for ai, ann in enumerate(G.annotation_sets(i, v)):
                routes = G.ROUTES if (tier == "thorough" or ai in (0, 2, 3)) else [G.ROUTES[(n + ai) % 6]]
                for r in routes:
                    A(G.EXTREME_TXS[(fi + ai) % 3], i, fl, subs[(n + ai) % 4], v, ann, r)
                n += 1
    A(G.EXTREME_TXS[0], 0, G.FORKID_FLAGS[0], "ac", 5, "-", "j")
    A(G.EXTREME_TXS[0], 3, G.FORKID_FLAGS[0], "ac", 5, "0,7,-", "b")
    # 5. random bulk
    for _ in range(120 if tier == "quick" else 1500):
        nin, nout = rng.randrange(1, 7), rng.randrange(0, 7)
        tx = G.mk_tx(rng, nin, nout, nonpal=rng.random() < 0.7)
        sub = rng.choice([G.P2PKH, G.small_script(rng).hex(), G.codesep_script(rng, 3, 6).hex(), G.sized_script(rng, rng.randrange(0, 600))])
        S(tx, rng.randrange(nin + 1), rng.choice(G.FORKID_FLAGS), sub, G.value(rng))
    # 6. the other enum values once each (dispatch; nothing prescribed by this property)
    for fl in G.LEGACY_FLAGS + G.OTHER_FLAGS:
        S(tx, 1, fl, G.P2PKH, 7)
    # 7. unparseable transaction / subscript (refused before the preimage is computed)
    S(tx[:-1], 0, 0x41, G.P2PKH, 1)
    cases.append(("tx.sighash", [tx.hex(), "0", "65", "4c05ab", "1"]))
    cases.append(("tx.sighash", [tx.hex(), "0", "65", "63", "1"]))
    # 8. sign + verify
    for _ in range(30 if tier == "quick" else 200):
        nin, nout = rng.randrange(1, 5), rng.randrange(0, 5)
        tx = G.mk_tx(rng, nin, nout)
        cases.append(("tx.sign_verify", [tx.hex(), rng.choice(KEYS + [G.rbytes(rng, 31).hex() + "07"]), str(rng.choice(G.FORKID_FLAGS)),
                                         str(rng.randrange(nin + 1)), rng.choice([G.P2PKH, G.small_script(rng).hex()]), str(G.value(rng))]))
    for k, fl in enumerate(G.FORKID_FLAGS):
        t = G.EXTREME_TXS[k % 3]
        cases.append(("tx.sign_verify", [t.hex(), KEYS[k % 3], str(fl), str(k % 3), G.SEP_SCRIPTS[k + 8], str(G.VALUES[k])]))
        cases.append(("tx.sign_verify", [t.hex(), KEYS[(k + 1) % 3], str(fl), str((k + 1) % 3), G.P2PKH, str(G.VALUES[k + 3]), KEYS[k % 3]]))
    return cases


def neighbours(case, rng):
    op, args = case
    out = []
    if op == "tx.sighash":
        for fl in G.FORKID_FLAGS:
            for idx in range(4):
                out.append((op, [args[0], str(idx), str(fl), args[3], args[4]]))
    return out


def search_cases(rng, broken):
    out = []
    for nin, nout in [(1, 1), (2, 2), (3, 1), (2, 3)]:
        tx = G.mk_tx(rng, nin, nout)
        for idx in range(nin + 1):
            for fl in G.FORKID_FLAGS:
                out.append(("tx.sighash", [tx.hex(), str(idx), str(fl), G.P2PKH, "1000"]))
    return out


def nontrivial(case, out):
    return out.startswith("OK:")
