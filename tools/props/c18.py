"""C18 — case generator: JSON / CBOR encodings of (extended) transactions and single inputs."""
from . import c02

ID = "C18"
LEVEL = "proof"
RULE = ("structured transactions (0..4 inputs, 0..3 outputs, scripts from a grammar with every push form, empty pushes, nested "
        "conditionals; coinbase inputs; extended fields present/absent per input; values from {0, 2^53-1, 2^53, 2^53+1, 2^63-1, 2^63, "
        "2^64-1} and random) through tx.json_roundtrip / tx.cbor_roundtrip / txin.cbor_roundtrip, their JSON text (both to_json_string "
        "and to_json) and CBOR bytes compared with the model's printers, every-prefix-is-refused and trailing-bytes probes; boundary "
        "stream: pushes of 2047/2048/2049 bytes (ciborium's 4096-byte scratch buffer), conditional nesting on both sides of the decoder "
        "guards (JSON 61/62, CBOR 125/126/127, single input 126/127/128) with empty / opcode / push innermost bodies, u32/u64 extremes; "
        "value-dependent stream: one-byte pushes of every value 0x00..0xff (direct, PUSHDATA1, inside conditionals, as Coinbase bits), two-byte pushes with all-digit hex, previous-output ids with leading/trailing zero bytes, empty vs missing optional fields, PUSHDATA1/2 at the top of their length fields; at the data-model level every look-alike string (ASM short forms 0..17, decimals, OP_FALSE/OP_TRUE, other spellings and lower-case / prefix-less forms of every opcode name) in every position where a name or a hex text is read; "
        "audit stream: every ScriptBit variant (all push forms, all four conditional codes, with / without else) in every position (script_sig, extended locking script, output script, pass, fail) through JSON and CBOR, whole transaction and lone TxIn; version / vout / sequence / locktime each separately at 0, 2^31-1, 2^31, 2^32-1; satoshis None vs Some(0) vs top-bit values; TxOut JSON; transactions whose sighash cache was filled before serialising (no leak, clone keeps it, decoded value starts empty - hook verif_hash_cache), and the same values rebuilt through new/set_*/add_inputs/add_input/add_outputs/add_output/set_input/set_output; to/from_compact_hex against the byte forms; "
        "state stream (tx.steps): one Transaction object observed through JSON and CBOR, mutated by every setter (set_version / set_nlocktime and the clones they return, set_sequence / set_vout / set_satoshis / set_locking_script / set_unlocking_script / set_prev_tx_id through set_input, add / prepend / insert input, add / prepend / insert / set output), observed again - every order, two setters in both orders, a setter repeated or undone, with a warm sighash cache, on clone(), after a JSON / CBOR round trip, crossing the coinbase and nesting classes by a setter; expected values computed from the final fields only; "
        "scripts the byte parser cannot produce (Push of 0 and of more than 75 bytes, PushData with any opcode, Coinbase bits anywhere) "
        "through bits.*_roundtrip; malformed documents at the data-model level through tx.de_json / tx.de_cbor / txin.de_cbor: every "
        "field dropped / duplicated / retyped / out of range, unknown fields (deep, long-named), structs as arrays, every alternative "
        "spelling an untagged ScriptBit variant accepts or refuses; raw garbage through tx.from_json / tx.from_cbor (totality only); "
        "non-trivial = the model's outcome is OK; distinct by (op, arguments)")
TRUSTED = ["hand-written Gallina model coq/Model/Serde.v of the serde derives in src/transaction/{mod,txin,txout}.rs, "
           "src/script/{mod,script_bit,op_codes}.rs, src/utils/mod.rs and of the untagged-enum / struct-visitor machinery of "
           "serde 1.0.229 + serde_derive (tied by this correspondence run)",
           "serde_json 1.0.151 and ciborium 0.2.2 (text / byte layers): external code; only their printing is modelled (json_of, "
           "json_value_of, cbor_of — compared on every run), their parsers are tied only through the round-trip and de_* cases",
           "coq/Model/Tx.v, coq/Model/Script.v (wire parsing used to build the inputs of the cases; tied by C01 / C02)",
           "equality of transaction ids is modelled as equality of wire bytes (the id is sha256d of the bytes)"]
ASSUMPTIONS = ["the theorems are about trees (serde data model); that serde_json / ciborium print a tree and read the same tree back is "
               "validated by the correspondence run, not proved",
               "strings are ASCII in all generated documents; struct field names longer than 4096 bytes are modelled for CBOR only as refused",
               "native-stack exhaustion on very deep nesting is outside the model (the decoders' guards act first: 127 / 256 levels)"]

U64 = 2 ** 64
VALUES = [0, 1, 2 ** 53 - 1, 2 ** 53, 2 ** 53 + 1, 2 ** 63 - 1, 2 ** 63, 2 ** 63 + 1, 2 ** 64 - 2, 2 ** 64 - 1]
OPS = [0, 79, 81, 82, 96, 97, 105, 106, 107, 117, 118, 135, 136, 147, 169, 171, 172, 174, 186, 255, 80, 103, 104]
GENESIS = ("01000000010000000000000000000000000000000000000000000000000000000000000000ffffffff4d04ffff001d0104455468652054696d65732030"
           "332f4a616e2f32303039204368616e63656c6c6f72206f6e206272696e6b206f66207365636f6e64206261696c6f757420666f722062616e6b73ffffffff"
           "0100f2052a01000000434104678afdb0fe5548271967f1a67130b7105cd6a828e03909a67962e0ea1f61deb649f6bc3f4cef38c4f35504e51ec112de5c38"
           "4df7ba0b8d578a4c702b6bf11d5fac00000000")


def le(n, k):
    return (n % (1 << (8 * k))).to_bytes(k, "little").hex()


def cs(n):
    return "%02x" % n if n < 253 else "fd" + le(n, 2) if n < 0x10000 else "fe" + le(n, 4) if n < 2 ** 32 else "ff" + le(n, 8)


def dlen(d):
    n = 0
    for part in d.split("+"):
        if part:
            f = part.split(":")
            n += int(f[2]) if len(f) == 3 else len(part) // 2
    return n


def join(parts):
    return "+".join(p for p in parts if p != "")


def tx_wire(ver, ins, outs, lt):
    """ins: (id descriptor (wire order), vout, script descriptor, seq); outs: (value, script descriptor)"""
    parts = [le(ver, 4) + cs(len(ins))]
    for (i, v, s, q) in ins:
        parts += [i, le(v, 4) + cs(dlen(s)), s, le(q, 4)]
    parts.append(cs(len(outs)))
    for (v, s) in outs:
        parts += [le(v, 8) + cs(dlen(s)), s]
    parts.append(le(lt, 4))
    return join(parts)


def good_script(rng, depth=2, size=None):
    if size is None:
        size = rng.randrange(0, 6)
    out = b""
    for _ in range(size):
        r = rng.random()
        if r < 0.45:
            out += c02.push(rng, rng.choice([0, 1, 1, 2, 3, 5, 20, 32, 33, 75, 76, 80]))
        elif r < 0.6 and depth > 0:
            out += bytes([rng.choice(c02.IFS)]) + good_script(rng, depth - 1, rng.randrange(0, 3))
            if rng.random() < 0.5:
                out += b"\x67" + good_script(rng, depth - 1, rng.randrange(0, 3))
            out += b"\x68"
        else:
            out += bytes([rng.choice(OPS[:-2])])
    return out


def rval(rng):
    return rng.choice(VALUES) if rng.random() < 0.5 else rng.randrange(U64)


def r32(rng):
    return rng.choice([0, 1, 0x7fffffff, 0x80000000, 0xfffffffe, 0xffffffff]) if rng.random() < 0.4 else rng.randrange(2 ** 32)


def rand_tx(rng, coinbase=False):
    nin = 1 if coinbase else rng.randrange(0, 5)
    ins, ext = [], []
    for k in range(nin):
        if coinbase or rng.random() < 0.08:
            ident, vout = "r:00:32", 0xffffffff
            script = bytes(rng.randrange(256) for _ in range(rng.choice([0, 1, 2, 4, 20, 75, 76, 77, 100]))).hex()
        else:
            ident, vout = "l:%d:32" % rng.randrange(10 ** 6), r32(rng)
            script = good_script(rng).hex()
        ins.append((ident, vout, script, r32(rng)))
        sat = "n" if rng.random() < 0.4 else str(rval(rng))
        lock = "n" if rng.random() < 0.4 else good_script(rng).hex()
        ext.append(sat + "." + lock)
    outs = [(rval(rng), good_script(rng).hex()) for _ in range(rng.randrange(0, 4))]
    k = rng.randrange(0, nin + 1)
    ext = ext[:k]
    return tx_wire(r32(rng), ins, outs, r32(rng)), (",".join(ext) if ext else "-"), nin


# ---------------------------------------------------------------- trees
class M(list):
    """map as a list of pairs (duplicates and order matter)"""


class S:
    """string given as hex text of a byte descriptor"""
    def __init__(self, d):
        self.d = d


RAW = set("0123456789abcdefghijklmnopqrstuvwxyzABCDEFGHIJKLMNOPQRSTUVWXYZ_")


def tok(t, out):
    if t is None:
        out.append("n")
    elif t is True:
        out.append("t")
    elif t is False:
        out.append("f")
    elif isinstance(t, int):
        out.append("u%d" % t if t >= 0 else "m%d" % -t)
    elif isinstance(t, str):
        out.append("z" + t if all(c in RAW for c in t) else "s" + t.encode().hex())
    elif isinstance(t, S):
        out.append("S" + t.d)
    elif isinstance(t, M):
        out.append("o%d" % len(t))
        for k, v in t:
            tok(k, out)
            tok(v, out)
    elif isinstance(t, list):
        out.append("a%d" % len(t))
        for x in t:
            tok(x, out)
    else:
        raise ValueError(t)


def enc(t):
    out = []
    tok(t, out)
    return ".".join(out)


ID32 = S("l:9:32")


def base_in(bits=None, ext=True):
    m = M([("prev_tx_id", ID32), ("vout", 1), ("script_sig", ["OP_1", "00ff"] if bits is None else bits), ("sequence", 4294967295)])
    if ext:
        m += [("unlocking_script", ["OP_DUP", ["OP_PUSHDATA1", "aa"]]), ("satoshis", 2 ** 64 - 1)]
    return m


def base_out():
    return M([("value", 2 ** 53), ("script_pub_key", ["OP_DUP", "OP_HASH160", "00" * 20, "OP_EQUALVERIFY", "OP_CHECKSIG"])])


def base_tx(bits=None, ins=None, outs=None):
    return M([("version", 2), ("inputs", [base_in(bits)] if ins is None else ins),
              ("outputs", [base_out()] if outs is None else outs), ("n_locktime", 0)])


def without(m, k):
    return M([p for p in m if p[0] != k])


def with_val(m, k, v):
    return M([(a, v if a == k else b) for a, b in m])


def deep(n, leaf=None):
    t = [] if leaf is None else leaf
    for _ in range(n):
        t = [t]
    return t


WRONG = [None, True, "x", "", 7, -1, [], M([]), ["OP_1"], M([("a", 1)])]

BIT_FORMS = [
    "OP_DUP", "op_dup", "OP_", "OP_0", "OP_FALSE", "OP_TRUE", "OP_PUSHDATA1", "OP_IF", "OP_ENDIF", "OP_INVALIDOPCODE", "OP_PUBKEY",
    "", "0", "00", "0g", "ABCD", "abCD", "abc", " 00", "00 ", "0x00", "4f505f30", "OP_00",
    7, 0, -1, None, True, False, [], M([]),
    M([("OP_0", None)]), M([("OP_0", 0)]), M([("OP_0", [])]), M([("OP_0", None), ("x", 1)]), M([("OP_NOPE", None)]), M([("00", None)]),
    ["OP_IF", [], None], ["OP_IF", ["OP_1"], ["OP_2"]], ["OP_IF", []], ["OP_IF", [], None, 1], ["OP_IF", None, None], ["OP_IF", [], "00"],
    ["OP_DUP", [], None], ["00", [], None], [M([("OP_NOTIF", None)]), ["00"], []],
    ["OP_PUSHDATA1", "00"], ["OP_PUSHDATA2", ""], ["OP_PUSHDATA4", "ABcd"], ["OP_DUP", "00"], ["OP_DUP", "0"], ["OP_DUP"], ["OP_DUP", "00", "00"],
    ["op_dup", "00"], ["00", "00"], ["OP_PUSHDATA1", 0], ["OP_PUSHDATA1", None], ["OP_PUSHDATA1", ["00"]], [M([("OP_PUSHDATA1", None)]), "00"],
    ["OP_PUSHDATA1", "OP_1"], [[], "00"], ["", ""],
    M([("code", "OP_IF"), ("pass", []), ("fail", None)]), M([("code", "OP_IF"), ("pass", [])]), M([("code", "OP_IF"), ("fail", None)]),
    M([("pass", []), ("fail", None)]), M([("fail", []), ("pass", ["OP_1"]), ("code", "OP_NOTIF")]),
    M([("code", "OP_IF"), ("pass", []), ("fail", [])]), M([("code", "OP_IF"), ("pass", []), ("fail", "00")]),
    M([("code", "OP_IF"), ("pass", []), ("fail", 0)]), M([("code", "OP_IF"), ("pass", None), ("fail", None)]),
    M([("code", "OP_IF"), ("pass", "00"), ("fail", None)]), M([("code", "OP_DUP"), ("pass", []), ("fail", None)]),
    M([("code", "00"), ("pass", []), ("fail", None)]), M([("code", 99), ("pass", []), ("fail", None)]),
    M([("code", M([("OP_IF", None)])), ("pass", []), ("fail", None)]),
    M([("code", "OP_IF"), ("pass", []), ("fail", None), ("extra", deep(5))]), M([("x", 1), ("code", "OP_IF"), ("pass", ["zz"]), ("fail", None)]),
    M([("code", "OP_IF"), ("code", "OP_IF"), ("pass", []), ("fail", None)]), M([("code", "OP_IF"), ("pass", []), ("pass", []), ("fail", None)]),
    M([("code", "OP_IF"), ("pass", []), ("fail", None), ("fail", None)]), M([("code", "OP_IF"), ("pass", []), ("fail", None), ("x", 1), ("x", 2)]),
    M([("Code", "OP_IF"), ("pass", []), ("fail", None)]),
    M([("code", "OP_IF"), ("pass", [M([("code", "OP_NOTIF"), ("pass", ["00", ["OP_PUSHDATA1", ""]]), ("fail", ["OP_1"])])]), ("fail", None)]),
    M([("code", "OP_IF"), ("pass", ["OP_1", "zz"]), ("fail", None)]), M([("code", "OP_IF"), ("pass", []), ("fail", ["zz"])]),
    M([("code", "OP_IF")]), M([("a", 1)]),
]


def tree_cases(tier):
    cases = []
    thorough = tier != "quick"

    def T(t, both=True, txin=False):
        e = enc(t)
        assert len(e) <= 2600, len(e)
        if txin:
            cases.append(("txin.de_cbor", [e]))
        else:
            cases.append(("tx.de_json", [e]))
            if both:
                cases.append(("tx.de_cbor", [e]))

    bt = base_tx()
    T(bt)
    T(base_tx(ins=[], outs=[]))
    T(base_tx(ins=[base_in(ext=False)]))
    T(base_in(), txin=True)
    T(base_in(ext=False), txin=True)
    # every field dropped / duplicated / retyped, at every struct level
    for k, _ in bt:
        T(without(bt, k)); T(M(bt + [(k, dict(bt)[k])])); T(M([(k, dict(bt)[k])] + bt))
        for w in WRONG:
            T(with_val(bt, k, w))
    bi = base_in()
    for k, _ in bi:
        T(base_tx(ins=[without(bi, k)])); T(base_tx(ins=[M(bi + [(k, dict(bi)[k])])]))
        T(without(bi, k), txin=True); T(M(bi + [(k, dict(bi)[k])]), txin=True)
        for w in WRONG:
            T(base_tx(ins=[with_val(bi, k, w)]))
            T(with_val(bi, k, w), txin=True)
    bo = base_out()
    for k, _ in bo:
        T(base_tx(outs=[without(bo, k)])); T(base_tx(outs=[M(bo + [(k, dict(bo)[k])])]))
        for w in WRONG:
            T(base_tx(outs=[with_val(bo, k, w)]))
    # integer ranges
    for k in ("version", "n_locktime"):
        for v in (0, 2 ** 32 - 1, 2 ** 32, 2 ** 64 - 1):
            T(with_val(bt, k, v))
    for k in ("vout", "sequence"):
        for v in (0, 2 ** 32 - 1, 2 ** 32, 2 ** 64 - 1):
            T(base_tx(ins=[with_val(bi, k, v)])); T(with_val(bi, k, v), txin=True)
    for v in VALUES + [-(2 ** 63)]:
        T(base_tx(ins=[with_val(bi, "satoshis", v)])); T(base_tx(outs=[with_val(bo, "value", v)])); T(with_val(bi, "satoshis", v), txin=True)
    # hex fields
    for h in ("", "00", "0", "zz", "ABCDEF", "abcdef0", S("l:3:31"), S("l:3:33"), S("l:3:2048"), S("l:3:2049")):
        T(base_tx(ins=[with_val(bi, "prev_tx_id", h)]))
    T(with_val(bi, "prev_tx_id", "0102"), txin=True)
    # unknown fields: plain, deep (JSON skips without a depth guard, CBOR guards), long-named (CBOR identifier buffer)
    for extra in (("x", 1), ("x", deep(10)), ("x", deep(126)), ("x", deep(130)), ("x", deep(253)), ("x", deep(254)), ("x", deep(255)), ("x", deep(256)), ("x", deep(300)),
                  (S("l:1:2048"), 1), (S("l:1:2049"), 1), ("", None), ("VERSION", 1), ("hash_cache", M([]))):
        T(M(bt + [extra])); T(M([extra] + bt))
        T(base_tx(ins=[M(bi + [extra])])); T(base_tx(outs=[M(bo + [extra])]))
        T(M(bi + [extra]), txin=True)
    # structs as arrays (serde_json: positional; ciborium: refused)
    tin6 = [ID32, 1, ["OP_1"], 5, ["OP_2"], 9]
    for arr in ([2, [], [], 0], [2, [], []], [2, [], [], 0, 1], [2, [tin6], [[5, ["OP_1"]]], 0], [2, [tin6[:4]], [], 0], [2, [tin6 + [1]], [], 0],
                [2, [[ID32, 1, ["OP_1"], 5, None, None]], [], 0], [2, [], [[5]], 0], [2, [], [[5, [], 1]], 0], [2, [bi], [bo], 0], []):
        T(arr)
    T(base_tx(ins=[tin6])); T(base_tx(outs=[[5, ["OP_1"]]])); T(tin6, txin=True)
    T(None); T(5); T("x"); T(M([])); T([bt])
    T(with_val(bt, "inputs", M([("0", bi)]))); T(with_val(bt, "inputs", bi))
    # scripts: wrong containers
    for s in (M([]), "OP_1", None, [["OP_1"]], [[["OP_1"]]], M([("0", "OP_1")])):
        T(base_tx(bits=s)); T(base_tx(outs=[with_val(bo, "script_pub_key", s)])); T(base_tx(ins=[with_val(bi, "unlocking_script", s)]))
    # the untagged ScriptBit: every spelling
    for b in BIT_FORMS:
        T(base_tx(bits=[b])); T(base_tx(bits=["OP_1", b, "00"]), both=thorough)
        T(base_tx(bits=[M([("code", "OP_IF"), ("pass", [b]), ("fail", [b])])]))
        T(base_in(bits=[b]), txin=True)
    # strings that look like something else, in every position where an opcode name or a hex text is read
    for b in LOOKALIKES:
        T(base_tx(bits=[b])); T(base_in(bits=[b]), txin=True)
        T(base_tx(bits=[[b, "aa"]])); T(base_tx(bits=[["OP_PUSHDATA1", b]]))
        T(base_tx(bits=[M([("code", b), ("pass", []), ("fail", None)])])); T(base_tx(bits=[M([("code", "OP_IF"), ("pass", [b]), ("fail", [b])])]), both=thorough)
        T(base_tx(bits=[M([(b, None)])]), both=True)
        T(base_tx(outs=[with_val(base_out(), "script_pub_key", [b])]), both=thorough)
        T(base_tx(ins=[with_val(base_in(), "unlocking_script", [b])]), both=thorough)
        T(base_tx(ins=[with_val(base_in(), "prev_tx_id", b)]), both=thorough)
    names = opcode_names()
    for nm in names:
        T(base_tx(bits=[nm.lower()]), both=thorough); T(base_tx(bits=[nm[3:]]), both=thorough)
    T(base_tx(bits=names[:60])); T(base_tx(bits=names[60:])); T(base_in(bits=names[:60]), txin=True)
    T(base_tx(bits=[[nm, ""] for nm in names[:40]]))
    # hex text of a push on both sides of ciborium's scratch buffer
    for n in (2047, 2048, 2049):
        T(base_tx(bits=[S("l:4:%d" % n)])); T(base_tx(bits=[["OP_PUSHDATA2", S("l:4:%d" % n)]]))
    # nesting through the seq form of If (short tokens): depth on both sides of the JSON guard
    for d in (1, 2, 30, 60, 61, 62, 63):
        t = []
        for _ in range(d):
            t = [["OP_IF", t, None]]
        T(base_tx(bits=t, outs=[]))
        T(base_tx(bits=["OP_1"], ins=None, outs=[with_val(bo, "script_pub_key", t)]))
    return cases


# ---------------------------------------------------------------- bits
def rand_bits(rng, depth):
    toks = []
    for _ in range(rng.randrange(0, 5)):
        r = rng.random()
        if r < 0.25:
            toks.append("o" + rng.choice(["OP_0", "OP_1", "OP_DUP", "OP_IF", "OP_ELSE", "OP_ENDIF", "OP_PUSHDATA1", "OP_RETURN", "OP_CHECKSIG", "OP_INVALIDOPCODE"]))
        elif r < 0.45:
            toks.append("p" + bytes(rng.randrange(256) for _ in range(rng.choice([0, 0, 1, 2, 20, 75, 76, 100, 255, 256, 300]))).hex())
        elif r < 0.6:
            toks.append("d" + rng.choice(["OP_PUSHDATA1", "OP_PUSHDATA2", "OP_PUSHDATA4", "OP_DUP", "OP_0", "OP_IF"]) + "x"
                        + bytes(rng.randrange(256) for _ in range(rng.choice([0, 0, 1, 2, 76, 255, 256]))).hex())
        elif r < 0.7:
            toks.append("c" + bytes(rng.randrange(256) for _ in range(rng.choice([0, 1, 4, 77]))).hex())
        elif depth > 0:
            toks.append("i" + rng.choice(["OP_IF", "OP_NOTIF", "OP_VERIF", "OP_VERNOTIF", "OP_DUP"]))
            toks += rand_bits(rng, depth - 1)
            if rng.random() < 0.5:
                toks.append("e")
                toks += rand_bits(rng, depth - 1)
            toks.append("z")
    return toks



def opcode_names():
    """names of the OpCodes enum, from the table regenerated at the start of every check"""
    import os, re
    path = os.path.join(os.path.dirname(os.path.dirname(os.path.dirname(os.path.abspath(__file__)))), "coq", "Gen", "Opcodes_gen.v")
    try:
        return re.findall(r'\("(OP_[A-Za-z0-9_]+)", \d+%N\)', open(path).read())
    except OSError:
        return ["OP_0", "OP_1", "OP_16", "OP_DUP", "OP_IF", "OP_CHECKSIG"]


# strings that look like something else: ASM short forms, decimals, aliases, other spellings of names
LOOKALIKES = ([str(i) for i in range(0, 18)] + ["%02d" % i for i in range(0, 18)] + ["%03d" % i for i in (0, 1, 10, 16)]
              + ["OP_FALSE", "OP_TRUE", "op_0", "op_1", "Op_0", "OP_0 ", " OP_0", "OP-0", "OP0", "FALSE", "TRUE", "false", "true", "null",
                 "-1", "+1", "0x10", "1e1", "1.0", "4f", "4F", "51", "60", "ff", "FF", "a", "A", "0a", "0A", "a0", "dup", "DUP", "OP_dup"])


def value_dependent(A, both, tier):
    """scripts whose hex text could be taken for something else: one-byte pushes of EVERY value (the hex of 0x10..0x16 reads
    as a decimal / ASM short form), two-byte pushes with all-digit hex, the same through PUSHDATA1, inside conditionals"""
    ident = "l:11:32"
    # each suspicious value alone first, so that a replay is minimal
    for v in list(range(0x00, 0x17)) + [0x4f, 0x51, 0x60, 0x99, 0xff]:
        s = "01%02x" % v
        w = tx_wire(1, [(ident, 0, s, 0)], [(1, s)], 0)
        both(w, "1." + s); A("txin.cbor_roundtrip", w, "1." + s, 0); A("bits.json_roundtrip", "p%02x" % v); A("bits.cbor_roundtrip", "p%02x" % v)
    for c in range(8):
        vals = range(32 * c, 32 * c + 32)
        s = "".join("01%02x" % v for v in vals)
        w = tx_wire(1, [(ident, 0, s, 0)], [(1, s)], 0)
        e = "1." + s
        both(w, e); A("txin.cbor_roundtrip", w, e, 0); A("txin.json", w, e, 0); A("tx.to_json", w, e)
        s2 = "63" + s + "67" + s + "68"
        both(tx_wire(1, [(ident, 0, s2, 0)], [(0, s2)], 0), "n." + s2)
        bts = ",".join("p%02x" % v for v in vals)
        A("bits.json_roundtrip", bts); A("bits.cbor_roundtrip", bts)
        A("bits.json_roundtrip", "iOP_IF," + bts + ",e," + bts + ",z"); A("bits.cbor_roundtrip", "iOP_NOTIF," + bts + ",e," + bts + ",z")
        bcb = ",".join("c%02x" % v for v in vals)          # Coinbase bits of every one-byte value (inside the known class)
        A("bits.json_roundtrip", bcb)
        s3 = "".join("4c01%02x" % v for v in vals)
        both(tx_wire(1, [(ident, 0, s3, 0)], [(0, s3)], 0), "-")
    two = ["0000", "0001", "0010", "0016", "0100", "1000", "1234", "1600", "1616", "9999", "0099", "4f50"]
    s = "".join("02" + t for t in two) + "03000010" + "03123456" + "0400000016"
    w = tx_wire(1, [(ident, 0, s, 0)], [(1, s)], 0)
    both(w, "1." + s); A("txin.cbor_roundtrip", w, "1." + s, 0)
    A("bits.json_roundtrip", ",".join("p" + t for t in two)); A("bits.cbor_roundtrip", ",".join("p" + t for t in two))
    for t in two:
        both(tx_wire(1, [(ident, 0, "02" + t, 0)], [], 0), "-")
    # previous-output ids whose hex text has leading / trailing zeros, or is all zeros without the coinbase index
    for i in ("r:00:31+01", "01+r:00:31", "r:00:32", "r:00:16+r:ff:16", "00+l:3:31", "l:3:31+00", "r:10:32", "r:16:32"):
        w = tx_wire(1, [(i, 0, "51", 0), (i, 0xffffffff if i != "r:00:32" else 7, "", 0)], [], 0)
        both(w, "-"); A("txin.cbor_roundtrip", w, "-", 0); A("txin.json", w, "-", 1)
    # empty vs missing optional fields
    w = tx_wire(1, [(ident, 0, "", 0), (ident, 1, "", 0)], [(0, "")], 0)
    for e in ("-", "n.n,n.n", "0.n,n.", "0.,0.", "n.,0.n", "18446744073709551615.00,9223372036854775809.4c00"):
        both(w, e); A("txin.cbor_roundtrip", w, e, 0); A("txin.cbor_roundtrip", w, e, 1); A("tx.to_json", w, e); A("tx.to_cbor", w, e)
    # PUSHDATA1 / PUSHDATA2 at the top of their length fields
    sizes = [("4cff", 255), ("4dff00", 255), ("4d0001", 256)] + ([] if tier == "quick" else [("4dffff", 65535), ("4e00000100", 65536)])
    for pre, n in sizes:
        s = pre + "+l:%d:%d" % (n, n)
        w = tx_wire(1, [(ident, 0, s, 0)], [(1, s)], 0)
        both(w, "-"); A("txin.cbor_roundtrip", w, "-", 0); A("tx.to_cbor", w, "-")



def audit_cases(A, both, tier, rng):
    """entry points, carried state, field extremes, every ScriptBit variant in every position (audit classes 1/3/4/6)"""
    ident = "l:21:32"
    p2pkh = "76a914" + "22" * 20 + "88ac"
    # -- every ScriptBit variant x every position x JSON/CBOR x whole tx / lone TxIn (wire-parsable variants)
    variants = ["76", "00", "020102", "4c020102", "4d02000102", "4e020000000102", "635168", "646751" + "68", "65" + "67" + "68", "6651675268"]
    for v in variants:
        for pos in ("sig", "lock", "out", "pass", "fail"):
            body = v if pos in ("sig", "lock", "out") else ("63" + v + "68" if pos == "pass" else "6367" + v + "68")
            sig = body if pos in ("sig", "pass", "fail") else ""
            w = tx_wire(1, [(ident, 0, sig, 0)], [(1, body if pos == "out" else "")], 0)
            e = "n." + body if pos == "lock" else ("n." + body if pos in ("pass", "fail") else "-")
            both(w, e); A("txin.cbor_roundtrip", w, e, 0)
            if pos in ("sig", "lock"):
                A("txin.json", w, e, 0); A("txin.to_cbor", w, e, 0)
            if pos == "out":
                A("txout.json", w, e, 0)
    # -- the same for the variants the parser cannot produce, in top / pass / fail position, all If codes
    bvars = ["oOP_DUP", "p", "p0102", "p" + "ab" * 76, "dOP_PUSHDATA1x0102", "dOP_PUSHDATA2x", "dOP_PUSHDATA4x01", "dOP_DUPx01", "c0102", "c",
             "iOP_IF,oOP_1,z", "iOP_NOTIF,e,oOP_1,z", "iOP_VERIF,p01,e,p02,z", "iOP_VERNOTIF,z"]
    for v in bvars:
        for code in ("OP_IF", "OP_NOTIF", "OP_VERIF", "OP_VERNOTIF"):
            forms = [v] if code == "OP_IF" else []
            if tier != "quick" or code in ("OP_IF", "OP_NOTIF"):
                forms += ["i%s,%s,z" % (code, v), "i%s,e,%s,z" % (code, v)]
            forms += ["i%s,%s,e,%s,z" % (code, v, v)]
            for t in forms:
                A("bits.json_roundtrip", t); A("bits.cbor_roundtrip", t); A("bits.txin_cbor_roundtrip", t)
    # -- u32 fields: 0, top bit set, all ones - in every field separately, whole tx and lone input, texts and bytes
    for x in (0, 1, 0x7fffffff, 0x80000000, 0x80000001, 0xfffffffe, 0xffffffff):
        for which in range(4):
            f = [5, 5, 5, 5]; f[which] = x
            w = tx_wire(f[0], [(ident, f[1], "51", f[2])], [(1, "51")], f[3])
            both(w, "-"); A("txin.cbor_roundtrip", w, "-", 0)
        w = tx_wire(x, [(ident, x, "51", x)], [(1, "51")], x)
        A("tx.to_json", w, "-"); A("tx.to_cbor", w, "-"); A("txin.json", w, "-", 0); A("txin.to_cbor", w, "-", 0)
    # -- satoshis / output values: None vs Some(0), top bit set, all ones; TxOut JSON
    for v in VALUES:
        w = tx_wire(1, [(ident, 0, "51", 0)], [(v, "51"), (0, "")], 0)
        for e in ("-", "%d.n" % v, "%d." % v):
            A("txin.cbor_roundtrip", w, e, 0); A("txin.json", w, e, 0); A("txin.to_cbor", w, e, 0)
        A("txout.json", w, "-", 0); A("txout.json", w, "-", 1)
    # -- carried state: serialise after sighash calls filled the cache; clones; decoded transactions start empty;
    #    the same values rebuilt through the construction / mutation API
    plain = tx_wire(1, [("l:1:32", 0, "483045" + "33" * 70 + "2103" + "44" * 32, 0xffffffff), ("l:2:32", 1, "", 0xfffffffe)], [(546, p2pkh), (0, "6a0568656c6c6f")], 0)
    for w, e in [(plain, "-"), (plain, "1000." + p2pkh + ",18446744073709551615."), (plain, "0.n,n."), (tx_wire(2, [], [], 0), "-"),
                 (tx_wire(2, [], [(5, "51")], 9), "-"), (tx_wire(2, [(ident, 0, "", 0)], [], 0), "n.n"), (GENESIS, "-"),
                 (tx_wire(1, [(ident, 0, "r:63:62+r:68:62", 0)], [], 0), "-"), (tx_wire(1, [(ident, 0, "r:63:127+r:68:127", 0)], [], 0), "-")]:
        A("tx.cached_roundtrip", w, e); A("tx.built_json_roundtrip", w, e); A("tx.built_cbor_roundtrip", w, e)
    for t in ("-", "p10", "oOP_1,p,dOP_PUSHDATA1x00", "iOP_IF,p01,e,p02,z", "c00"):
        A("bits.cached_roundtrip", t)
    for k in range(12 if tier == "quick" else 300):
        w, e, nin = rand_tx(rng, coinbase=(k % 6 == 5))
        A("tx.cached_roundtrip", w, e); A("tx.built_json_roundtrip", w, e); A("tx.built_cbor_roundtrip", w, e)



def step_cases(A, tier, rng):
    """state and call history: ONE object observed, mutated through every setter, observed again (also on the clone the
    builder-style setters return, on clone(), after a JSON / CBOR round trip, with a warm sighash cache)"""
    p2pkh = "76a914" + "22" * 20 + "88ac"
    base = tx_wire(1, [("l:31:32", 0, "51", 0xffffffff), ("l:32:32", 1, "", 0xfffffffe)], [(546, p2pkh), (0, "6a0568656c6c6f")], 0)
    ext0, ext1 = "-", "1000." + p2pkh + ",n.n"
    empty = tx_wire(2, [], [], 0)
    muts = ["v7", "V7", "l9", "L9", "v4294967295", "l2147483648", "iq0:5", "io0:4294967295", "ia0:0", "ia0:18446744073709551615", "ia1:9007199254740993",
            "il0:51", "il0:", "il1:4c00", "iu0:0110", "iu1:6351675268", "ip0:r:00:32", "ip0:0102", "ip1:", "ai", "pi", "ni0", "ni1", "ni2",
            "ao0", "ao18446744073709551615", "po5", "no0:5", "no1:5", "no2:5", "so0:7", "so1:9223372036854775808"]
    for w, e in ((base, ext0), (base, ext1)):
        for m in muts:
            # observe -> mutate -> observe, both formats, every order; with a warm cache; on a clone; after a round trip
            A("tx.steps", w, e, "j,c,%s,j,c" % m)
            A("tx.steps", w, e, "h,j,%s,c,h,j" % m)
            A("tx.steps", w, e, "c,k,%s,j,r,c" % m)
            A("tx.steps", w, e, "h,R,%s,c,j" % m)
    for m in ("v7", "V7", "l9", "L9", "ai", "pi", "ni0", "ao5", "po5", "no0:5"):
        A("tx.steps", empty, "-", "j,c,%s,j,c,h,r,j" % m)
    # two mutations in both orders, the same setter twice, a setter undone
    pairs = [("v7", "l9"), ("ia0:5", "il0:51"), ("ia0:5", "ia0:0"), ("il0:51", "il0:"), ("iq0:1", "iq1:2"), ("ai", "pi"), ("ao1", "po2"),
             ("ni1", "iq1:3"), ("no1:4", "so1:6"), ("iu0:0110", "ip0:r:00:32"), ("ip0:r:00:32", "io0:4294967295"), ("v7", "v1"), ("V7", "L9")]
    for a, b2 in pairs:
        for w, e in ((base, ext0), (base, ext1)):
            A("tx.steps", w, e, "j,%s,c,%s,j,c" % (a, b2)); A("tx.steps", w, e, "c,%s,h,j,%s,c,j" % (b2, a))
    # turning an ordinary input into a coinbase outpoint and back by setters (the script bits stay what they were)
    A("tx.steps", base, "-", "ip0:r:00:32,io0:4294967295,j,c,r,j"); A("tx.steps", GENESIS, "-", "j,iu0:0151,j,c,io0:0,j")
    A("tx.steps", GENESIS, "-", "c,ip0:r:11:32,j"); A("tx.steps", GENESIS, "-", "h,v2,j,c")
    # nesting crossing the guard by a setter, and back
    A("tx.steps", base, "-", "j,iu0:r:63:62+r:68:62,j,c,iu0:r:63:61+r:68:61,j,c"); A("tx.steps", base, "-", "il0:r:63:127+r:68:127,c,j,il0:51,c,j")
    # random walks
    for _ in range(25 if tier == "quick" else 600):
        w, e, nin = rand_tx(rng, coinbase=(rng.random() < 0.15))
        steps = []
        for _k in range(rng.randrange(3, 9)):
            r = rng.random()
            if r < 0.4:
                steps.append(rng.choice(["j", "c"]))
            elif r < 0.55:
                steps.append(rng.choice(["h", "k", "r", "R"]))
            else:
                m = rng.choice(["v%d" % r32(rng), "V%d" % r32(rng), "l%d" % r32(rng), "L%d" % r32(rng), "ai", "pi", "ao%d" % rval(rng), "po%d" % rval(rng)])
                if nin and rng.random() < 0.6:
                    i = rng.randrange(nin)
                    m = rng.choice(["iq%d:%d" % (i, r32(rng)), "io%d:%d" % (i, r32(rng)), "ia%d:%d" % (i, rval(rng)),
                                    "il%d:%s" % (i, good_script(rng).hex()), "iu%d:%s" % (i, good_script(rng).hex()),
                                    "ip%d:l:%d:%d" % (i, rng.randrange(1000), rng.choice([0, 1, 31, 32, 33]))])
                steps.append(m)
        steps.append(rng.choice(["j", "c"])); steps.append(rng.choice(["j", "c"]))
        A("tx.steps", w, e, ",".join(steps))


def generate(rng, tier):
    quick = tier == "quick"
    cases = []
    A = lambda op, *a: cases.append((op, [str(x) for x in a]))

    def both(w, e):
        A("tx.json_roundtrip", w, e); A("tx.cbor_roundtrip", w, e)

    def full(w, e, nin):
        both(w, e)
        A("tx.to_json", w, e); A("tx.to_cbor", w, e); A("txout.json", w, e, 0)
        for k in range(nin):
            A("txin.cbor_roundtrip", w, e, k); A("txin.json", w, e, k); A("txin.to_cbor", w, e, k)

    # ---- fixed: the genesis coinbase transaction, an ordinary transaction, the empty transaction
    full(GENESIS, "-", 1)
    full(GENESIS, "5000000000.76a914" + "11" * 20 + "88ac", 1)
    p2pkh = "76a914" + "22" * 20 + "88ac"
    plain = tx_wire(1, [("l:1:32", 0, "483045" + "33" * 70 + "2103" + "44" * 32, 0xffffffff), ("l:2:32", 1, "", 0xfffffffe)], [(546, p2pkh), (0, "6a0568656c6c6f")], 0)
    for e in ("-", "n.n", "1000.n", "n." + p2pkh, "1000." + p2pkh + ",18446744073709551615.", "0.,0."):
        full(plain, e, 2)
    full(tx_wire(2, [], [], 0), "-", 0)
    full(tx_wire(0xffffffff, [], [(2 ** 64 - 1, "")], 0xffffffff), "-", 0)
    # ---- values in the JSON-number danger zone, as output value and as input satoshis; u32 extremes
    for v in VALUES:
        w = tx_wire(1, [("l:3:32", 0, "51", 0)], [(v, "51")], 0)
        both(w, "%d." % v); A("tx.to_json", w, "%d.51" % v); A("tx.to_cbor", w, "%d.51" % v); A("txin.cbor_roundtrip", w, "%d.51" % v, 0)
    for x in (0, 1, 0x7fffffff, 0x80000000, 0xffffffff):
        both(tx_wire(x, [("l:3:32", x, "", x)], [], x), "-")
    # ---- every push form, empty pushes, direct/1/2/4-byte length forms
    for s in ("00", "0100", "4c00", "4d0000", "4e00000000", "4c0101", "4d010001", "4e0100000001", "4b+l:1:75", "4c4c+l:1:76", "4cff+l:1:255",
              "4d0001+l:1:256", "4e00010000+l:1:256", "4f", "51", "60", "00+00+4c00", "6a+4c00"):
        w = tx_wire(1, [("l:4:32", 0, s, 0)], [(1, s)], 0)
        both(w, "1." + s); A("tx.to_json", w, "1." + s); A("tx.to_cbor", w, "n.n"); A("txin.cbor_roundtrip", w, "1." + s, 0)
    # ---- value-dependent: hex texts that look like something else, ids with zeros, empty vs missing
    value_dependent(A, both, tier)
    # ---- pushes on both sides of 2048 bytes (hex text 4096 chars = ciborium scratch buffer)
    for n in (2047, 2048, 2049) + (() if quick else (4095, 4096, 4097, 5000)):
        s = "4d" + le(n, 2) + "+l:%d:%d" % (n, n)
        w = tx_wire(1, [("l:5:32", 0, s, 0)], [(1, s)], 0)
        both(w, "7." + s); A("tx.to_json", w, "-"); A("tx.to_cbor", w, "-"); A("txin.cbor_roundtrip", w, "7." + s, 0); A("txin.to_cbor", w, "-", 0)
    # ---- conditional nesting on both sides of the decoders' guards
    for inner in ("", "51", "4c0101", "0101"):
        for d in (1, 2, 60, 61, 62, 63, 124, 125, 126, 127, 128, 129) + (() if quick else (200, 300)):
            s = join(["r:63:%d" % d, inner, "r:68:%d" % d])
            w_in = tx_wire(1, [("l:6:32", 0, s, 0)], [], 0)
            w_out = tx_wire(1, [], [(0, s)], 0)
            w_ext = tx_wire(1, [("l:6:32", 0, "", 0)], [], 0)
            both(w_in, "-")
            if inner in ("", "4c0101"):
                both(w_out, "-"); both(w_ext, "n." + s)
                A("txin.cbor_roundtrip", w_in, "-", 0); A("txin.cbor_roundtrip", w_ext, "n." + s, 0)
            if d in (61, 62, 126, 127) and inner == "4c0101":
                A("tx.to_json", w_in, "-"); A("tx.to_cbor", w_in, "-"); A("txin.to_cbor", w_in, "-", 0)
    for d in (61, 62, 125, 126):      # else-branches carry the nesting
        s = join(["r:63:%d" % d, "67", "r:68:%d" % d])
        both(tx_wire(1, [("l:6:32", 0, s, 0)], [], 0), "-")
        s2 = "63" + "6763" * (d - 1) + "68" * d
        if len(s2) <= 1000:
            both(tx_wire(1, [("l:6:32", 0, s2, 0)], [], 0), "-")
    # ---- coinbase inputs
    for n in (0, 1, 2, 75, 76, 77, 100, 255, 256):
        w = tx_wire(1, [("r:00:32", 0xffffffff, "l:8:%d" % n, 0xffffffff)], [(5000000000, p2pkh)], 0)
        both(w, "-"); A("txin.cbor_roundtrip", w, "-", 0)
    both(tx_wire(1, [("r:00:32", 0xffffffff, "03aabbcc", 0), ("l:1:32", 0, "51", 0)], [], 0), "1.51,2.52")
    both(tx_wire(1, [("r:00:32", 0xfffffffe, "0151", 0), ("r:00:31+01", 0xffffffff, "0151", 0)], [], 0), "-")   # near-coinbase outpoints
    # ---- structured stream
    n_struct = 70 if quick else 1500
    for k in range(n_struct):
        w, e, nin = rand_tx(rng, coinbase=(k % 9 == 0))
        if k % 4 == 0:
            full(w, e, nin)
        else:
            both(w, e)
            if nin:
                A("txin.cbor_roundtrip", w, e, rng.randrange(nin))
        if k % 5 == 0:
            for kk in (0, 1, rng.randrange(2, 40), rng.randrange(40, 400), 10 ** 6):
                A("tx.json_prefix", w, e, kk); A("tx.cbor_prefix", w, e, kk)
        if k % 10 == 0:
            for x in ("20", "0a0d0920", "00", "7b7d", "2c", "5d", "31"):
                A("tx.json_trailing", w, e, x)
            for x in ("00", "ff", "a0", "f6"):
                A("tx.cbor_trailing", w, e, x)
    # ---- audit: entry points, carried state, field extremes, variant x position
    audit_cases(A, both, tier, rng)
    # ---- state and call history on one object
    step_cases(A, tier, rng)
    # invalid wire bytes / invalid locking script bytes: the case is refused before any encoding
    both("00", "-"); both(plain, "1.ff"); both(plain, "1.4c05")
    # ---- scripts the parser cannot produce
    fixed_bits = ["-", "p", "p00", "p" + "ab" * 76, "p" + "cd" * 255, "p" + "ef" * 256, "dOP_PUSHDATA1x", "dOP_PUSHDATA2x00", "dOP_PUSHDATA4x" + "01" * 80,
                  "dOP_DUPx00", "dOP_0x", "dOP_IFxaa", "c", "c00", "c04ffff001d", "oOP_1,c00,oOP_2", "iOP_IF,c00,z", "iOP_IF,z", "iOP_IF,e,z", "iOP_IF,e,c0102,z",
                  "iOP_DUP,oOP_1,e,oOP_2,z", "iOP_NOTIF,iOP_IF,p,e,dOP_PUSHDATA1x,z,e,iOP_VERIF,z,z", "oOP_ELSE", "oOP_ENDIF", "oOP_IF", "oOP_PUSHDATA1",
                  "p4f505f31", "oOP_0,p,dOP_PUSHDATA1x,c"]
    for d in (60, 61, 62, 124, 125, 126, 127):
        fixed_bits.append(",".join(["iOP_IF"] * d + ["z"] * d))
        fixed_bits.append(",".join(["iOP_IF"] * d + ["c00"] + ["z"] * d))
        fixed_bits.append(",".join(["iOP_IF"] * d + ["dOP_PUSHDATA1x00"] + ["z"] * d))
        fixed_bits.append(",".join(["iOP_IF,e"] * d + ["z"] * d))
    for bts in fixed_bits:
        A("bits.json_roundtrip", bts); A("bits.cbor_roundtrip", bts)
    for _ in range(60 if quick else 1500):
        t = ",".join(rand_bits(rng, 3)) or "-"
        if len(t) <= 1900:
            A("bits.json_roundtrip", t); A("bits.cbor_roundtrip", t)
    # ---- malformed documents at the data-model level
    cases += tree_cases(tier)
    # ---- raw garbage (totality only; the byte-level decoders are C09's subject)
    for raw in ("", "00", "7b", "7b7d", "5b5d", "6e756c6c", "7b2276657273696f6e223a317d", "r:5b:200", "r:5b:5000", "r:7b:300", "ff", "a0", "a4", "bf", "9f", "r:81:300", "r:81:5000",
                "r:a1:300", "7b+l:1:40", "l:2:64", "c2", "c249010000000000000000", "fb7ff0000000000000", "7f", "5f", "a16776657273696f6e"):
        A("tx.from_json", raw); A("tx.from_cbor", raw)
    return cases


def nontrivial(case, out):
    return out.startswith("OK")


def neighbours(case, rng):
    return []


def search_cases(rng, broken):
    out = []
    for bts in ("c00", "p00", "oOP_1", "dOP_PUSHDATA1x00", "iOP_IF,z", "iOP_IF,e,z"):
        out.append(("bits.json_roundtrip", [bts])); out.append(("bits.cbor_roundtrip", [bts]))
    for v in range(256):
        out.append(("bits.json_roundtrip", ["p%02x" % v])); out.append(("bits.cbor_roundtrip", ["p%02x" % v]))
    for v in VALUES:
        w = tx_wire(1, [("l:3:32", 0, "51", 0)], [(v, "51")], 0)
        out.append(("tx.json_roundtrip", [w, "%d.51" % v])); out.append(("tx.cbor_roundtrip", [w, "%d.51" % v]))
        out.append(("txin.cbor_roundtrip", [w, "%d.51" % v, "0"]))
    for op, args in broken[:10]:
        if op.endswith("_roundtrip") and op.startswith("tx."):
            other = "tx.cbor_roundtrip" if "json" in op else "tx.json_roundtrip"
            out.append((other, list(args)))
            out.append(("tx.to_json", list(args))); out.append(("tx.to_cbor", list(args)))
    return out
