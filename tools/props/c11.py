"""C11 — case generator: ECIES (BIE1) encrypt / decrypt / ciphertext parsing / tampering.

The encryption cases are first run on the real library (presample); their ciphertexts are then parsed,
decrypted with right and wrong keys, truncated, extended and bit-flipped.  Key pairs are made with the small
pure-Python secp256k1 of c08.py (generator side only)."""
from .c08 import ec_mul, ec_add, G, N, P, ser_pub, b58check

ID = "C11"
LEVEL = "proof"
EXTRA_TARGETS = ["Proofs/ConstsTie.vo"]   # constants regenerated from the Rust source
RULE = ("messages of length 0,1,15,16,17,31,32,33,47,48,64,100 and 1 KiB..20 KiB (descriptors), both public-key inclusion "
        "modes, compressed and uncompressed recipient keys, fixed sender keys (byte-identical ciphertext and cipher keys "
        "against the independent BIE1 construction); the real ciphertexts are decrypted with right / wrong keys and wrong "
        "mode, truncated, extended and bit-flipped (magic, embedded key, body, MAC: sampled in quick, every bit of the "
        "short ciphertexts in thorough); from_bytes on buffers around every length threshold; convenience methods and a "
        "behavioural round trip with a random ephemeral key; non-trivial = the model returns OK; distinct by (op, arguments)")
TRUSTED = ["hand-written Gallina model coq/Model/Ecies.v of src/ecies/*.rs (tied by this correspondence run)",
           "Model/AesApi.v, Model/HashApi.v (tied by C20 / C13), Prim/Secp256k1.v formulas = k256 (tied by this run)",
           "Spec/Bie1.v = Electrum BIE1 construction over Prim/ primitives"]
ASSUMPTIONS = ["ECDH symmetry a(bG) = b(aG) and SEC1 decode-after-encode on multiples of G are premises of C11_decrypt_encrypt, "
               "not proved for the concrete secp256k1 formulas",
               "rejection of a modified body / embedded key / wrong key is reduced to an HMAC-SHA256 forgery or collision "
               "(C11_accepted_form, C11_tamper_needs_forgery); unconditional only for the MAC field, the magic and the lengths"]

KEYS = [0x1111111111111111111111111111111111111111111111111111111111111111,
        0x2222222222222222222222222222222222222222222222222222222222222222,
        0x00000000000000000000000000000000000000000000000000000000000000ff,
        N - 2]


# key pairs (sender, recipient) whose ECDH shared x-coordinate starts with one / two zero bytes (found once with
# search_shared below; the thorough tier searches further ones): the SHA-512 preimage must keep the zeros
LEADING_ZERO_PAIRS = [
    (0x300000000000000000000000000000000000000000000000000000000000001f, 0x2222222222222222222222222222222222222222222222222222222222222222),
    (0x400000000000000000000000000000000000000000000000000000000001017c, 0x2222222222222222222222222222222222222222222222222222222222222222),
    (0x30000000000000000000000000000000000000000000000000000000000000ab, 0x1111111111111111111111111111111111111111111111111111111111111111),
    (0x400000000000000000000000000000000000000000000000000000000001db9a, 0x1111111111111111111111111111111111111111111111111111111111111111),
]


# a secret scalar whose public key x-coordinate starts with a zero byte
LZ_PUB = 0x50000000000000000000000000000000000000000000000000000000000002a8


def search_shared(b, nz, start, limit=2 * 10 ** 6):
    """first a >= start with the x-coordinate of a*(b*G) below 2^(256 - 8 nz)"""
    B = ec_mul(b, G)
    S, a = ec_mul(start, B), start
    while a < start + limit:
        if S is not None and S[0] >> (256 - 8 * nz) == 0:
            return a
        S = ec_add(S, B); a += 1
    return None


def wif(k, comp):
    return b58check(b"\x80" + k.to_bytes(32, "big") + (b"\x01" if comp else b"")).encode().hex()


def kh(k):
    return "%064x" % k


def pub(k, comp=True):
    return ser_pub(ec_mul(k, G), comp).hex()


def msg_desc(rng, n):
    if n <= 64:
        return bytes(rng.randrange(256) for _ in range(n)).hex()
    return "l:%d:%d" % (rng.randrange(1, 10 ** 6), n)


def enc_cases(rng, tier):
    quick = tier == "quick"
    out = []
    E = lambda a, comp, bp, m, excl: out.append(("ecies.encrypt", [kh(a), str(comp), bp, m, str(excl)]))
    a, b = KEYS[0], KEYS[1]
    for i, n in enumerate([0, 1, 15, 16, 17, 31, 32]):
        for excl in (0, 1):
            E(a, (i + excl) % 2, pub(b), msg_desc(rng, n), excl)      # sender flagged compressed / uncompressed alternately
    more = [33, 48, 100, 1024] if quick else [33, 47, 48, 63, 64, 65, 100, 255, 256, 1000, 1024, 4096, 8192]
    for n in more:
        E(rng.choice(KEYS), rng.randrange(2), pub(rng.choice(KEYS), rng.random() < 0.7), msg_desc(rng, n), rng.randrange(2))
    E(KEYS[3], 0, pub(KEYS[2], False), msg_desc(rng, 20), 0)
    E(a, 1, pub(a), msg_desc(rng, 5), 0)          # to oneself
    E(b, 1, pub(a), "l:7:20480", 0)
    # sender key flagged uncompressed (compress_public_key(false) / uncompressed WIF), key included: the embedded key
    # must still be the 33-byte form; recipient given in both encodings
    for comp in (0, 1):
        for bcomp in (True, False):
            E(KEYS[2], comp, pub(b, bcomp), msg_desc(rng, 7), 0)
        out.append(("ecies.encrypt_wif", [wif(KEYS[1], bool(comp)), pub(a, bool(comp)), msg_desc(rng, 9), "0"]))
        out.append(("ecies.encrypt_wif", [wif(KEYS[3], bool(comp)), pub(a), msg_desc(rng, 18), "1"]))
    out.append(("ecies.encrypt_wif", [wif(KEYS[1], True)[:-2] + "00", pub(a), "00", "0"]))     # broken WIF
    # shared x-coordinate with leading zero bytes
    pairs = list(LEADING_ZERO_PAIRS)
    if not quick:
        for nz, st in ((1, rng.randrange(1, N - 10 ** 7)), (1, rng.randrange(1, N - 10 ** 7)), (2, rng.randrange(1, N - 10 ** 7))):
            bb = rng.randrange(1, N)
            aa = search_shared(bb, nz, st)
            if aa:
                pairs.append((aa, bb))
    for (aa, bb) in pairs:
        KNOWN_PRIV[pub(bb)] = bb; KNOWN_PRIV[pub(bb, False)] = bb
        E(aa, 1, pub(bb), msg_desc(rng, 11), 0)
        E(aa, 0, pub(bb, False), msg_desc(rng, 16), 1)
        E(bb, 1, pub(aa), msg_desc(rng, 3), 0)        # the other direction: same shared point
        KNOWN_PRIV[pub(aa)] = aa
    if not quick:
        E(b, 0, pub(a), "l:8:20479", 1)
        for _ in range(20):
            E(rng.randrange(1, N), rng.randrange(2), pub(rng.choice(KEYS)), msg_desc(rng, rng.randrange(0, 80)), rng.randrange(2))
    return out


KNOWN_PRIV = {}


def presample(rng, tier):
    return enc_cases(rng, tier)


def generate(rng, tier, pre=None):
    quick = tier == "quick"
    cases = []
    A = lambda op, args: cases.append((op, list(args)))
    pre = pre or []
    sers = []     # (a, bpubhex, ser bytes, excl)
    for (op, args), out in pre:
        A(op, args)
        if op == "ecies.encrypt" and out.startswith("OK:"):
            f = out[3:].split(";")[0]
            if not f.startswith("#"):
                sers.append((args[0], args[2], bytes.fromhex(f), args[4] == "1"))
    priv_of_pub = dict(KNOWN_PRIV)
    for k in KEYS:
        priv_of_pub[pub(k)] = k; priv_of_pub[pub(k, False)] = k
    a0, b0 = KEYS[0], KEYS[1]

    # invalid key arguments
    x_off = next(x for x in range(5, 200) if pow((x ** 3 + 7) % P, (P - 1) // 2, P) != 1)
    A("ecies.encrypt", ["00" * 32, "1", pub(b0), "00", "0"])
    A("ecies.encrypt", [kh(N), "1", pub(b0), "00", "0"])
    A("ecies.encrypt", ["11" * 31, "0", pub(b0), "00", "0"])
    A("ecies.encrypt", [kh(a0), "1", "02" + "%064x" % x_off, "00", "0"])
    A("ecies.encrypt", [kh(a0), "0", "00", "00", "0"])
    A("ecies.encrypt", [kh(a0), "1", "05" + pub(b0)[2:], "00", "0"])

    # decrypt / tamper on the real ciphertexts
    for si, (ah, bp, ser, excl) in enumerate(sers):
        if bp not in priv_of_pub:
            continue
        b = priv_of_pub[bp]
        ap = pub(int(ah, 16))
        haspk = "0" if excl else "1"
        short = len(ser) <= 4 + 33 + 48 + 32
        A("ecies.decrypt", [kh(b), ap, ser.hex(), haspk])
        if si < 6 or not quick:
            A("ecies.decrypt", [kh(b), pub(int(ah, 16), False), ser.hex(), haspk])      # sender key given uncompressed
            A("ecies.decrypt", [kh(b ^ 1 if (b ^ 1) not in (0,) else 3), ap, ser.hex(), haspk])   # wrong recipient key
            A("ecies.decrypt", [kh(b), pub(KEYS[2]), ser.hex(), haspk])                 # wrong sender key
            A("ecies.decrypt", [kh(b), ap, ser.hex(), "1" if excl else "0"])            # wrong mode
            A("ecies.decrypt", [ah, bp, ser.hex(), haspk])                               # roles swapped: the same ECDH point, must decrypt
            A("ecies.parse", [ser.hex(), haspk]); A("ecies.parse", [ser.hex(), "1" if excl else "0"])
        if not short:
            continue
        nbits = len(ser) * 8
        if quick and si >= 16:
            # the later (key-encoding / leading-zero) ciphertexts: right-key decryption above plus two flips
            for bit in (rng.randrange(32, nbits - 256), rng.randrange(nbits - 256, nbits)):
                A("ecies.flip", [kh(b), ap, ser.hex(), haspk, str(bit)])
            continue
        if quick:
            regions = [(0, 32)]
            o = 32
            if not excl:
                regions.append((32, 32 + 33 * 8)); o = 32 + 33 * 8
            regions.append((o, nbits - 256)); regions.append((nbits - 256, nbits))
            bits = set()
            for lo, hi in regions:
                if hi > lo:
                    bits.add(rng.randrange(lo, hi))
                    if si < 6:
                        bits.add(lo); bits.add(hi - 1)
            if si % 5 == 0:
                bits.update(range(0, 32, 5))
        else:
            bits = range(nbits) if si < 4 else rng.sample(range(nbits), 40)
        for bit in sorted(bits):
            A("ecies.flip", [kh(b), ap, ser.hex(), haspk, str(bit)])
        # tampering beyond single-bit flips (corruptions that cancel under xor / sum style comparisons), on the MAC
        # and on the body: the same bit flipped in two bytes, two bytes swapped, field reversed / rotated / zeroed /
        # all-ff, and the MAC of another ciphertext made under the same keys
        if si < 2 or not quick:
            hdr = 4 if excl else 37
            fields = {"mac": (len(ser) - 32, len(ser)), "body": (hdr, len(ser) - 32)}
            for _fname, (lo, hi) in sorted(fields.items()):
                fld = ser[lo:hi]
                n = hi - lo
                variants = []
                pairs = [(0, 1), (0, n - 1), tuple(sorted(rng.sample(range(n), 2)))]
                for bit in range(8):
                    for (i, j) in (pairs if (_fname == "mac" or not quick) else pairs[:1]):
                        t = bytearray(fld); t[i] ^= 1 << bit; t[j] ^= 1 << bit
                        variants.append(bytes(t))
                for (i, j) in pairs:
                    if fld[i] != fld[j]:
                        t = bytearray(fld); t[i], t[j] = t[j], t[i]; variants.append(bytes(t))
                variants += [fld[::-1], fld[1:] + fld[:1], fld[-1:] + fld[:-1], bytes(n), b"\xff" * n,
                             bytes(x ^ 0xff for x in fld), bytes(x ^ 0x01 for x in fld)]
                for v in variants:
                    if v != fld:
                        A("ecies.decrypt", [kh(b), ap, (ser[:lo] + v + ser[hi:]).hex(), haspk])
            for (ah2, bp2, ser2, excl2) in sers:
                if (ah2, bp2, excl2) == (ah, bp, excl) and ser2 != ser:
                    A("ecies.decrypt", [kh(b), ap, (ser[:-32] + ser2[-32:]).hex(), haspk])     # MAC of another message, same keys
                    break
        # truncations / extensions / byte-level edits
        cuts = [0, 3, 4, 35, 36, 37, 68, 69, 70, len(ser) - 33, len(ser) - 32, len(ser) - 16, len(ser) - 1]
        for c in (cuts if si < 2 or not quick else rng.sample(cuts, 3)):
            if 0 <= c < len(ser):
                A("ecies.decrypt", [kh(b), ap, ser[:c].hex(), haspk])
        if si < 4 or not quick:
            A("ecies.decrypt", [kh(b), ap, (ser + b"\0").hex(), haspk])
            A("ecies.decrypt", [kh(b), ap, (ser[:-32] + b"\0" * 16 + ser[-32:]).hex(), haspk])
            A("ecies.decrypt", [kh(b), ap, (ser[:4] + ser[4 + 16:]).hex(), haspk])
            A("ecies.decrypt", [kh(b), ap, (b"BIE2" + ser[4:]).hex(), haspk])
            A("ecies.decrypt", [kh(b), ap, (b"bie1" + ser[4:]).hex(), haspk])
            A("ecies.decrypt", [kh(b), ap, (ser[:-32] + b"\0" * 32).hex(), haspk])
            A("ecies.decrypt", [kh(b), ap, ser[:-1].hex() + "%02x" % (ser[-1] ^ 0x80), haspk])

    # from_bytes on arbitrary buffers around the thresholds
    for n in [0, 1, 3, 4, 5, 35, 36, 37, 38, 52, 68, 69, 70, 85, 101]:
        for flag in ("0", "1"):
            A("ecies.parse", ["r:00:%d" % n, flag])
            if n >= 4:
                A("ecies.parse", ["42494531+l:%d:%d" % (rng.randrange(10 ** 6), n - 4), flag])
            if n >= 37:
                A("ecies.parse", ["42494531" + pub(b0) + "+l:%d:%d" % (rng.randrange(10 ** 6), n - 37), flag])
                A("ecies.parse", ["42494532" + pub(b0) + "+l:%d:%d" % (rng.randrange(10 ** 6), n - 37), flag])
                A("ecies.parse", ["42494531" + pub(b0, False)[:66] + "+l:%d:%d" % (rng.randrange(10 ** 6), n - 37), flag])

    # every length 0..600 with the right magic (and, with the key flag, a valid key where it fits): the length guard and the
    # three offsets, against the independent split of Spec/Bie1.v
    for n in range(0, 601):
        if not (quick and n > 120 and n % 3 != 0):
            A("ecies.parse", ["42494531+l:%d:%d" % (n + 7, n - 4) if n >= 4 else "42494531"[:2 * n], "0"])
        if quick and n > 110 and n % 7 != 0:
            continue                      # with the key flag each case costs three point decompressions
        if n >= 37:
            A("ecies.parse", ["42494531" + pub(b0) + "+l:%d:%d" % (n + 9, n - 37), "1"])
        else:
            A("ecies.parse", [("42494531" + pub(b0))[:2 * n], "1"])

    # serialise -> parse -> decrypt over message lengths 0..528 at block granularity (every residue of the wire length
    # modulo 256), both modes; one ECDH per direction per case
    prog = [(0, 16, 34), (15, 16, 33), (1, 16, 33)] if quick else [(0, 1, 530)]
    for excl in (0, 1):
        for (st, sp, cnt) in prog:
            i = 0
            while i < cnt:
                c = min(8, cnt - i)
                A("ecies.sweep", [kh(a0), kh(b0), str(excl), str(rng.randrange(10 ** 6)), str(st + sp * i), str(sp), str(c)])
                i += c

    # the object returned by encrypt, used without serialisation: right keys, wrong recipient key, wrong sender key
    for n in ([0, 16, 33] if quick else [0, 1, 15, 16, 17, 33, 200]):
        for excl in (0, 1):
            A("ecies.mem", [kh(a0), pub(b0), kh(b0), pub(a0, rng.random() < 0.5), kh(KEYS[2]), pub(KEYS[3]), msg_desc(rng, n), str(excl)])

    # ECIES::derive_cipher_keys directly: both directions of a pair, uncompressed key, leading-zero pairs, a public key
    # whose x-coordinate starts with 00 (LZ_PUB, found once by stepping from 0x5000..00), own key
    for (d, q, comp) in [(a0, b0, True), (b0, a0, False), (a0, a0, True), (KEYS[3], KEYS[2], False), (LZ_PUB, a0, True), (a0, LZ_PUB, True)] \
            + [(x, y, True) for (x, y) in LEADING_ZERO_PAIRS[:2]]:
        A("ecies.keys", [kh(d), pub(q, comp)])
    A("ecies.keys", [kh(a0), "00"]); A("ecies.keys", ["00" * 32, pub(b0)])
    # the embedded sender key / the recipient key with a leading zero byte in x
    A("ecies.pub", [kh(LZ_PUB), kh(b0), "1", msg_desc(rng, 10)]); A("ecies.pub", [kh(a0), kh(LZ_PUB), "0", msg_desc(rng, 10)])
    A("ecies.self", [kh(LZ_PUB), "1", msg_desc(rng, 32)])

    # one PrivateKey value through compress_public_key(false) / (true) (its public key after each step), then used
    for n in (0, 20):
        A("ecies.key_history", [kh(rng.choice(KEYS)), msg_desc(rng, n)])

    # convenience methods and the random-key round trip
    for n in ([0, 16, 40] if quick else [0, 1, 15, 16, 17, 40, 300]):
        A("ecies.self", [kh(rng.choice(KEYS)), str(rng.randrange(2)), msg_desc(rng, n)])
        A("ecies.pub", [kh(a0), kh(b0), str(rng.randrange(2)), msg_desc(rng, n)])
        A("ecies.ephemeral", [kh(rng.choice(KEYS)), msg_desc(rng, n)])
    return cases


def nontrivial(case, impl_out):
    return impl_out.startswith("OK")


def search_cases(rng, broken):
    out = []
    for n in (0, 1, 16, 33):
        for excl in (0, 1):
            out.append(("ecies.encrypt", [kh(KEYS[0]), str(excl), pub(KEYS[1]), msg_desc(rng, n), str(excl)]))
        out.append(("ecies.self", [kh(KEYS[0]), "1", msg_desc(rng, n)]))
    for n in (35, 36, 37, 68, 69, 70):
        out.append(("ecies.parse", ["42494531" + "+r:01:%d" % (n - 4), "0"]))
        out.append(("ecies.parse", ["42494531" + "+r:01:%d" % (n - 4), "1"]))
    return out
