"""C19 — case generator: script templates (grammar, matching, extraction, self-match) and transaction match criteria."""
import re
from props import c17 as H

ID = "C19"
LEVEL = "proof"
RULE = ("template texts over every token kind (all opcode names, aliases 0..16, the four wildcards, OP_DATA with the five operators, "
        "hex data at the 75/76 and 255/256 class boundaries) and malformed / borderline tokens ('+5', '05', '00', operator "
        "combinations, overflowing lengths, empty pieces); script/template pairs with every operator at bound-1, bound, bound+1, "
        "exact opcode / data matches and near misses, length mismatches, conditionals; signature, public-key and public-key-hash "
        "tokens against real DER signatures (+ sighash flag) and SEC1 keys and against corrupted ones; self-match of minimally "
        "pushed scripts, every one-byte push (thorough), every opcode; criteria: all 16 present/absent combinations of template, "
        "exact, min, max with values at and around each bound, inputs with and without satoshis and locking scripts, 0..6 entries; "
        "deterministic audit stream in both tiers: every operator x lengths bound-1/bound/bound+1 for bounds 0,1,2,20,75,76,255,256,"
        "300,65535,65536 in minimal and non-minimal encodings, every opcode against its name / alias / neighbour / wildcard and in "
        "tx.match_outputs/inputs, alias tokens 0..17 ('k', '0k', '+k', 'OP_k') against OP_0, OP_1NEGATE, OP_RESERVED, OP_1..OP_16 and "
        "one-byte pushes, templates from from_script / from_script_impl / from_asm_string(to_asm_string) compared, exact/min/max at "
        "0, 1, 2^8, 2^16, 2^31, 2^32, 2^53, 2^63-1, 2^63, 2^64-1 (and neighbours) on outputs and inputs, first match at every "
        "position; every op cross-checks the alternative entry points (matches / match_impl / is_match / test_impl, criteria built "
        "from the setters' returned clones and Default, add_outputs / add_inputs, cloned transaction); special field values the matcher only copies (null outpoint and each half of it, sequences 0 / 0xffffffff, "
        "odd txid lengths, output values 0 and 2^64-1, empty scripts) under criteria the entries satisfy; call-history stream "
        "tx.match_history: one MatchCriteria and one Transaction observed after every step - the four setters in all 24 orders (also "
        "continuing on the returned value / on clones), fields set twice, zero and maximal bounds, input annotations (satoshis, "
        "locking and unlocking script) set or changed in every order before and after the criteria, transaction clone and "
        "serialise/parse at every position; scripts assembled in memory from lone opcode bits (finalised script fails to parse); "
        "non-trivial = the model returns OK; distinct by (op, arguments)")
TRUSTED = ["hand-written Gallina models coq/Model/Template.v (src/script/script_template.rs) and coq/Model/Criteria.v "
           "(src/transaction/match_criteria.rs, TxIn::get_finalised_script_impl), over Model/Asm.v and Model/Script.v (tied by this run)",
           "'decodes as a signature / public key' is a parameter of model, specification and theorems; the executable check "
           "instantiates it with Prim/Der.v (strict DER, 1 <= r,s < n, optional trailing sighash-flag byte) and Prim/Secp256k1.v "
           "(SEC1 encodings of curve points), and this run compares that with Signature::from_der_impl / PublicKey::from_bytes_impl "
           "on real and corrupted signatures and keys"]
ASSUMPTIONS = ["template text is modelled byte-wise (ASCII)",
               "self-match is claimed for minimally-pushed scripts without conditionals outside the three known-finding classes "
               "(short-numeric-token, pseudo-opcode-wildcard, empty-script-template)",
               "outside the documented template grammar (e.g. 'OP_DATAxyz>=5', 'OP_DATA=+5', '+5', empty pieces) the library is compared "
               "with the model only"]

th = H.th
OPS5 = [">=", "<=", "=", ">", "<"]


def push(d):
    return H.min_push(d)


def real_sig(rng, flag=None, flags=(65,)):
    r = rng.choice([1, 127, 128, 255, rng.randrange(1, H.N), rng.randrange(1, H.N), rng.randrange(1, 2 ** 248), H.N - 1])
    s = rng.choice([1, 128, rng.randrange(1, H.N), rng.randrange(1, H.N // 2), H.N - 1])
    d = H.der_sig(r, s)
    if flag is None:
        flag = rng.choice(list(flags))
    return d + bytes([flag])


def bad_sigs(rng, flags):
    g = H.der_sig(rng.randrange(1, H.N), rng.randrange(1, H.N))
    out = [b"", b"\x30", b"\x30\x00", g[:-1], g + b"\x00", g + b"\x41\x41", g + b"\x04", g + b"\xff",
           H.der_sig(0, 5), H.der_sig(5, 0), H.der_sig(H.N, 5), H.der_sig(5, H.N), H.der_sig(H.N + 1, 1),
           b"\x31" + g[1:], g[:2] + b"\x03" + g[3:], bytes([g[0], g[1] + 1]) + g[2:], bytes([g[0], g[1] - 1]) + g[2:],
           b"\x30\x06\x02\x01\x80\x02\x01\x01", b"\x30\x07\x02\x02\x00\x01\x02\x01\x01", b"\x30\x06\x02\x01\x01\x02\x01\x01",
           b"\x30\x81\x06\x02\x01\x01\x02\x01\x01", b"\x30\x06\x02\x01\x01\x02\x01\x01\x41", b"\x30\x06\x02\x01\x01\x02\x01\x01\x00",
           b"\x30\x06\x02\x01\x01\x02\x01\x7f" + bytes([rng.choice(flags)]), b"\x30\x05\x02\x00\x02\x01\x01", bytes(20), bytes(33)]
    return [x for x in out if len(x) <= 75]


def keys(rng):
    good = [H.pubkey(k, c) for k in (1, 2, rng.randrange(1, H.N)) for c in (True, False)]
    x_bad = 5                                           # x = 5: 5^3 + 7 = 132 is not a square mod p
    bad = [b"", b"\x00", b"\x02", b"\x02" + bytes(31), b"\x02" + x_bad.to_bytes(32, "big"), b"\x03" + x_bad.to_bytes(32, "big"),
           b"\x05" + good[0][1:], b"\x06" + good[1][1:], b"\x07" + good[1][1:], b"\x04" + good[1][1:-1] + bytes([good[1][-1] ^ 1]),
           good[0] + b"\x00", good[1][:-1], b"\x02" + (H.P).to_bytes(32, "big"), b"\x02" + (H.P + 1).to_bytes(32, "big"),
           b"\x04" + good[0][1:] * 2, bytes(33), bytes(65), bytes(20)]
    return good, [x for x in bad if len(x) <= 75]


def generate(rng, tier):
    table = H.opcode_table()
    names = {v: n for n, v in table}
    flags = H.sighash_values()
    quick = tier == "quick"
    cases = []
    TP = lambda t: cases.append(("template.parse", [th(t)])) if len(t) <= 1000 else None
    SM = lambda s, t: cases.append(("script.match", [s if isinstance(s, str) else s.hex(), th(t)])) if len(t) <= 950 else None
    SF = lambda s: cases.append(("template.self_match", [s if isinstance(s, str) else s.hex()]))

    # ---------------- template grammar
    for n, v in table:
        TP(n)
    TP(" ".join(n for n, v in table)[:990])
    for k in range(0, 20):
        TP(str(k)); TP("%02d" % k); TP("+%d" % k); TP("-%d" % k); TP("%03d" % k)
    for t in ["", " ", "  ", "OP_1 ", " OP_1", "OP_1  OP_2", "OP_DATA", "OP_SIG", "OP_PUBKEY", "OP_PUBKEYHASH", "OP_DATA OP_SIG OP_PUBKEY OP_PUBKEYHASH",
              "OP_DUP OP_HASH160 OP_PUBKEYHASH OP_EQUALVERIFY OP_CHECKSIG", "OP_SIG OP_PUBKEY", "op_dup", "OP_DUP\n", "OP_DUP\t", "\nOP_DUP", "OP_NOPE",
              "a", "abc", "0g", "aabb", "AABB", "aAbB", "0x00", "99", "17", "+", "-", "+0", "-0", "++", "+a", "0a", "a0", "ff", "255", "256", "1e", "1E"]:
        TP(t)
    for op in OPS5 + ["=>", "==", "=<", "<>", "><", ">>", "<<", "<=>=", ">=<=", "=>=", ">==", "<==", ""]:
        for n in ["0", "1", "20", "75", "76", "255", "256", "65535", "65536", "4294967295", "4294967296", "18446744073709551615",
                  "18446744073709551616", "99999999999999999999999", "", "+5", "-5", " 5", "5 ", "05", "0005", "5a", "a", "5=6", "5>6"]:
            if quick and rng.random() < 0.3:
                continue
            TP("OP_DATA" + op + n)
    for t in ["OP_DATAxyz>=5", "OP_DATA_>=5", "OP_DATA5", "OP_DATA 5", "OP_DATA=", "OP_DATA>", "OP_DATA<", "OP_DATA>=", "OP_DATA<=", "xOP_DATA=5", "OP_DAT=5",
              "OP_DATA=5 OP_DATA>=6 OP_DATA<=7 OP_DATA>8 OP_DATA<9", "op_data=5", "OP_SIG=5", "OP_DATA=5=", "OP_DATA<5>6", "OP_DATA>5<6", "OP_DATA=5>=6"]:
        TP(t)
    for n in [1, 2, 74, 75, 76, 77, 255, 256, 257]:
        TP("ab" * n); TP("ab" * n + "c")
    # ---------------- matching: opcodes and exact data
    p2pkh = bytes.fromhex("76a914") + bytes(range(20)) + bytes.fromhex("88ac")
    for t in ["OP_DUP OP_HASH160 OP_PUBKEYHASH OP_EQUALVERIFY OP_CHECKSIG", "OP_DUP OP_HASH160 OP_DATA=20 OP_EQUALVERIFY OP_CHECKSIG",
              "OP_DUP OP_HASH160 OP_DATA OP_EQUALVERIFY OP_CHECKSIG", "OP_DUP OP_HASH160 " + bytes(range(20)).hex() + " OP_EQUALVERIFY OP_CHECKSIG",
              "OP_DUP OP_HASH160 " + bytes(range(1, 21)).hex() + " OP_EQUALVERIFY OP_CHECKSIG", "OP_DUP OP_HASH160 OP_PUBKEYHASH OP_EQUALVERIFY",
              "OP_DUP OP_HASH160 OP_PUBKEYHASH OP_EQUALVERIFY OP_CHECKSIG OP_NOP", "OP_DUP OP_HASH160 OP_PUBKEYHASH OP_EQUAL OP_CHECKSIG",
              "OP_DATA OP_DATA OP_DATA OP_DATA OP_DATA", "OP_DUP OP_HASH160 OP_SIG OP_EQUALVERIFY OP_CHECKSIG", "OP_DUP OP_HASH160 OP_PUBKEY OP_EQUALVERIFY OP_CHECKSIG",
              "", "OP_DUP", "OP_DUP OP_HASH160 OP_DATA=20 OP_EQUALVERIFY OP_DATA", "118 169 OP_PUBKEYHASH 136 172"]:
        SM(p2pkh, t)
    # non-minimal 20-byte push: exact PushData tokens / wildcards
    SM("76a94c14+r:07:20+88ac", "OP_DUP OP_HASH160 OP_PUBKEYHASH OP_EQUALVERIFY OP_CHECKSIG")
    SM("76a94c14+r:07:20+88ac", "OP_DUP OP_HASH160 OP_DATA=20 OP_EQUALVERIFY OP_CHECKSIG")
    SM("76a94c14+r:07:20+88ac", "OP_DUP OP_HASH160 " + "07" * 20 + " OP_EQUALVERIFY OP_CHECKSIG")
    SM("4c4c+r:07:76", "07" * 76); SM("4d4c00+r:07:76", "07" * 76); SM("4c4c+r:07:76", "07" * 75 + "08"); SM("4b+r:07:75", "07" * 75)
    SM("4b+r:07:75", "OP_DATA=75"); SM("4c4c+r:07:76", "OP_DATA=76"); SM("4dff00+r:07:255", "OP_DATA>=255"); SM("4d0001+r:07:256", "OP_DATA>255")
    for k in range(0, 17):
        b = bytes([0 if k == 0 else 80 + k])
        SM(b, str(k)); SM(b, "OP_%d" % k); SM(b, "%02d" % k); SM(bytes([1, k]), "%02d" % k); SM(bytes([1, k]), "%02x" % k); SM(bytes([1, k]), str(k))
    SM("00", "OP_DATA"); SM("00", "OP_DATA=0"); SM("00", "0"); SM("00", "00"); SM("4c00", "OP_DATA=0"); SM("4c00", "OP_DATA<1"); SM("4c00", "OP_DATA"); SM("4c00", "")
    for c in [99, 100]:
        SM(bytes([c, 0x51, 0x68]), names[c] + " OP_1 OP_ENDIF"); SM(bytes([c, 0x51, 0x68]), "OP_DATA"); SM(bytes([c, 0x68]), names[c] + " OP_ENDIF"); SM(bytes([c, 0x68]), names[c])
    SM("fb", "OP_DATA"); SM("fc", "OP_SIG"); SM("fd", "OP_PUBKEYHASH"); SM("fe", "OP_PUBKEY"); SM("ff", "OP_INVALIDOPCODE")
    # ---------------- the five operators around each bound
    for bound in [0, 1, 2, 20, 75, 76, 255, 256] + ([] if quick else [32, 33, 65, 500]):
        for n in sorted({max(0, bound - 1), bound, bound + 1}):
            if n == 0:
                continue
            s = push(bytes(rng.randrange(256) for _ in range(n)))
            for op in OPS5:
                SM(b"\x51" + s + b"\xac", "OP_1 OP_DATA%s%d OP_CHECKSIG" % (op, bound))
            if n <= 75 and not quick:
                for op in OPS5:       # same payload, non-minimal encoding
                    SM("4d%s+%s" % (n.to_bytes(2, "little").hex(), s[1:].hex()), "OP_DATA%s%d" % (op, bound))
    # ---------------- signatures / public keys / hashes
    good_keys, bad_keys = keys(rng)
    sigs_good = [real_sig(rng, flags=flags) for _ in range(4 if quick else 30)] + [H.der_sig(rng.randrange(1, H.N), rng.randrange(1, H.N))]
    sigs_bad = bad_sigs(rng, flags)
    for sg in sigs_good + sigs_bad:
        if len(sg) == 0:
            continue
        SM(push(sg) + push(good_keys[0]), "OP_SIG OP_PUBKEY"); SM(push(sg), "OP_SIG")
    for k in good_keys + bad_keys:
        if len(k) == 0:
            continue
        SM(push(k) + b"\xac", "OP_PUBKEY OP_CHECKSIG")
    SM(push(sigs_good[0]) + push(good_keys[0]), "OP_DATA OP_DATA"); SM(push(sigs_good[0]) + push(good_keys[0]), "OP_PUBKEY OP_SIG")
    SM(push(sigs_good[0]) + push(good_keys[1]), "OP_SIG OP_DATA=65"); SM(push(sigs_good[0]) + push(good_keys[1]), "OP_SIG OP_DATA=33")
    SM("4c21+" + good_keys[0].hex(), "OP_PUBKEY"); SM("4c%02x+%s" % (len(sigs_good[0]), sigs_good[0].hex()), "OP_SIG")
    for n in [0, 1, 19, 20, 21, 32]:
        if n:
            SM(push(bytes(n)), "OP_PUBKEYHASH")
    SM("ac", "OP_PUBKEYHASH"); SM("ac", "OP_SIG"); SM("ac", "OP_PUBKEY"); SM("ac", "OP_DATA"); SM("ac", "OP_DATA>=0")
    # random pairs
    g = H.Gen(rng, table)
    for i in range(250 if quick else 1500):
        b, t = g.elems(rng.randrange(0, 2), rng.randrange(0, 6))
        if len(b) > 800:
            continue
        tt = list(t)
        for k in range(len(tt)):
            r = rng.random()
            if re.fullmatch(r"[0-9a-f]+", tt[k]) and tt[k] != "0":
                n = len(tt[k]) // 2
                if r < 0.3:
                    tt[k] = "OP_DATA"
                elif r < 0.7:
                    tt[k] = "OP_DATA%s%d" % (rng.choice(OPS5), max(0, n + rng.choice([-1, 0, 0, 1])))
                elif r < 0.75:
                    tt[k] = rng.choice(["OP_SIG", "OP_PUBKEY", "OP_PUBKEYHASH"])
            elif r < 0.05:
                tt[k] = rng.choice(["OP_DUP", "OP_DATA", "OP_1", "0", "ab"])
        if rng.random() < 0.1 and tt:
            tt.pop(rng.randrange(len(tt)))
        SM(b, " ".join(tt))
    # ---------------- self-match
    for h in ["", "00", "51", "60", "0105", "0100", "0109", "010a", "0110", "0116", "0117", "0199", "01ff", "020005", "fb", "fc", "fd", "fe", "ff", "fa",
              "76a914+r:11:20+88ac", "6a+0568656c6c6f", "4c00", "4c0105", "6368", "63516768", "0101+fd", "51+0105", "4b+r:05:75", "4c4c+r:05:76",
              "4cff+r:05:255", "4d0001+r:05:256", "4d0001+r:05:255", "67", "68", "6768"]:
        SF(h)
    for n, v in table:
        SF("%02x" % v)
        if v not in H.IFS:
            SF("51%02x0201ff" % v)
    for b in range(256):
        SF("01%02x" % b)
    for i in range(250 if quick else 2500):
        b, t = g.elems(rng.choice([0, 0, 0, 1]), rng.randrange(1, 7))
        if len(b) <= 800:
            SF(b)
    # ---------------- AUDIT (deterministic in both tiers)
    # every comparison operator x data lengths bound-1 / bound / bound+1, bounds 0, 1, 75, 76, 255, 256, 300, 65535, 65536,
    # minimal and non-minimal encodings of the same payload
    for bound in [0, 1, 2, 20, 75, 76, 255, 256, 300, 65535, 65536]:
        for n in sorted({max(0, bound - 1), bound, bound + 1}):
            encs = []
            if n == 0:
                encs = ["4c00", "4d0000", "4e00000000"]
            else:
                body = "l:%d:%d" % (n % 97 + 1, n)
                encs.append(H.min_push(b"\x00" * n)[:-n].hex() + "+" + body)
                if n <= 75:
                    encs.append("4c%02x+%s" % (n, body))
                if n <= 255:
                    encs.append("4d%s+%s" % (n.to_bytes(2, "little").hex(), body))
            for e in encs:
                for op in OPS5:
                    SM(e, "OP_DATA%s%d" % (op, bound))
                    if n <= 300:
                        SM("51+" + e + "+ac", "OP_1 OP_DATA%s%d OP_CHECKSIG" % (op, bound))
        for op in OPS5:
            SM("00", "OP_DATA%s%d" % (op, bound))        # OP_0 is an opcode, not a push
    # every opcode as script element against its own name, its alias, its neighbour, and the wildcards
    for n_, v in table:
        if v in H.IFS:
            continue
        b = "%02x" % v
        SM(b, n_); SM(b, "OP_NOP" if n_ != "OP_NOP" else "OP_DUP"); SM(b, "OP_DATA"); SM("51" + b, "OP_1 " + n_); SM(b + "51", n_ + " 1")
        cases.append(("script.match", [b, th("0" if v == 0 else n_)]))
        if v not in (76, 77, 78):       # a lone OP_PUSHDATAn is not a script
            cases.append(("tx.match_outputs", ["1=%s/2=51/3=%s" % (b, b), th(n_), "-", "-", "-"]))
            cases.append(("tx.match_inputs", ["1=%s=-/-=51=%s/3=-=%s".replace("=-=", "==") % (b, b, b), th(n_), "-", "-", "-"]))
    # aliases "0".."16" (and their neighbours) as template tokens against OP_0, OP_1NEGATE, OP_1..OP_16, OP_RESERVED and one-byte pushes
    for k in range(0, 18):
        for tok in [str(k), "%02d" % k, "+%d" % k, "OP_%d" % k]:
            TP(tok)
            for sb in ["00", "4f", "50", "51", "60", "%02x" % (80 + k if 1 <= k <= 16 else 0), "01%02x" % k, "01%02d" % k if k < 100 else "0100"]:
                SM(sb, tok)
    # templates built by from_script / from_asm_string for scripts made of OP_0, OP_1NEGATE, OP_1..OP_16, OP_RESERVED
    for v in [0x00, 0x4f, 0x50] + list(range(0x51, 0x61)) + [0x61]:
        SF("%02x" % v); SF("%02x%02x" % (v, v)); SF("76%02x87" % v)
        SM("%02x" % v, "0" if v == 0 else names[v])
    SF("".join("%02x" % v for v in [0x00, 0x4f] + list(range(0x51, 0x61))))
    # self-match for every push length band (u8 casts) and the thresholds
    for n in list(range(1, 80)) + [252, 253, 254, 255, 256, 257, 300, 511, 512, 513]:
        SF(H.min_push(b"\x00" * n)[:-n].hex() + "+l:%d:%d" % (n % 89 + 1, n))

    # ---------------- criteria
    sc = ["51", "52", "76a914+r:11:20+88ac", "76a914+r:22:20+88ac", "0105", "00", "6a+0568656c6c6f", ""]
    tmpls = ["-", th("OP_1"), th("OP_DUP OP_HASH160 OP_PUBKEYHASH OP_EQUALVERIFY OP_CHECKSIG"), th("OP_DATA"), th("OP_DATA=1"), th(""), th("bogus"), th("05"), th("OP_RETURN OP_DATA>=5")]
    def optv(present, base):
        return str(base) if present else "-"
    B = [0, 1, 5, 6, 7, 1000, 2 ** 32, 2 ** 63, 2 ** 64 - 1]
    U = 2 ** 64 - 1
    for mask in range(16):
        for rep in range(8 if quick else 40):
            nout = rng.randrange(0, 7)
            if rng.random() < 0.75:      # coherent bounds: min <= exact <= max, values around them
                e = rng.choice(B)
                mn = max(0, e - rng.choice([0, 0, 1, 2])); mx = min(U, e + rng.choice([0, 0, 1, 2]))
            else:
                e, mn, mx = rng.choice(B), rng.choice(B), rng.choice(B)
            pool = [e, mn, mx, max(0, e - 1), min(U, e + 1), max(0, mn - 1), min(U, mx + 1), e, e]
            if not (mask & 2):
                pool += [mn, mx, min(U, mn + 1), max(0, mx - 1)]
            vals = [rng.choice(pool) for _ in range(nout)]
            t = rng.choice(tmpls) if mask & 1 else "-"
            scs = sc if rng.random() < 0.5 else ["51", "51", "52", "0105"]
            outs = "/".join("%d=%s" % (v, rng.choice(scs)) for v in vals)
            cases.append(("tx.match_outputs", [outs, t, optv(mask & 2, e), optv(mask & 4, mn), optv(mask & 8, mx)]))
            ins = "/".join("%s=%s=%s" % (rng.choice([str(v), str(v), str(v), "-"]), rng.choice(scs), rng.choice(["-", "-", "-", "ac", "76a914+r:11:20+88ac", ""])) for v in vals)
            cases.append(("tx.match_inputs", [ins, t, optv(mask & 2, e), optv(mask & 4, mn), optv(mask & 8, mx)]))
    # AUDIT: type-boundary values for exact / min / max on outputs AND inputs (signed/unsigned, f64, u32 confusions)
    U64 = 2 ** 64 - 1
    for V in [0, 1, 2, 255, 256, 65535, 65536, 2 ** 31 - 1, 2 ** 31, 2 ** 32 - 1, 2 ** 32, 2 ** 53 - 1, 2 ** 53, 2 ** 53 + 1, 2 ** 63 - 1, 2 ** 63, 2 ** 63 + 1, U64 - 1, U64]:
        vals = sorted({max(0, V - 1), V, min(U64, V + 1), 0, 2 ** 63, U64})
        outs = "/".join("%d=51" % v for v in vals)
        ins = "/".join("%d=51=-" % v for v in vals) + "/-=51=-"
        for (e, mn, mx) in [(V, None, None), (None, V, None), (None, None, V), (None, V, V), (V, V, V), (None, max(0, V - 1), min(U64, V + 1)), (None, V, U64), (None, 0, V)]:
            a = [str(x) if x is not None else "-" for x in (e, mn, mx)]
            cases.append(("tx.match_outputs", [outs, "-"] + a)); cases.append(("tx.match_inputs", [ins, "-"] + a))
            cases.append(("tx.match_outputs", [outs, th("OP_1")] + a)); cases.append(("tx.match_inputs", [ins, th("OP_1")] + a))
    # single-result form: first match at every position, and none
    for pos in range(0, 5):
        outs = "/".join("%d=%s" % (7 if i >= pos else 1, "51" if i >= pos else "52") for i in range(5))
        ins = "/".join("%s=%s=-" % ("7" if i >= pos else "-", "51") for i in range(5))
        cases.append(("tx.match_outputs", [outs, th("OP_1"), "7", "-", "-"])); cases.append(("tx.match_outputs", [outs, "-", "-", "7", "7"]))
        cases.append(("tx.match_inputs", [ins, th("OP_1"), "-", "7", "-"])); cases.append(("tx.match_inputs", [ins, "-", "7", "-", "-"]))
    cases.append(("tx.match_outputs", ["1=52/1=52", th("OP_1"), "-", "-", "-"])); cases.append(("tx.match_inputs", ["1=52=-/1=52=-", th("OP_1"), "-", "-", "-"]))
    # STATE / CALL HISTORY: observe -> mutate -> observe on ONE MatchCriteria and ONE Transaction (op tx.match_history)
    import itertools
    HI = lambda kind, items, steps: cases.append(("tx.match_history", [kind, items, "/".join(steps)]))
    outs5 = "4=51/5=51/6=52/7=51/5=76a914+r:11:20+88ac/0=51"
    ins5 = "4=51=-/5=51=-/-=51=-/7=52=-/5=51=52/0=51=-"
    T1, T2, TP2 = "t=" + th("OP_1"), "t=" + th("OP_DUP OP_HASH160 OP_PUBKEYHASH OP_EQUALVERIFY OP_CHECKSIG"), "t=" + th("OP_1 OP_2")
    setters = ["v=5", "n=4", "x=6", T1]
    for perm in itertools.permutations(setters):                 # builder chain in every order, observed after every call
        HI("o", outs5, list(perm)); HI("i", ins5, list(perm))
        HI("o", outs5, [x for st in perm for x in (st, "r")])    # continue on the value each setter returned
        HI("i", ins5, [x for st in perm for x in (st, "c")])     # continue on clones
    for a, b in itertools.permutations(["v=5", "v=7", "n=5", "n=8", "x=5", "x=3", "v=0", "n=0", "x=0", T1, T2, TP2, "x=18446744073709551615", "n=9223372036854775808"], 2):
        HI("o", outs5, [a, b]); HI("i", ins5, [a, b])           # a field set twice / conflicting bounds / zero values
    for pos in range(0, 4):                                      # clone / serialise-parse of the transaction at every position
        for mark in ["k", "b"]:
            st = ["n=5", T1, "x=6"]
            st.insert(pos, mark)
            HI("o", outs5, st); HI("i", ins5, st); HI("i", "5=51=52/5=51=-/-=51=52", st + ["s=0.5", "l=1.52", mark])
    # input annotations set / changed after the first observation, every order, conflicting with the criteria
    ann = ["s=0.5", "l=0.52", "u=0.51", "s=1.6", "l=1.51", "u=1.52"]
    for perm in itertools.permutations(["s=0.5", "l=0.52", "u=0.51"]):
        HI("i", "-=52=-/-=51=-", ["v=5", TP2] + list(perm)); HI("i", "-=52=-/-=51=-", list(perm) + ["v=5", TP2])
        HI("i", "9=51=51/5=51=52", [T1, "n=5"] + list(perm) + ["k"] + list(perm)[::-1])
    for a, b in itertools.permutations(ann, 2):
        HI("i", "-=51=-/-=51=-", [TP2, "x=5", a, b]); HI("i", "7=52=51/7=52=-", ["v=5", a, TP2, b])
    for st in [["s=0.0", "v=0"], ["v=0", "s=0.0"], ["n=0"], ["x=0", "s=0.0"], ["s=0.18446744073709551615", "x=18446744073709551615", "n=18446744073709551615"],
               ["t=" + th(""), "u=0."], ["u=0.", "t=" + th("")], ["l=0.", TP2], ["l=0.", T1, "u=0.", "l=0.51"]]:
        HI("i", "-=51=-/3=51=52", st)
    for st in [["w=0.5", "v=5"], ["v=5", "w=0.5", "w=1.5", "w=0.4"], ["n=5", "x=5", "w=2.5", "b", "w=2.6"], ["w=0.0", "v=0"],
               ["t=" + th("bogus")], ["t=" + th("OP_DATAxyz>=1"), "v=5"], ["t=" + th("OP_DATA>=1"), "w=5.7", "v=7"]]:
        HI("o", outs5, st)
    # scripts assembled in memory from lone opcode bits: the finalised script of an input can then fail to parse (Err arm of
    # the boolean entry points), or parse into something else than the object
    for unl, lock in [("z63", "-"), ("z63", "51"), ("z63", "68"), ("z6351", "68"), ("z63", "6768"), ("z68", "z63"), ("z6768", "-"), ("z5163", "5168"), ("z65", "68"), ("z66", "-"), ("z", "51")]:
        for t in ["-", th("OP_IF"), th("OP_IF OP_ENDIF"), th("OP_DATA"), th("OP_IF OP_1"), th("OP_VERIF OP_ENDIF")]:
            cases.append(("tx.match_inputs", ["5=%s=%s/5=51=-" % (unl, lock), t, "-", "-", "-"]))
        HI("i", "5=51=-/5=51=-", [T1, "u=0." + unl, "l=0." + lock if lock != "-" else "c", "k", "u=0.51"])
    cases.append(("tx.match_outputs", ["5=z63/5=z51/5=z6368", th("OP_IF"), "-", "-", "-"])); cases.append(("tx.match_outputs", ["5=z63/5=z6368", th("OP_IF OP_ENDIF"), "5", "-", "-"]))
    # SPECIAL FIELD VALUES THE MATCHER ONLY COPIES: null outpoint and each half of it, sequences 0 / 0xffffffff / 0xfffffffe, short and
    # long txids, outputs of value 0 and 2^64-1, empty scripts - always with criteria that the entries satisfy
    ops_ = ["r:00:32=4294967295=4294967295", "r:00:32=4294967295=0", "r:00:32=0=4294967295", "r:ff:32=4294967295=4294967295", "r:00:32=4294967294=0",
            "r:00:31+01=4294967295=4294967294", "01+r:00:31=4294967295=7", "r:00:31=4294967295=0", "r:00:33=4294967295=0", "=0=0", "r:ab:32=1=0", "r:00:32=0=0"]
    for op_ in ops_:
        for sat, un, lk in [("5", "51", "-"), ("-", "51", "-"), ("5", "", "-"), ("5", "51", "52"), ("0", "", ""), ("18446744073709551615", "0105", "-"), ("5", "03abcdef", "-")]:
            it = "%s=%s=%s=%s" % (sat, un, lk, op_)
            items3 = "7=52=-/" + it + "/" + it.replace(op_, ops_[-2])
            fin = {"51": "OP_1", "": "", "0105": "OP_DATA=1", "03abcdef": "OP_DATA"}[un] if lk == "-" else {"52": "OP_1 OP_2", "": ""}[lk]
            for t in ["-", th(fin)] if fin != "" else ["-"]:
                cases.append(("tx.match_inputs", [items3, t, "-", "-", "-"]))
                if sat != "-":
                    cases.append(("tx.match_inputs", [items3, t, sat, sat, sat])); cases.append(("tx.match_inputs", [items3, t, "-", "0", "18446744073709551615"]))
            HI("i", items3, ["n=0", "c", "x=18446744073709551615", "k", "s=1.5", "v=5", "u=1.51", T1])
    for v in ["0", "18446744073709551615", "9223372036854775808", "1"]:
        for sc_, t in [("", "-"), ("51", th("OP_1")), ("00", th("0")), ("6a", th("OP_RETURN")), ("6a+0568656c6c6f", th("OP_RETURN OP_DATA")), ("0105", th("OP_DATA=1"))]:
            outs = "%s=%s/3=52/%s=%s" % (v, sc_, v, sc_)
            cases.append(("tx.match_outputs", [outs, t, v, v, v])); cases.append(("tx.match_outputs", [outs, t, "-", "0", "18446744073709551615"]))
            cases.append(("tx.match_outputs", [outs, t, "-", "-", "-"])); cases.append(("tx.match_outputs", [outs, t, v, "-", "-"]))
            HI("o", outs, ["v=" + v, "k", "n=" + v, "b", "x=" + v] + ([t.replace(t, "t=" + t)] if t != "-" else []))
    # fixed boundary probes: equality and off-by-one on every bound
    for v in [4, 5, 6]:
        for (e, mn, mx) in [("5", "-", "-"), ("-", "5", "-"), ("-", "-", "5"), ("-", "5", "5"), ("-", "6", "4"), ("5", "5", "5"), ("5", "6", "-"), ("5", "-", "4")]:
            cases.append(("tx.match_outputs", ["%d=51/%d=52" % (v, v), "-", e, mn, mx]))
            cases.append(("tx.match_inputs", ["%d=51=-/-=51=-" % v, "-", e, mn, mx]))
    cases.append(("tx.match_inputs", ["-=51=-/-=52=-", "-", "-", "-", "-"])); cases.append(("tx.match_inputs", ["-=51=-/5=52=-", "-", "-", "-", "5"]))
    cases.append(("tx.match_inputs", ["-=51=-/5=52=-", "-", "-", "0", "-"])); cases.append(("tx.match_inputs", ["-=51=-/0=52=-", "-", "0", "-", "-"]))
    cases.append(("tx.match_inputs", ["5=51=52/5=51=-/5=-=-".replace("=-=-", "==-"), th("OP_1 OP_2"), "-", "-", "-"]))
    cases.append(("tx.match_outputs", ["", "-", "-", "-", "-"])); cases.append(("tx.match_inputs", ["", th("OP_1"), "5", "-", "-"]))
    sg, pk = sigs_good[0], good_keys[0]
    cases.append(("tx.match_inputs", ["9=%s=76a914+r:11:20+88ac/9=%s=-/9=51=-" % ((push(sg) + push(pk)).hex(), (push(sg) + push(pk)).hex()),
                                      th("OP_SIG OP_PUBKEY OP_DUP OP_HASH160 OP_PUBKEYHASH OP_EQUALVERIFY OP_CHECKSIG"), "-", "-", "-"]))
    cases.append(("tx.match_inputs", ["9=%s=76a914+r:11:20+88ac/9=%s=-/9=51=-" % ((push(sg) + push(pk)).hex(), (push(sg) + push(pk)).hex()), th("OP_SIG OP_PUBKEY"), "-", "9", "9"]))
    return cases


def search_cases(rng, broken):
    out = []
    for op in OPS5:
        for n in (4, 5, 6):
            out.append(("script.match", [push(bytes(n)).hex(), th("OP_DATA%s5" % op)]))
    for v in (4, 5, 6):
        for (e, mn, mx) in [("5", "-", "-"), ("-", "5", "-"), ("-", "-", "5")]:
            out.append(("tx.match_outputs", ["%d=51" % v, "-", e, mn, mx]))
            out.append(("tx.match_inputs", ["%d=51=-/-=51=-" % v, "-", e, mn, mx]))
    for k in range(0, 20):
        out.append(("template.parse", [th(str(k))])); out.append(("template.parse", [th("%02d" % k)]))
    return out
