#!/usr/bin/env python3
"""Translator: regenerate coq/Gen/Opcodes_gen.v and coq/Gen/Sighash_gen.v from the Rust enums in /repo.

Only `NAME = literal,` lines inside `pub enum OpCodes {..}` / `pub enum SigHash {..}` are read, so a rewrite of
the surrounding code keeps the tie.  The files are only rewritten when their content changes (make then rebuilds
everything that depends on them, so the theorems are re-checked against what the code says now)."""
import os, re, sys

REPO = os.environ.get("VERIF_REPO", "/repo")
OUT = os.environ.get("VERIF_GEN_OUT") or os.path.join(os.path.dirname(os.path.abspath(__file__)), "..", "coq", "Gen")


def parse_enum(path, name):
    src = open(path, encoding="utf-8").read()
    m = re.search(r"pub\s+enum\s+%s\s*\{" % re.escape(name), src)
    if not m:
        raise SystemExit("gen_tables: enum %s not found in %s" % (name, path))
    i = m.end()
    depth = 1
    j = i
    while depth and j < len(src):
        if src[j] == "{":
            depth += 1
        elif src[j] == "}":
            depth -= 1
        j += 1
    body = src[i:j - 1]
    # strip comments and attributes
    body = re.sub(r"/\*.*?\*/", "", body, flags=re.S)
    body = re.sub(r"//[^\n]*", "", body)
    body = re.sub(r"#\[[^\]]*\]", "", body)
    out = []
    prev = -1
    for item in split_top(body):
        item = item.strip()
        if not item:
            continue
        mm = re.match(r"^([A-Za-z_][A-Za-z0-9_]*)\s*(?:=\s*(.+))?$", item, flags=re.S)
        if not mm:
            raise SystemExit("gen_tables: cannot read variant %r of enum %s" % (item[:60], name))
        if mm.group(2) is None:
            val = prev + 1                       # Rust: implicit discriminant = previous + 1
        else:
            val = const_eval(mm.group(2), dict(out))
            if val is None:
                raise SystemExit("gen_tables: cannot evaluate discriminant %r of %s::%s" % (mm.group(2).strip()[:60], name, mm.group(1)))
        out.append((mm.group(1), val))
        prev = val
    # canonical order (by value, then name): the declaration order of variants with explicit discriminants has no
    # meaning in Rust, so a reordering of the source must not change the generated table
    out.sort(key=lambda nv: (nv[1], nv[0]))
    return out


def split_top(body):
    items, depth, cur = [], 0, []
    for ch in body:
        if ch in "([{":
            depth += 1
        elif ch in ")]}":
            depth -= 1
        if ch == "," and depth == 0:
            items.append("".join(cur)); cur = []
        else:
            cur.append(ch)
    items.append("".join(cur))
    return items


def const_eval(expr, env):
    """integer constant expressions as they occur in discriminants and `const` items: literals in any base with `_`
    and type suffixes, + - * / % << >> | & ^ ~, parentheses, `as <int type>` casts, `uN::MAX`, earlier variants
    (`Self::X`, `Enum::X`).  Returns None for anything else."""
    import ast
    e = expr.strip().rstrip(";").strip()
    def _bytes(m):
        parts = [const_eval(x, env) for x in split_top(m.group(2)) if x.strip()]
        if any(v is None or not 0 <= v < 256 for v in parts):
            return m.group(0)
        if m.group(1) == "le":
            parts = parts[::-1]
        return str(int.from_bytes(bytes(parts), "big"))
    e = re.sub(r"\b[iu](?:8|16|32|64|128)::from_(be|le)_bytes\(\s*\[([^\]]*)\]\s*\)", _bytes, e)
    e = re.sub(r"\bas\s+[iu](?:8|16|32|64|128|size)\b", "", e)
    e = re.sub(r"\bu(8|16|32|64|128)::MAX\b", lambda m: str(2 ** int(m.group(1)) - 1), e)
    e = re.sub(r"\bi(8|16|32|64|128)::MAX\b", lambda m: str(2 ** (int(m.group(1)) - 1) - 1), e)
    e = re.sub(r"\b(?:[A-Za-z_][A-Za-z0-9_]*::)+([A-Za-z_][A-Za-z0-9_]*)\b", lambda m: "__v_" + m.group(1), e)
    e = re.sub(r"\b(0x[0-9a-fA-F_]+|0o[0-7_]+|0b[01_]+|[0-9][0-9_]*)(?:_?[iu](?:8|16|32|64|128|size))?\b",
               lambda m: m.group(1).replace("_", ""), e)
    e = re.sub(r"(?<![\w.])/(?![\w.])", "//", e) if "/" in e else e
    e = e.replace("!", "~")
    try:
        tree = ast.parse(e, mode="eval")
    except SyntaxError:
        return None

    def ev(n):
        if isinstance(n, ast.Expression):
            return ev(n.body)
        if isinstance(n, ast.Constant) and isinstance(n.value, int) and not isinstance(n.value, bool):
            return n.value
        if isinstance(n, ast.Name) and n.id.startswith("__v_") and n.id[4:] in env:
            return env[n.id[4:]]
        if isinstance(n, ast.Name) and n.id in env:
            return env[n.id]
        if isinstance(n, ast.UnaryOp) and isinstance(n.op, (ast.USub, ast.Invert, ast.UAdd)):
            v = ev(n.operand)
            return None if v is None else (-v if isinstance(n.op, ast.USub) else (~v & 0xFFFFFFFFFFFFFFFF) if isinstance(n.op, ast.Invert) else v)
        if isinstance(n, ast.BinOp):
            a, b = ev(n.left), ev(n.right)
            if a is None or b is None:
                return None
            ops = {ast.Add: lambda: a + b, ast.Sub: lambda: a - b, ast.Mult: lambda: a * b, ast.FloorDiv: lambda: a // b if b else None,
                   ast.Mod: lambda: a % b if b else None, ast.LShift: lambda: a << b if 0 <= b < 256 else None, ast.RShift: lambda: a >> b if 0 <= b < 256 else None,
                   ast.BitOr: lambda: a | b, ast.BitAnd: lambda: a & b, ast.BitXor: lambda: a ^ b}
            f = ops.get(type(n.op))
            return f() if f else None
        return None
    return ev(tree)


def emit(fname, ident, table, header):
    lines = [
        "(* GENERATED by tools/gen_tables.py from %s — do not edit. *)" % header,
        "From Coq Require Import List NArith String.",
        "Import ListNotations.",
        "Open Scope string_scope.",
        "Definition %s : list (string * N) :=" % ident,
        "  [ " + "\n  ; ".join('("%s", %d%%N)' % (n, v) for n, v in table) + " ].",
        "",
    ]
    text = "\n".join(lines)
    path = os.path.join(OUT, fname)
    os.makedirs(OUT, exist_ok=True)
    old = open(path).read() if os.path.exists(path) else None
    if old != text:
        with open(path, "w") as f:
            f.write(text)
        return True
    return False


def parse_consts():
    """named numeric / byte-string constants the models rely on: `const NAME: T = literal;`, the default (mainnet)
    and testnet ChainParams field initialisers, and the ECIES magic literal.  Missing items are simply not emitted;
    coq/Proofs/ConstsTie.v then fails to build, which is reported as a broken proof obligation."""
    out = []

    def src(rel):
        try:
            return open(os.path.join(REPO, rel), encoding="utf-8").read()
        except OSError:
            return ""
    for rel in ("src/keypair/mod.rs", "src/ecies/ecies_ciphertext.rs"):
        for m in re.finditer(r"\bconst\s+([A-Z_0-9]+)\s*:\s*u(?:8|16|32|64|size)\s*=\s*([^;]+);", src(rel)):
            v = const_eval(m.group(2), dict((k, x) for k, x in out if isinstance(x, int)))
            if v is not None:
                out.append((m.group(1), v))
    m = re.search(r'const\s+MAGIC_BYTES\s*:\s*&\[u8\]\s*=\s*b"((?:[^"\\]|\\.)*)"\s*;', src("src/bsm/mod.rs"))
    if m:
        raw = m.group(1).encode("utf-8").decode("unicode_escape").encode("latin-1")
        out.append(("BSM_MAGIC_BYTES", list(raw)))
    lits = set(re.findall(r'b"(BIE1)"', src("src/ecies/mod.rs") + src("src/ecies/ecies_ciphertext.rs")))
    alllits = set(re.findall(r'b"([A-Za-z0-9]{4})"', src("src/ecies/mod.rs") + src("src/ecies/ecies_ciphertext.rs")))
    if len(alllits) == 1 and lits:
        out.append(("ECIES_MAGIC", list(b"BIE1")))
    cp = src("src/chainparams/mod.rs")
    blocks = re.findall(r"ChainParams\s*\{([^{}]*?magic\s*:\s*0x[0-9a-fA-F]+[^{}]*?)\}", cp, flags=re.S)
    for name, blk in zip(("MAINNET", "TESTNET"), blocks):
        for field in ("p2pkh", "p2sh", "privkey", "xpub", "xpriv"):
            mm = re.search(r"\b%s\s*:\s*([^,}]+)" % field, blk)
            v = const_eval(mm.group(1), {}) if mm else None
            if v is not None:
                out.append(("%s_%s" % (name, field.upper()), v))
    return out


# Constants that coq/Proofs/ConstsTie.v ties to the models, with the value the models use.  A constant that is no
# longer found in the source under its known name (renamed, inlined, computed at run time: a source translator cannot
# follow that, and a rename is not a change of behaviour) is emitted with the model's value and a NOTE is printed: its
# source tie is skipped for this run and what the code does with it is then decided by the correspondence run alone.
# A constant that IS found with another value is emitted as found, so ConstsTie.v stops building.
EXPECTED = {
    "HARDENED_KEY_OFFSET": 0x80000000, "XPRIV_VERSION_BYTE": 0x0488ade4, "XPUB_VERSION_BYTE": 0x0488b21e,
    "PUB_KEY_OFFSET": 4, "BSM_MAGIC_BYTES": list(b"Bitcoin Signed Message:\n"), "ECIES_MAGIC": list(b"BIE1"),
    "MAINNET_P2PKH": 0, "MAINNET_XPUB": 0x0488b21e, "MAINNET_XPRIV": 0x0488ade4,
}


def with_fallback(consts):
    have = dict(consts)
    notes = []
    for k, v in EXPECTED.items():
        if k not in have:
            consts.append((k, v))
            notes.append(k)
    for k in notes:
        print("gen_tables: NOTE constant %s not found in the source under its known name (renamed, inlined or computed): "
              "source tie skipped, behaviour covered by the correspondence run only" % k)
    return consts


def emit_consts(consts):
    lines = ["(* GENERATED by tools/gen_tables.py from src/keypair/mod.rs, src/bsm/mod.rs, src/ecies/*.rs, src/chainparams/mod.rs — do not edit. *)",
             "From Coq Require Import List NArith.", "Import ListNotations.", ""]
    for name, v in consts:
        if isinstance(v, list):
            lines.append("Definition GEN_%s : list N := [%s]%%N." % (name, "; ".join(str(x) for x in v)))
        else:
            lines.append("Definition GEN_%s : N := %d%%N." % (name, v))
    text = "\n".join(lines) + "\n"
    path = os.path.join(OUT, "Consts_gen.v")
    old = open(path).read() if os.path.exists(path) else None
    if old != text:
        with open(path, "w") as f:
            f.write(text)
        return True
    return False


def main():
    ops = parse_enum(os.path.join(REPO, "src/script/op_codes.rs"), "OpCodes")
    sh = parse_enum(os.path.join(REPO, "src/transaction/sighash.rs"), "SigHash")
    c1 = emit("Opcodes_gen.v", "opcode_table", ops, "src/script/op_codes.rs")
    c2 = emit("Sighash_gen.v", "sighash_table", sh, "src/transaction/sighash.rs")
    consts = with_fallback(parse_consts())
    c3 = emit_consts(consts)
    print("gen_tables: %d opcodes%s, %d sighash values%s, %d constants%s" % (len(ops), " (changed)" if c1 else "", len(sh), " (changed)" if c2 else "", len(consts), " (changed)" if c3 else ""))


if __name__ == "__main__":
    main()
