#!/bin/bash
# usage: seeded_batch.sh "<IDs>" <prefix e.g. r2_mutant_> "<ns e.g. 1 2>"  — run the check of each property against each mutant (isolated)
for id in $1; do l=$(echo $id | tr A-Z a-z); for n in $3; do
  d=/tmp/mutout_$l/$2$n
  [ -f $d/patch.diff ] || { echo "== $id $2$n: (no patch)"; continue; }
  echo "== $id $2$n: $(/verif/tools/seeded_run.sh $id $d/patch.diff quick /tmp/run_$l 2>&1 | grep -E 'VIOLATION|^OK|MACHINERY' | head -1)"
done; done
