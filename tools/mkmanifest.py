#!/usr/bin/env python3
"""Regenerate MANIFEST.json from tools/claims.json (one entry per claimed property) and properties.jsonl."""
import json, os
ROOT = os.path.dirname(os.path.dirname(os.path.abspath(__file__)))
claims = json.load(open(os.path.join(ROOT, "tools", "claims.json")))
props = [json.loads(l) for l in open(os.path.join(ROOT, "properties.jsonl")) if l.strip()]
checks, na = [], []
for p in props:
    pid = p["id"]
    c = claims.get(pid)
    if c and c.get("claimed"):
        checks.append({
            "property_id": pid,
            "quick_cmd": "tools/check %s quick" % pid,
            "thorough_cmd": "tools/check %s thorough" % pid,
            "evidence_file": "/verif/evidence/%s.json" % pid,
            "replay_cmd_template": "tools/check %s --replay {path}" % pid,
            "engine": "coq-proof+correspondence",
            "level_claimed": {"category": c.get("category", "proof"), "text": c["text"], "design_ref": c.get("design_ref", "DESIGN.md §5 " + pid)},
            "level_note": c["note"],
            "technique": c.get("technique", "machine-checked proof in Coq 8.16.1 over a hand-written Gallina model, tied to the Rust code by a differential correspondence check (driver vs. vm_compute)"),
        })
    else:
        na.append({"property_id": pid, "reason": (c or {}).get("reason", "check not built yet in this round (planned; see DESIGN.md §11); not claimed")})
m = {
    "version": 1,
    "setup_cmd": "tools/setup.sh",
    "hooks": {"guard": "bsv_verif", "enable": 'RUSTFLAGS="--cfg bsv_verif" (set by tools/check.py when it builds harness/ against /repo)',
              "baseline_off_cmd": "cd /repo && cargo test --workspace --no-fail-fast --offline",
              "source_commits": ["d2a9980"], "add_only": True},
    "engines": [{"name": "coq-proof+correspondence", "path": "/verif/tools/check.py",
                 "serves_properties": [c["property_id"] for c in checks],
                 "kind_free_text": "Coq 8.16.1 development in /verif/coq (Model/Spec/Proofs/Props), Rust driver in /verif/harness, Python orchestration in /verif/tools"}],
    "checks": checks,
    "not_applicable": na,
    "notes": "Each check rebuilds the Coq targets (cached by make) and the Rust driver from /repo's working tree, regenerates the opcode/sighash tables from the Rust source, proves the pinned theorems, and runs the correspondence. See DESIGN.md.",
}
json.dump(m, open(os.path.join(ROOT, "MANIFEST.json"), "w"), indent=1)
print("MANIFEST.json: %d checks, %d not claimed" % (len(checks), len(na)))
