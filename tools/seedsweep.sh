#!/bin/bash
# usage: seedsweep.sh "<seeds>" "<ids>"   — run quick checks under several seeds with scratch work/evidence dirs; report non-OK runs
SEEDS=${1:-"1 2 3"}; IDS=${2:-$(python3 -c "import json;print(' '.join(c['property_id'] for c in json.load(open('/verif/MANIFEST.json'))['checks']))")}
cd /verif
for s in $SEEDS; do for id in $IDS; do
  out=$(VERIF_SEED=$s VERIF_WORK=/var/tmp/sweep/work VERIF_EVIDENCE=/var/tmp/sweep/evidence tools/check $id quick 2>&1 | grep -E "^OK|VIOLATION|MACHINERY" | head -3 | tr '\n' ' ')
  echo "seed=$s $id: $out"
done; done
