#!/bin/bash
# usage: harm_batch.sh "<IDs>"  - run each property's quick check against its three behaviour-preserving changes
# (/tmp/harmout_<id>/h_<n>/patch.diff) in an isolated scratch worktree; expected result: OK (no VIOLATION).
for ID in $1; do
  l=$(echo $ID | tr A-Z a-z)
  for n in 1 2 3; do
    P=/tmp/harmout_$l/h_$n/patch.diff
    [ -f "$P" ] || { echo "$ID h_$n: no patch"; continue; }
    t0=$(date +%s)
    out=$(/verif/tools/seeded_run.sh $ID "$P" quick /tmp/run_$l 2>&1 | grep -E "^OK|VIOLATION|MACHINERY|does not apply" | head -3 | tr '\n' ' ')
    echo "$ID h_$n ($(( $(date +%s) - t0 )) s): $out"
    [ -n "$(echo "$out" | grep -E 'VIOLATION|MACHINERY')" ] && cp -r /var/tmp/seed_$ID/work/$ID/replay /tmp/harmout_$l/h_$n/replay_$ID 2>/dev/null
  done
done
