#!/bin/sh
# usage: goal.sh <file.v relative to coq/> <line>  — show the proof state just before <line>
cd /verif/coq
head -n $(($2-1)) "$1" > /tmp/goal_$$.v
echo "Show. Abort." >> /tmp/goal_$$.v
timeout 300 coqc -Q . BSV /tmp/goal_$$.v 2>&1 | tail -${3:-40}
rm -f /tmp/goal_$$.v /tmp/goal_$$.vo /tmp/goal_$$.glob /tmp/.goal_$$.aux
