#!/bin/bash
# usage: seeded_run.sh <ID> <patch.diff> [tier] [scratch worktree]
# Runs the registered check of property <ID> against a scratch worktree of /repo with the seeded change applied
# (isolated driver copy, work and evidence directories under /var/tmp), then undoes the change.
# The same check can be run against /repo itself with: git -C /repo apply <patch>; tools/check <ID> quick; git -C /repo checkout -- .
ID=$1; P=$(readlink -f "$2"); T=${3:-quick}; WT=${4:-/tmp/mut_$(echo $ID | tr A-Z a-z)}
[ -d "$WT" ] || { git -C /repo worktree add -q --detach "$WT" HEAD && cp /repo/Cargo.lock "$WT/"; }
cd "$WT" || exit 2
git checkout -q -- . ; git clean -fdq -e target -e Cargo.lock
git checkout -q --detach $(git -C /repo rev-parse HEAD) 2>/dev/null
git apply "$P" || { echo "patch does not apply"; exit 2; }
H=/var/tmp/seed_$ID/harness; mkdir -p "$H"
rsync -a --delete --exclude target /verif/harness/ "$H/"
sed -i "s#path = \"/repo\"#path = \"$WT\"#" "$H/Cargo.toml"
sed -i "s#^target-dir.*#target-dir = \"$H/target\"#" "$H/.cargo/config.toml"
( cd /verif && VERIF_REPO="$WT" VERIF_HARNESS="$H" VERIF_WORK=/var/tmp/seed_$ID/work VERIF_EVIDENCE=/var/tmp/seed_$ID/evidence tools/check "$ID" "$T" 2>&1 | grep -E "VIOLATION|KNOWN-FINDING|^OK|MACHINERY|stats" )
git checkout -q -- .
