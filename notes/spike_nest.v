(* Round-0 feasibility spike (NOT part of the framework): the nested-script core of C02.
   nest mirrors Script::if_statement_pass / read_pass / read_fail; parse_flat is the
   round-trip theorem for unbounded nesting. Compiles with coqc 8.16.1 in ~1.3 s. *)
From Coq Require Import List NArith Lia Bool.
Import ListNotations.

Inductive tok := TOp (c : N) | TPush (c : N) (d : list N).
Inductive bit :=
| BOp (c : N)
| BPush (c : N) (d : list N)
| BIf (c : N) (pass : list bit) (fail : option (list bit)).

Definition is_if (c : N) : bool := (c =? 99)%N || (c =? 100)%N || (c =? 101)%N || (c =? 102)%N.
Definition OP_ELSE := 103%N. Definition OP_ENDIF := 104%N.

Inductive mode := Top | Pass | Fail.
Inductive term := TEnd | TElse | TEndif.
Inductive outcome (A : Type) := Ok (a : A) | Err.
Arguments Ok {A}. Arguments Err {A}.

Fixpoint nest (fuel : nat) (m : mode) (ts : list tok) : outcome (list bit * term * list tok) :=
  match fuel with O => Err | S f =>
  match ts with
  | [] => Ok ([], TEnd, [])
  | TPush c d :: r =>
      match nest f m r with Ok (bs, t, r') => Ok (BPush c d :: bs, t, r') | Err => Err end
  | TOp c :: r =>
      if is_if c then
        match nest f Pass r with
        | Ok (p, TEndif, r1) =>
            match nest f m r1 with Ok (bs, t, r') => Ok (BIf c p None :: bs, t, r') | Err => Err end
        | Ok (p, TElse, r1) =>
            match nest f Fail r1 with
            | Ok (q, TEndif, r2) =>
                match nest f m r2 with Ok (bs, t, r') => Ok (BIf c p (Some q) :: bs, t, r') | Err => Err end
            | _ => Err end
        | _ => Err end
      else match m, (c =? OP_ELSE)%N, (c =? OP_ENDIF)%N with
        | Pass, true, _ => Ok ([], TElse, r)
        | Pass, _, true => Ok ([], TEndif, r)
        | Fail, _, true => Ok ([], TEndif, r)
        | _, _, _ => match nest f m r with Ok (bs, t, r') => Ok (BOp c :: bs, t, r') | Err => Err end
        end
  end end.

Fixpoint flat (b : bit) : list tok :=
  match b with
  | BOp c => [TOp c]
  | BPush c d => [TPush c d]
  | BIf c p q =>
     TOp c :: (fix fl (l : list bit) := match l with [] => [] | x :: r => flat x ++ fl r end) p
       ++ match q with None => [] | Some q' => TOp OP_ELSE :: (fix fl (l : list bit) := match l with [] => [] | x :: r => flat x ++ fl r end) q' end
       ++ [TOp OP_ENDIF]
  end.
Fixpoint flats (l : list bit) : list tok := match l with [] => [] | x :: r => flat x ++ flats r end.
Lemma flat_if c p q : flat (BIf c p q) = TOp c :: flats p ++ match q with None => [] | Some q' => TOp OP_ELSE :: flats q' end ++ [TOp OP_ENDIF].
Proof. reflexivity. Qed.

Definition term_toks (t : term) : list tok :=
  match t with TEnd => [] | TElse => [TOp OP_ELSE] | TEndif => [TOp OP_ENDIF] end.

Lemma nest_flat : forall fuel m ts bs t r,
  nest fuel m ts = Ok (bs, t, r) -> ts = flats bs ++ term_toks t ++ r.
Proof.
  induction fuel as [|f IH]; intros m ts bs t r H; [discriminate|].
  cbn [nest] in H. destruct ts as [|[c|c d] ts'].
  - inversion H; reflexivity.
  - destruct (is_if c) eqn:Hif.
    + destruct (nest f Pass ts') as [[[p tp] r1]|] eqn:H1; [|discriminate].
      destruct tp; [discriminate| |].
      * destruct (nest f Fail r1) as [[[q tq] r2]|] eqn:H2; [|discriminate].
        destruct tq; try discriminate.
        destruct (nest f m r2) as [[[bs' t'] r']|] eqn:H3; [|discriminate].
        inversion H; subst. apply IH in H1, H2, H3. subst.
        cbn [flats]. rewrite flat_if. cbn [term_toks app]. rewrite <- !app_assoc. cbn [app]. rewrite <- !app_assoc. reflexivity.
      * destruct (nest f m r1) as [[[bs' t'] r']|] eqn:H3; [|discriminate].
        inversion H; subst. apply IH in H1, H3. subst.
        cbn [flats]. rewrite flat_if. cbn [term_toks app]. rewrite <- !app_assoc. reflexivity.
    + destruct m, (c =? OP_ELSE)%N eqn:He, (c =? OP_ENDIF)%N eqn:Hd;
        try (apply N.eqb_eq in He); try (apply N.eqb_eq in Hd);
        try (inversion H; subst; reflexivity);
        try (destruct (nest f _ ts') as [[[bs' t'] r']|] eqn:H3; [|discriminate];
             inversion H; subst; apply IH in H3; subst; reflexivity).
  - destruct (nest f m ts') as [[[bs' t'] r']|] eqn:H3; [|discriminate].
    inversion H; subst. apply IH in H3; subst. reflexivity.
Qed.

Definition parse (ts : list tok) : outcome (list bit) :=
  match nest (S (length ts)) Top ts with Ok (bs, _, _) => Ok bs | Err => Err end.

Lemma nest_top : forall fuel ts bs t r, nest fuel Top ts = Ok (bs, t, r) -> t = TEnd /\ r = [].
Proof.
  induction fuel as [|f IH]; intros ts bs t r H; [discriminate|].
  cbn [nest] in H. destruct ts as [|[c|c d] ts'].
  - inversion H; auto.
  - destruct (is_if c).
    + destruct (nest f Pass ts') as [[[p tp] r1]|]; [|discriminate].
      destruct tp; [discriminate| |].
      * destruct (nest f Fail r1) as [[[q tq] r2]|]; [|discriminate].
        destruct tq; try discriminate.
        destruct (nest f Top r2) as [[[bs' t'] r']|] eqn:H3; [|discriminate].
        inversion H; subst. eauto.
      * destruct (nest f Top r1) as [[[bs' t'] r']|] eqn:H3; [|discriminate].
        inversion H; subst. eauto.
    + destruct (c =? OP_ELSE)%N, (c =? OP_ENDIF)%N;
      (destruct (nest f Top ts') as [[[bs' t'] r']|] eqn:H3; [|discriminate]; inversion H; subst; eauto).
  - destruct (nest f Top ts') as [[[bs' t'] r']|] eqn:H3; [|discriminate]. inversion H; subst; eauto.
Qed.

Theorem parse_flat ts bs : parse ts = Ok bs -> flats bs = ts.
Proof.
  unfold parse. destruct (nest _ Top ts) as [[[b t] r]|] eqn:H; [|discriminate].
  intros E; inversion E; subst. pose proof (nest_top _ _ _ _ _ H) as [-> ->].
  apply nest_flat in H. cbn in H. rewrite app_nil_r in H. auto.
Qed.
Print Assumptions parse_flat.
