//! C06 ops: signature encodings (DER, DER + sighash flag, compact) and public key recovery.
//!   r, s = 32-byte big-endian scalars (descriptors); a Signature with these scalars is built through
//!   Signature::from_compact_bytes(27 || r || s) (Err -> ERR).
//!
//!   sig.der_roundtrip r s               -> OK:<der>;<r'>;<s'>   to_der_bytes, from_der on it (E when from_der fails);
//!                                          to_der_hex / from_hex_der must agree (else INCONSISTENT)
//!   sig.from_der bytes                  -> OK:<r>;<s>           from_der; from_hex_der(hex(bytes)) must agree
//!   sig.from_hex_der text               -> OK:<r>;<s>           text = hex of the UTF-8 bytes of the string
//!   sig.compact r s recid comp          -> OK:<65 bytes>;<r'>;<s'>;<hdr'>   to_compact_bytes(Some(info)), from_compact_bytes on it
//!   sig.from_compact bytes              -> OK:<r>;<s>;<hdr>
//!   sig.recover compact msg hash        -> OK:K;<len>;<pubkey> | OK:E   from_compact_bytes (Err -> ERR), recover_public_key
//!   sig.recover_digest compact digest   -> OK:K;<len>;<pubkey> | OK:E
//!   sig.sign_recover key comp msg hash rk msg2 hash2 -> OK:<same>;<pubkey> | OK:E
//!        sign_with_deterministic_k, to_compact_bytes(None), from_compact_bytes, recover_public_key(msg2, hash2);
//!        same = 1 when the recovered key's bytes equal the signer's to_public_key() bytes
//!   sig.sign_recover_digest key comp msg hash rk digest -> OK:<same>;<pubkey> | OK:E   as sign_recover, through recover_public_key_from_digest
//!   sig.cross signer key comp msg hash rk aux route entry -> OK:<same>;<pubkey> | OK:E   every signing entry point (see ops_c05.rs
//!        produce) through recovery: route mem | cmp, entry m (message) | d (digest)
//!   sig.digest_cross key comp digest route -> OK:<same>;<pubkey|E>;<v>   sign_digest -> (compact round trip) -> recovery from the
//!        same digest and verify_hashbuf; digests at and above the group order are reduced by every entry point alike
//!   sig.compact_der der info            -> OK:<65 bytes>   from_der (no recovery info), to_compact_bytes(info); info = n | <recid><c>
//!   sig.signed key comp msg hash rk info msg2 hash2 -> OK:<65 bytes>;<K<pubkey>|E>;<v>   in-memory signer output: to_compact_bytes(info),
//!        recover_public_key(msg2, hash2), verify_message(msg2, own key)
//!   sig.recover_der der msg hash        -> OK:E;E   recovery on an object without recovery info
//!   sighashsig.roundtrip r s flag       -> OK:<bytes>;<bytes'>  SighashSignature::new(..).to_bytes, from_bytes, to_bytes again
//!   sighashsig.parse bytes              -> OK:<bytes'>          from_bytes(bytes).to_bytes(); to_hex must agree
//! hdr = first byte of to_compact_bytes(None), decimal.
use crate::ops_c05::{digest_for, key_of, produce, sig_fields, sig_of};
use crate::util::*;
use bsv::{RecoveryInfo, SigHash, SighashSignature, Signature, SigningHash, ECDSA};

fn hash_of(s: &str) -> Option<SigningHash> {
    match s {
        "sha256" => Some(SigningHash::Sha256),
        "sha256d" => Some(SigningHash::Sha256d),
        _ => None,
    }
}
fn flag(args: &[String], i: usize) -> Option<bool> {
    match args.get(i).map(|s| s.as_str()) {
        Some("0") => Some(false),
        Some("1") => Some(true),
        _ => None,
    }
}
/// "n" -> None, "<recid><c>" (two digits, recid 0..3, c 0|1) -> Some(RecoveryInfo)
fn info_of(args: &[String], i: usize) -> Option<Option<RecoveryInfo>> {
    let a = args.get(i)?;
    if a == "n" {
        return Some(None);
    }
    let b = a.as_bytes();
    if b.len() != 2 || !(b'0'..=b'3').contains(&b[0]) || !(b'0'..=b'1').contains(&b[1]) {
        return None;
    }
    let id = b[0] - b'0';
    Some(Some(RecoveryInfo::new(id & 1 != 0, id & 2 != 0, b[1] == b'1')))
}
fn rs(sig: &Signature) -> String {
    format!("{};{}", hex::encode(sig.r()), hex::encode(sig.s()))
}

macro_rules! some {
    ($e:expr) => {
        match $e {
            Some(x) => x,
            None => return Some("BADARG".into()),
        }
    };
}
macro_rules! okk {
    ($e:expr) => {
        match $e {
            Ok(x) => x,
            Err(_) => return Some("ERR".into()),
        }
    };
}

pub fn run(op: &str, args: &[String]) -> Option<String> {
    Some(match op {
        "sig.der_roundtrip" => {
            let sig = okk!(sig_of(&some!(arg_bytes(args, 0)), &some!(arg_bytes(args, 1))));
            let der = sig.to_der_bytes();
            if sig.to_der_hex() != hex::encode(&der) {
                return Some("INCONSISTENT".into());
            }
            let back = Signature::from_der(&der);
            let back_hex = Signature::from_hex_der(&sig.to_der_hex());
            match (&back, &back_hex) {
                (Ok(a), Ok(b)) if a == b => {}
                (Err(_), Err(_)) => {}
                _ => return Some("INCONSISTENT".into()),
            }
            match back {
                Ok(b) => format!("OK:{};{}", show_bytes(&der), rs(&b)),
                Err(_) => format!("OK:{};E", show_bytes(&der)),
            }
        }
        "sig.from_der" => {
            let b = some!(arg_bytes(args, 0));
            let r1 = Signature::from_der(&b);
            let r2 = Signature::from_hex_der(&hex::encode(&b));
            match (&r1, &r2) {
                (Ok(a), Ok(c)) if a == c => {}
                (Err(_), Err(_)) => {}
                _ => return Some("INCONSISTENT".into()),
            }
            format!("OK:{}", rs(&okk!(r1)))
        }
        "sig.from_hex_der" => {
            let t = some!(arg_bytes(args, 0));
            let t = String::from_utf8_lossy(&t).into_owned();
            format!("OK:{}", rs(&okk!(Signature::from_hex_der(&t))))
        }
        "sig.compact" => {
            let sig = okk!(sig_of(&some!(arg_bytes(args, 0)), &some!(arg_bytes(args, 1))));
            let recid = some!(arg_u64(args, 2));
            let comp = some!(flag(args, 3));
            if recid > 3 {
                return Some("BADARG".into());
            }
            let info = RecoveryInfo::new(recid & 1 != 0, recid & 2 != 0, comp);
            if info != RecoveryInfo::from_byte(recid as u8, comp) {
                return Some("INCONSISTENT".into());
            }
            let c = sig.to_compact_bytes(Some(info));
            if sig.to_compact_hex(Some(RecoveryInfo::new(recid & 1 != 0, recid & 2 != 0, comp))) != hex::encode(&c) {
                return Some("INCONSISTENT".into());
            }
            match Signature::from_compact_bytes(&c) {
                Ok(b) => format!("OK:{};{}", show_bytes(&c), sig_fields(&b)),
                Err(_) => format!("OK:{};E", show_bytes(&c)),
            }
        }
        "sig.from_compact" => {
            let b = some!(arg_bytes(args, 0));
            let r1 = Signature::from_compact_bytes(&b);
            let r2 = Signature::from_compact_impl(&b);
            match (&r1, &r2) {
                (Ok(a), Ok(c)) if a == c => {}
                (Err(_), Err(_)) => {}
                _ => return Some("INCONSISTENT".into()),
            }
            let sig = okk!(r1);
            format!("OK:{}", sig_fields(&sig))
        }
        "sig.recover" => {
            let sig = okk!(Signature::from_compact_bytes(&some!(arg_bytes(args, 0))));
            let msg = some!(arg_bytes(args, 1));
            let h = some!(args.get(2).and_then(|s| hash_of(s)));
            let alt = sig.get_public_key(&msg, h);
            match sig.recover_public_key(&msg, h) {
                Ok(p) => {
                    if alt.ok().and_then(|a| a.to_bytes().ok()) != p.to_bytes().ok() {
                        return Some("INCONSISTENT".into());
                    }
                    {
                        let pb = okk!(p.to_bytes());
                        format!("OK:K;{};{}", pb.len(), show_bytes(&pb))
                    }
                }
                Err(_) => {
                    if alt.is_ok() {
                        return Some("INCONSISTENT".into());
                    }
                    "OK:E".into()
                }
            }
        }
        "sig.recover_digest" => {
            let sig = okk!(Signature::from_compact_bytes(&some!(arg_bytes(args, 0))));
            let digest = some!(arg_bytes(args, 1));
            let alt = sig.get_public_key_from_digest(&digest);
            match sig.recover_public_key_from_digest(&digest) {
                Ok(p) => {
                    if alt.ok().and_then(|a| a.to_bytes().ok()) != p.to_bytes().ok() {
                        return Some("INCONSISTENT".into());
                    }
                    {
                        let pb = okk!(p.to_bytes());
                        format!("OK:K;{};{}", pb.len(), show_bytes(&pb))
                    }
                }
                Err(_) => {
                    if alt.is_ok() {
                        return Some("INCONSISTENT".into());
                    }
                    "OK:E".into()
                }
            }
        }
        "sig.sign_recover" => {
            let key = okk!(some!(key_of(args, 0, 1)));
            let msg = some!(arg_bytes(args, 2));
            let h = some!(args.get(3).and_then(|s| hash_of(s)));
            let rk = some!(flag(args, 4));
            let msg2 = some!(arg_bytes(args, 5));
            let h2 = some!(args.get(6).and_then(|s| hash_of(s)));
            let sig = okk!(ECDSA::sign_with_deterministic_k(&key, &msg, h, rk));
            let c = sig.to_compact_bytes(None);
            let back = okk!(Signature::from_compact_bytes(&c));
            let own = okk!(okk!(key.to_public_key()).to_bytes());
            match back.recover_public_key(&msg2, h2) {
                Ok(p) => {
                    let pb = okk!(p.to_bytes());
                    format!("OK:{};{}", (pb == own) as u8, show_bytes(&pb))
                }
                Err(_) => "OK:E".into(),
            }
        }
        "sig.cross" => {
            // <7 production args> route entry:  route = mem (the signer's object) | cmp (to_compact_bytes(None), from_compact_bytes);
            // entry = m (recover_public_key(msg, hash)) | d (recover_public_key_from_digest(hash(msg)))
            let (key, sig, h) = okk!(some!(produce(args, 0)));
            let msg = some!(arg_bytes(args, 3));
            let obj = match some!(args.get(7)).as_str() {
                "mem" => sig,
                "cmp" => okk!(Signature::from_compact_bytes(&sig.to_compact_bytes(None))),
                _ => return Some("BADARG".into()),
            };
            let rec = match some!(args.get(8)).as_str() {
                "m" => obj.recover_public_key(&msg, h),
                "d" => obj.recover_public_key_from_digest(&digest_for(h, &msg)),
                _ => return Some("BADARG".into()),
            };
            let own = okk!(okk!(key.to_public_key()).to_bytes());
            match rec {
                Ok(p) => {
                    let pb = okk!(p.to_bytes());
                    format!("OK:{};{}", (pb == own) as u8, show_bytes(&pb))
                }
                Err(_) => "OK:E".into(),
            }
        }
        "sig.digest_cross" => {
            // key comp digest route: sign_digest_with_deterministic_k(digest), route mem | cmp, recover_public_key_from_digest(digest)
            // and verify_hashbuf(digest) on the same object -> OK:<same>;<pubkey|E>;<v>
            let key = okk!(some!(key_of(args, 0, 1)));
            let digest = some!(arg_bytes(args, 2));
            let route = some!(args.get(3)).as_str();
            if route != "mem" && route != "cmp" {
                return Some("BADARG".into());
            }
            let sig = okk!(ECDSA::sign_digest_with_deterministic_k(&key, &digest));
            let obj = if route == "mem" { sig } else { okk!(Signature::from_compact_bytes(&sig.to_compact_bytes(None))) };
            let own_pk = okk!(key.to_public_key());
            let own = okk!(own_pk.to_bytes());
            let v = match ECDSA::verify_hashbuf(&digest, &own_pk, &obj) {
                Ok(true) => "1",
                Ok(false) => "0",
                Err(_) => "E",
            };
            match obj.recover_public_key_from_digest(&digest) {
                Ok(p) => {
                    let pb = okk!(p.to_bytes());
                    format!("OK:{};{};{}", (pb == own) as u8, show_bytes(&pb), v)
                }
                Err(_) => format!("OK:0;E;{}", v),
            }
        }
        "sig.compact_der" => {
            // a signature object WITHOUT recovery info (from_der), serialised with None or an explicit RecoveryInfo
            let sig = okk!(Signature::from_der(&some!(arg_bytes(args, 0))));
            let info = some!(info_of(args, 1));
            let c = sig.to_compact_bytes(info.clone());
            if sig.to_compact_hex(info) != hex::encode(&c) {
                return Some("INCONSISTENT".into());
            }
            format!("OK:{}", show_bytes(&c))
        }
        "sig.signed" => {
            // the in-memory object returned by the signer (carries its own recovery info), used WITHOUT a serialise/parse
            // round trip: to_compact_bytes(None | Some(other info)), recover_public_key, verify_message
            let key = okk!(some!(key_of(args, 0, 1)));
            let msg = some!(arg_bytes(args, 2));
            let h = some!(args.get(3).and_then(|s| hash_of(s)));
            let rk = some!(flag(args, 4));
            let info = some!(info_of(args, 5));
            let msg2 = some!(arg_bytes(args, 6));
            let h2 = some!(args.get(7).and_then(|s| hash_of(s)));
            let sig = okk!(ECDSA::sign_with_deterministic_k(&key, &msg, h, rk));
            let c = sig.to_compact_bytes(info);
            let own = okk!(key.to_public_key());
            let rec = match sig.recover_public_key(&msg2, h2) {
                Ok(p) => format!("K{}", show_bytes(&okk!(p.to_bytes()))),
                Err(_) => "E".into(),
            };
            let v = sig.verify_message(&msg2, &own);
            if v != own.is_valid_message(&msg2, &sig) {
                return Some("INCONSISTENT".into());
            }
            format!("OK:{};{};{}", show_bytes(&c), rec, v as u8)
        }
        "sig.recover_der" => {
            // no recovery info in the object: both recovery functions must return an error
            let sig = okk!(Signature::from_der(&some!(arg_bytes(args, 0))));
            let msg = some!(arg_bytes(args, 1));
            let h = some!(args.get(2).and_then(|s| hash_of(s)));
            let a = sig.recover_public_key(&msg, h).is_ok();
            let b = sig.recover_public_key_from_digest(&msg).is_ok();
            format!("OK:{};{}", if a { "K" } else { "E" }, if b { "K" } else { "E" })
        }
        "sig.sign_recover_digest" => {
            let key = okk!(some!(key_of(args, 0, 1)));
            let msg = some!(arg_bytes(args, 2));
            let h = some!(args.get(3).and_then(|s| hash_of(s)));
            let rk = some!(flag(args, 4));
            let digest = some!(arg_bytes(args, 5));
            let sig = okk!(ECDSA::sign_with_deterministic_k(&key, &msg, h, rk));
            let c = sig.to_compact_bytes(None);
            let back = okk!(Signature::from_compact_bytes(&c));
            let own = okk!(okk!(key.to_public_key()).to_bytes());
            // both the parsed object and the signer's in-memory object must behave the same
            let direct = sig.recover_public_key_from_digest(&digest).ok().and_then(|p| p.to_bytes().ok());
            match back.recover_public_key_from_digest(&digest) {
                Ok(p) => {
                    let pb = okk!(p.to_bytes());
                    if direct.as_ref() != Some(&pb) {
                        return Some("INCONSISTENT".into());
                    }
                    format!("OK:{};{}", (pb == own) as u8, show_bytes(&pb))
                }
                Err(_) => {
                    if direct.is_some() {
                        return Some("INCONSISTENT".into());
                    }
                    "OK:E".into()
                }
            }
        }
        "sighashsig.roundtrip" => {
            let sig = okk!(sig_of(&some!(arg_bytes(args, 0)), &some!(arg_bytes(args, 1))));
            let f = some!(arg_u64(args, 2));
            if f > 255 {
                return Some("BADARG".into());
            }
            let sh = okk!(SigHash::try_from(f as u8));
            let ss = SighashSignature::new(&sig, sh, &[]);
            let b = okk!(ss.to_bytes());
            match SighashSignature::from_bytes(&b, &[]) {
                Ok(back) => format!("OK:{};{}", show_bytes(&b), show_bytes(&okk!(back.to_bytes()))),
                Err(_) => format!("OK:{};E", show_bytes(&b)),
            }
        }
        "sighashsig.parse" => {
            let b = some!(arg_bytes(args, 0));
            let ss = okk!(SighashSignature::from_bytes(&b, &[]));
            let out = okk!(ss.to_bytes());
            if okk!(ss.to_hex()) != hex::encode(&out) {
                return Some("INCONSISTENT".into());
            }
            format!("OK:{}", show_bytes(&out))
        }
        _ => return None,
    })
}
