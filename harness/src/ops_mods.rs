// One line per additional op module (kept in a separate file so that adding a property touches only this list).
// mod ops_cXX;   and a line in dispatch_more.
mod ops_c20;
mod ops_c13;
mod ops_c17;
mod ops_c14;
mod ops_c01;
mod ops_c03;
mod ops_c09;
mod ops_c18;
mod ops_c04;
mod ops_c05;
mod ops_c06;
mod ops_c19;
mod ops_c08;
mod ops_c11;
mod ops_c07;
mod ops_c15;
mod ops_c12;
fn dispatch_more(op: &str, args: &[String]) -> Option<String> {
    if let Some(r) = ops_c09::run(op, args) {
        return Some(r);
    }
    if let Some(r) = ops_c20::run(op, args) { return Some(r); }
    if let Some(r) = ops_c13::run(op, args) { return Some(r); }
    if let Some(r) = ops_c17::run(op, args) { return Some(r); }
    if let Some(r) = ops_c14::run(op, args) { return Some(r); }
    if let Some(r) = ops_c01::run(op, args) { return Some(r); }
    if let Some(r) = ops_c03::run(op, args) { return Some(r); }
    if let Some(r) = ops_c18::run(op, args) { return Some(r); }
    if let Some(r) = ops_c04::run(op, args) { return Some(r); }
    if let Some(r) = ops_c05::run(op, args) { return Some(r); }
    if let Some(r) = ops_c06::run(op, args) { return Some(r); }
    if let Some(r) = ops_c19::run(op, args) { return Some(r); }
    if let Some(r) = ops_c08::run(op, args) { return Some(r); }
    if let Some(r) = ops_c11::run(op, args) { return Some(r); }
    if let Some(r) = ops_c07::run(op, args) { return Some(r); }
    if let Some(r) = ops_c15::run(op, args) { return Some(r); }
    if let Some(r) = ops_c12::run(op, args) { return Some(r); }
    None
}
