// One line per additional op module (kept in a separate file so that adding a property touches only this list).
// mod ops_cXX;   and a line in dispatch_more.
fn dispatch_more(_op: &str, _args: &[String]) -> Option<String> {
    None
}
