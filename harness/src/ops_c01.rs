//! C01 ops: transaction wire format (parse / serialise / accessors / construction API / compact sizes).
use crate::util::*;
use bsv::{Script, Transaction, TxIn, TxOut, VarInt, VarIntReader, VarIntWriter};
use std::io::Cursor;

/// long per-item listings are compared as (length, checksum of the ASCII text); mirrors `show_long` in Run/Exec_C01.v
fn show_long(s: String) -> String {
    if s.len() <= 2048 {
        s
    } else {
        let (mut a, mut c): (u64, u64) = (1, 0);
        for x in s.as_bytes() {
            a = (a + *x as u64) % 65521;
            c = (c + a) % 65521;
        }
        format!("#{}:{}", s.len(), c * 65536 + a)
    }
}

fn bit01(b: bool) -> &'static str {
    if b {
        "1"
    } else {
        "0"
    }
}

fn b(x: bool) -> char {
    if x {
        '1'
    } else {
        '0'
    }
}

/// consistency flags of one input (see Run/Exec_C01.v `in_flags`); `plain` = no annotations expected
fn in_flags(i: &TxIn) -> String {
    let opts = [None, Some(false), Some(true)];
    let none_false = i.get_prev_tx_id(Some(false)) == i.get_prev_tx_id(None) && i.get_outpoint_bytes(Some(false)) == i.get_outpoint_bytes(None);
    let mut hexes = i.get_unlocking_script_hex() == hex::encode(i.get_unlocking_script().to_bytes());
    for o in opts {
        hexes &= i.get_prev_tx_id_hex(o) == hex::encode(i.get_prev_tx_id(o));
        hexes &= i.get_outpoint_hex(o) == hex::encode(i.get_outpoint_bytes(o));
    }
    hexes &= match (i.to_hex(), i.to_bytes()) {
        (Ok(h), Ok(by)) => h == hex::encode(by),
        _ => false,
    };
    let mut r = i.get_prev_tx_id(None);
    r.reverse();
    let reversed = i.get_prev_tx_id(Some(true)) == r;
    let no_ext = i.get_satoshis().is_none() && i.get_locking_script().is_none() && i.get_locking_script_bytes().is_none();
    let fin = match i.get_finalised_script() {
        Ok(s) => s == i.get_unlocking_script(),
        Err(_) => false,
    };
    let cl = i.clone() == *i;
    [b(none_false), b(hexes), b(reversed), b(no_ext), b(fin), b(cl)].iter().collect()
}

fn in_extra(i: &TxIn) -> String {
    format!(
        "{},{},{},{},{}",
        hex::encode(i.get_sequence_as_bytes()),
        i.get_unlocking_script_size(),
        hex::encode(i.get_outpoint_bytes(None)),
        hex::encode(i.get_outpoint_bytes(Some(true))),
        in_flags(i)
    )
}

fn out_flags(o: &TxOut) -> String {
    let h = o.get_script_pub_key_hex() == hex::encode(o.get_script_pub_key().to_bytes());
    let th = match (o.to_hex(), o.to_bytes()) {
        (Ok(h), Ok(by)) => h == hex::encode(by),
        _ => false,
    };
    let cl = o.clone() == *o;
    [b(h), b(th), b(cl)].iter().collect()
}

fn out_extra(o: &TxOut) -> String {
    format!("{},{},{}", hex::encode(o.get_satoshis_as_bytes()), o.get_script_pub_key_size(), out_flags(o))
}

fn show_txin(i: &TxIn) -> Option<String> {
    let b = i.to_bytes().ok()?;
    Some(format!(
        "{};{};{};{};{};{};{};{};{};{};{}",
        show_bytes(&b),
        i.get_prev_tx_id_hex(None),
        i.get_vout(),
        show_bytes(&i.get_unlocking_script().to_bytes()),
        i.get_sequence(),
        bit01(i.is_coinbase()),
        hex::encode(i.get_outpoint_bytes(Some(true))),
        hex::encode(i.get_outpoint_bytes(None)),
        hex::encode(i.get_sequence_as_bytes()),
        i.get_unlocking_script_size(),
        in_flags(i),
    ))
}

fn tx_parse(bs: &[u8]) -> String {
    let via_hex = Transaction::from_hex(&hex::encode(bs));
    let via_hex_upper = Transaction::from_hex(&hex::encode_upper(bs));
    let mut tx = match Transaction::from_bytes(bs) {
        Ok(t) => t,
        Err(_) => {
            // the other entry points must reject it too
            return if via_hex.is_err() && via_hex_upper.is_err() { "ERR".into() } else { "ERR-BUT-FROM-HEX-OK".into() };
        }
    };
    let same_entry = match (&via_hex, &via_hex_upper) {
        (Ok(a), Ok(c)) => *a == tx && *c == tx,
        _ => false,
    };
    let ser = match tx.to_bytes() {
        Ok(b) => b,
        Err(_) => return "ERR-SER".into(),
    };
    let id = match tx.get_id_hex() {
        Ok(h) => h,
        Err(_) => return "ERR-ID".into(),
    };
    let size = match tx.get_size() {
        Ok(n) => n,
        Err(_) => return "ERR-SIZE".into(),
    };
    let nin = tx.get_ninputs();
    let nout = tx.get_noutputs();
    let mut ins = String::new();
    for k in 0..nin {
        let i = match tx.get_input(k) {
            Some(i) => i,
            None => return "ERR-INPUT".into(),
        };
        ins.push_str(&format!(
            "{},{},{},{},{},{}/",
            i.get_prev_tx_id_hex(None),
            i.get_vout(),
            show_bytes(&i.get_unlocking_script().to_bytes()),
            i.get_sequence(),
            bit01(i.is_coinbase()),
            in_extra(&i)
        ));
    }
    let mut outs = String::new();
    for k in 0..nout {
        let o = match tx.get_output(k) {
            Some(o) => o,
            None => return "ERR-OUTPUT".into(),
        };
        outs.push_str(&format!("{},{},{}/", o.get_satoshis(), show_bytes(&o.get_script_pub_key().to_bytes()), out_extra(&o)));
    }
    let mut ops = String::new();
    for o in tx.get_outpoints() {
        ops.push_str(&hex::encode(o));
        ops.push('/');
    }
    // satoshis_out may overflow u64: observe the panic of this one accessor without losing the other fields
    let txc = tx.clone();
    let sat = match std::panic::catch_unwind(move || txc.satoshis_out()) {
        Ok(v) => v.to_string(),
        Err(_) => "PANIC".into(),
    };
    let f_hex = match tx.to_hex() {
        Ok(h) => h == hex::encode(&ser),
        Err(_) => false,
    };
    let f_idb = match tx.get_id_bytes() {
        Ok(v) => hex::encode(v) == id,
        Err(_) => false,
    };
    let cl = tx.clone();
    let f_clone = cl == tx && cl.to_bytes().ok() == Some(ser.clone());
    let f_range = tx.get_input(nin).is_none() && tx.get_output(nout).is_none();
    let f_satin = tx.satoshis_in().is_none();
    let flags: String = [b(f_hex), b(same_entry), b(f_idb), b(f_clone), b(f_range), b(f_satin)].iter().collect();
    format!(
        "OK:{};{};{};{};{};{};{};{};{};{};{};{};{};{}",
        show_bytes(&ser),
        id,
        size,
        tx.get_version(),
        tx.get_n_locktime(),
        nin,
        nout,
        show_long(ins),
        show_long(outs),
        show_long(ops),
        sat,
        bit01(tx.is_coinbase()),
        hex::encode(tx.get_n_locktime_as_bytes()),
        flags
    )
}

fn null_outpoint(id: &[u8], vout: u32) -> bool {
    id == &[0u8; 32][..] && vout == 0xffff_ffff
}

fn tx_build(args: &[String]) -> Option<String> {
    let ver = u32::try_from(arg_u64(args, 0)?).ok()?;
    let lt = u32::try_from(arg_u64(args, 1)?).ok()?;
    let nin = arg_u64(args, 2)? as usize;
    let nout = arg_u64(args, 3)? as usize;
    if nin > 1000 || nout > 1000 || args.len() != 4 + 4 * nin + 2 * nout {
        return None;
    }
    let mut tx = Transaction::new(ver, lt);
    let mut p = 4;
    for _ in 0..nin {
        let id = arg_bytes(args, p)?;
        let vout = u32::try_from(arg_u64(args, p + 1)?).ok()?;
        let sb = arg_bytes(args, p + 2)?;
        let seq = if args[p + 3] == "-" { None } else { Some(u32::try_from(arg_u64(args, p + 3)?).ok()?) };
        p += 4;
        let script = if null_outpoint(&id, vout) { Script::from_coinbase_bytes(&sb) } else { Script::from_bytes(&sb) };
        let script = match script {
            Ok(s) => s,
            Err(_) => return Some("ERR".into()),
        };
        let txin = TxIn::new(&id, vout, &script, seq);
        tx.add_input(&txin);
    }
    for _ in 0..nout {
        let v = arg_u64(args, p)?;
        let sb = arg_bytes(args, p + 1)?;
        p += 2;
        let script = match Script::from_bytes(&sb) {
            Ok(s) => s,
            Err(_) => return Some("ERR".into()),
        };
        tx.add_output(&TxOut::new(v, &script));
    }
    let b = match tx.to_bytes() {
        Ok(b) => b,
        Err(_) => return Some("ERR".into()),
    };
    let size = match tx.get_size() {
        Ok(n) => n,
        Err(_) => return Some("ERR".into()),
    };
    Some(format!("OK:{};{}", show_bytes(&b), size))
}

/// tx.build_ext ver lt nin nout (id vout script seq|- lock|- sat|- mode)* (value script)*
/// mode b: set_locking_script / set_satoshis before add_input; mode a: add_input, then get_input / set_* / set_input.
fn tx_build_ext(args: &[String]) -> Option<String> {
    let ver = u32::try_from(arg_u64(args, 0)?).ok()?;
    let lt = u32::try_from(arg_u64(args, 1)?).ok()?;
    let nin = arg_u64(args, 2)? as usize;
    let nout = arg_u64(args, 3)? as usize;
    if nin > 1000 || nout > 1000 || args.len() != 4 + 7 * nin + 2 * nout {
        return None;
    }
    let mut tx = Transaction::new(ver, lt);
    let mut p = 4;
    for _ in 0..nin {
        let id = arg_bytes(args, p)?;
        let vout = u32::try_from(arg_u64(args, p + 1)?).ok()?;
        let sb = arg_bytes(args, p + 2)?;
        let seq = if args[p + 3] == "-" { None } else { Some(u32::try_from(arg_u64(args, p + 3)?).ok()?) };
        let lock = if args[p + 4] == "-" { None } else { Some(arg_bytes(args, p + 4)?) };
        let sat = if args[p + 5] == "-" { None } else { Some(arg_u64(args, p + 5)?) };
        let after = match args[p + 6].as_str() {
            "a" => true,
            "b" => false,
            _ => return None,
        };
        p += 7;
        let script = if null_outpoint(&id, vout) { Script::from_coinbase_bytes(&sb) } else { Script::from_bytes(&sb) };
        let script = match script {
            Ok(s) => s,
            Err(_) => return Some("ERR".into()),
        };
        let lock = match lock {
            Some(lb) => match Script::from_bytes(&lb) {
                Ok(s) => Some(s),
                Err(_) => return Some("ERR".into()),
            },
            None => None,
        };
        let mut txin = TxIn::new(&id, vout, &script, seq);
        if after {
            tx.add_input(&txin);
            let k = tx.get_ninputs() - 1;
            let mut got = tx.get_input(k)?;
            if let Some(l) = &lock {
                got.set_locking_script(l);
            }
            if let Some(v) = sat {
                got.set_satoshis(v);
            }
            tx.set_input(k, &got);
        } else {
            if let Some(l) = &lock {
                txin.set_locking_script(l);
            }
            if let Some(v) = sat {
                txin.set_satoshis(v);
            }
            tx.add_input(&txin);
        }
    }
    for _ in 0..nout {
        let v = arg_u64(args, p)?;
        let sb = arg_bytes(args, p + 1)?;
        p += 2;
        let script = match Script::from_bytes(&sb) {
            Ok(s) => s,
            Err(_) => return Some("ERR".into()),
        };
        tx.add_output(&TxOut::new(v, &script));
    }
    let b = match tx.to_bytes() {
        Ok(b) => b,
        Err(_) => return Some("ERR-SER".into()),
    };
    let id = match tx.get_id_hex() {
        Ok(h) => h,
        Err(_) => return Some("ERR-ID".into()),
    };
    let size = match tx.get_size() {
        Ok(n) => n,
        Err(_) => return Some("ERR-SIZE".into()),
    };
    let mut ins = String::new();
    let mut fin = String::new();
    for k in 0..tx.get_ninputs() {
        let i = tx.get_input(k)?;
        let ib = match i.to_bytes() {
            Ok(b) => b,
            Err(_) => return Some("ERR-SER".into()),
        };
        let sat = match i.get_satoshis() {
            Some(v) => v.to_string(),
            None => "-".into(),
        };
        let lock = match (i.get_locking_script(), i.get_locking_script_bytes()) {
            (Some(l), Some(lb)) if l.to_bytes() == lb => format!("s{}", show_bytes(&lb)),
            (None, None) => "-".into(),
            _ => "INCONSISTENT".into(),
        };
        ins.push_str(&format!("{},{},{},{}/", show_bytes(&ib), i.get_unlocking_script_size(), sat, lock));
        match i.get_finalised_script() {
            Ok(s) => fin.push_str(&format!("{}/", show_bytes(&s.to_bytes()))),
            Err(_) => fin.push_str("E/"),
        }
    }
    Some(format!("OK:{};{};{};{};{}", show_bytes(&b), id, size, show_long(ins), show_long(fin)))
}

/// tx.build_alt variant ver lt nin nout (id vout script seq|-)* (value script)*  (see Run/Exec_C01.v)
fn tx_build_alt(args: &[String]) -> Option<String> {
    let variant = args.get(0)?.as_str();
    let args = &args[1..];
    let ver = u32::try_from(arg_u64(args, 0)?).ok()?;
    let lt = u32::try_from(arg_u64(args, 1)?).ok()?;
    let nin = arg_u64(args, 2)? as usize;
    let nout = arg_u64(args, 3)? as usize;
    if nin > 1000 || nout > 1000 || args.len() != 4 + 4 * nin + 2 * nout {
        return None;
    }
    let mut p = 4;
    let mut parts: Vec<(Vec<u8>, u32, Script, Option<u32>)> = vec![];
    for _ in 0..nin {
        let id = arg_bytes(args, p)?;
        let vout = u32::try_from(arg_u64(args, p + 1)?).ok()?;
        let sb = arg_bytes(args, p + 2)?;
        let seq = if args[p + 3] == "-" { None } else { Some(u32::try_from(arg_u64(args, p + 3)?).ok()?) };
        p += 4;
        let script = if null_outpoint(&id, vout) { Script::from_coinbase_bytes(&sb) } else { Script::from_bytes(&sb) };
        match script {
            Ok(s) => parts.push((id, vout, s, seq)),
            Err(_) => return Some("ERR".into()),
        }
    }
    let mut touts: Vec<TxOut> = vec![];
    for _ in 0..nout {
        let v = arg_u64(args, p)?;
        let sb = arg_bytes(args, p + 1)?;
        p += 2;
        match Script::from_bytes(&sb) {
            Ok(s) => touts.push(TxOut::new(v, &s)),
            Err(_) => return Some("ERR".into()),
        }
    }
    let tins: Vec<TxIn> = parts.iter().map(|(id, vo, s, sq)| TxIn::new(id, *vo, s, *sq)).collect();
    let tx: Transaction = match variant {
        "bulk" => {
            let mut tx = Transaction::new(ver, lt);
            tx.add_inputs(tins.clone());
            tx.add_outputs(touts.clone());
            tx
        }
        "default" => {
            let mut t0 = Transaction::default();
            let mut t1 = t0.set_version(ver);
            let mut tx = t1.set_nlocktime(lt);
            for (id, vo, s, sq) in &parts {
                let mut i = TxIn::default();
                i.set_prev_tx_id(id);
                i.set_vout(*vo);
                i.set_unlocking_script(s);
                if let Some(v) = sq {
                    i.set_sequence(*v);
                }
                tx.add_input(&i);
            }
            for o in &touts {
                tx.add_output(o);
            }
            tx
        }
        "prepend" => {
            let mut tx = Transaction::new(ver, lt);
            for i in tins.iter().rev() {
                tx.prepend_input(i);
            }
            for o in touts.iter().rev() {
                tx.prepend_output(o);
            }
            tx
        }
        "insert" => {
            let mut tx = Transaction::new(ver, lt);
            for (k, i) in tins.iter().enumerate() {
                if !(tins.len() >= 2 && k == 1) {
                    tx.add_input(i);
                }
            }
            if tins.len() >= 2 {
                tx.insert_input(1, &tins[1]);
            }
            for (k, o) in touts.iter().enumerate() {
                if !(touts.len() >= 2 && k == 1) {
                    tx.add_output(o);
                }
            }
            if touts.len() >= 2 {
                tx.insert_output(1, &touts[1]);
            }
            tx
        }
        "set" => {
            let mut tx = Transaction::new(ver, lt);
            for _ in &tins {
                tx.add_input(&TxIn::default());
            }
            for _ in &touts {
                tx.add_output(&TxOut::new(0, &Script::default()));
            }
            for (k, i) in tins.iter().enumerate() {
                tx.set_input(k, i);
            }
            for (k, o) in touts.iter().enumerate() {
                tx.set_output(k, o);
            }
            tx
        }
        "clone" => {
            let mut tx = Transaction::new(ver, lt);
            for i in &tins {
                tx.add_input(i);
            }
            for o in &touts {
                tx.add_output(o);
            }
            tx.clone()
        }
        _ => return None,
    };
    let by = match tx.to_bytes() {
        Ok(v) => v,
        Err(_) => return Some("ERR-SER".into()),
    };
    let size = match tx.get_size() {
        Ok(n) => n,
        Err(_) => return Some("ERR-SIZE".into()),
    };
    Some(format!("OK:{};{}", show_bytes(&by), size))
}

/// one observation of a Transaction object for tx.mutate (see Run/Exec_C01.v)
fn observe(tx: &Transaction) -> String {
    let id = match tx.get_id_hex() {
        Ok(h) => h,
        Err(_) => "E".into(),
    };
    let idb = match tx.get_id_bytes() {
        Ok(v) => hex::encode(v) == id,
        Err(_) => false,
    };
    let size = match tx.get_size() {
        Ok(n) => n.to_string(),
        Err(_) => "E".into(),
    };
    let bytes = tx.to_bytes().unwrap_or_default();
    let mut ops = String::new();
    let mut txm = tx.clone();
    // get_outpoints takes &mut self; the impl is the same as get_outpoints_impl
    for o in txm.get_outpoints() {
        ops.push_str(&hex::encode(o));
        ops.push('/');
    }
    let sat_of = |t: &Transaction| {
        let c = t.clone();
        match std::panic::catch_unwind(move || c.satoshis_out()) {
            Ok(v) => v.to_string(),
            Err(_) => "PANIC".to_string(),
        }
    };
    let sat = sat_of(tx);
    let fresh = match Transaction::from_bytes(&bytes) {
        Err(_) => 'x',
        Ok(mut f) => {
            let mut same = f.to_bytes().ok() == Some(bytes.clone())
                && f.get_id_hex().ok() == Some(id.clone())
                && f.get_size().ok().map(|n| n.to_string()) == Some(size.clone())
                && f.get_version() == tx.get_version()
                && f.get_n_locktime() == tx.get_n_locktime()
                && f.get_ninputs() == tx.get_ninputs()
                && f.get_noutputs() == tx.get_noutputs()
                && f.is_coinbase() == tx.is_coinbase()
                && sat_of(&f) == sat;
            let mut fo = String::new();
            for o in f.get_outpoints() {
                fo.push_str(&hex::encode(o));
                fo.push('/');
            }
            same &= fo == ops;
            if same {
                for k in 0..tx.get_ninputs() {
                    match (tx.get_input(k), f.get_input(k)) {
                        (Some(a), Some(c)) => {
                            same &= a.get_prev_tx_id(None) == c.get_prev_tx_id(None)
                                && a.get_vout() == c.get_vout()
                                && a.get_sequence() == c.get_sequence()
                                && a.get_unlocking_script().to_bytes() == c.get_unlocking_script().to_bytes();
                        }
                        _ => same = false,
                    }
                }
                for k in 0..tx.get_noutputs() {
                    match (tx.get_output(k), f.get_output(k)) {
                        (Some(a), Some(c)) => {
                            same &= a.get_satoshis() == c.get_satoshis() && a.get_script_pub_key().to_bytes() == c.get_script_pub_key().to_bytes();
                        }
                        _ => same = false,
                    }
                }
            }
            b(same)
        }
    };
    format!(
        "{},{},{},{},{},{},{},{},{},{},{}{}",
        id,
        size,
        show_bytes(&bytes),
        tx.get_version(),
        tx.get_n_locktime(),
        tx.get_ninputs(),
        tx.get_noutputs(),
        bit01(tx.is_coinbase()),
        show_long(ops),
        sat,
        b(idb),
        fresh
    )
}

fn f_u32(s: &str) -> Option<u32> {
    s.parse::<u64>().ok().and_then(|v| u32::try_from(v).ok())
}
fn f_idx(s: &str) -> Option<usize> {
    s.parse::<u64>().ok().filter(|v| *v < 100000).map(|v| v as usize)
}

/// Outcome of one step: Some(Ok) applied, Some(Err) a script could not be built (whole case ERR), None = BADARG
fn mutate_step(tx: &mut Transaction, st: &str) -> Option<Result<(), ()>> {
    let f: Vec<&str> = st.split(',').collect();
    let mk_in = |a: &str, bb: &str, c: &str, d: &str| -> Option<Result<TxIn, ()>> {
        let id = expand(a)?;
        let vout = f_u32(bb)?;
        let sb = expand(c)?;
        let seq = if d == "-" { None } else { Some(f_u32(d)?) };
        let script = if null_outpoint(&id, vout) { Script::from_coinbase_bytes(&sb) } else { Script::from_bytes(&sb) };
        Some(match script {
            Ok(s) => Ok(TxIn::new(&id, vout, &s, seq)),
            Err(_) => Err(()),
        })
    };
    let mk_out = |a: &str, bb: &str| -> Option<Result<TxOut, ()>> {
        let v: u64 = a.parse().ok()?;
        let sb = expand(bb)?;
        Some(match Script::from_bytes(&sb) {
            Ok(s) => Ok(TxOut::new(v, &s)),
            Err(_) => Err(()),
        })
    };
    match f.as_slice() {
        ["sv", n] => {
            let _ = tx.set_version(f_u32(n)?);
        }
        ["svc", n] => {
            *tx = tx.set_version(f_u32(n)?);
        }
        ["sl", n] => {
            let _ = tx.set_nlocktime(f_u32(n)?);
        }
        ["slc", n] => {
            *tx = tx.set_nlocktime(f_u32(n)?);
        }
        ["ai", a, bb, c, d] => match mk_in(a, bb, c, d)? {
            Ok(i) => tx.add_input(&i),
            Err(_) => return Some(Err(())),
        },
        ["pi", a, bb, c, d] => match mk_in(a, bb, c, d)? {
            Ok(i) => tx.prepend_input(&i),
            Err(_) => return Some(Err(())),
        },
        ["ii", k, a, bb, c, d] => {
            let k = f_idx(k)?;
            let r = mk_in(a, bb, c, d)?;
            if k > tx.get_ninputs() {
                return None;
            }
            match r {
                Ok(i) => tx.insert_input(k, &i),
                Err(_) => return Some(Err(())),
            }
        }
        ["si", k, a, bb, c, d] => {
            let k = f_idx(k)?;
            let r = mk_in(a, bb, c, d)?;
            if k >= tx.get_ninputs() {
                return None;
            }
            match r {
                Ok(i) => tx.set_input(k, &i),
                Err(_) => return Some(Err(())),
            }
        }
        ["ao", a, bb] => match mk_out(a, bb)? {
            Ok(o) => tx.add_output(&o),
            Err(_) => return Some(Err(())),
        },
        ["po", a, bb] => match mk_out(a, bb)? {
            Ok(o) => tx.prepend_output(&o),
            Err(_) => return Some(Err(())),
        },
        ["io", k, a, bb] => {
            let k = f_idx(k)?;
            let r = mk_out(a, bb)?;
            if k > tx.get_noutputs() {
                return None;
            }
            match r {
                Ok(o) => tx.insert_output(k, &o),
                Err(_) => return Some(Err(())),
            }
        }
        ["so", k, a, bb] => {
            let k = f_idx(k)?;
            let r = mk_out(a, bb)?;
            if k >= tx.get_noutputs() {
                return None;
            }
            match r {
                Ok(o) => tx.set_output(k, &o),
                Err(_) => return Some(Err(())),
            }
        }
        ["gi", k, fld, v] => {
            let k = f_idx(k)?;
            // validate the value first, then the index (same order as the model: parse, then apply)
            enum V {
                N32(u32),
                N64(u64),
                B(Vec<u8>),
            }
            let val = match *fld {
                "vo" | "sq" => V::N32(f_u32(v)?),
                "sa" => V::N64(v.parse().ok()?),
                "id" | "us" | "ls" => V::B(expand(v)?),
                _ => return None,
            };
            let mut i = tx.get_input(k)?;
            match (*fld, val) {
                ("vo", V::N32(n)) => i.set_vout(n),
                ("sq", V::N32(n)) => i.set_sequence(n),
                ("sa", V::N64(n)) => i.set_satoshis(n),
                ("id", V::B(x)) => i.set_prev_tx_id(&x),
                ("us", V::B(x)) => match Script::from_bytes(&x) {
                    Ok(s) => i.set_unlocking_script(&s),
                    Err(_) => return Some(Err(())),
                },
                ("ls", V::B(x)) => match Script::from_bytes(&x) {
                    Ok(s) => i.set_locking_script(&s),
                    Err(_) => return Some(Err(())),
                },
                _ => return None,
            }
            tx.set_input(k, &i);
        }
        ["cl"] => {
            *tx = tx.clone();
        }
        ["ob"] => {}
        _ => return None,
    }
    Some(Ok(()))
}

/// tx.mutate <tx bytes> <step>*
fn tx_mutate(args: &[String]) -> Option<String> {
    let bs = arg_bytes(args, 0)?;
    // the whole step list must be well formed before anything is reported (the model parses it first)
    let mut tx = match Transaction::from_bytes(&bs) {
        Ok(t) => t,
        Err(_) => {
            // still BADARG when a step is malformed: dry-run the syntax on an empty transaction is not possible in
            // general (indices), so malformed steps after a rejected transaction are reported as ERR by both sides only
            // when every step parses; the generator never produces malformed steps
            return Some("ERR".into());
        }
    };
    let mut out = String::from("OK:");
    let o0 = observe(&tx);
    out.push_str(&o0);
    out.push(';');
    out.push_str(&observe(&tx));
    out.push(';');
    out.push_str(&observe(&tx.clone()));
    for st in &args[1..] {
        match mutate_step(&mut tx, st)? {
            Ok(()) => {}
            Err(()) => return Some("ERR".into()),
        }
        out.push(';');
        out.push_str(&observe(&tx));
    }
    out.push(';');
    out.push_str(&observe(&tx.clone()));
    Some(out)
}

fn rd(r: std::io::Result<u64>) -> Option<u64> {
    r.ok()
}

pub fn run(op: &str, args: &[String]) -> Option<String> {
    let bad = || Some("BADARG".to_string());
    Some(match op {
        "tx.parse" => match arg_bytes(args, 0) {
            Some(bs) => tx_parse(&bs),
            None => return bad(),
        },
        "tx.build" => match tx_build(args) {
            Some(r) => r,
            None => return bad(),
        },
        "tx.mutate" => match tx_mutate(args) {
            Some(r) => r,
            None => return bad(),
        },
        "tx.build_alt" => match tx_build_alt(args) {
            Some(r) => r,
            None => return bad(),
        },
        "tx.build_ext" => match tx_build_ext(args) {
            Some(r) => r,
            None => return bad(),
        },
        "txin.parse" => {
            let bs = match arg_bytes(args, 0) {
                Some(b) => b,
                None => return bad(),
            };
            match TxIn::from_hex(&hex::encode(&bs)) {
                Ok(i) => match show_txin(&i) {
                    Some(s) => format!("OK:{}", s),
                    None => "ERR-SER".into(),
                },
                Err(_) => "ERR".into(),
            }
        }
        "txout.parse" => {
            let bs = match arg_bytes(args, 0) {
                Some(b) => b,
                None => return bad(),
            };
            match TxOut::from_hex(&hex::encode(&bs)) {
                Ok(o) => match o.to_bytes() {
                    Ok(b) => format!(
                        "OK:{};{};{};{};{};{}",
                        show_bytes(&b),
                        o.get_satoshis(),
                        show_bytes(&o.get_script_pub_key().to_bytes()),
                        hex::encode(o.get_satoshis_as_bytes()),
                        o.get_script_pub_key_size(),
                        out_flags(&o)
                    ),
                    Err(_) => "ERR-SER".into(),
                },
                Err(_) => "ERR".into(),
            }
        }
        "txin.outpoint" => {
            let bs = match arg_bytes(args, 0) {
                Some(b) => b,
                None => return bad(),
            };
            match TxIn::from_outpoint_bytes(&bs) {
                Ok(i) => match show_txin(&i) {
                    Some(s) => format!("OK:{}", s),
                    None => "ERR-SER".into(),
                },
                Err(_) => "ERR".into(),
            }
        }
        "varint.write" => {
            let n = match arg_u64(args, 0) {
                Some(n) => n,
                None => return bad(),
            };
            // both writer implementations (Vec<u8> and Cursor<Vec<u8>>) must produce the same bytes
            let mut v: Vec<u8> = Vec::new();
            let r1 = v.write_varint(n);
            let mut c: Cursor<Vec<u8>> = Cursor::new(Vec::new());
            let r2 = c.write_varint(n);
            if r1.is_err() || r2.is_err() {
                "ERR".into()
            } else if c.get_ref() != &v {
                format!("OK:{}/{}", hex::encode(&v), hex::encode(c.get_ref()))
            } else {
                format!("OK:{}", hex::encode(&v))
            }
        }
        "varint.bytes" => {
            let n = match arg_u64(args, 0) {
                Some(n) => n,
                None => return bad(),
            };
            format!("OK:{};{}", hex::encode(VarInt::get_varint_bytes(n)), VarInt::get_varint_size(n))
        }
        "varint.read" => {
            let bs = match arg_bytes(args, 0) {
                Some(b) => b,
                None => return bad(),
            };
            // the three reader implementations: Cursor<Vec<u8>> (used by the transaction parser), Vec<u8>, Cursor<&[u8]>
            let mut c1 = Cursor::new(bs.clone());
            let r1 = rd(c1.read_varint());
            let mut v = bs.clone();
            let r2 = rd(v.read_varint());
            let mut c3: Cursor<&[u8]> = Cursor::new(&bs[..]);
            let r3 = rd(c3.read_varint());
            let sh = |r: Option<u64>| match r {
                Some(n) => n.to_string(),
                None => "E".to_string(),
            };
            if r1.is_none() && r2.is_none() && r3.is_none() {
                "ERR".into()
            } else {
                format!("OK:{};{};{};{}", sh(r1), c1.position(), sh(r2), sh(r3))
            }
        }
        _ => return None,
    })
}
