//! C14 / C16 ops: the script interpreter (Interpreter::from_script, Iterator::next, run, state()).
//!
//! interp.run <script>            script bytes -> Script::from_bytes -> from_script -> run()
//! interp.runbits <tree>          bit tree -> Script::from_script_bits -> from_script -> run()
//! interp.trace <script>          stepping with next(); every returned state
//! interp.tracebits <tree>
//! interp.step_vs_run <script>    stepping vs run(), stacks visible through state() after an error
//! interp.step_vs_runbits <tree>
//! interp.txrun <unlock> <lock> <idx>   Interpreter::from_transaction on a one-input transaction, stepping vs run
//!
//! Bit tree text: tokens separated by ','; `_` is the empty script.
//!   o<dec>                 ScriptBit::OpCode
//!   p<hex>                 ScriptBit::Push
//!   d<dec>.<hex>           ScriptBit::PushData(code, data)
//!   c<hex>                 ScriptBit::Coinbase
//!   i<dec>.<np>.<nf|x>     ScriptBit::If{code, pass = next np bits, fail = the nf bits after them (x = None)}
use crate::util::*;
use bsv::{Interpreter, OpCodes, Script, ScriptBit, State, Status, Transaction, TxIn, TxOut};

/// OpCodes value of a byte, obtained through the parser (the harness has no num-traits dependency).
fn opcode_of(c: u8) -> Option<OpCodes> {
    if (99..=102).contains(&c) {
        match Script::from_bytes(&[c, 0x68]).ok()?.to_script_bits().first()? {
            ScriptBit::If { code, .. } => Some(*code),
            _ => None,
        }
    } else if (76..=78).contains(&c) {
        match Script::from_bytes(&[c, 0, 0, 0, 0]).ok()?.to_script_bits().first()? {
            ScriptBit::PushData(code, _) => Some(*code),
            _ => None,
        }
    } else if c == 0 || c > 78 {
        match Script::from_bytes(&[c]).ok()?.to_script_bits().first()? {
            ScriptBit::OpCode(code) => Some(*code),
            _ => None,
        }
    } else {
        None
    }
}

/// decimal digits only (the Gallina side does not accept a leading '+')
fn dec<T: std::str::FromStr>(s: &str) -> Option<T> {
    if s.is_empty() || !s.bytes().all(|b| b.is_ascii_digit()) {
        return None;
    }
    s.parse().ok()
}
fn arg_dec(args: &[String], i: usize) -> Option<u64> {
    args.get(i).and_then(|a| dec::<u64>(a))
}
/// step counts are kept below 100000 on both sides
fn arg_k(args: &[String], i: usize) -> Option<u64> {
    arg_dec(args, i).filter(|k| *k < 100000)
}

fn parse_n(toks: &[&str], pos: &mut usize, n: usize) -> Option<Vec<ScriptBit>> {
    let mut out = Vec::new();
    for _ in 0..n {
        out.push(parse_one(toks, pos)?);
    }
    Some(out)
}

fn parse_one(toks: &[&str], pos: &mut usize) -> Option<ScriptBit> {
    let t = *toks.get(*pos)?;
    *pos += 1;
    let (kind, rest) = t.split_at(1.min(t.len()));
    match kind {
        "o" => Some(ScriptBit::OpCode(opcode_of(dec(rest)?)?)),
        "p" => Some(ScriptBit::Push(hex::decode(rest).ok()?)),
        "c" => Some(ScriptBit::Coinbase(hex::decode(rest).ok()?)),
        "d" => {
            let f: Vec<&str> = rest.split('.').collect();
            if f.len() != 2 {
                return None;
            }
            Some(ScriptBit::PushData(opcode_of(dec(f[0])?)?, hex::decode(f[1]).ok()?))
        }
        "i" => {
            let f: Vec<&str> = rest.split('.').collect();
            if f.len() != 3 {
                return None;
            }
            let code = opcode_of(dec(f[0])?)?;
            let np: usize = dec(f[1])?;
            let pass = parse_n(toks, pos, np)?;
            let fail = if f[2] == "x" {
                None
            } else {
                let nf: usize = dec(f[2])?;
                Some(parse_n(toks, pos, nf)?)
            };
            Some(ScriptBit::If { code, pass, fail })
        }
        _ => None,
    }
}

pub fn parse_tree(s: &str) -> Option<Vec<ScriptBit>> {
    if s == "_" {
        return Some(vec![]);
    }
    let toks: Vec<&str> = s.split(',').collect();
    let mut pos = 0;
    let mut out = Vec::new();
    while pos < toks.len() {
        out.push(parse_one(&toks, &mut pos)?);
    }
    Some(out)
}

fn show_items(v: &[Vec<u8>]) -> String {
    let mut s = String::new();
    for x in v {
        s.push_str(&show_bytes(x));
        s.push(',');
    }
    s
}
fn show_exec(v: &[OpCodes]) -> String {
    let mut s = String::new();
    for x in v {
        s.push_str(&format!("{},", *x as u8));
    }
    s
}
fn show_state(st: &State) -> String {
    format!(
        "{};{};{};{};{}",
        show_items(&st.stack),
        show_items(&st.alt_stack),
        show_exec(&st.executed_opcodes),
        st.codeseparator_offset,
        if st.status == Status::Finished { 1 } else { 0 }
    )
}

enum Src {
    Bytes,
    Tree,
}

fn script_of(src: &Src, args: &[String]) -> Result<Option<Script>, ()> {
    match src {
        Src::Bytes => {
            let bs = arg_bytes(args, 0).ok_or(())?;
            Ok(Script::from_bytes(&bs).ok())
        }
        Src::Tree => {
            let t = args.get(0).ok_or(())?;
            let bits = parse_tree(t).ok_or(())?;
            Ok(Some(Script::from_script_bits(bits)))
        }
    }
}

fn do_run(script: &Script) -> String {
    let mut it = Interpreter::from_script(script);
    match it.run() {
        Ok(()) => {
            let st = it.state();
            format!("OK:R;{};{};{};{}", show_items(&st.stack), show_items(&st.alt_stack), show_exec(&st.executed_opcodes), st.codeseparator_offset)
        }
        Err(_) => "ERR".into(),
    }
}

fn do_trace(script: &Script) -> String {
    let mut it = Interpreter::from_script(script);
    let mut steps = String::new();
    let mut last = (String::new(), String::new());
    let outcome;
    loop {
        match it.next() {
            None => {
                outcome = "F";
                break;
            }
            Some(Err(_)) => {
                outcome = "E";
                break;
            }
            Some(Ok(st)) => {
                last = (show_items(&st.stack), show_items(&st.alt_stack));
                steps.push_str(&format!("{}^{}/", last.0, last.1));
            }
        }
    }
    format!("OK:{};{};{};{}", outcome, last.0, last.1, steps)
}

fn do_step_vs_run(script: &Script) -> String {
    step_vs_run_with(&|| Interpreter::from_script(script))
}

fn step_vs_run_with(mk: &dyn Fn() -> Interpreter) -> String {
    // stepping
    let mut it = mk();
    let mut n = 0usize;
    let mut last = (String::new(), String::new());
    let so;
    loop {
        match it.next() {
            None => {
                so = "F";
                break;
            }
            Some(Err(_)) => {
                so = "E";
                break;
            }
            Some(Ok(st)) => {
                n += 1;
                last = (show_items(&st.stack), show_items(&st.alt_stack));
            }
        }
    }
    let st = it.state();
    let stepped = format!("{};{};{}", show_state(&st), it.script_index(), it.script_bits().len());
    let now = (show_items(&st.stack), show_items(&st.alt_stack));
    let keeps = if now == last { 1 } else { 0 };
    // one more call after an error: still an error, stacks untouched
    let again = if so == "E" {
        match it.next() {
            None => "N".to_string(),
            Some(Ok(_)) => "O".to_string(),
            Some(Err(_)) => {
                let s2 = it.state();
                format!("E{}", if (show_items(&s2.stack), show_items(&s2.alt_stack)) == now { 1 } else { 0 })
            }
        }
    } else {
        match it.next() {
            None => "-".to_string(),
            Some(Ok(_)) => "O".to_string(),
            Some(Err(_)) => "E".to_string(),
        }
    };
    // run on a fresh interpreter
    let mut it2 = mk();
    let ro = match it2.run() {
        Ok(()) => "O",
        Err(_) => "E",
    };
    let st2 = it2.state();
    let ran = format!("{};{};{}", show_state(&st2), it2.script_index(), it2.script().to_script_bits().len());
    let same = if (so == "F") == (ro == "O") && now == (show_items(&st2.stack), show_items(&st2.alt_stack)) { 1 } else { 0 };
    format!("OK:{};{};{};{};{};{};{};{}", so, n, stepped, ro, ran, again, same, keeps)
}

/// interp.txrun <unlocking script bytes> <locking script bytes> <input index>
/// one-input transaction (value 1000, locking script attached), Interpreter::from_transaction(&tx, idx)
fn do_txrun(args: &[String]) -> String {
    let (u, l, idx) = match (script_arg(args, 0), script_arg(args, 1), arg_dec(args, 2)) {
        (Ok(u), Ok(l), Some(i)) => (u, l, i as usize),
        _ => return "BADARG".into(),
    };
    let (us, ls) = match (u, l) {
        (Some(a), Some(b)) => (a, b),
        _ => return "ERR".into(),
    };
    let mut tx = Transaction::new(1, 0);
    let mut txin = TxIn::new(&[0u8; 32], 0, &us, None);
    txin.set_locking_script(&ls);
    txin.set_satoshis(1000);
    tx.add_input(&txin);
    if Interpreter::from_transaction(&tx, idx).is_err() {
        return "ERR".into();
    }
    step_vs_run_with(&|| Interpreter::from_transaction(&tx, idx).unwrap())
}

fn full(it: &Interpreter) -> String {
    format!("{};{};{}", show_state(&it.state()), it.script_index(), it.script_bits().len())
}

/// call history on ONE interpreter object: k x next(), clone, run(), run() on the clone, run() again;
/// State accessors; comparison with a fresh run
fn hist_with(mk: &dyn Fn() -> Interpreter, k: usize) -> String {
    let mut it = mk();
    let mut n = 0usize;
    let mut ko = "O";
    let mut acc = 1;
    for _ in 0..k {
        match it.next() {
            None => {
                ko = "F";
                break;
            }
            Some(Err(_)) => {
                ko = "E";
                break;
            }
            Some(Ok(st)) => {
                n += 1;
                let s2 = it.state();
                if show_state(&st) != show_state(&s2) || st.stack() != &s2.stack[..] || s2.stack() != &st.stack[..] {
                    acc = 0;
                }
            }
        }
    }
    let mut cl = it.clone();
    let r1 = it.run().is_ok();
    let s1 = full(&it);
    let rc = cl.run().is_ok();
    let cflag = if rc == r1 && full(&cl) == s1 { 1 } else { 0 };
    let st1 = it.state();
    let r2 = it.run().is_ok();
    let s2 = full(&it);
    let mut fresh = mk();
    let rf = fresh.run().is_ok();
    let sf = fresh.state();
    let same = if rf == r1 && show_items(&sf.stack) == show_items(&st1.stack) && show_items(&sf.alt_stack) == show_items(&st1.alt_stack) { 1 } else { 0 };
    let disp = if format!("{}", it.state()).is_empty() { 0 } else { 1 };
    let hastx = if it.tx_script().is_some() { 1 } else { 0 };
    format!("OK:{};{};{};{};{};{};{};{};{};{};{}", ko, n, if r1 { "O" } else { "E" }, s1, if r2 { "O" } else { "E" }, s2, cflag, same, acc, disp, hastx)
}

/// a script argument of the transaction ops: a byte descriptor, or `T<tree>` (built with Script::from_script_bits,
/// e.g. an unlocking script that ends inside an open conditional)
fn script_arg(args: &[String], i: usize) -> Result<Option<Script>, ()> {
    let a = args.get(i).ok_or(())?;
    if let Some(t) = a.strip_prefix('T') {
        return Ok(Some(Script::from_script_bits(parse_tree(t).ok_or(())?)));
    }
    Ok(Script::from_bytes(&expand(a).ok_or(())?).ok())
}

fn garbage_tx(us: &Script, ls: &Script) -> Transaction {
    let mut tx = Transaction::new(1, 0);
    let mut txin = TxIn::new(&[0u8; 32], 0, us, None);
    txin.set_locking_script(ls);
    txin.set_satoshis(1000);
    tx.add_input(&txin);
    tx
}

/// interp.hist <script> <k> | interp.histbits <tree> <k> | interp.histtx <unlock> <lock> <k>
/// interp.histtxbits <unlock> <lock> <tree> <idx> <k>   (from_transaction_and_script_bits with bits that need not be the input's own script)
fn do_hist(op: &str, args: &[String]) -> String {
    match op {
        "interp.hist" | "interp.histbits" => {
            let k = match arg_k(args, 1) {
                Some(k) => k as usize,
                None => return "BADARG".into(),
            };
            let src = if op == "interp.hist" { Src::Bytes } else { Src::Tree };
            match script_of(&src, args) {
                Err(()) => "BADARG".into(),
                Ok(None) => "ERR".into(),
                Ok(Some(s)) => hist_with(&|| Interpreter::from_script(&s), k),
            }
        }
        "interp.histtx" => {
            let (u, l, k) = match (script_arg(args, 0), script_arg(args, 1), arg_k(args, 2)) {
                (Ok(u), Ok(l), Some(k)) => (u, l, k as usize),
                _ => return "BADARG".into(),
            };
            let (us, ls) = match (u, l) {
                (Some(a), Some(b)) => (a, b),
                _ => return "ERR".into(),
            };
            let tx = garbage_tx(&us, &ls);
            if Interpreter::from_transaction(&tx, 0).is_err() {
                return "ERR".into();
            }
            hist_with(&|| Interpreter::from_transaction(&tx, 0).unwrap(), k)
        }
        _ => {
            let (u, l, idx, k) = match (arg_bytes(args, 0), arg_bytes(args, 1), arg_dec(args, 3), arg_k(args, 4)) {
                (Some(u), Some(l), Some(i), Some(k)) => (u, l, i as usize, k as usize),
                _ => return "BADARG".into(),
            };
            let bits = match args.get(2).and_then(|t| parse_tree(t)) {
                Some(b) => b,
                None => return "BADARG".into(),
            };
            let (us, ls) = match (Script::from_bytes(&u), Script::from_bytes(&l)) {
                (Ok(a), Ok(b)) => (a, b),
                _ => return "ERR".into(),
            };
            let tx = garbage_tx(&us, &ls);
            hist_with(&|| Interpreter::from_transaction_and_script_bits(tx.clone(), idx, bits.clone()), k)
        }
    }
}

/// interp.txsafe <unlock> <lock> <idx> <nout>
/// Like interp.txrun, but the data may be real-looking signatures and keys, so the outcome of the signature checks is
/// not predicted; the result is three facts the property demands of ANY run: stepping equals run, an error keeps the
/// stacks (and a second next() is again an error with the same stacks), and Interpreter::from_transaction_and_script_bits
/// on the same bits behaves identically.  A panic anywhere in the CHECKSIG family shows as PANIC.
fn do_txsafe(args: &[String]) -> String {
    let (u, l, idx, nout) = match (arg_bytes(args, 0), arg_bytes(args, 1), arg_dec(args, 2), arg_dec(args, 3)) {
        (Some(u), Some(l), Some(i), Some(n)) => (u, l, i as usize, n),
        _ => return "BADARG".into(),
    };
    let (us, ls) = match (Script::from_bytes(&u), Script::from_bytes(&l)) {
        (Ok(a), Ok(b)) => (a, b),
        _ => return "ERR".into(),
    };
    let mut tx = Transaction::new(1, 0);
    let mut txin = TxIn::new(&[7u8; 32], 1, &us, Some(0xfffffffe));
    txin.set_locking_script(&ls);
    txin.set_satoshis(1000);
    tx.add_input(&txin);
    for k in 0..nout {
        tx.add_output(&TxOut::new(500 + k, &ls));
    }
    let first = match Interpreter::from_transaction(&tx, idx) {
        Ok(i) => i,
        Err(_) => return "ERR".into(),
    };
    let bits = first.script_bits();
    let a = step_vs_run_with(&|| Interpreter::from_transaction(&tx, idx).unwrap());
    let b = step_vs_run_with(&|| Interpreter::from_transaction_and_script_bits(tx.clone(), idx, bits.clone()));
    let f: Vec<&str> = a.split(';').collect();
    let n = f.len();
    if n < 4 || !f[0].starts_with("OK:") {
        return a;
    }
    let so = &f[0][3..];
    let again_ok = (so == "F" && f[n - 3] == "-") || (so == "E" && f[n - 3] == "E1");
    format!("OK:{};{};{};{}", f[n - 2], f[n - 1], if again_ok { 1 } else { 0 }, if a == b { 1 } else { 0 })
}

pub fn run(op: &str, args: &[String]) -> Option<String> {
    if op == "interp.txrun" {
        return Some(do_txrun(args));
    }
    if op == "interp.hist" || op == "interp.histbits" || op == "interp.histtx" || op == "interp.histtxbits" {
        return Some(do_hist(op, args));
    }
    if op == "interp.step_vs_runasm" {
        // the ASM constructor: opcode names become bare ScriptBit::OpCode bits (also OP_PUSHDATA1/2/4)
        return Some(match arg_str(args, 0) {
            None => "BADARG".into(),
            Some(text) => match Script::from_asm_string(&text) {
                Ok(s) => do_step_vs_run(&s),
                Err(_) => "ERR".into(),
            },
        });
    }
    if op == "interp.txsafe" {
        return Some(do_txsafe(args));
    }
    let (src, f): (Src, fn(&Script) -> String) = match op {
        "interp.run" => (Src::Bytes, do_run),
        "interp.runbits" => (Src::Tree, do_run),
        "interp.trace" => (Src::Bytes, do_trace),
        "interp.tracebits" => (Src::Tree, do_trace),
        "interp.step_vs_run" => (Src::Bytes, do_step_vs_run),
        "interp.step_vs_runbits" => (Src::Tree, do_step_vs_run),
        _ => return None,
    };
    Some(match script_of(&src, args) {
        Err(()) => "BADARG".into(),
        Ok(None) => "ERR".into(),
        Ok(Some(s)) => f(&s),
    })
}
