//! bsvdrv — correspondence driver: runs the real `bsv` library on line-oriented cases.
//!
//! usage: bsvdrv <cases-file> <results-file> [start-index]
//! case line:   <id>\t<op>\t<arg>...        result line: <id>\t<OUT>\t<peak-bytes>
//! OUT is what the op module returns ("OK:..." / "ERR"), or "PANIC" when the library panicked.
//! A process abort (stack overflow, allocation failure) ends the run; the orchestrator notices the
//! missing result, records ABORT for that case and restarts the driver at the next index.
use std::alloc::{GlobalAlloc, Layout, System};
use std::io::{BufRead, BufReader, Write};
use std::sync::atomic::{AtomicUsize, Ordering};

pub mod util;
mod ops_c02;
include!("ops_mods.rs");

struct Counting;
static CUR: AtomicUsize = AtomicUsize::new(0);
static PEAK: AtomicUsize = AtomicUsize::new(0);
unsafe impl GlobalAlloc for Counting {
    unsafe fn alloc(&self, l: Layout) -> *mut u8 {
        let p = System.alloc(l);
        if !p.is_null() {
            let c = CUR.fetch_add(l.size(), Ordering::Relaxed) + l.size();
            PEAK.fetch_max(c, Ordering::Relaxed);
        }
        p
    }
    unsafe fn alloc_zeroed(&self, l: Layout) -> *mut u8 {
        let p = System.alloc_zeroed(l);
        if !p.is_null() {
            let c = CUR.fetch_add(l.size(), Ordering::Relaxed) + l.size();
            PEAK.fetch_max(c, Ordering::Relaxed);
        }
        p
    }
    unsafe fn dealloc(&self, p: *mut u8, l: Layout) {
        CUR.fetch_sub(l.size(), Ordering::Relaxed);
        System.dealloc(p, l)
    }
    unsafe fn realloc(&self, p: *mut u8, l: Layout, n: usize) -> *mut u8 {
        let q = System.realloc(p, l, n);
        if !q.is_null() {
            if n >= l.size() {
                let c = CUR.fetch_add(n - l.size(), Ordering::Relaxed) + (n - l.size());
                PEAK.fetch_max(c, Ordering::Relaxed);
            } else {
                CUR.fetch_sub(l.size() - n, Ordering::Relaxed);
            }
        }
        q
    }
}
#[global_allocator]
static A: Counting = Counting;

fn dispatch(op: &str, args: &[String]) -> String {
    if let Some(r) = ops_c02::run(op, args) {
        return r;
    }
    if let Some(r) = dispatch_more(op, args) {
        return r;
    }
    "BADOP".to_string()
}

fn main() {
    let argv: Vec<String> = std::env::args().collect();
    if argv.len() < 3 {
        eprintln!("usage: bsvdrv <cases> <results> [start]");
        std::process::exit(2);
    }
    let start: usize = argv.get(3).and_then(|s| s.parse().ok()).unwrap_or(0);
    std::panic::set_hook(Box::new(|_| {}));
    let f = BufReader::new(std::fs::File::open(&argv[1]).expect("cases file"));
    let mut out = std::fs::OpenOptions::new().create(true).append(true).open(&argv[2]).expect("results file");
    for (i, line) in f.lines().enumerate() {
        let line = line.expect("read line");
        if i < start || line.is_empty() {
            continue;
        }
        let parts: Vec<String> = line.split('\t').map(|s| s.to_string()).collect();
        if parts.len() < 2 {
            continue;
        }
        let id = parts[0].clone();
        let op = parts[1].clone();
        let args: Vec<String> = parts[2..].to_vec();
        // announce the case first so that an abort can be attributed
        writeln!(out, "#start\t{}", id).unwrap();
        out.flush().unwrap();
        // args are expanded inside the op; measure the peak relative to the level before the call
        let base = CUR.load(Ordering::Relaxed);
        PEAK.store(base, Ordering::Relaxed);
        let r = std::panic::catch_unwind(|| dispatch(&op, &args));
        let peak = PEAK.load(Ordering::Relaxed).saturating_sub(base);
        let res = match r {
            Ok(s) => s,
            Err(_) => "PANIC".to_string(),
        };
        writeln!(out, "{}\t{}\t{}", id, res, peak).unwrap();
        out.flush().unwrap();
    }
}
