//! C05 ops: ECDSA signing / verification, ECDH.
//!   key  = 32-byte big-endian secret (descriptor; PrivateKey::from_bytes, Err -> ERR)
//!   comp = 0|1 (PrivateKey::compress_public_key), hash = sha256|sha256d, rk = 0|1 (reverse_k)
//!
//!   ecdsa.sign_det     key comp msg hash rk      -> OK:r;s;hdr;v;lows     v = verify_digest under the signer's own key
//!   ecdsa.sign_message key comp msg              -> OK:r;s;hdr;v;lows     PrivateKey::sign_message, v = Signature::verify_message
//!   ecdsa.sign_k       key comp k msg hash [kc]  -> OK:r;s;hdr;v;lows     k = 32-byte nonce (a PrivateKey)
//!   ecdsa.sign_digest  key comp digest           -> OK:r;s;hdr;v;lows     v = verify_hashbuf
//!   ecdsa.sign_random  key comp msg hash rk ent  -> OK:v;lows;range;rec   behavioural (ent is ignored here: the model's entropy)
//!   ecdsa.sign_verify  key comp msg hash rk key2 comp2 msg2 hash2 -> OK:v   sign with the first, verify with the second
//!   ecdsa.verify_digest  msg pub r s hash        -> OK:v
//!   ecdsa.verify_hashbuf digest pub r s          -> OK:v
//!   ecdsa.verify_der msg pub der hash            -> OK:v   signature object without recovery info (Signature::from_der)
//!   ecdsa.privkey_from_k key comp k kcomp msg hash pubcomp -> OK:<d> | OK:E   sign_with_k, then private_key_from_signature_k
//!   ecdsa.verify_message msg pub r s             -> OK:v   (Signature::verify_message / PublicKey::verify_message / is_valid_message agree)
//!   ecdsa.cross signer key comp msg hash rk aux verifier key2 comp2 msg2 hash2 -> OK:v
//!        signer: det | msg (sign_message) | k (aux = nonce, rk = nonce key marker) | dig (digest of msg under hash) | rnd;
//!        verifier: vd (verify_digest) | vh (verify_hashbuf on hash2(msg2)) | sm (Signature::verify_message) |
//!                  pm (PublicKey::verify_message) | pv (PublicKey::is_valid_message)   (sm/pm/pv are SHA-256 by definition)
//!   ecdh.derive key pub                          -> OK:<shared>
//!   ecdh.pair   key1 comp1 key2 comp2            -> OK:<shared 1->2>;<shared 2->1>
//! hdr = first byte of to_compact_bytes(None) (decimal): the only public view of the recovery info.
//! v: 1 = Ok(true), 0 = Ok(false), E = Err.  ERR = a constructor (key, public key, signature) or the signer returned Err.
use crate::util::*;
use bsv::{PrivateKey, PublicKey, Signature, SigningHash, ECDH, ECDSA};

fn hash_of(s: &str) -> Option<SigningHash> {
    match s {
        "sha256" => Some(SigningHash::Sha256),
        "sha256d" => Some(SigningHash::Sha256d),
        _ => None,
    }
}
fn flag(args: &[String], i: usize) -> Option<bool> {
    match args.get(i).map(|s| s.as_str()) {
        Some("0") => Some(false),
        Some("1") => Some(true),
        _ => None,
    }
}
fn vres<E>(r: Result<bool, E>) -> &'static str {
    match r {
        Ok(true) => "1",
        Ok(false) => "0",
        Err(_) => "E",
    }
}
pub fn key_of(args: &[String], i: usize, ci: usize) -> Option<Result<PrivateKey, ()>> {
    let b = arg_bytes(args, i)?;
    let c = flag(args, ci)?;
    Some(PrivateKey::from_bytes(&b).map(|k| k.compress_public_key(c)).map_err(|_| ()))
}
pub fn sig_fields(sig: &Signature) -> String {
    let c = sig.to_compact_bytes(None);
    // the four accessors must agree with each other and with the compact form (fixed-width 32-byte fields)
    if sig.r_hex() != hex::encode(sig.r()) || sig.s_hex() != hex::encode(sig.s()) || c.len() != 65 || c[1..33] != sig.r()[..] || c[33..65] != sig.s()[..] {
        return "INCONSISTENT;;".into();
    }
    format!("{};{};{}", hex::encode(sig.r()), hex::encode(sig.s()), c[0])
}
/// a Signature with the given scalars (no particular recovery info): via the compact form
fn lows(sig: &Signature) -> u8 {
    (sig.s().as_slice() <= &HALF_N[..]) as u8
}
pub fn sig_of(r: &[u8], s: &[u8]) -> Result<Signature, ()> {
    let mut c = vec![27u8];
    c.extend_from_slice(r);
    c.extend_from_slice(s);
    Signature::from_compact_bytes(&c).map_err(|_| ())
}
const HALF_N: [u8; 32] = [
    0x7f, 0xff, 0xff, 0xff, 0xff, 0xff, 0xff, 0xff, 0xff, 0xff, 0xff, 0xff, 0xff, 0xff, 0xff, 0xff, 0x5d, 0x57, 0x6e, 0x73, 0x57, 0xa4, 0x50, 0x1d,
    0xdf, 0xe9, 0x2f, 0x46, 0x68, 0x1b, 0x20, 0xa0,
];
const ORDER: [u8; 32] = [
    0xff, 0xff, 0xff, 0xff, 0xff, 0xff, 0xff, 0xff, 0xff, 0xff, 0xff, 0xff, 0xff, 0xff, 0xff, 0xfe, 0xba, 0xae, 0xdc, 0xe6, 0xaf, 0x48, 0xa0, 0x3b,
    0xbf, 0xd2, 0x5e, 0x8c, 0xd0, 0x36, 0x41, 0x41,
];

fn digest_of(h: SigningHash, msg: &[u8]) -> Vec<u8> {
    match h {
        SigningHash::Sha256 => bsv::Hash::sha_256(msg).to_bytes(),
        SigningHash::Sha256d => bsv::Hash::sha_256d(msg).to_bytes(),
    }
}
/// One of the five ways a signature is produced, shared by ecdsa.cross (C05) and sig.cross (C06).
/// args[i..i+7] = signer key comp msg hash rk aux;  signer: det | msg | k (aux = nonce) | dig | rnd (aux = model entropy, ignored)
/// Returns (signing key, signature, the hash choice the signature is over).  None = BADARG, Some(Err) = ERR.
pub fn produce(args: &[String], i: usize) -> Option<Result<(PrivateKey, Signature, SigningHash), ()>> {
    let signer = args.get(i)?.as_str();
    let key = match key_of(args, i + 1, i + 2)? {
        Ok(k) => k,
        Err(_) => {
            // still validate the remaining arguments so that BADARG does not depend on the key
            arg_bytes(args, i + 3)?;
            args.get(i + 4).and_then(|s| hash_of(s))?;
            flag(args, i + 5)?;
            arg_bytes(args, i + 6)?;
            return Some(Err(()));
        }
    };
    let msg = arg_bytes(args, i + 3)?;
    let h = args.get(i + 4).and_then(|s| hash_of(s))?;
    let rk = flag(args, i + 5)?;
    let aux = arg_bytes(args, i + 6)?;
    let r = match signer {
        "det" => ECDSA::sign_with_deterministic_k(&key, &msg, h, rk).map(|s| (s, h)),
        "msg" => key.sign_message(&msg).map(|s| (s, SigningHash::Sha256)),
        "k" => match PrivateKey::from_bytes(&aux) {
            Ok(e) => ECDSA::sign_with_k(&key, &e.compress_public_key(rk), &msg, h).map(|s| (s, h)),
            Err(_) => return Some(Err(())),
        },
        "dig" => ECDSA::sign_digest_with_deterministic_k(&key, &digest_of(h, &msg)).map(|s| (s, h)),
        "rnd" => ECDSA::sign_with_random_k(&key, &msg, h, rk).map(|s| (s, h)),
        _ => return None,
    };
    Some(match r {
        Ok((s, hh)) => Ok((key, s, hh)),
        Err(_) => Err(()),
    })
}
pub fn digest_for(h: SigningHash, msg: &[u8]) -> Vec<u8> {
    digest_of(h, msg)
}

macro_rules! some {
    ($e:expr) => {
        match $e {
            Some(x) => x,
            None => return Some("BADARG".into()),
        }
    };
}
macro_rules! okk {
    ($e:expr) => {
        match $e {
            Ok(x) => x,
            Err(_) => return Some("ERR".into()),
        }
    };
}

pub fn run(op: &str, args: &[String]) -> Option<String> {
    Some(match op {
        "ecdsa.sign_det" => {
            let key = okk!(some!(key_of(args, 0, 1)));
            let msg = some!(arg_bytes(args, 2));
            let h = some!(args.get(3).and_then(|s| hash_of(s)));
            let rk = some!(flag(args, 4));
            let sig = okk!(ECDSA::sign_with_deterministic_k(&key, &msg, h, rk));
            let sig2 = okk!(ECDSA::sign_with_deterministic_k(&key, &msg, h, rk));
            if sig != sig2 {
                return Some("NONDETERMINISTIC".into());
            }
            let pk = okk!(key.to_public_key());
            format!("OK:{};{};{}", sig_fields(&sig), vres(ECDSA::verify_digest(&msg, &pk, &sig, h)), lows(&sig))
        }
        "ecdsa.sign_message" => {
            let key = okk!(some!(key_of(args, 0, 1)));
            let msg = some!(arg_bytes(args, 2));
            let sig = okk!(key.sign_message(&msg));
            let pk = okk!(key.to_public_key());
            let v = sig.verify_message(&msg, &pk);
            format!("OK:{};{};{}", sig_fields(&sig), if v { "1" } else { "0" }, lows(&sig))
        }
        "ecdsa.sign_k" => {
            let key = okk!(some!(key_of(args, 0, 1)));
            let kc = if args.len() > 5 { some!(flag(args, 5)) } else { true };
            let k = okk!(PrivateKey::from_bytes(&some!(arg_bytes(args, 2)))).compress_public_key(kc);
            let msg = some!(arg_bytes(args, 3));
            let h = some!(args.get(4).and_then(|s| hash_of(s)));
            let sig = okk!(ECDSA::sign_with_k(&key, &k, &msg, h));
            let pk = okk!(key.to_public_key());
            format!("OK:{};{};{}", sig_fields(&sig), vres(ECDSA::verify_digest(&msg, &pk, &sig, h)), lows(&sig))
        }
        "ecdsa.sign_digest" => {
            let key = okk!(some!(key_of(args, 0, 1)));
            let digest = some!(arg_bytes(args, 2));
            let sig = okk!(ECDSA::sign_digest_with_deterministic_k(&key, &digest));
            let pk = okk!(key.to_public_key());
            format!("OK:{};{};{}", sig_fields(&sig), vres(ECDSA::verify_hashbuf(&digest, &pk, &sig)), lows(&sig))
        }
        "ecdsa.sign_random" => {
            let key = okk!(some!(key_of(args, 0, 1)));
            let msg = some!(arg_bytes(args, 2));
            let h = some!(args.get(3).and_then(|s| hash_of(s)));
            let rk = some!(flag(args, 4));
            let _ = some!(arg_bytes(args, 5));
            let sig = okk!(ECDSA::sign_with_random_k(&key, &msg, h, rk));
            let pk = okk!(key.to_public_key());
            let v = vres(ECDSA::verify_digest(&msg, &pk, &sig, h));
            let (r, s) = (sig.r(), sig.s());
            let zero = [0u8; 32];
            let lows = s.as_slice() <= &HALF_N[..];
            let range = r.as_slice() > &zero[..] && r.as_slice() < &ORDER[..] && s.as_slice() > &zero[..] && s.as_slice() < &ORDER[..];
            // the recorded recovery info must lead back to the signer's key in the signer's compression form
            let rec = match sig.recover_public_key(&msg, h) {
                Ok(p) => {
                    if p.to_bytes().ok() == pk.to_bytes().ok() {
                        "1"
                    } else {
                        "0"
                    }
                }
                Err(_) => "E",
            };
            format!("OK:{};{};{};{}", v, lows as u8, range as u8, rec)
        }
        "ecdsa.sign_verify" => {
            let key = okk!(some!(key_of(args, 0, 1)));
            let msg = some!(arg_bytes(args, 2));
            let h = some!(args.get(3).and_then(|s| hash_of(s)));
            let rk = some!(flag(args, 4));
            let key2 = okk!(some!(key_of(args, 5, 6)));
            let msg2 = some!(arg_bytes(args, 7));
            let h2 = some!(args.get(8).and_then(|s| hash_of(s)));
            let sig = okk!(ECDSA::sign_with_deterministic_k(&key, &msg, h, rk));
            let pk2 = okk!(key2.to_public_key());
            format!("OK:{}", vres(ECDSA::verify_digest(&msg2, &pk2, &sig, h2)))
        }
        "ecdsa.verify_digest" | "ecdsa.verify_message" => {
            let msg = some!(arg_bytes(args, 0));
            let pk = okk!(PublicKey::from_bytes(&some!(arg_bytes(args, 1))));
            let sig = okk!(sig_of(&some!(arg_bytes(args, 2)), &some!(arg_bytes(args, 3))));
            if op == "ecdsa.verify_digest" {
                let h = some!(args.get(4).and_then(|s| hash_of(s)));
                format!("OK:{}", vres(ECDSA::verify_digest(&msg, &pk, &sig, h)))
            } else {
                let a = sig.verify_message(&msg, &pk);
                let b = pk.is_valid_message(&msg, &sig);
                let c = pk.verify_message(&msg, &sig);
                let c1 = matches!(c, Ok(true));
                if a != b || a != c1 {
                    return Some("INCONSISTENT".into());
                }
                format!("OK:{}", vres(c))
            }
        }
        "ecdsa.verify_hashbuf" => {
            let digest = some!(arg_bytes(args, 0));
            let pk = okk!(PublicKey::from_bytes(&some!(arg_bytes(args, 1))));
            let sig = okk!(sig_of(&some!(arg_bytes(args, 2)), &some!(arg_bytes(args, 3))));
            format!("OK:{}", vres(ECDSA::verify_hashbuf(&digest, &pk, &sig)))
        }
        "ecdsa.verify_der" => {
            // a signature object WITHOUT recovery info (parsed from DER)
            let msg = some!(arg_bytes(args, 0));
            let pk = okk!(PublicKey::from_bytes(&some!(arg_bytes(args, 1))));
            let sig = okk!(Signature::from_der(&some!(arg_bytes(args, 2))));
            let h = some!(args.get(3).and_then(|s| hash_of(s)));
            let v = ECDSA::verify_digest(&msg, &pk, &sig, h);
            if matches!(h, SigningHash::Sha256) && (matches!(v, Ok(true)) != sig.verify_message(&msg, &pk) || matches!(v, Ok(true)) != pk.is_valid_message(&msg, &sig)) {
                return Some("INCONSISTENT".into());
            }
            format!("OK:{}", vres(v))
        }
        "ecdsa.privkey_from_k" => {
            // sign_with_k, then ECDSA::private_key_from_signature_k with the signer's public key in the form `pubcomp`
            let key = okk!(some!(key_of(args, 0, 1)));
            let k = okk!(some!(key_of(args, 2, 3)));
            let msg = some!(arg_bytes(args, 4));
            let h = some!(args.get(5).and_then(|s| hash_of(s)));
            let pc = some!(flag(args, 6));
            let sig = okk!(ECDSA::sign_with_k(&key, &k, &msg, h));
            let pk = okk!(key.compress_public_key(pc).to_public_key());
            match ECDSA::private_key_from_signature_k(&sig, &pk, &k, &msg, h) {
                Ok(p) => format!("OK:{}", hex::encode(p.to_bytes())),
                Err(_) => "OK:E".into(),
            }
        }
        "ecdsa.cross" => {
            // <7 production args> verifier key2 comp2 msg2 hash2
            let (_key, sig, _h) = okk!(some!(produce(args, 0)));
            let verifier = some!(args.get(7)).as_str();
            let key2 = okk!(some!(key_of(args, 8, 9)));
            let msg2 = some!(arg_bytes(args, 10));
            let h2 = some!(args.get(11).and_then(|s| hash_of(s)));
            let pk2 = okk!(key2.to_public_key());
            let b = |x: bool| if x { "1" } else { "0" };
            match verifier {
                "vd" => format!("OK:{}", vres(ECDSA::verify_digest(&msg2, &pk2, &sig, h2))),
                "vh" => format!("OK:{}", vres(ECDSA::verify_hashbuf(&digest_of(h2, &msg2), &pk2, &sig))),
                "sm" => format!("OK:{}", b(sig.verify_message(&msg2, &pk2))),
                "pm" => format!("OK:{}", vres(pk2.verify_message(&msg2, &sig))),
                "pv" => format!("OK:{}", b(pk2.is_valid_message(&msg2, &sig))),
                _ => return Some("BADARG".into()),
            }
        }
        "ecdh.derive" => {
            let key = okk!(PrivateKey::from_bytes(&some!(arg_bytes(args, 0))));
            let pk = okk!(PublicKey::from_bytes(&some!(arg_bytes(args, 1))));
            format!("OK:{}", show_bytes(&okk!(ECDH::derive_shared_key(&key, &pk))))
        }
        "ecdh.pair" => {
            let k1 = okk!(some!(key_of(args, 0, 1)));
            let k2 = okk!(some!(key_of(args, 2, 3)));
            let p1 = okk!(k1.to_public_key());
            let p2 = okk!(k2.to_public_key());
            let a = okk!(ECDH::derive_shared_key(&k1, &p2));
            let b = okk!(ECDH::derive_shared_key(&k2, &p1));
            format!("OK:{};{}", show_bytes(&a), show_bytes(&b))
        }
        _ => return None,
    })
}
