//! C09 ops: every public decoder on arbitrary input.  `dec.<name>` returns only the outcome class
//! (OK / ERR); PANIC and ABORT are produced by main.rs / the orchestrator; the allocator peak is measured by main.rs.
//! `sample.<name> <seed>` returns a valid encoding (as hex) produced by the library itself, used by the generator as
//! mutation seed.  Text arguments travel as hex of their bytes; non-UTF-8 bytes are passed through
//! `String::from_utf8_lossy` (a decoder taking &str can only ever receive valid UTF-8).
use crate::util::*;
use bsv::*;

fn cls<T, E>(r: Result<T, E>) -> String {
    match r {
        Ok(_) => "OK".into(),
        Err(_) => "ERR".into(),
    }
}
fn text(args: &[String], i: usize) -> Option<String> {
    arg_bytes(args, i).map(|b| String::from_utf8_lossy(&b).into_owned())
}
/// what every caller does with a decoded public key: verify a signature against it (message, digest and
/// Signature-side entry points), encrypt to it.  None of it may panic, whatever bytes the decoder let through.
fn use_pubkey(k: &PublicKey) {
    let k0 = key_from_seed(1);
    if let Ok(sig) = ECDSA::sign_with_deterministic_k(&k0, b"use", SigningHash::Sha256, false) {
        let _ = ECDSA::verify_digest(b"use", k, &sig, SigningHash::Sha256);
        let _ = ECDSA::verify_hashbuf(&[7u8; 32], k, &sig);
        let _ = k.is_valid_message(b"use", &sig);
        let _ = sig.verify_message(b"use", k);
    }
    let _ = k.encrypt_message(b"use", &k0);
}
fn key_from_seed(seed: u64) -> PrivateKey {
    // deterministic valid private key from a seed
    let mut b = [0u8; 32];
    let mut x = seed.wrapping_mul(6364136223846793005).wrapping_add(1442695040888963407);
    for i in 0..32 {
        x = x.wrapping_mul(6364136223846793005).wrapping_add(1442695040888963407);
        b[i] = (x >> 33) as u8;
    }
    b[0] &= 0x7f;
    b[31] |= 1;
    PrivateKey::from_bytes(&b).unwrap()
}
fn algo(name: &str) -> Option<AESAlgorithms> {
    Some(match name {
        "128cbc" => AESAlgorithms::AES128_CBC,
        "256cbc" => AESAlgorithms::AES256_CBC,
        "128ctr" => AESAlgorithms::AES128_CTR,
        "256ctr" => AESAlgorithms::AES256_CTR,
        _ => return None,
    })
}

pub fn run(op: &str, args: &[String]) -> Option<String> {
    if let Some(name) = op.strip_prefix("dec.") {
        let bad = || Some("BADARG".to_string());
        return Some(match name {
            "tx" => cls(Transaction::from_bytes(&arg_bytes(args, 0)?)),
            "tx_hex" => cls(Transaction::from_hex(&text(args, 0)?)),
            "txin" => cls(TxIn::from_hex(&hex::encode(arg_bytes(args, 0)?))),
            "txin_hex" => cls(TxIn::from_hex(&text(args, 0)?)),
            "txout" => cls(TxOut::from_hex(&hex::encode(arg_bytes(args, 0)?))),
            "txout_hex" => cls(TxOut::from_hex(&text(args, 0)?)),
            "outpoint" => cls(TxIn::from_outpoint_bytes(&arg_bytes(args, 0)?)),
            "script" => cls(Script::from_bytes(&arg_bytes(args, 0)?)),
            "script_hex" => cls(Script::from_hex(&text(args, 0)?)),
            "asm" => cls(Script::from_asm_string(&text(args, 0)?)),
            "template" => cls(ScriptTemplate::from_asm_string(&text(args, 0)?)),
            "wif" => cls(PrivateKey::from_wif(&text(args, 0)?)),
            "privhex" => cls(PrivateKey::from_hex(&text(args, 0)?)),
            "privbytes" => cls(PrivateKey::from_bytes(&arg_bytes(args, 0)?)),
            "pub" => match PublicKey::from_bytes(&arg_bytes(args, 0)?) {
                // a decoded key must also survive the conversions every caller performs
                Ok(k) => {
                    let _ = k.to_compressed().and_then(|c| c.to_bytes());
                    let _ = k.to_decompressed().and_then(|c| c.to_bytes());
                    let _ = k.to_p2pkh_address();
                    use_pubkey(&k);
                    "OK".into()
                }
                Err(_) => "ERR".into(),
            },
            "pubhex" => match PublicKey::from_hex(&text(args, 0)?) {
                Ok(k) => {
                    use_pubkey(&k);
                    "OK".into()
                }
                Err(_) => "ERR".into(),
            },
            "xprv" => cls(ExtendedPrivateKey::from_string(&text(args, 0)?)),
            "xpub" => cls(ExtendedPublicKey::from_string(&text(args, 0)?)),
            "addr" => cls(P2PKHAddress::from_string(&text(args, 0)?)),
            "der" => cls(Signature::from_der(&arg_bytes(args, 0)?)),
            "derhex" => cls(Signature::from_hex_der(&text(args, 0)?)),
            "compact" => cls(Signature::from_compact_bytes(&arg_bytes(args, 0)?)),
            "sighashsig" => cls(SighashSignature::from_bytes(&arg_bytes(args, 0)?, &arg_bytes(args, 1).unwrap_or_default())),
            "ecies" => {
                let has = args.get(1).map(|s| s == "1").unwrap_or(true);
                match ECIESCiphertext::from_bytes(&arg_bytes(args, 0)?, has) {
                    Ok(c) => {
                        let _ = c.extract_public_key();
                        let _ = c.to_bytes();
                        // decrypting a parsed ciphertext must not panic either
                        let k = key_from_seed(7);
                        let _ = ECIES::decrypt(&c, &k, &PublicKey::from_private_key(&key_from_seed(8)));
                        "OK".into()
                    }
                    Err(_) => "ERR".into(),
                }
            }
            "json_tx" => cls(Transaction::from_json_string(&text(args, 0)?)),
            "cbor_tx" => cls(Transaction::from_compact_bytes(&arg_bytes(args, 0)?)),
            "cbor_tx_hex" => cls(Transaction::from_compact_hex(&text(args, 0)?)),
            "cbor_txin" => cls(TxIn::from_compact_bytes(&arg_bytes(args, 0)?)),
            "aes_enc" => {
                let a = match args.get(0).and_then(|s| algo(s)) {
                    Some(a) => a,
                    None => return bad(),
                };
                cls(AES::encrypt(&arg_bytes(args, 1)?, &arg_bytes(args, 2)?, &arg_bytes(args, 3)?, a))
            }
            "aes_dec" => {
                let a = match args.get(0).and_then(|s| algo(s)) {
                    Some(a) => a,
                    None => return bad(),
                };
                cls(AES::decrypt(&arg_bytes(args, 1)?, &arg_bytes(args, 2)?, &arg_bytes(args, 3)?, a))
            }
            "verify_hashbuf" => {
                let k = key_from_seed(3);
                let sig = ECDSA::sign_with_deterministic_k(&k, b"m", SigningHash::Sha256, false).unwrap();
                cls(ECDSA::verify_hashbuf(&arg_bytes(args, 0)?, &PublicKey::from_private_key(&k), &sig))
            }
            "sign_digest" => cls(ECDSA::sign_digest_with_deterministic_k(&key_from_seed(3), &arg_bytes(args, 0)?)),
            "recover_digest" => {
                let k = key_from_seed(3);
                let sig = BSM::sign_message(&k, b"m").unwrap();
                cls(sig.recover_public_key_from_digest(&arg_bytes(args, 0)?))
            }
            "getpub_digest" => {
                // the inner public method behind recover_public_key_from_digest
                let sig = BSM::sign_message(&key_from_seed(3), b"m").unwrap();
                cls(sig.get_public_key_from_digest(&arg_bytes(args, 0)?))
            }
            "getpub_msg" => {
                let sig = BSM::sign_message(&key_from_seed(3), b"m").unwrap();
                let _ = sig.get_public_key(&arg_bytes(args, 0)?, SigningHash::Sha256d);
                cls(sig.get_public_key(&arg_bytes(args, 0)?, SigningHash::Sha256))
            }
            "coinbase_script" => match Script::from_coinbase_bytes(&arg_bytes(args, 0)?) {
                Ok(sc) => {
                    let _ = sc.to_bytes();
                    let _ = sc.to_asm_string();
                    let _ = sc.get_script_length();
                    "OK".into()
                }
                Err(_) => "ERR".into(),
            },
            "mnemonic" => cls(ExtendedPrivateKey::from_mnemonic(&arg_bytes(args, 0)?, arg_bytes(args, 1))),
            "outpoint_txin" => match TxIn::from_outpoint_bytes(&arg_bytes(args, 0)?) {
                Ok(i) => {
                    let _ = i.to_bytes();
                    let _ = i.get_outpoint_bytes(Some(true));
                    "OK".into()
                }
                Err(_) => "ERR".into(),
            },
            "prev_txid" => {
                // a transaction id of any length handed to the constructor / setter, then every reader of it
                let b = arg_bytes(args, 0)?;
                let mut i = TxIn::new(&b, 1, &Script::default(), None);
                let _ = i.to_bytes();
                let _ = i.get_outpoint_bytes(Some(true));
                let _ = i.get_outpoint_bytes(None);
                let _ = i.get_prev_tx_id(Some(true));
                i.set_prev_tx_id(&b);
                let _ = i.to_hex();
                let _ = i.is_coinbase();
                "OK".into()
            }
            "bsm_verify" => {
                // message of any length against a fixed signature through the address entry points
                let k = key_from_seed(3);
                let sig = BSM::sign_message(&k, b"m").unwrap();
                let addr = P2PKHAddress::from_pubkey(&PublicKey::from_private_key(&k)).unwrap();
                let _ = addr.is_valid_bitcoin_message(&arg_bytes(args, 0)?, &sig);
                cls(addr.verify_bitcoin_message(&arg_bytes(args, 0)?, &sig))
            }
            "key_from_k" => {
                let k = key_from_seed(3);
                let e = key_from_seed(4);
                let pre = arg_bytes(args, 0)?;
                match ECDSA::sign_with_k(&k, &e, &pre, SigningHash::Sha256d) {
                    Ok(sig) => cls(ECDSA::private_key_from_signature_k(&sig, &PublicKey::from_private_key(&k), &e, &pre, SigningHash::Sha256d)),
                    Err(_) => "ERR".into(),
                }
            }
            "cbor_txin_hex" => cls(TxIn::from_compact_hex(&text(args, 0)?)),
            "pubkey_hash" => cls(P2PKHAddress::from_pubkey_hash(&arg_bytes(args, 0)?)),
            "seed_xprv" => cls(ExtendedPrivateKey::from_seed(&arg_bytes(args, 0)?)),
            "seed_xpub" => cls(ExtendedPublicKey::from_seed(&arg_bytes(args, 0)?)),
            "path_xprv" => {
                let x = ExtendedPrivateKey::from_seed(&[7u8; 32]).unwrap();
                cls(x.derive_from_path(&text(args, 0)?))
            }
            "path_xpub" => {
                let x = ExtendedPublicKey::from_seed(&[7u8; 32]).unwrap();
                cls(x.derive_from_path(&text(args, 0)?))
            }
            "chunks" => {
                // Script::from_chunks: the argument is split into chunks of 1..4 bytes
                let b = arg_bytes(args, 0)?;
                let chunks: Vec<Vec<u8>> = b.chunks(3).map(|c| c.to_vec()).collect();
                cls(Script::from_chunks(chunks))
            }
            "template_of_script" => match Script::from_bytes(&arg_bytes(args, 0)?) {
                Ok(sc) => {
                    let _ = ScriptTemplate::from_script(&sc);
                    "OK".into()
                }
                Err(_) => "ERR".into(),
            },
            "interp_tx" => match Transaction::from_bytes(&arg_bytes(args, 0)?) {
                // a parsed transaction handed to the interpreter constructor at an arbitrary index
                Ok(tx) => {
                    let idx = arg_u64(args, 1).unwrap_or(0) as usize;
                    match Interpreter::from_transaction(&tx, idx) {
                        Ok(mut i) => {
                            let _ = i.run();
                            "OK".into()
                        }
                        Err(_) => "ERR".into(),
                    }
                }
                Err(_) => "ERR".into(),
            },
            "ecies_decrypt_msg" => match ECIESCiphertext::from_bytes(&arg_bytes(args, 0)?, true) {
                Ok(c) => {
                    let k = key_from_seed(7);
                    match c.extract_public_key() {
                        Ok(pk) => cls(k.decrypt_message(&c, &pk)),
                        Err(_) => "ERR".into(),
                    }
                }
                Err(_) => "ERR".into(),
            },
            "recover_digest2" => match Signature::from_compact_bytes(&arg_bytes(args, 0)?) {
                // arbitrary compact signature + arbitrary digest
                Ok(s) => cls(s.recover_public_key_from_digest(&arg_bytes(args, 1)?)),
                Err(_) => "ERR".into(),
            },
            "recover_msg2" => match Signature::from_compact_bytes(&arg_bytes(args, 0)?) {
                Ok(s) => {
                    let m = arg_bytes(args, 1)?;
                    let _ = s.recover_public_key(&m, SigningHash::Sha256);
                    cls(s.recover_public_key(&m, SigningHash::Sha256d))
                }
                Err(_) => "ERR".into(),
            },
            "compact_recover" => match Signature::from_compact_bytes(&arg_bytes(args, 0)?) {
                Ok(s) => {
                    let _ = s.recover_public_key(b"msg", SigningHash::Sha256d);
                    let _ = s.to_der_bytes();
                    let _ = s.to_compact_bytes(None);
                    "OK".into()
                }
                Err(_) => "ERR".into(),
            },
            _ => return None,
        });
    }
    if let Some(name) = op.strip_prefix("sample.") {
        let seed = arg_u64(args, 0).unwrap_or(1);
        let k = key_from_seed(seed);
        let pk = PublicKey::from_private_key(&k);
        let out: Vec<u8> = match name {
            "wif" => k.compress_public_key(seed % 2 == 0).to_wif().ok()?.into_bytes(),
            "privhex" => k.to_hex().into_bytes(),
            "pub" => {
                if seed % 2 == 0 {
                    pk.to_compressed().ok()?.to_bytes().ok()?
                } else {
                    pk.to_decompressed().ok()?.to_bytes().ok()?
                }
            }
            "addr" => pk.to_p2pkh_address().ok()?.to_string().ok()?.into_bytes(),
            "xprv" => {
                let x = ExtendedPrivateKey::from_seed(&seed.to_le_bytes().repeat(4)).ok()?;
                let x = if seed % 3 == 0 { x.derive(seed as u32).ok()? } else { x };
                x.to_string().ok()?.into_bytes()
            }
            "xpub" => {
                let x = ExtendedPrivateKey::from_seed(&seed.to_le_bytes().repeat(4)).ok()?;
                ExtendedPublicKey::from_xpriv(&x).to_string().ok()?.into_bytes()
            }
            "der" => ECDSA::sign_with_deterministic_k(&k, &seed.to_le_bytes(), SigningHash::Sha256d, false).ok()?.to_der_bytes(),
            "compact" => BSM::sign_message(&k, &seed.to_le_bytes()).ok()?.to_compact_bytes(None),
            "sighashsig" => {
                let mut d = ECDSA::sign_with_deterministic_k(&k, &seed.to_le_bytes(), SigningHash::Sha256d, false).ok()?.to_der_bytes();
                d.push(0x41);
                d
            }
            "ecies" => ECIES::encrypt(&seed.to_le_bytes().repeat((seed % 5) as usize), &k, &PublicKey::from_private_key(&key_from_seed(seed + 1)), false).ok()?.to_bytes(),
            "ecies_nopk" => ECIES::encrypt(&seed.to_le_bytes().repeat((seed % 5) as usize), &k, &PublicKey::from_private_key(&key_from_seed(seed + 1)), true).ok()?.to_bytes(),
            "json_tx" | "cbor_tx" | "cbor_txin" => {
                let tx = Transaction::from_hex(match seed % 2 {
                    0 => "01000000029e8d016a7b0dc49a325922d05da1f916d1e4d4f0cb840c9727f3d22ce8d1363f000000008c493046022100e9318720bee5425378b4763b0427158b1051eec8b08442ce3fbfbf7b30202a44022100d4172239ebd701dae2fbaaccd9f038e7ca166707333427e3fb2a2865b19a7f27014104510c67f46d2cbb29476d1f0b794be4cb549ea59ab9cc1e731969a7bf5be95f7ad5e7f904e5ccf50a9dc1714df00fbeb794aa27aaff33260c1032d931a75c56f2ffffffffa3195e7a1ab665473ff717814f6881485dc8759bebe97e31c301ffe7933a656f020000008b48304502201c282f35f3e02a1f32d2089265ad4b561f07ea3c288169dedcf2f785e6065efa022100e8db18aadacb382eed13ee04708f00ba0a9c40e3b21cf91da8859d0f7d99e0c50141042b409e1ebbb43875be5edde9c452c82c01e3903d38fa4fd89f3887a52cb8aea9dc8aec7e2c9d5b3609c03eb16259a2537135a1bf0f9c5fbbcbdbaf83ba402442ffffffff02206b1000000000001976a91420bb5c3bfaef0231dc05190e7f1c8e22e098991e88acf0ca0100000000001976a9149e3e2d23973a04ec1b02be97c30ab9f2f27c3b2c88ac00000000",
                    _ => "01000000010000000000000000000000000000000000000000000000000000000000000000ffffffff4d04ffff001d0104455468652054696d65732030332f4a616e2f32303039204368616e63656c6c6f72206f6e206272696e6b206f66207365636f6e64206261696c6f757420666f722062616e6b73ffffffff0100f2052a01000000434104678afdb0fe5548271967f1a67130b7105cd6a828e03909a67962e0ea1f61deb649f6bc3f4cef38c4f35504e51ec112de5c384df7ba0b8d578a4c702b6bf11d5fac00000000",
                })
                .ok()?;
                match name {
                    "json_tx" => tx.to_json_string().ok()?.into_bytes(),
                    "cbor_tx" => tx.to_compact_bytes().ok()?,
                    _ => tx.get_input(0)?.to_compact_bytes().ok()?,
                }
            }
            _ => return None,
        };
        return Some(format!("OK:{}", hex::encode(out)));
    }
    None
}
