//! C04 op: tx.history — a sequence of mutation / sighash calls on one Transaction value; after every step the
//! preimage (if any), the serialisation, the preimage of a fresh from_bytes(to_bytes()) copy and the three
//! memoised hashes (hook `verif_hash_cache`, --cfg bsv_verif) are reported.  Format: see coq/Run/Exec_C04.v.
use crate::util::*;
use bsv::{Script, SigHash, Transaction, TxIn, TxOut};
use std::convert::TryFrom;

fn ck(b: &[u8]) -> String {
    let (mut a, mut c): (u64, u64) = (1, 0);
    for x in b {
        a = (a + *x as u64) % 65521;
        c = (c + a) % 65521;
    }
    format!("{}:{}", b.len(), c * 65536 + a)
}

fn slot(o: &Option<Vec<u8>>) -> String {
    match o {
        None => "-".into(),
        Some(h) => hex::encode(h),
    }
}

enum Op {
    In(u8, usize, TxIn),
    Out(u8, usize, TxOut),
    Ver(u32),
    Lock(u32),
    Clone,
    Sig(SigHash, usize, Script, u64),
}

fn num<T: std::str::FromStr>(s: &str) -> Option<T> {
    s.parse().ok()
}

fn parse_in(f: &[&str]) -> Option<TxIn> {
    let id = expand(f[0])?;
    let vout: u32 = num(f[1])?;
    let scr = Script::from_bytes(&expand(f[2])?).ok()?;
    let seq: u32 = num(f[3])?;
    Some(TxIn::new(&id, vout, &scr, Some(seq)))
}

fn parse_out(f: &[&str]) -> Option<TxOut> {
    let v: u64 = num(f[0])?;
    let scr = Script::from_bytes(&expand(f[1])?).ok()?;
    Some(TxOut::new(v, &scr))
}

fn parse_op(s: &str) -> Option<Op> {
    let f: Vec<&str> = s.split('.').collect();
    Some(match (f[0], f.len()) {
        ("ai", 5) => Op::In(0, 0, parse_in(&f[1..])?),
        ("pi", 5) => Op::In(1, 0, parse_in(&f[1..])?),
        ("ii", 6) => Op::In(2, num::<u64>(f[1])? as usize, parse_in(&f[2..])?),
        ("si", 6) => Op::In(3, num::<u64>(f[1])? as usize, parse_in(&f[2..])?),
        ("ao", 3) => Op::Out(0, 0, parse_out(&f[1..])?),
        ("po", 3) => Op::Out(1, 0, parse_out(&f[1..])?),
        ("io", 4) => Op::Out(2, num::<u64>(f[1])? as usize, parse_out(&f[2..])?),
        ("so", 4) => Op::Out(3, num::<u64>(f[1])? as usize, parse_out(&f[2..])?),
        ("sv", 2) => Op::Ver(num(f[1])?),
        ("sl", 2) => Op::Lock(num(f[1])?),
        ("cl", 1) => Op::Clone,
        ("sh", 5) => {
            let fl: u64 = num(f[1])?;
            if fl > 255 {
                return None;
            }
            let flag = SigHash::try_from(fl as u8).ok()?;
            Op::Sig(flag, num::<u64>(f[2])? as usize, Script::from_bytes(&expand(f[3])?).ok()?, num(f[4])?)
        }
        _ => return None,
    })
}

pub fn run(op: &str, args: &[String]) -> Option<String> {
    if op != "tx.history" {
        return None;
    }
    let txb = match arg_bytes(args, 0) {
        Some(b) => b,
        None => return Some("BADARG".into()),
    };
    let opstr = match args.get(1) {
        Some(s) => s.clone(),
        None => return Some("BADARG".into()),
    };
    let mut tx = match Transaction::from_bytes(&txb) {
        Ok(t) => t,
        Err(_) => return Some("ERR".into()),
    };
    let mut ops = Vec::new();
    if !opstr.is_empty() {
        for s in opstr.split('_') {
            match parse_op(s) {
                Some(o) => ops.push(o),
                None => return Some("BADARG".into()),
            }
        }
    }
    let mut fields: Vec<String> = Vec::new();
    for o in ops {
        let mut pre = "n".to_string();
        let mut fresh = "n".to_string();
        let mut sig_args = None;
        match o {
            Op::In(0, _, i) => tx.add_input(&i),
            Op::In(1, _, i) => tx.prepend_input(&i),
            Op::In(2, k, i) => tx.insert_input(k, &i),
            Op::In(_, k, i) => tx.set_input(k, &i),
            Op::Out(0, _, x) => tx.add_output(&x),
            Op::Out(1, _, x) => tx.prepend_output(&x),
            Op::Out(2, k, x) => tx.insert_output(k, &x),
            Op::Out(_, k, x) => tx.set_output(k, &x),
            Op::Ver(v) => {
                tx.set_version(v);
            }
            Op::Lock(v) => {
                tx.set_nlocktime(v);
            }
            Op::Clone => {
                let c = tx.clone();
                tx = c;
            }
            Op::Sig(flag, idx, sub, value) => {
                pre = match tx.sighash_preimage(flag, idx, &sub, value) {
                    Ok(p) => ck(&p),
                    Err(_) => "E".into(),
                };
                sig_args = Some((flag, idx, sub, value));
            }
        }
        let ser = match tx.to_bytes() {
            Ok(b) => b,
            Err(_) => return Some("ERR".into()),
        };
        if let Some((flag, idx, sub, value)) = sig_args {
            fresh = match Transaction::from_bytes(&ser) {
                Ok(mut t2) => match t2.sighash_preimage(flag, idx, &sub, value) {
                    Ok(p) => ck(&p),
                    Err(_) => "E".into(),
                },
                Err(_) => "X".into(),
            };
        }
        let c = tx.verif_hash_cache();
        fields.push(format!("{};{};{};{};{};{}", pre, ck(&ser), fresh, slot(&c[0]), slot(&c[1]), slot(&c[2])));
    }
    Some(format!("OK:{}", fields.join(";")))
}
