//! C04 op: tx.history — a sequence of mutation / sighash calls on one Transaction value; after every step the
//! preimage (if any), the serialisation, the preimage of a fresh from_bytes(to_bytes()) copy and the three
//! memoised hashes (hook `verif_hash_cache`, --cfg bsv_verif) are reported.  Format: see coq/Run/Exec_C04.v.
use crate::util::*;
use bsv::{PrivateKey, PublicKey, Script, SigHash, Signature, SigningHash, Transaction, TxIn, TxOut, ECDSA};
use std::convert::TryFrom;

fn ck(b: &[u8]) -> String {
    let (mut a, mut c): (u64, u64) = (1, 0);
    for x in b {
        a = (a + *x as u64) % 65521;
        c = (c + a) % 65521;
    }
    format!("{}:{}", b.len(), c * 65536 + a)
}

fn slot(o: &Option<Vec<u8>>) -> String {
    match o {
        None => "-".into(),
        Some(h) => hex::encode(h),
    }
}

enum Op {
    In(u8, usize, TxIn),
    Out(u8, usize, TxOut),
    Ver(u32),
    Lock(u32),
    Clone,
    Sig(SigHash, usize, Script, u64),
    Sign(bool, SigHash, usize, Script, u64), // true = sign_with_k
    VerC(u32),
    LockC(u32),
    Ins(Vec<TxIn>),
    Outs(Vec<TxOut>),
    HashIn(SigHash),
    GetOutpoints,
    Fork,
    Swap,
    Mod(usize, String, String, String), // get_input(k) -> one TxIn setter -> set_input(k) / add_input / insert_input(j)
    CloneFrom, // tx.clone_from(&other)
    Assign,    // tx = other.clone()
    MemSwap,   // std::mem::swap(&mut tx, &mut other)
    New(u32, u32),
    Default,
    Reparse(u8), // 0 bytes, 1 hex, 2 JSON, 3 CBOR
    Parse(Vec<u8>, bool), // continue with from_bytes / from_hex of the given bytes
    Ann(usize, Option<u64>, Option<Script>), // set_satoshis / set_locking_script on input k (through get_input + set_input)
}

const KEY: [u8; 32] = [
    0xe8, 0xf3, 0x2e, 0x72, 0x3d, 0xec, 0xf4, 0x05, 0x1a, 0xef, 0xac, 0x8e, 0x2c, 0x93, 0xc9, 0xc5, 0xb2, 0x14, 0x31, 0x38, 0x17, 0xcd, 0xb0, 0x1a, 0x14, 0x94, 0xb9,
    0x17, 0xc8, 0x43, 0x6b, 0x35,
];

fn flag_of(s: &str) -> Option<SigHash> {
    let fl: u64 = num(s)?;
    if fl > 255 {
        return None;
    }
    SigHash::try_from(fl as u8).ok()
}

fn parse_elems<T>(body: &str, n: usize, pe: fn(&[&str]) -> Option<T>) -> Option<Vec<T>> {
    let mut v = Vec::new();
    if body.is_empty() {
        return Some(v);
    }
    for e in body.split('/') {
        let f: Vec<&str> = e.split(',').collect();
        if f.len() != n {
            return None;
        }
        v.push(pe(&f)?);
    }
    Some(v)
}

fn num<T: std::str::FromStr>(s: &str) -> Option<T> {
    s.parse().ok()
}

fn parse_in(f: &[&str]) -> Option<TxIn> {
    let id = expand(f[0])?;
    let vout: u32 = num(f[1])?;
    let scr = Script::from_bytes(&expand(f[2])?).ok()?;
    let seq: u32 = num(f[3])?;
    Some(TxIn::new(&id, vout, &scr, Some(seq)))
}

fn parse_out(f: &[&str]) -> Option<TxOut> {
    let v: u64 = num(f[0])?;
    let scr = Script::from_bytes(&expand(f[1])?).ok()?;
    Some(TxOut::new(v, &scr))
}

fn parse_op(s: &str) -> Option<Op> {
    let f: Vec<&str> = s.split('.').collect();
    Some(match (f[0], f.len()) {
        ("ai", 5) => Op::In(0, 0, parse_in(&f[1..])?),
        ("pi", 5) => Op::In(1, 0, parse_in(&f[1..])?),
        ("ii", 6) => Op::In(2, num::<u64>(f[1])? as usize, parse_in(&f[2..])?),
        ("si", 6) => Op::In(3, num::<u64>(f[1])? as usize, parse_in(&f[2..])?),
        ("ao", 3) => Op::Out(0, 0, parse_out(&f[1..])?),
        ("po", 3) => Op::Out(1, 0, parse_out(&f[1..])?),
        ("io", 4) => Op::Out(2, num::<u64>(f[1])? as usize, parse_out(&f[2..])?),
        ("so", 4) => Op::Out(3, num::<u64>(f[1])? as usize, parse_out(&f[2..])?),
        ("sv", 2) => Op::Ver(num(f[1])?),
        ("sl", 2) => Op::Lock(num(f[1])?),
        ("cl", 1) => Op::Clone,
        ("svc", 2) => Op::VerC(num(f[1])?),
        ("slc", 2) => Op::LockC(num(f[1])?),
        ("sg", 5) => Op::Sign(false, flag_of(f[1])?, num::<u64>(f[2])? as usize, Script::from_bytes(&expand(f[3])?).ok()?, num(f[4])?),
        ("sk", 5) => Op::Sign(true, flag_of(f[1])?, num::<u64>(f[2])? as usize, Script::from_bytes(&expand(f[3])?).ok()?, num(f[4])?),
        ("ais", 2) => Op::Ins(parse_elems(f[1], 4, parse_in)?),
        ("aos", 2) => Op::Outs(parse_elems(f[1], 2, parse_out)?),
        ("hi", 2) => Op::HashIn(flag_of(f[1])?),
        ("go", 1) => Op::GetOutpoints,
        ("fk", 1) => Op::Fork,
        ("sw", 1) => Op::Swap,
        ("mi", 5) => {
            let k = num::<u64>(f[1])? as usize;
            if !["vo", "sq", "id", "us", "sa", "lk"].contains(&f[2]) {
                return None;
            }
            match f[2] {
                "vo" | "sq" => {
                    num::<u32>(f[3])?;
                }
                "sa" => {
                    num::<u64>(f[3])?;
                }
                "id" => {
                    expand(f[3])?;
                }
                _ => {
                    Script::from_bytes(&expand(f[3])?).ok()?;
                }
            }
            if !(f[4] == "s" || f[4] == "a" || (f[4].starts_with('i') && f[4][1..].parse::<u64>().is_ok())) {
                return None;
            }
            Op::Mod(k, f[2].to_string(), f[3].to_string(), f[4].to_string())
        }
        ("cf", 1) => Op::CloneFrom,
        ("as", 1) => Op::Assign,
        ("ms", 1) => Op::MemSwap,
        ("new", 3) => Op::New(num(f[1])?, num(f[2])?),
        ("def", 1) => Op::Default,
        ("fb", 1) => Op::Reparse(0),
        ("fh", 1) => Op::Reparse(1),
        ("fj", 1) => Op::Reparse(2),
        ("fc", 1) => Op::Reparse(3),
        ("an", 4) => Op::Ann(
            num::<u64>(f[1])? as usize,
            if f[2] == "-" { None } else { Some(num(f[2])?) },
            if f[3] == "-" { None } else { Some(Script::from_bytes(&expand(f[3])?).ok()?) },
        ),
        ("pb", 2) => Op::Parse(expand(f[1])?, false),
        ("ph", 2) => Op::Parse(expand(f[1])?, true),
        ("sh", 5) => {
            let fl: u64 = num(f[1])?;
            if fl > 255 {
                return None;
            }
            let flag = SigHash::try_from(fl as u8).ok()?;
            Op::Sig(flag, num::<u64>(f[2])? as usize, Script::from_bytes(&expand(f[3])?).ok()?, num(f[4])?)
        }
        _ => return None,
    })
}

pub fn run(op: &str, args: &[String]) -> Option<String> {
    if op != "tx.history" {
        return None;
    }
    let txb = match arg_bytes(args, 0) {
        Some(b) => b,
        None => return Some("BADARG".into()),
    };
    let opstr = match args.get(1) {
        Some(s) => s.clone(),
        None => return Some("BADARG".into()),
    };
    let mut tx = match Transaction::from_bytes(&txb) {
        Ok(t) => t,
        Err(_) => return Some("ERR".into()),
    };
    let mut ops = Vec::new();
    if !opstr.is_empty() {
        for s in opstr.split('_') {
            match parse_op(s) {
                Some(o) => ops.push(o),
                None => return Some("BADARG".into()),
            }
        }
    }
    let mut other: Option<Transaction> = None;
    let mut fields: Vec<String> = Vec::new();
    for o in ops {
        let mut pre = "n".to_string();
        let mut fresh = "n".to_string();
        let mut sig_args = None;
        let mut sign_args = None;
        let mut hash_in = None;
        match o {
            Op::VerC(v) => {
                let c = tx.set_version(v);
                tx = c;
            }
            Op::LockC(v) => {
                let c = tx.set_nlocktime(v);
                tx = c;
            }
            Op::Ins(v) => tx.add_inputs(v),
            Op::Outs(v) => tx.add_outputs(v),
            Op::GetOutpoints => {
                let _ = tx.get_outpoints();
            }
            Op::Fork => other = Some(tx.clone()),
            Op::Swap => {
                if let Some(o) = other.take() {
                    other = Some(std::mem::replace(&mut tx, o));
                }
            }
            Op::Mod(k, fld, val, dst) => {
                if let Some(mut i) = tx.get_input(k) {
                    match fld.as_str() {
                        "vo" => i.set_vout(val.parse().unwrap()),
                        "sq" => i.set_sequence(val.parse().unwrap()),
                        "sa" => i.set_satoshis(val.parse().unwrap()),
                        "id" => i.set_prev_tx_id(&expand(&val).unwrap()),
                        "us" => i.set_unlocking_script(&Script::from_bytes(&expand(&val).unwrap()).unwrap()),
                        _ => i.set_locking_script(&Script::from_bytes(&expand(&val).unwrap()).unwrap()),
                    }
                    if dst == "s" {
                        tx.set_input(k, &i);
                    } else if dst == "a" {
                        tx.add_input(&i);
                    } else {
                        tx.insert_input(dst[1..].parse::<u64>().unwrap() as usize, &i);
                    }
                }
            }
            Op::CloneFrom => {
                if let Some(o) = &other {
                    tx.clone_from(o);
                }
            }
            Op::Assign => {
                if let Some(o) = &other {
                    tx = o.clone();
                }
            }
            Op::MemSwap => {
                if let Some(o) = other.as_mut() {
                    std::mem::swap(&mut tx, o);
                }
            }
            Op::New(v, lt) => tx = Transaction::new(v, lt),
            Op::Default => tx = Transaction::default(),
            Op::Ann(k, sat, lock) => {
                if let Some(mut i) = tx.get_input(k) {
                    if let Some(v) = sat {
                        i.set_satoshis(v);
                    }
                    if let Some(l) = lock {
                        i.set_locking_script(&l);
                    }
                    tx.set_input(k, &i);
                }
            }
            Op::Parse(b, as_hex) => {
                let r = if as_hex { Transaction::from_hex(&hex::encode(&b)) } else { Transaction::from_bytes(&b) };
                match r {
                    Ok(t) => tx = t,
                    Err(_) => return Some("ERR".into()),
                }
            }
            Op::Reparse(kind) => {
                let r = match kind {
                    0 => tx.to_bytes().and_then(|b| Transaction::from_bytes(&b)),
                    1 => tx.to_hex().and_then(|h| Transaction::from_hex(&h)),
                    2 => tx.to_json_string().and_then(|j| Transaction::from_json_string(&j)),
                    _ => tx.to_compact_bytes().and_then(|b| Transaction::from_compact_bytes(&b)),
                };
                match r {
                    Ok(t) => tx = t,
                    Err(_) => return Some("ERR".into()),
                }
            }
            Op::HashIn(flag) => {
                pre = ck(&tx.hash_inputs(flag));
                hash_in = Some(flag);
            }
            Op::Sign(with_k, flag, idx, sub, value) => {
                let sk = PrivateKey::from_bytes(&KEY).unwrap();
                let pk = PublicKey::from_private_key(&sk);
                let r = if with_k {
                    let mut kb = KEY;
                    kb[31] ^= 0x55;
                    let k = PrivateKey::from_bytes(&kb).unwrap();
                    tx.sign_with_k(&sk, &k, flag, idx, &sub, value)
                } else {
                    tx.sign(&sk, flag, idx, &sub, value)
                };
                match r {
                    Ok(sig) => {
                        pre = if tx.verify(&pk, &sig) { "v1".into() } else { "v0".into() };
                        sign_args = Some((Some((sig, pk)), flag, idx, sub, value));
                    }
                    Err(_) => {
                        pre = "E".into();
                        sign_args = Some((None, flag, idx, sub, value));
                    }
                }
            }
            Op::In(0, _, i) => tx.add_input(&i),
            Op::In(1, _, i) => tx.prepend_input(&i),
            Op::In(2, k, i) => tx.insert_input(k, &i),
            Op::In(_, k, i) => tx.set_input(k, &i),
            Op::Out(0, _, x) => tx.add_output(&x),
            Op::Out(1, _, x) => tx.prepend_output(&x),
            Op::Out(2, k, x) => tx.insert_output(k, &x),
            Op::Out(_, k, x) => tx.set_output(k, &x),
            Op::Ver(v) => {
                tx.set_version(v);
            }
            Op::Lock(v) => {
                tx.set_nlocktime(v);
            }
            Op::Clone => {
                let c = tx.clone();
                tx = c;
            }
            Op::Sig(flag, idx, sub, value) => {
                pre = match tx.sighash_preimage(flag, idx, &sub, value) {
                    Ok(p) => ck(&p),
                    Err(_) => "E".into(),
                };
                sig_args = Some((flag, idx, sub, value));
            }
        }
        let ser = match tx.to_bytes() {
            Ok(b) => b,
            Err(_) => return Some("ERR".into()),
        };
        if let Some((flag, idx, sub, value)) = sig_args {
            fresh = match Transaction::from_bytes(&ser) {
                Ok(mut t2) => match t2.sighash_preimage(flag, idx, &sub, value) {
                    Ok(p) => ck(&p),
                    Err(_) => "E".into(),
                },
                Err(_) => "X".into(),
            };
        }
        if let Some(flag) = hash_in {
            fresh = match Transaction::from_bytes(&ser) {
                Ok(mut t2) => ck(&t2.hash_inputs(flag)),
                Err(_) => "X".into(),
            };
        }
        if let Some((sigpk, flag, idx, sub, value)) = sign_args {
            fresh = match Transaction::from_bytes(&ser) {
                Ok(mut t2) => match (t2.sighash_preimage(flag, idx, &sub, value), sigpk) {
                    (Ok(p), Some((sig, pk))) => {
                        let sb = sig.to_bytes().unwrap_or_default();
                        let ok = sb.len() > 1
                            && match Signature::from_der(&sb[..sb.len() - 1]) {
                                Ok(s) => ECDSA::verify_digest(&p, &pk, &s, SigningHash::Sha256d).unwrap_or(false),
                                Err(_) => false,
                            };
                        if ok { "v1".into() } else { "v0".into() }
                    }
                    (Ok(_), None) => "v0".into(),
                    (Err(_), _) => "E".into(),
                },
                Err(_) => "X".into(),
            };
        }
        match crate::util::cache_view(&tx) {
            Some(c) => fields.push(format!("{};{};{};{};{};{}", pre, ck(&ser), fresh, slot(&c[0]), slot(&c[1]), slot(&c[2]))),
            None => fields.push(format!("{};{};{};?;?;?", pre, ck(&ser), fresh)),
        }
    }
    Some(format!("OK:{}", fields.join(";")))
}
