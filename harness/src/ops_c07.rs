//! C07 ops: WIF / raw private keys, SEC1 public keys, Base58Check P2PKH addresses, P2PKH scripts.
//!   key.from_wif text                    -> key;compressed
//!   key.to_wif key compressed            -> wif;reparsed key;reparsed flag
//!   key.from_hex text / key.from_bytes b -> key;compressed
//!   key.to_pub key compressed            -> to_public_key (bytes;flag;to_hex);get_point;from_private_key (bytes;flag;to_hex)
//!   key.random                           -> from_random: distinct;valid;compressed;wif round trip (behavioural)
//!   pub.from_hex text                    -> bytes;is_compressed;to_hex
//!   addr.chain_named hash name           -> set_chain_params(ChainParams::<name>()): prefix;hash;string;hash hex;same as _impl
//!   key.address key compressed prefix    -> pubkey;hash160;address string;locking script
//!   pub.parse b                          -> bytes;is_compressed
//!   pub.compress b / pub.decompress b    -> bytes;is_compressed
//!   pub.address b                        -> prefix;hash;string
//!   pub.unlock_own b prefix der flag     -> unlocking script of the key's own address under that prefix
//!   addr.from_string text                -> prefix;hash;string
//!   addr.to_string prefix hash           -> string
//!   addr.from_hash hash                  -> prefix;hash;string
//!   addr.set_chain text prefix           -> prefix;hash;string
//!   addr.locking prefix hash             -> script bytes
//!   addr.unlocking prefix hash pub der flag -> script bytes
//! text = hex of the UTF-8 bytes; flag/compressed = 0|1; prefix = one byte in hex.
use crate::util::*;
use bsv::{ChainParams, P2PKHAddress, PrivateKey, PublicKey, SigHash, SighashSignature, Signature};

fn chain(p: u8) -> ChainParams {
    // only the p2pkh byte matters for addresses
    ChainParams::new(p, 0x05, 0x80, 0x0488b21e, 0x0488ade4, 0xe3e1f3e8)
}

fn arg_flag(args: &[String], i: usize) -> Option<bool> {
    match args.get(i).map(|s| s.as_str()) {
        Some("0") => Some(false),
        Some("1") => Some(true),
        _ => None,
    }
}
fn arg_byte(args: &[String], i: usize) -> Option<u8> {
    let b = args.get(i).and_then(|a| hex::decode(a).ok())?;
    if b.len() == 1 {
        Some(b[0])
    } else {
        None
    }
}
fn flag(b: bool) -> &'static str {
    if b {
        "1"
    } else {
        "0"
    }
}

fn show_key(k: &PrivateKey) -> String {
    // the compression flag is only observable through the derived public key / the WIF suffix
    let c = match k.to_public_key() {
        Ok(p) => flag(p.is_compressed()).to_string(),
        Err(_) => "E".to_string(),
    };
    format!("{};{};{}", hex::encode(k.to_bytes()), c, k.to_hex())
}
fn show_pub(p: &PublicKey) -> String {
    match p.to_bytes() {
        Ok(b) => format!("{};{};{}", hex::encode(b), flag(p.is_compressed()), p.to_hex().unwrap_or_else(|_| "E".into())),
        Err(_) => "E".into(),
    }
}
/// prefix found by comparing the WHOLE address (prefix, hash and stored checksum) with a freshly built one
fn find_prefix(a: &P2PKHAddress) -> String {
    let h = a.to_pubkey_hash();
    if let Ok(base) = P2PKHAddress::from_pubkey_hash(&h) {
        for p in 0..=255u8 {
            if let Ok(x) = base.set_chain_params(&chain(p)) {
                if &x == a {
                    return format!("{:02x}", p);
                }
            }
        }
    }
    "xx".into()
}
fn show_addr(a: &P2PKHAddress) -> String {
    let s = match a.to_string() {
        Ok(s) => s,
        Err(_) => "E".into(),
    };
    format!("{};{};{};{}", find_prefix(a), hex::encode(a.to_pubkey_hash()), s, a.to_pubkey_hash_hex())
}
fn sighash_sig(der: &[u8], fl: u8) -> Option<SighashSignature> {
    let sig = Signature::from_der(der).ok()?;
    // the model treats the DER bytes as given: only strict encodings that re-serialise to themselves are used
    if sig.to_der_bytes() != der {
        return None;
    }
    let sh = SigHash::try_from(fl).ok()?;
    Some(SighashSignature::new(&sig, sh, &[]))
}
fn make_addr(p: u8, h: &[u8]) -> Option<P2PKHAddress> {
    P2PKHAddress::from_pubkey_hash(h).ok()?.set_chain_params(&chain(p)).ok()
}

macro_rules! need {
    ($e:expr) => {
        match $e {
            Some(x) => x,
            None => return Some("BADARG".into()),
        }
    };
}
macro_rules! lib {
    ($e:expr) => {
        match $e {
            Ok(x) => x,
            Err(_) => return Some("ERR".into()),
        }
    };
}

pub fn run(op: &str, args: &[String]) -> Option<String> {
    Some(match op {
        "key.from_wif" => {
            let t = need!(arg_str(args, 0));
            let k = lib!(PrivateKey::from_wif(&t));
            format!("OK:{}", show_key(&k))
        }
        "key.to_wif" => {
            let kb = need!(arg_bytes(args, 0));
            let c = need!(arg_flag(args, 1));
            let k = lib!(PrivateKey::from_bytes(&kb)).compress_public_key(c);
            let w = lib!(k.to_wif());
            let back = match PrivateKey::from_wif(&w) {
                Ok(k2) => show_key(&k2),
                Err(_) => "ERR".into(),
            };
            format!("OK:{};{}", w, back)
        }
        "key.from_hex" => {
            let t = need!(arg_str(args, 0));
            let k = lib!(PrivateKey::from_hex(&t));
            format!("OK:{}", show_key(&k))
        }
        "key.from_bytes" => {
            let kb = need!(arg_bytes(args, 0));
            let k = lib!(PrivateKey::from_bytes(&kb));
            format!("OK:{}", show_key(&k))
        }
        "key.to_pub" => {
            let kb = need!(arg_bytes(args, 0));
            let c = need!(arg_flag(args, 1));
            let k = lib!(PrivateKey::from_bytes(&kb)).compress_public_key(c);
            let p = lib!(k.to_public_key());
            let q = PublicKey::from_private_key(&k);
            format!("OK:{};{};{}", show_pub(&p), hex::encode(k.get_point()), show_pub(&q))
        }
        "key.random" => {
            // behavioural: two fresh keys differ, are valid 32-byte scalars, default to the compressed form, survive WIF
            let a = PrivateKey::from_random();
            let b = PrivateKey::from_random();
            let distinct = a.to_bytes() != b.to_bytes();
            let valid = a.to_bytes().len() == 32 && PrivateKey::from_bytes(&a.to_bytes()).is_ok() && PrivateKey::from_hex(&a.to_hex()).is_ok();
            let compressed = a.to_public_key().map(|p| p.is_compressed() && p.to_bytes().map(|x| x.len() == 33).unwrap_or(false)).unwrap_or(false);
            let wif = match a.to_wif().and_then(|w| PrivateKey::from_wif(&w)) {
                Ok(k2) => k2.to_bytes() == a.to_bytes(),
                Err(_) => false,
            };
            format!("OK:{};{};{};{}", flag(distinct), flag(valid), flag(compressed), flag(wif))
        }
        "key.address" => {
            let kb = need!(arg_bytes(args, 0));
            let c = need!(arg_flag(args, 1));
            let pre = need!(arg_byte(args, 2));
            let k = lib!(PrivateKey::from_bytes(&kb)).compress_public_key(c);
            let p = lib!(k.to_public_key());
            let a = lib!(lib!(p.to_p2pkh_address()).set_chain_params(&chain(pre)));
            let ls = lib!(a.get_locking_script());
            format!(
                "OK:{};{};{};{}",
                hex::encode(lib!(p.to_bytes())),
                hex::encode(a.to_pubkey_hash()),
                lib!(a.to_string()),
                hex::encode(ls.to_bytes())
            )
        }
        "pub.parse" => {
            let b = need!(arg_bytes(args, 0));
            let p = lib!(PublicKey::from_bytes(&b));
            format!("OK:{}", show_pub(&p))
        }
        "pub.from_hex" => {
            let t = need!(arg_str(args, 0));
            let p = lib!(PublicKey::from_hex(&t));
            format!("OK:{}", show_pub(&p))
        }
        "pub.compress" | "pub.decompress" => {
            let b = need!(arg_bytes(args, 0));
            let p = lib!(PublicKey::from_bytes(&b));
            let q = if op == "pub.compress" { lib!(p.to_compressed()) } else { lib!(p.to_decompressed()) };
            format!("OK:{}", show_pub(&q))
        }
        "pub.address" => {
            let b = need!(arg_bytes(args, 0));
            let p = lib!(PublicKey::from_bytes(&b));
            let a = lib!(p.to_p2pkh_address());
            let same = match P2PKHAddress::from_pubkey(&p) {
                Ok(b) => flag(b == a),
                Err(_) => "E",
            };
            format!("OK:{};{}", show_addr(&a), same)
        }
        "pub.unlock_own" => {
            let b = need!(arg_bytes(args, 0));
            let pre = need!(arg_byte(args, 1));
            let der = need!(arg_bytes(args, 2));
            let fl = need!(arg_byte(args, 3));
            let sg = match sighash_sig(&der, fl) {
                Some(s) => s,
                None => return Some("ERR".into()),
            };
            let p = lib!(PublicKey::from_bytes(&b));
            let a = lib!(lib!(p.to_p2pkh_address()).set_chain_params(&chain(pre)));
            let s = lib!(a.get_unlocking_script(&p, &sg));
            format!("OK:{}", hex::encode(s.to_bytes()))
        }
        "addr.from_string" => {
            let t = need!(arg_str(args, 0));
            let a = lib!(P2PKHAddress::from_string(&t));
            format!("OK:{}", show_addr(&a))
        }
        "addr.to_string" => {
            let pre = need!(arg_byte(args, 0));
            let h = need!(arg_bytes(args, 1));
            let a = match make_addr(pre, &h) {
                Some(a) => a,
                None => return Some("ERR".into()),
            };
            format!("OK:{}", lib!(a.to_string()))
        }
        "addr.from_hash" => {
            let h = need!(arg_bytes(args, 0));
            let a = lib!(P2PKHAddress::from_pubkey_hash(&h));
            format!("OK:{}", show_addr(&a))
        }
        "addr.set_chain" => {
            let t = need!(arg_str(args, 0));
            let pre = need!(arg_byte(args, 1));
            let a = lib!(lib!(P2PKHAddress::from_string(&t)).set_chain_params(&chain(pre)));
            format!("OK:{}", show_addr(&a))
        }
        "addr.chain_named" => {
            let h = need!(arg_bytes(args, 0));
            let name = need!(args.get(1));
            let cp = match name.as_str() {
                "mainnet" => ChainParams::mainnet(),
                "testnet" => ChainParams::testnet(),
                "regtest" => ChainParams::regtest(),
                "stn" => ChainParams::stn(),
                "default" => ChainParams::default(),
                _ => return Some("BADARG".into()),
            };
            let base = lib!(P2PKHAddress::from_pubkey_hash(&h));
            let a = lib!(base.set_chain_params(&cp));
            let same = match base.set_chain_params_impl(&cp) {
                Ok(b) => flag(b == a),
                Err(_) => "E",
            };
            format!("OK:{};{}", show_addr(&a), same)
        }
        // ---- call histories on ONE object: builder-style steps interleaved with observations ----
        "key.history" => {
            // steps: c/u = compress_public_key(true/false), l = clone, W = re-import own WIF;
            // observations: p to_public_key, w to_wif, g get_point, f PublicKey::from_private_key, a address string,
            //               k locking script of that address, h to_hex
            let kb = need!(arg_bytes(args, 0));
            let steps = need!(args.get(1)).clone();
            if !steps.chars().all(|c| "culWpwgfakh".contains(c)) {
                return Some("BADARG".into());
            }
            let mut k = lib!(PrivateKey::from_bytes(&kb));
            let mut out: Vec<String> = Vec::new();
            for ch in steps.chars() {
                match ch {
                    'c' => k = k.compress_public_key(true),
                    'u' => k = k.compress_public_key(false),
                    'l' => k = k.clone(),
                    'W' => k = lib!(PrivateKey::from_wif(&lib!(k.to_wif()))),
                    'p' => out.push(match k.to_public_key() {
                        Ok(p) => format!("{},{}", hex::encode(p.to_bytes().unwrap_or_default()), flag(p.is_compressed())),
                        Err(_) => "E".into(),
                    }),
                    'w' => out.push(k.to_wif().unwrap_or_else(|_| "E".into())),
                    'g' => out.push(hex::encode(k.get_point())),
                    'f' => {
                        let p = PublicKey::from_private_key(&k);
                        out.push(format!("{},{}", hex::encode(p.to_bytes().unwrap_or_default()), flag(p.is_compressed())))
                    }
                    'a' => out.push(match k.to_public_key().and_then(|p| p.to_p2pkh_address()).and_then(|a| a.to_string()) {
                        Ok(s) => s,
                        Err(_) => "E".into(),
                    }),
                    'k' => out.push(match k.to_public_key().and_then(|p| p.to_p2pkh_address()).and_then(|a| a.get_locking_script()) {
                        Ok(s) => hex::encode(s.to_bytes()),
                        Err(_) => "E".into(),
                    }),
                    _ => out.push(k.to_hex()),
                }
            }
            format!("OK:{}", out.join(";"))
        }
        "pub.history" => {
            // steps: c = to_compressed, d = to_decompressed, l = clone; observations: b to_bytes+flag, x to_hex,
            //        a address string, h HASH160 hex
            let b = need!(arg_bytes(args, 0));
            let steps = need!(args.get(1)).clone();
            if !steps.chars().all(|c| "cdlbxah".contains(c)) {
                return Some("BADARG".into());
            }
            let mut q = lib!(PublicKey::from_bytes(&b));
            let mut out: Vec<String> = Vec::new();
            for ch in steps.chars() {
                match ch {
                    'c' => q = lib!(q.to_compressed()),
                    'd' => q = lib!(q.to_decompressed()),
                    'l' => q = q.clone(),
                    'b' => out.push(format!("{},{}", hex::encode(q.to_bytes().unwrap_or_default()), flag(q.is_compressed()))),
                    'x' => out.push(q.to_hex().unwrap_or_else(|_| "E".into())),
                    'a' => out.push(match q.to_p2pkh_address().and_then(|a| a.to_string()) {
                        Ok(s) => s,
                        Err(_) => "E".into(),
                    }),
                    _ => out.push(match q.to_p2pkh_address() {
                        Ok(a) => a.to_pubkey_hash_hex(),
                        Err(_) => "E".into(),
                    }),
                }
            }
            format!("OK:{}", out.join(";"))
        }
        "addr.history" => {
            // mode s: from_string(text), h: from_pubkey_hash(bytes); steps separated by '.':
            //   sXX set_chain_params(prefix XX), m/t/r/n = ChainParams::mainnet/testnet/regtest/stn, l = clone,
            //   f = re-parse own string; observations: o = prefix,to_string; k = locking script; h = hash hex
            let mode = need!(args.get(0)).clone();
            let steps = need!(args.get(2)).clone();
            let toks: Vec<&str> = if steps.is_empty() { Vec::new() } else { steps.split('.').collect() };
            for t in &toks {
                let ok = matches!(*t, "m" | "t" | "r" | "n" | "l" | "f" | "o" | "k" | "h")
                    || (t.len() == 3 && t.starts_with('s') && hex::decode(&t[1..]).is_ok());
                if !ok {
                    return Some("BADARG".into());
                }
            }
            let mut a = match mode.as_str() {
                "s" => lib!(P2PKHAddress::from_string(&need!(arg_str(args, 1)))),
                "h" => lib!(P2PKHAddress::from_pubkey_hash(&need!(arg_bytes(args, 1)))),
                _ => return Some("BADARG".into()),
            };
            let mut out: Vec<String> = Vec::new();
            for t in &toks {
                match *t {
                    "m" => a = lib!(a.set_chain_params(&ChainParams::mainnet())),
                    "t" => a = lib!(a.set_chain_params(&ChainParams::testnet())),
                    "r" => a = lib!(a.set_chain_params(&ChainParams::regtest())),
                    "n" => a = lib!(a.set_chain_params(&ChainParams::stn())),
                    "l" => a = a.clone(),
                    "f" => a = lib!(P2PKHAddress::from_string(&lib!(a.to_string()))),
                    "o" => out.push(format!("{},{}", find_prefix(&a), a.to_string().unwrap_or_else(|_| "E".into()))),
                    "k" => out.push(match a.get_locking_script() {
                        Ok(s) => hex::encode(s.to_bytes()),
                        Err(_) => "E".into(),
                    }),
                    "h" => out.push(a.to_pubkey_hash_hex()),
                    s => {
                        let p = hex::decode(&s[1..]).unwrap()[0];
                        a = lib!(a.set_chain_params(&chain(p)))
                    }
                }
            }
            format!("OK:{}", out.join(";"))
        }
        "addr.locking" => {
            let pre = need!(arg_byte(args, 0));
            let h = need!(arg_bytes(args, 1));
            let a = match make_addr(pre, &h) {
                Some(a) => a,
                None => return Some("ERR".into()),
            };
            let s = lib!(a.get_locking_script());
            format!("OK:{}", hex::encode(s.to_bytes()))
        }
        "addr.unlocking" => {
            let pre = need!(arg_byte(args, 0));
            let h = need!(arg_bytes(args, 1));
            let b = need!(arg_bytes(args, 2));
            let der = need!(arg_bytes(args, 3));
            let fl = need!(arg_byte(args, 4));
            let sg = match sighash_sig(&der, fl) {
                Some(s) => s,
                None => return Some("ERR".into()),
            };
            let a = match make_addr(pre, &h) {
                Some(a) => a,
                None => return Some("ERR".into()),
            };
            let p = lib!(PublicKey::from_bytes(&b));
            let s = lib!(a.get_unlocking_script(&p, &sg));
            format!("OK:{}", hex::encode(s.to_bytes()))
        }
        _ => return None,
    })
}
