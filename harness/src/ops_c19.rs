//! C19 ops: script templates (parse, match, self-match) and transaction match criteria.
//!
//! Arguments: scripts as byte descriptors, template text as hex of its UTF-8 bytes, `-` for an absent optional.
//! outputs list:  `<value>=<script>/<value>=<script>/...`      (empty string = no outputs)
//! inputs list:   `<satoshis|->=<unlocking script>=<locking script|->/...`
use crate::util::*;
use bsv::{MatchCriteria, MatchDataTypes, OpCodes, Script, ScriptBit, ScriptTemplate, Transaction, TxIn, TxOut};
use std::str::FromStr;

fn show_matches(ms: &[(MatchDataTypes, Vec<u8>)]) -> String {
    let mut s = String::new();
    for (k, d) in ms {
        let c = match k {
            MatchDataTypes::Data => 'd',
            MatchDataTypes::Signature => 's',
            MatchDataTypes::PublicKey => 'k',
            MatchDataTypes::PublicKeyHash => 'h',
        };
        s.push(c);
        s.push_str(&show_bytes(d));
        s.push(',');
    }
    s
}

fn opt_u64(a: Option<&String>) -> Result<Option<u64>, ()> {
    match a {
        None => Err(()),
        Some(s) if s == "-" => Ok(None),
        Some(s) => s.parse::<u64>().map(Some).map_err(|_| ()),
    }
}

fn opt_script(s: &str) -> Result<Option<Script>, ()> {
    if s == "-" {
        return Ok(None);
    }
    // `z<hex>`: a script assembled in memory from lone opcode bits (Script::from_script_bits), one per byte;
    // this is the only way to an object such as [OpCode(OP_IF)] that no parser returns
    if let Some(h) = s.strip_prefix('z') {
        let bytes = hex::decode(h).map_err(|_| ())?;
        let mut bits = vec![];
        for b in bytes {
            let bit = match b {
                0x63 => ScriptBit::OpCode(OpCodes::from_str("OP_IF").map_err(|_| ())?),
                0x64 => ScriptBit::OpCode(OpCodes::from_str("OP_NOTIF").map_err(|_| ())?),
                0x65 => ScriptBit::OpCode(OpCodes::from_str("OP_VERIF").map_err(|_| ())?),
                0x66 => ScriptBit::OpCode(OpCodes::from_str("OP_VERNOTIF").map_err(|_| ())?),
                _ => match Script::from_bytes(&[b]).map_err(|_| ())?.to_script_bits().as_slice() {
                    [ScriptBit::OpCode(c)] => ScriptBit::OpCode(*c),
                    _ => return Err(()),
                },
            };
            bits.push(bit);
        }
        return Ok(Some(Script::from_script_bits(bits)));
    }
    let b = expand(s).ok_or(())?;
    Script::from_bytes(&b).map(Some).map_err(|_| ())
}

fn build_outs(l: &str) -> Result<Vec<TxOut>, ()> {
    let mut v = vec![];
    if !l.is_empty() {
        for item in l.split('/') {
            let f: Vec<&str> = item.split('=').collect();
            if f.len() != 2 {
                return Err(());
            }
            let val: u64 = f[0].parse().map_err(|_| ())?;
            let s = opt_script(f[1])?.ok_or(())?;
            v.push(TxOut::new(val, &s));
        }
    }
    Ok(v)
}

/// inputs: `<satoshis|->=<unlocking>=<locking|->` optionally followed by `=<prev txid bytes>=<vout>=<sequence>`
/// (default: txid = 32 bytes k+1, vout = k, sequence = 0xffffffff).  Returns Err also when the public view of the
/// finalised script (TxIn::get_finalised_script) differs from unlocking bytes ++ locking bytes.
fn build_ins(l: &str) -> Result<Vec<TxIn>, ()> {
    let mut v = vec![];
    if !l.is_empty() {
        for (k, item) in l.split('/').enumerate() {
            let f: Vec<&str> = item.split('=').collect();
            if f.len() != 3 && f.len() != 6 {
                return Err(());
            }
            let unlock = opt_script(f[1])?.ok_or(())?;
            let mut txin = if f.len() == 6 {
                let txid = expand(f[3]).ok_or(())?;
                let vout: u32 = f[4].parse().map_err(|_| ())?;
                let seq: u32 = f[5].parse().map_err(|_| ())?;
                TxIn::new(&txid, vout, &unlock, Some(seq))
            } else {
                TxIn::new(&[(k as u8).wrapping_add(1); 32], k as u32, &unlock, None)
            };
            if f[0] != "-" {
                txin.set_satoshis(f[0].parse::<u64>().map_err(|_| ())?);
            }
            if let Some(s) = opt_script(f[2])? {
                txin.set_locking_script(&s);
            }
            v.push(txin);
        }
    }
    Ok(v)
}

fn null_outpoint(t: &TxIn) -> bool {
    t.get_prev_tx_id(None).iter().all(|b| *b == 0) && t.get_prev_tx_id(None).len() == 32 && t.get_vout() == 0xffff_ffff
}

fn obs(all: &[usize], first: Option<usize>) -> String {
    let l: Vec<String> = all.iter().map(|i| i.to_string()).collect();
    format!("{}:{}", l.join(","), first.map(|i| i.to_string()).unwrap_or_else(|| "-".into()))
}

/// observe -> mutate -> observe on ONE MatchCriteria and ONE Transaction.
/// steps (joined by `/`): v=N set_value, n=N set_min, x=N set_max, t=<text hex> set_script_template,
///   r continue with the value the last setter returned, c continue with a clone of the criteria,
///   k continue with a clone of the transaction, b serialise the transaction and parse it back,
///   s=K.N set_satoshis on input K, l=K.<script> set_locking_script, u=K.<script> set_unlocking_script (get_input/set_input),
///   w=K.N replace output K by the same script with value N (get_output/set_output)
fn history(inputs: bool, items: &str, steps: &str) -> String {
    let mut tx = Transaction::new(1, 0);
    if inputs {
        match build_ins(items) {
            Ok(v) => tx.add_inputs(v),
            Err(_) => return "BADARG".into(),
        }
    } else {
        match build_outs(items) {
            Ok(v) => tx.add_outputs(v),
            Err(_) => return "BADARG".into(),
        }
    }
    let mut c = MatchCriteria::new();
    let mut last: Option<MatchCriteria> = None;
    let look = |tx: &Transaction, c: &MatchCriteria| -> String {
        if inputs {
            obs(&tx.match_inputs(c), tx.match_input(c))
        } else {
            obs(&tx.match_outputs(c), tx.match_output(c))
        }
    };
    let mut out = vec![look(&tx, &c)];
    if !steps.is_empty() {
        for st in steps.split('/') {
            let (k, v) = match st.split_once('=') {
                Some((k, v)) => (k, v),
                None => (st, ""),
            };
            let idx_val = |v: &str| -> Option<(usize, String)> {
                let (i, r) = v.split_once('.')?;
                Some((i.parse().ok()?, r.to_string()))
            };
            let mut was_setter = false;
            match k {
                "v" | "n" | "x" => {
                    let n: u64 = match v.parse() {
                        Ok(n) => n,
                        Err(_) => return "BADARG".into(),
                    };
                    last = Some(match k {
                        "v" => c.set_value(n),
                        "n" => c.set_min(n),
                        _ => c.set_max(n),
                    });
                    was_setter = true;
                }
                "t" => {
                    let t = match expand(v).and_then(|b| String::from_utf8(b).ok()) {
                        Some(t) => t,
                        None => return "BADARG".into(),
                    };
                    match ScriptTemplate::from_asm_string(&t) {
                        Ok(tmpl) => last = Some(c.set_script_template(&tmpl)),
                        Err(_) => return "OK:badtemplate".into(),
                    }
                    was_setter = true;
                }
                "r" => match &last {
                    Some(l) => c = l.clone(),
                    None => return "BADARG".into(),
                },
                "c" => c = c.clone(),
                "k" => tx = tx.clone(),
                "b" => {
                    if (0..tx.get_ninputs()).any(|i| tx.get_input(i).map(|t| null_outpoint(&t)).unwrap_or(false)) {
                        return "BADARG".into();
                    }
                    tx = match tx.to_bytes().and_then(|b| Transaction::from_bytes(&b)) {
                        Ok(t) => t,
                        Err(_) => return "ERR".into(),
                    }
                }
                "s" | "l" | "u" if inputs => {
                    let (i, r) = match idx_val(v) {
                        Some(x) => x,
                        None => return "BADARG".into(),
                    };
                    let mut txin = match tx.get_input(i) {
                        Some(t) => t,
                        None => return "BADARG".into(),
                    };
                    match k {
                        "s" => match r.parse::<u64>() {
                            Ok(n) => txin.set_satoshis(n),
                            Err(_) => return "BADARG".into(),
                        },
                        _ => {
                            let sc = match opt_script(&r) {
                                Ok(Some(s)) => s,
                                _ => return "BADARG".into(),
                            };
                            if k == "l" {
                                txin.set_locking_script(&sc)
                            } else {
                                txin.set_unlocking_script(&sc)
                            }
                        }
                    }
                    tx.set_input(i, &txin);
                }
                "w" if !inputs => {
                    let (i, r) = match idx_val(v) {
                        Some(x) => x,
                        None => return "BADARG".into(),
                    };
                    let o = match tx.get_output(i) {
                        Some(o) => o,
                        None => return "BADARG".into(),
                    };
                    let n: u64 = match r.parse() {
                        Ok(n) => n,
                        Err(_) => return "BADARG".into(),
                    };
                    tx.set_output(i, &TxOut::new(n, &o.get_script_pub_key()));
                }
                _ => return "BADARG".into(),
            }
            let o = look(&tx, &c);
            // the value a setter returns is a copy of the updated object
            if was_setter && last.as_ref().map(|l| look(&tx, l)) != Some(o.clone()) {
                return "OK:inconsistent".into();
            }
            out.push(o);
        }
    }
    format!("OK:{}", out.join(";"))
}

/// criteria from args[1..5]: template text (hex) or `-`, exact, min, max
/// the same criteria built from the values the setters return (each setter returns a clone of the updated object)
fn criteria_chained(args: &[String]) -> Option<MatchCriteria> {
    let mut c = MatchCriteria::default();
    if args.get(1).map(|t| t != "-").unwrap_or(false) {
        let t = arg_str(args, 1)?;
        let tmpl = ScriptTemplate::from_asm_string(&t).ok()?;
        c = c.set_script_template(&tmpl);
    }
    if let Ok(Some(v)) = opt_u64(args.get(4)) {
        c = c.set_max(v);
    }
    if let Ok(Some(v)) = opt_u64(args.get(3)) {
        c = c.set_min(v);
    }
    if let Ok(Some(v)) = opt_u64(args.get(2)) {
        c = c.set_value(v);
    }
    Some(c.clone())
}

fn criteria(args: &[String]) -> Result<Option<MatchCriteria>, ()> {
    let mut c = MatchCriteria::new();
    match args.get(1) {
        None => return Err(()),
        Some(t) if t == "-" => (),
        Some(_) => {
            let t = arg_str(args, 1).ok_or(())?;
            match ScriptTemplate::from_asm_string(&t) {
                Ok(tmpl) => {
                    c.set_script_template(&tmpl);
                }
                Err(_) => return Ok(None),
            }
        }
    }
    if let Some(v) = opt_u64(args.get(2))? {
        c.set_value(v);
    }
    if let Some(v) = opt_u64(args.get(3))? {
        c.set_min(v);
    }
    if let Some(v) = opt_u64(args.get(4))? {
        c.set_max(v);
    }
    Ok(Some(c))
}

fn show_indices(all: &[usize], first: Option<usize>) -> String {
    let l: Vec<String> = all.iter().map(|i| i.to_string()).collect();
    format!("OK:{};{}", l.join(","), first.map(|i| i.to_string()).unwrap_or_else(|| "-".into()))
}

pub fn run(op: &str, args: &[String]) -> Option<String> {
    Some(match op {
        // text -> ScriptTemplate::from_asm_string -> Debug rendering of the token list
        "template.parse" => {
            let t = match arg_str(args, 0) {
                Some(t) => t,
                None => return Some("BADARG".into()),
            };
            let other = ScriptTemplate::from_asm_string_impl(&t).map(|x| format!("{:?}", x)).ok();
            match ScriptTemplate::from_asm_string(&t) {
                Ok(tmpl) => {
                    if other != Some(format!("{:?}", tmpl)) || format!("{:?}", tmpl.clone()) != format!("{:?}", tmpl) {
                        return Some("OK:inconsistent".into());
                    }
                    format!("OK:{:?}", tmpl)
                }
                Err(_) => {
                    if other.is_some() {
                        return Some("OK:inconsistent".into());
                    }
                    "ERR".into()
                }
            }
        }
        // script bytes, template text -> Script::matches (and is_match)
        "script.match" => {
            let (bs, t) = match (arg_bytes(args, 0), arg_str(args, 1)) {
                (Some(b), Some(t)) => (b, t),
                _ => return Some("BADARG".into()),
            };
            let s = match Script::from_bytes(&bs) {
                Ok(s) => s,
                Err(_) => return Some("ERR".into()),
            };
            let tmpl = match ScriptTemplate::from_asm_string(&t) {
                Ok(t) => t,
                Err(_) => return Some("OK:badtemplate".into()),
            };
            let r = s.matches(&tmpl);
            let r2 = s.match_impl(&tmpl);
            let same = match (&r, &r2) {
                (Ok(a), Ok(b)) => show_matches(a) == show_matches(b),
                (Err(_), Err(_)) => true,
                _ => false,
            };
            if !same || r.is_ok() != s.is_match(&tmpl) || r.is_ok() != s.test_impl(&tmpl) || r.is_ok() != s.clone().is_match(&tmpl.clone()) {
                return Some("OK:inconsistent".into());
            }
            match r {
                Ok(ms) => format!("OK:match;{}", show_matches(&ms)),
                Err(_) => "OK:nomatch".into(),
            }
        }
        // script bytes -> ScriptTemplate::from_script(script) -> script.matches(template)
        "template.self_match" => {
            let bs = match arg_bytes(args, 0) {
                Some(b) => b,
                None => return Some("BADARG".into()),
            };
            let s = match Script::from_bytes(&bs) {
                Ok(s) => s,
                Err(_) => return Some("ERR".into()),
            };
            // from_script, from_script_impl and from_asm_string(to_asm_string()) must build the same template
            let via_impl = ScriptTemplate::from_script_impl(&s).map(|x| format!("{:?}", x)).ok();
            let via_asm = ScriptTemplate::from_asm_string(&s.to_asm_string()).map(|x| format!("{:?}", x)).ok();
            let tmpl = match ScriptTemplate::from_script(&s) {
                Ok(t) => t,
                Err(_) => {
                    if via_impl.is_some() || via_asm.is_some() {
                        return Some("OK:inconsistent".into());
                    }
                    return Some("OK:badtemplate".into());
                }
            };
            let dbg = Some(format!("{:?}", tmpl));
            if via_impl != dbg || via_asm != dbg || s.matches(&tmpl).is_ok() != s.is_match(&tmpl) {
                return Some("OK:inconsistent".into());
            }
            match s.matches(&tmpl) {
                Ok(ms) => format!("OK:match;{}", show_matches(&ms)),
                Err(_) => "OK:nomatch".into(),
            }
        }
        "tx.match_history" => {
            match (args.get(0).map(|s| s.as_str()), args.get(1), args.get(2)) {
                (Some("o"), Some(items), Some(steps)) => history(false, items, steps),
                (Some("i"), Some(items), Some(steps)) => history(true, items, steps),
                _ => "BADARG".into(),
            }
        }
        "tx.match_outputs" => {
            let mut tx = Transaction::new(1, 0);
            let mut bulk: Vec<TxOut> = vec![];
            let l = match args.get(0) {
                Some(l) => l.clone(),
                None => return Some("BADARG".into()),
            };
            if !l.is_empty() {
                for item in l.split('/') {
                    let f: Vec<&str> = item.split('=').collect();
                    if f.len() != 2 {
                        return Some("BADARG".into());
                    }
                    let v: u64 = match f[0].parse() {
                        Ok(v) => v,
                        Err(_) => return Some("BADARG".into()),
                    };
                    let s = match opt_script(f[1]) {
                        Ok(Some(s)) => s,
                        _ => return Some("BADARG".into()),
                    };
                    let o = TxOut::new(v, &s);
                    tx.add_output(&o);
                    bulk.push(o);
                }
            }
            match criteria(args) {
                Err(_) => return Some("BADARG".into()),
                Ok(None) => "OK:badtemplate".into(),
                Ok(Some(c)) => {
                    let r = show_indices(&tx.match_outputs(&c), tx.match_output(&c));
                    // bulk-built transaction, cloned transaction, criteria built from the setters' return values
                    let mut tx2 = Transaction::new(2, 7);
                    tx2.add_outputs(bulk);
                    let c2 = match criteria_chained(args) {
                        Some(c2) => c2,
                        None => return Some("OK:inconsistent".into()),
                    };
                    let txc = tx.clone();
                    if show_indices(&tx2.match_outputs(&c2), tx2.match_output(&c2)) != r
                        || show_indices(&txc.match_outputs(&c.clone()), txc.match_output(&c2)) != r
                    {
                        return Some("OK:inconsistent".into());
                    }
                    r
                }
            }
        }
        "tx.match_inputs" => {
            let mut tx = Transaction::new(1, 0);
            let l = match args.get(0) {
                Some(l) => l.clone(),
                None => return Some("BADARG".into()),
            };
            let bulk: Vec<TxIn> = match build_ins(&l) {
                Ok(v) => v,
                Err(_) => return Some("BADARG".into()),
            };
            for txin in &bulk {
                // public view of the script the criteria are matched against
                let want: Vec<u8> = match txin.get_locking_script() {
                    Some(l) => [txin.get_unlocking_script().to_bytes(), l.to_bytes()].concat(),
                    None => txin.get_unlocking_script().to_bytes(),
                };
                if let Ok(f) = txin.get_finalised_script() {
                    if f.to_bytes() != want {
                        return Some("OK:inconsistent".into());
                    }
                }
                tx.add_input(txin);
            }
            match criteria(args) {
                Err(_) => return Some("BADARG".into()),
                Ok(None) => "OK:badtemplate".into(),
                Ok(Some(c)) => {
                    let r = show_indices(&tx.match_inputs(&c), tx.match_input(&c));
                    let mut tx2 = Transaction::new(2, 7);
                    tx2.add_inputs(bulk);
                    let c2 = match criteria_chained(args) {
                        Some(c2) => c2,
                        None => return Some("OK:inconsistent".into()),
                    };
                    let txc = tx.clone();
                    if show_indices(&tx2.match_inputs(&c2), tx2.match_input(&c2)) != r
                        || show_indices(&txc.match_inputs(&c.clone()), txc.match_input(&c2)) != r
                    {
                        return Some("OK:inconsistent".into());
                    }
                    r
                }
            }
        }
        _ => return None,
    })
}
