//! C19 ops: script templates (parse, match, self-match) and transaction match criteria.
//!
//! Arguments: scripts as byte descriptors, template text as hex of its UTF-8 bytes, `-` for an absent optional.
//! outputs list:  `<value>=<script>/<value>=<script>/...`      (empty string = no outputs)
//! inputs list:   `<satoshis|->=<unlocking script>=<locking script|->/...`
use crate::util::*;
use bsv::{MatchCriteria, MatchDataTypes, Script, ScriptTemplate, Transaction, TxIn, TxOut};

fn show_matches(ms: &[(MatchDataTypes, Vec<u8>)]) -> String {
    let mut s = String::new();
    for (k, d) in ms {
        let c = match k {
            MatchDataTypes::Data => 'd',
            MatchDataTypes::Signature => 's',
            MatchDataTypes::PublicKey => 'k',
            MatchDataTypes::PublicKeyHash => 'h',
        };
        s.push(c);
        s.push_str(&show_bytes(d));
        s.push(',');
    }
    s
}

fn opt_u64(a: Option<&String>) -> Result<Option<u64>, ()> {
    match a {
        None => Err(()),
        Some(s) if s == "-" => Ok(None),
        Some(s) => s.parse::<u64>().map(Some).map_err(|_| ()),
    }
}

fn opt_script(s: &str) -> Result<Option<Script>, ()> {
    if s == "-" {
        return Ok(None);
    }
    let b = expand(s).ok_or(())?;
    Script::from_bytes(&b).map(Some).map_err(|_| ())
}

/// criteria from args[1..5]: template text (hex) or `-`, exact, min, max
fn criteria(args: &[String]) -> Result<Option<MatchCriteria>, ()> {
    let mut c = MatchCriteria::new();
    match args.get(1) {
        None => return Err(()),
        Some(t) if t == "-" => (),
        Some(_) => {
            let t = arg_str(args, 1).ok_or(())?;
            match ScriptTemplate::from_asm_string(&t) {
                Ok(tmpl) => {
                    c.set_script_template(&tmpl);
                }
                Err(_) => return Ok(None),
            }
        }
    }
    if let Some(v) = opt_u64(args.get(2))? {
        c.set_value(v);
    }
    if let Some(v) = opt_u64(args.get(3))? {
        c.set_min(v);
    }
    if let Some(v) = opt_u64(args.get(4))? {
        c.set_max(v);
    }
    Ok(Some(c))
}

fn show_indices(all: &[usize], first: Option<usize>) -> String {
    let l: Vec<String> = all.iter().map(|i| i.to_string()).collect();
    format!("OK:{};{}", l.join(","), first.map(|i| i.to_string()).unwrap_or_else(|| "-".into()))
}

pub fn run(op: &str, args: &[String]) -> Option<String> {
    Some(match op {
        // text -> ScriptTemplate::from_asm_string -> Debug rendering of the token list
        "template.parse" => {
            let t = match arg_str(args, 0) {
                Some(t) => t,
                None => return Some("BADARG".into()),
            };
            match ScriptTemplate::from_asm_string(&t) {
                Ok(tmpl) => format!("OK:{:?}", tmpl),
                Err(_) => "ERR".into(),
            }
        }
        // script bytes, template text -> Script::matches (and is_match)
        "script.match" => {
            let (bs, t) = match (arg_bytes(args, 0), arg_str(args, 1)) {
                (Some(b), Some(t)) => (b, t),
                _ => return Some("BADARG".into()),
            };
            let s = match Script::from_bytes(&bs) {
                Ok(s) => s,
                Err(_) => return Some("ERR".into()),
            };
            let tmpl = match ScriptTemplate::from_asm_string(&t) {
                Ok(t) => t,
                Err(_) => return Some("OK:badtemplate".into()),
            };
            let r = s.matches(&tmpl);
            if r.is_ok() != s.is_match(&tmpl) {
                return Some("OK:inconsistent".into());
            }
            match r {
                Ok(ms) => format!("OK:match;{}", show_matches(&ms)),
                Err(_) => "OK:nomatch".into(),
            }
        }
        // script bytes -> ScriptTemplate::from_script(script) -> script.matches(template)
        "template.self_match" => {
            let bs = match arg_bytes(args, 0) {
                Some(b) => b,
                None => return Some("BADARG".into()),
            };
            let s = match Script::from_bytes(&bs) {
                Ok(s) => s,
                Err(_) => return Some("ERR".into()),
            };
            let tmpl = match ScriptTemplate::from_script(&s) {
                Ok(t) => t,
                Err(_) => return Some("OK:badtemplate".into()),
            };
            match s.matches(&tmpl) {
                Ok(ms) => format!("OK:match;{}", show_matches(&ms)),
                Err(_) => "OK:nomatch".into(),
            }
        }
        "tx.match_outputs" => {
            let mut tx = Transaction::new(1, 0);
            let l = match args.get(0) {
                Some(l) => l.clone(),
                None => return Some("BADARG".into()),
            };
            if !l.is_empty() {
                for item in l.split('/') {
                    let f: Vec<&str> = item.split('=').collect();
                    if f.len() != 2 {
                        return Some("BADARG".into());
                    }
                    let v: u64 = match f[0].parse() {
                        Ok(v) => v,
                        Err(_) => return Some("BADARG".into()),
                    };
                    let s = match opt_script(f[1]) {
                        Ok(Some(s)) => s,
                        _ => return Some("BADARG".into()),
                    };
                    tx.add_output(&TxOut::new(v, &s));
                }
            }
            match criteria(args) {
                Err(_) => return Some("BADARG".into()),
                Ok(None) => "OK:badtemplate".into(),
                Ok(Some(c)) => show_indices(&tx.match_outputs(&c), tx.match_output(&c)),
            }
        }
        "tx.match_inputs" => {
            let mut tx = Transaction::new(1, 0);
            let l = match args.get(0) {
                Some(l) => l.clone(),
                None => return Some("BADARG".into()),
            };
            if !l.is_empty() {
                for (k, item) in l.split('/').enumerate() {
                    let f: Vec<&str> = item.split('=').collect();
                    if f.len() != 3 {
                        return Some("BADARG".into());
                    }
                    let unlock = match opt_script(f[1]) {
                        Ok(Some(s)) => s,
                        _ => return Some("BADARG".into()),
                    };
                    let mut txin = TxIn::new(&[k as u8; 32], k as u32, &unlock, None);
                    if f[0] != "-" {
                        match f[0].parse::<u64>() {
                            Ok(v) => txin.set_satoshis(v),
                            Err(_) => return Some("BADARG".into()),
                        }
                    }
                    match opt_script(f[2]) {
                        Ok(Some(s)) => txin.set_locking_script(&s),
                        Ok(None) => (),
                        Err(_) => return Some("BADARG".into()),
                    }
                    tx.add_input(&txin);
                }
            }
            match criteria(args) {
                Err(_) => return Some("BADARG".into()),
                Ok(None) => "OK:badtemplate".into(),
                Ok(Some(c)) => show_indices(&tx.match_inputs(&c), tx.match_input(&c)),
            }
        }
        _ => return None,
    })
}
