//! C15 ops: OP_CHECKSIG / OP_CHECKMULTISIG inside a spending transaction.
//!
//! interp.spend <tx> <idx> <ext>
//!     tx   wire bytes of the spending transaction (descriptor)
//!     idx  input index (decimal, usize)
//!     ext  extended fields of the inputs: `_` (none) or entries joined by `,`, entry k for input k:
//!          `<sat>.<lock>` with sat = decimal u64 or `n` (None), lock = byte descriptor of the locking script
//!          (may be empty = Some(empty script)) or `n` (None)
//!     -> Interpreter::from_transaction(&tx, idx) + run():  `OK:<stack items>;<codeseparator_offset>;<T|F>` or ERR
//!        (T: a true element is on top of the final stack, i.e. the input counts as spent)
//!
//! spend.build <kind> <tx> <idx> <value> <keys> <signers> <seps> <variant>
//!     kind     p2pk | p2pkh | ms | raw | rawd (raw with an OP_0 dummy element in front of the signatures)
//!              raw: <seps> is `<locking script descriptor>.<subscript descriptor>[.<subscript of signer 2>...]` (taken as
//!              given; the last subscript serves the remaining signers); the unlocking script pushes the signatures in order
//!              (variant 1: each followed by its public key)
//!     tx       wire bytes of the transaction to sign (the unlocking script of input idx is replaced)
//!     keys     private keys joined by `,` (64 hex digits each, prefix `u` = uncompressed public key)
//!     signers  `<key index>.<flag byte, decimal>[.<nonce, 64 hex digits>]` joined by `,`, in signature order (m of them);
//!              with a nonce the element is made by Transaction::sign_with_k (ephemeral key = nonce) instead of Transaction::sign
//!     seps     `_` or positions joined by `,`: an OP_CODESEPARATOR is inserted before element <pos> of the
//!              plain locking script (pos = number of elements: at the end)
//!     variant  0: ... OP_CHECKSIG / OP_CHECKMULTISIG      1: ... OP_CHECKSIGVERIFY / OP_CHECKMULTISIGVERIFY OP_1
//!     -> `OK:<tx hex>;<ext>;<locking script hex>;<subscript hex>;<checks>`: the signed transaction and the extended fields
//!        in the format interp.spend takes.  Everything goes through the library's own API (Transaction::sign,
//!        P2PKHAddress::get_locking_script / get_unlocking_script, SighashSignature::to_bytes, Script::encode_pushdata);
//!        the subscript handed to Transaction::sign is cut by the driver itself.
//!        <checks>: eight 0/1 digits about the first signature and the built input, all on the in-memory objects:
//!          Transaction::verify, Transaction::_verify(.., false), Transaction::_verify(.., true), SighashSignature::to_hex == hex(to_bytes),
//!          SighashSignature::from_bytes(to_bytes, preimage) gives the same bytes and verifies, SighashSignature::new(Signature::from_der(..),
//!          flag, preimage) likewise, TxIn::get_finalised_script == unlocking ++ locking bytes, Interpreter::from_transaction + run on the
//!          transaction object that did the signing (warm hash cache) ends like on a freshly parsed copy
//!
//! interp.spend_steps <tx> <idx> <ext>   the same as interp.spend, driven with Iterator::next until None / Err
use crate::util::*;
use bsv::{Interpreter, OpCodes, P2PKHAddress, PrivateKey, PublicKey, Script, ScriptBit, SigHash, SighashSignature, Signature, Transaction};
use std::convert::TryFrom;

fn show_items(v: &[Vec<u8>]) -> String {
    let mut s = String::new();
    for x in v {
        s.push_str(&show_bytes(x));
        s.push(',');
    }
    s
}

/// T when the run leaves a true element on top of the stack (CastToBool: some non-zero byte, other than a lone sign bit in
/// the last byte), F otherwise (empty stack included): "the input is spent"
fn top_verdict(stack: &[Vec<u8>]) -> char {
    match stack.last() {
        None => 'F',
        Some(v) => {
            let n = v.len();
            let truthy = v.iter().enumerate().any(|(i, b)| *b != 0 && !(i + 1 == n && *b == 0x80));
            if truthy {
                'T'
            } else {
                'F'
            }
        }
    }
}

/// apply the `ext` argument to the transaction; None = malformed argument, Some(Err) = the library refused
fn apply_ext(tx: &mut Transaction, ext: &str) -> Option<Result<(), ()>> {
    if ext == "_" {
        return Some(Ok(()));
    }
    for (k, ent) in ext.split(',').enumerate() {
        let f: Vec<&str> = ent.split('.').collect();
        if f.len() != 2 {
            return None;
        }
        let sat = if f[0] == "n" { None } else { Some(f[0].parse::<u64>().ok()?) };
        let lock = if f[1] == "n" { None } else { Some(expand(f[1])?) };
        if let Some(mut txin) = tx.get_input(k) {
            if let Some(v) = sat {
                txin.set_satoshis(v);
            }
            if let Some(l) = lock {
                match Script::from_bytes(&l) {
                    Ok(s) => txin.set_locking_script(&s),
                    Err(_) => return Some(Err(())),
                }
            }
            tx.set_input(k, &txin);
        }
    }
    Some(Ok(()))
}

fn is_check(b: &ScriptBit) -> bool {
    matches!(
        b,
        ScriptBit::OpCode(OpCodes::OP_CHECKSIG) | ScriptBit::OpCode(OpCodes::OP_CHECKSIGVERIFY) | ScriptBit::OpCode(OpCodes::OP_CHECKMULTISIG) | ScriptBit::OpCode(OpCodes::OP_CHECKMULTISIGVERIFY)
    )
}
fn is_sep(b: &ScriptBit) -> bool {
    matches!(b, ScriptBit::OpCode(OpCodes::OP_CODESEPARATOR))
}

fn push_of(data: &[u8]) -> Option<Vec<u8>> {
    Script::encode_pushdata(data).ok()
}

pub fn run(op: &str, args: &[String]) -> Option<String> {
    Some(match op {
        "interp.spend" => {
            let (txb, idx, ext) = match (arg_bytes(args, 0), arg_u64(args, 1), args.get(2)) {
                (Some(a), Some(b), Some(c)) => (a, b, c.clone()),
                _ => return Some("BADARG".into()),
            };
            let mut tx = match Transaction::from_bytes(&txb) {
                Ok(t) => t,
                Err(_) => return Some("ERR".into()),
            };
            match apply_ext(&mut tx, &ext) {
                None => return Some("BADARG".into()),
                Some(Err(_)) => return Some("ERR".into()),
                Some(Ok(())) => {}
            }
            let mut it = match Interpreter::from_transaction(&tx, idx as usize) {
                Ok(i) => i,
                Err(_) => return Some("ERR".into()),
            };
            match it.run() {
                Ok(()) => {
                    let st = it.state();
                    format!("OK:{};{};{}", show_items(st.stack()), st.codeseparator_offset, top_verdict(st.stack()))
                }
                Err(_) => "ERR".into(),
            }
        }
        "interp.spend_steps" => {
            let (txb, idx, ext) = match (arg_bytes(args, 0), arg_u64(args, 1), args.get(2)) {
                (Some(a), Some(b), Some(c)) => (a, b, c.clone()),
                _ => return Some("BADARG".into()),
            };
            let mut tx = match Transaction::from_bytes(&txb) {
                Ok(t) => t,
                Err(_) => return Some("ERR".into()),
            };
            match apply_ext(&mut tx, &ext) {
                None => return Some("BADARG".into()),
                Some(Err(_)) => return Some("ERR".into()),
                Some(Ok(())) => {}
            }
            // the same interpreter through the other constructor: TxIn::get_finalised_script + from_transaction_and_script_bits
            let bits = match tx.get_input(idx as usize).map(|i| i.get_finalised_script()) {
                Some(Ok(s)) => s.to_script_bits(),
                _ => return Some("ERR".into()),
            };
            let mut it = Interpreter::from_transaction_and_script_bits(tx.clone(), idx as usize, bits);
            if it.script_index() != 0 || it.tx_script().is_none() || it.script_bits().len() != it.script().to_script_bits().len() {
                return Some("OK:accessors".into());
            }
            loop {
                match it.next() {
                    None => break,
                    Some(Ok(_)) => {}
                    Some(Err(_)) => return Some("ERR".into()),
                }
            }
            let st = it.state();
            format!("OK:{};{};{}", show_items(st.stack()), st.codeseparator_offset, top_verdict(st.stack()))
        }
        "interp.seq" => {
            // interp.seq <tx> <idx> <ext> <key> <steps>: ONE Transaction object (and one persisted Interpreter) driven through a
            // little program; steps joined by `,`, fields inside a step by `.`:
            //   r  run a fresh interpreter on the object            i  keep an interpreter made from the object now
            //   n<k>  step the kept interpreter k times             R  run the kept interpreter to the end
            //   v<dec> l<desc> u<desc>  set_satoshis / set_locking_script / set_unlocking_script of input idx (get_input + set_input)
            //   V<dec> L<dec>  set_version / set_nlocktime          o<k>.<dec>  value of output k (set_output)
            //   q<k>.<dec>  sequence of input k (set_input)          a<dec>  add_output(value, OP_1)
            //   c  replace the object by its clone()                 s  to_bytes / from_bytes, extended fields copied over
            //   g|G|K<flag>.<value>.<sub>  Transaction::sign with the EXPLICIT value and subscript (G: unlocking := <sig>; K: <sig> <pubkey>)
            //   p<flag>.<value>.<sub>  Transaction::sighash_preimage
            //   t<sig>.<pubkey>.<preimage>  SighashSignature::from_bytes + Transaction::verify / _verify(false) / _verify(true)
            // -> OK:<obs>/<obs>/...;<c>;<c>...   one observation per observing step; one coarse letter per run (A = single 01,
            //    R = error or single false element, O = anything else)
            if args.len() != 5 {
                return Some("BADARG".into());
            }
            let (txb, idx, ext) = match (arg_bytes(args, 0), arg_u64(args, 1), args.get(2)) {
                (Some(a), Some(b), Some(c)) => (a, b as usize, c.clone()),
                _ => return Some("BADARG".into()),
            };
            let sk = {
                let k = args[3].as_str();
                let (unc, h) = match k.strip_prefix('u') {
                    Some(r) => (true, r),
                    None => (false, k),
                };
                match hex::decode(h).ok().and_then(|b| PrivateKey::from_bytes(&b).ok()) {
                    Some(s) => s.compress_public_key(!unc),
                    None => return Some("BADARG".into()),
                }
            };
            let pk = PublicKey::from_private_key(&sk);
            let mut tx = match Transaction::from_bytes(&txb) {
                Ok(t) => t,
                Err(_) => return Some("ERR".into()),
            };
            match apply_ext(&mut tx, &ext) {
                None => return Some("BADARG".into()),
                Some(Err(_)) => return Some("ERR".into()),
                Some(Ok(())) => {}
            }
            let mut kept: Option<Interpreter> = None;
            let mut obs: Vec<String> = Vec::new();
            let mut coarse: Vec<char> = Vec::new();
            let render = |r: Result<(), ()>, it: &Interpreter, obs: &mut Vec<String>, coarse: &mut Vec<char>| match r {
                Ok(()) => {
                    let st = it.state();
                    let items: Vec<String> = st.stack().iter().map(|x| show_bytes(x)).collect();
                    obs.push(format!("{}@{}", items.join("^"), st.codeseparator_offset));
                    let one = st.stack().len() == 1;
                    coarse.push(if one && st.stack()[0] == vec![1u8] {
                        'A'
                    } else if one && st.stack()[0].is_empty() {
                        'R'
                    } else {
                        'O'
                    });
                }
                Err(()) => {
                    obs.push("E".into());
                    coarse.push('R');
                }
            };
            let num = |s: &str| s.parse::<u64>().ok();
            for step in args[4].split(',') {
                if step.is_empty() {
                    return Some("BADARG".into());
                }
                let (op1, rest) = step.split_at(1);
                let f: Vec<&str> = rest.split('.').collect();
                match op1 {
                    "r" => match Interpreter::from_transaction(&tx, idx) {
                        Ok(mut it) => {
                            let r = it.run().map_err(|_| ());
                            render(r, &it, &mut obs, &mut coarse);
                        }
                        Err(_) => {
                            obs.push("E".into());
                            coarse.push('R');
                        }
                    },
                    "i" => kept = Interpreter::from_transaction(&tx, idx).ok(),
                    "n" => {
                        let k = match num(rest) {
                            Some(k) if k <= 1000 => k,
                            _ => return Some("BADARG".into()),
                        };
                        if let Some(it) = kept.as_mut() {
                            for _ in 0..k {
                                let _ = it.next();
                            }
                        }
                    }
                    "R" => match kept.as_mut() {
                        Some(it) => {
                            let r = it.run().map_err(|_| ());
                            let snapshot = it.clone();
                            render(r, &snapshot, &mut obs, &mut coarse);
                        }
                        None => {
                            obs.push("E".into());
                            coarse.push('R');
                        }
                    },
                    "v" => {
                        let v = match num(rest) {
                            Some(v) => v,
                            None => return Some("BADARG".into()),
                        };
                        if let Some(mut i) = tx.get_input(idx) {
                            i.set_satoshis(v);
                            tx.set_input(idx, &i);
                        }
                    }
                    "l" | "u" => {
                        let sc = match expand(rest).map(|b| Script::from_bytes(&b)) {
                            Some(Ok(s)) => s,
                            Some(Err(_)) => return Some("ERR".into()),
                            None => return Some("BADARG".into()),
                        };
                        if let Some(mut i) = tx.get_input(idx) {
                            if op1 == "l" {
                                i.set_locking_script(&sc)
                            } else {
                                i.set_unlocking_script(&sc)
                            }
                            tx.set_input(idx, &i);
                        }
                    }
                    "V" | "L" => match num(rest) {
                        Some(v) if v <= u32::MAX as u64 => {
                            if op1 == "V" {
                                tx.set_version(v as u32);
                            } else {
                                tx.set_nlocktime(v as u32);
                            }
                        }
                        _ => return Some("BADARG".into()),
                    },
                    "o" | "q" => {
                        if f.len() != 2 {
                            return Some("BADARG".into());
                        }
                        let (k, v) = match (num(f[0]), num(f[1])) {
                            (Some(k), Some(v)) if k <= 1000 => (k as usize, v),
                            _ => return Some("BADARG".into()),
                        };
                        if op1 == "o" {
                            if let Some(o) = tx.get_output(k) {
                                tx.set_output(k, &bsv::TxOut::new(v, &o.get_script_pub_key()));
                            }
                        } else {
                            if v > u32::MAX as u64 {
                                return Some("BADARG".into());
                            }
                            if let Some(mut i) = tx.get_input(k) {
                                i.set_sequence(v as u32);
                                tx.set_input(k, &i);
                            }
                        }
                    }
                    "a" => match num(rest) {
                        Some(v) => tx.add_output(&bsv::TxOut::new(v, &Script::from_bytes(&[0x51]).unwrap())),
                        None => return Some("BADARG".into()),
                    },
                    "c" => tx = tx.clone(),
                    "s" => {
                        let b = match tx.to_bytes() {
                            Ok(b) => b,
                            Err(_) => return Some("ERR".into()),
                        };
                        let mut t2 = match Transaction::from_bytes(&b) {
                            Ok(t) => t,
                            Err(_) => return Some("ERR".into()),
                        };
                        for k in 0..tx.get_ninputs() {
                            if let (Some(old), Some(mut new)) = (tx.get_input(k), t2.get_input(k)) {
                                if let Some(v) = old.get_satoshis() {
                                    new.set_satoshis(v);
                                }
                                if let Some(l) = old.get_locking_script() {
                                    new.set_locking_script(&l);
                                }
                                t2.set_input(k, &new);
                            }
                        }
                        tx = t2;
                    }
                    "g" | "G" | "K" | "p" => {
                        if f.len() != 3 {
                            return Some("BADARG".into());
                        }
                        let (fl, v, sub) = match (num(f[0]), num(f[1]), expand(f[2])) {
                            (Some(a), Some(b), Some(c)) if a <= 255 => (a as u8, b, c),
                            _ => return Some("BADARG".into()),
                        };
                        let flag = match SigHash::try_from(fl) {
                            Ok(x) => x,
                            Err(_) => return Some("BADARG".into()),
                        };
                        let sub = match Script::from_bytes(&sub) {
                            Ok(s) => s,
                            Err(_) => return Some("ERR".into()),
                        };
                        if op1 == "p" {
                            match tx.sighash_preimage(flag, idx, &sub, v) {
                                Ok(p) => obs.push(show_bytes(&p)),
                                Err(_) => obs.push("E".into()),
                            }
                        } else {
                            match tx.sign(&sk, flag, idx, &sub, v).and_then(|s| s.to_bytes()) {
                                Ok(sb) => {
                                    obs.push(hex::encode(&sb));
                                    if op1 != "g" {
                                        if let Some(mut i) = tx.get_input(idx) {
                                            let mut b = push_of(&sb).unwrap_or_default();
                                            if op1 == "K" {
                                                b.extend(pk.to_bytes().ok().and_then(|x| push_of(&x)).unwrap_or_default());
                                            }
                                            if let Ok(sc) = Script::from_bytes(&b) {
                                                i.set_unlocking_script(&sc);
                                                tx.set_input(idx, &i);
                                            }
                                        }
                                    }
                                }
                                Err(_) => obs.push("E".into()),
                            }
                        }
                    }
                    "t" => {
                        if f.len() != 3 {
                            return Some("BADARG".into());
                        }
                        let (sg, pkb, pre) = match (expand(f[0]), expand(f[1]), expand(f[2])) {
                            (Some(a), Some(b), Some(c)) => (a, b, c),
                            _ => return Some("BADARG".into()),
                        };
                        match (SighashSignature::from_bytes(&sg, &pre), PublicKey::from_bytes(&pkb)) {
                            (Ok(s), Ok(p)) => {
                                let b = |x: bool| if x { '1' } else { '0' };
                                obs.push(format!("{}{}{}", b(tx.verify(&p, &s)), b(tx._verify(&p, &s, false)), b(tx._verify(&p, &s, true))));
                            }
                            _ => obs.push("E".into()),
                        }
                    }
                    _ => return Some("BADARG".into()),
                }
            }
            let cs: Vec<String> = coarse.iter().map(|c| c.to_string()).collect();
            format!("OK:{};{}", obs.join("/"), if cs.is_empty() { "-".to_string() } else { cs.join(";") })
        }
        "spend.build" => {
            if args.len() != 8 {
                return Some("BADARG".into());
            }
            let dummy_first = args[0] == "rawd";
            let kind = if dummy_first { "raw" } else { args[0].as_str() };
            let (txb, idx, value) = match (arg_bytes(args, 1), arg_u64(args, 2), arg_u64(args, 3)) {
                (Some(a), Some(b), Some(c)) => (a, b as usize, c),
                _ => return Some("BADARG".into()),
            };
            // keys
            let mut sks: Vec<PrivateKey> = Vec::new();
            for k in args[4].split(',') {
                let (unc, h) = match k.strip_prefix('u') {
                    Some(r) => (true, r),
                    None => (false, k),
                };
                let kb = match hex::decode(h) {
                    Ok(b) => b,
                    Err(_) => return Some("BADARG".into()),
                };
                let sk = match PrivateKey::from_bytes(&kb) {
                    Ok(s) => s,
                    Err(_) => return Some("BADARG".into()),
                };
                sks.push(sk.compress_public_key(!unc));
            }
            let pks: Vec<PublicKey> = sks.iter().map(PublicKey::from_private_key).collect();
            // signers
            let mut signers: Vec<(usize, SigHash, Option<PrivateKey>)> = Vec::new();
            for s in args[5].split(',') {
                let f: Vec<&str> = s.split('.').collect();
                if f.len() != 2 && f.len() != 3 {
                    return Some("BADARG".into());
                }
                let nonce = if f.len() == 3 {
                    match hex::decode(f[2]).ok().and_then(|b| PrivateKey::from_bytes(&b).ok()) {
                        Some(k) => Some(k),
                        None => return Some("BADARG".into()),
                    }
                } else {
                    None
                };
                let (ki, fl) = match (f[0].parse::<usize>(), f[1].parse::<u8>()) {
                    (Ok(a), Ok(b)) => (a, b),
                    _ => return Some("BADARG".into()),
                };
                let flag = match SigHash::try_from(fl) {
                    Ok(x) => x,
                    Err(_) => return Some("BADARG".into()),
                };
                if ki >= sks.len() {
                    return Some("BADARG".into());
                }
                signers.push((ki, flag, nonce));
            }
            let mut seps: Vec<usize> = Vec::new();
            if kind != "raw" && args[6] != "_" {
                for s in args[6].split(',') {
                    match s.parse::<usize>() {
                        Ok(p) => seps.push(p),
                        Err(_) => return Some("BADARG".into()),
                    }
                }
            }
            let verify_variant = match args[7].as_str() {
                "0" => false,
                "1" => true,
                _ => return Some("BADARG".into()),
            };
            // plain locking script
            let plain: Script = match kind {
                "p2pkh" => {
                    let addr = match P2PKHAddress::from_pubkey(&pks[0]) {
                        Ok(a) => a,
                        Err(_) => return Some("ERR".into()),
                    };
                    match addr.get_locking_script() {
                        Ok(s) => s,
                        Err(_) => return Some("ERR".into()),
                    }
                }
                "p2pk" => {
                    let pkb = match pks[0].to_bytes() {
                        Ok(b) => b,
                        Err(_) => return Some("ERR".into()),
                    };
                    let mut b = match push_of(&pkb) {
                        Some(p) => p,
                        None => return Some("ERR".into()),
                    };
                    b.push(0xac);
                    match Script::from_bytes(&b) {
                        Ok(s) => s,
                        Err(_) => return Some("ERR".into()),
                    }
                }
                "ms" => {
                    if signers.is_empty() || signers.len() > 16 || pks.len() > 16 {
                        return Some("BADARG".into());
                    }
                    let mut b = vec![0x50 + signers.len() as u8];
                    for pk in &pks {
                        let pkb = match pk.to_bytes() {
                            Ok(b) => b,
                            Err(_) => return Some("ERR".into()),
                        };
                        match push_of(&pkb) {
                            Some(p) => b.extend(p),
                            None => return Some("ERR".into()),
                        }
                    }
                    b.push(0x50 + pks.len() as u8);
                    b.push(0xae);
                    match Script::from_bytes(&b) {
                        Ok(s) => s,
                        Err(_) => return Some("ERR".into()),
                    }
                }
                "raw" => {
                    let f: Vec<&str> = args[6].split('.').collect();
                    if f.len() < 2 {
                        return Some("BADARG".into());
                    }
                    match expand(f[0]).map(|b| Script::from_bytes(&b)) {
                        Some(Ok(s)) => s,
                        Some(Err(_)) => return Some("ERR".into()),
                        None => return Some("BADARG".into()),
                    }
                }
                _ => return Some("BADARG".into()),
            };
            let mut bits = plain.to_script_bits();
            if verify_variant && kind != "raw" {
                let last = match bits.pop() {
                    Some(ScriptBit::OpCode(OpCodes::OP_CHECKSIG)) => OpCodes::OP_CHECKSIGVERIFY,
                    Some(ScriptBit::OpCode(OpCodes::OP_CHECKMULTISIG)) => OpCodes::OP_CHECKMULTISIGVERIFY,
                    _ => return Some("ERR".into()),
                };
                bits.push(ScriptBit::OpCode(last));
                bits.push(ScriptBit::OpCode(OpCodes::OP_1));
            }
            // separators: before element <pos> of the plain script
            let n0 = bits.len();
            let mut with_seps: Vec<ScriptBit> = Vec::new();
            for (k, b) in bits.iter().enumerate() {
                for p in &seps {
                    if *p == k {
                        with_seps.push(ScriptBit::OpCode(OpCodes::OP_CODESEPARATOR));
                    }
                }
                with_seps.push(b.clone());
            }
            for p in &seps {
                if *p >= n0 {
                    with_seps.push(ScriptBit::OpCode(OpCodes::OP_CODESEPARATOR));
                }
            }
            let locking = Script::from_script_bits(with_seps.clone());
            // subscript: after the last separator that precedes the signature-checking opcode
            let chk = match with_seps.iter().position(is_check) {
                Some(p) => p,
                None if kind == "raw" => 0,
                None => return Some("ERR".into()),
            };
            let start = match with_seps[..chk].iter().rposition(is_sep) {
                Some(p) => p + 1,
                None => 0,
            };
            let subscript = if kind == "raw" {
                let f: Vec<&str> = args[6].split('.').collect();
                match expand(f[1]).map(|b| Script::from_bytes(&b)) {
                    Some(Ok(s)) => s,
                    Some(Err(_)) => return Some("ERR".into()),
                    None => return Some("BADARG".into()),
                }
            } else {
                Script::from_script_bits(with_seps[start..].to_vec())
            };
            // transaction
            let mut tx = match Transaction::from_bytes(&txb) {
                Ok(t) => t,
                Err(_) => return Some("ERR".into()),
            };
            let mut txin = match tx.get_input(idx) {
                Some(i) => i,
                None => return Some("ERR".into()),
            };
            txin.set_satoshis(value);
            txin.set_locking_script(&locking);
            txin.set_unlocking_script(&Script::default());
            tx.set_input(idx, &txin);
            let mut subs: Vec<Script> = vec![subscript.clone()];
            if kind == "raw" {
                let f: Vec<&str> = args[6].split('.').collect();
                for d in &f[2..] {
                    match expand(d).map(|b| Script::from_bytes(&b)) {
                        Some(Ok(s)) => subs.push(s),
                        Some(Err(_)) => return Some("ERR".into()),
                        None => return Some("BADARG".into()),
                    }
                }
            }
            let mut sigs = Vec::new();
            for (j, (ki, flag, nonce)) in signers.iter().enumerate() {
                let sub = &subs[j.min(subs.len() - 1)];
                let r = match nonce {
                    Some(k) => tx.sign_with_k(&sks[*ki], k, *flag, idx, sub, value),
                    None => tx.sign(&sks[*ki], *flag, idx, sub, value),
                };
                match r {
                    Ok(s) => sigs.push(s),
                    Err(_) => return Some("ERR".into()),
                }
            }
            let unlocking: Script = match kind {
                "p2pkh" => {
                    let addr = match P2PKHAddress::from_pubkey(&pks[0]) {
                        Ok(a) => a,
                        Err(_) => return Some("ERR".into()),
                    };
                    match addr.get_unlocking_script(&pks[signers[0].0], &sigs[0]) {
                        Ok(s) => s,
                        Err(_) => return Some("ERR".into()),
                    }
                }
                _ => {
                    let mut b: Vec<u8> = Vec::new();
                    if kind == "ms" || dummy_first {
                        b.push(0x00);
                    }
                    for (j, s) in sigs.iter().enumerate() {
                        let sb = match s.to_bytes() {
                            Ok(x) => x,
                            Err(_) => return Some("ERR".into()),
                        };
                        match push_of(&sb) {
                            Some(p) => b.extend(p),
                            None => return Some("ERR".into()),
                        }
                        if kind == "raw" && verify_variant {
                            match pks[signers[j].0].to_bytes().ok().and_then(|x| push_of(&x)) {
                                Some(p) => b.extend(p),
                                None => return Some("ERR".into()),
                            }
                        }
                    }
                    match Script::from_bytes(&b) {
                        Ok(s) => s,
                        Err(_) => return Some("ERR".into()),
                    }
                }
            };
            txin.set_unlocking_script(&unlocking);
            tx.set_input(idx, &txin);
            let out = match tx.to_bytes() {
                Ok(b) => b,
                Err(_) => return Some("ERR".into()),
            };
            let mut ext = Vec::new();
            for k in 0..tx.get_ninputs() {
                if k == idx {
                    ext.push(format!("{}.{}", value, hex::encode(locking.to_bytes())));
                } else {
                    ext.push("n.n".to_string());
                }
            }
            // checks on the in-memory objects
            let b = |x: bool| if x { '1' } else { '0' };
            let mut checks = String::new();
            {
                let sig0 = &sigs[0];
                let pk0 = &pks[signers[0].0];
                let flag0 = signers[0].1;
                let bytes0 = sig0.to_bytes().unwrap_or_default();
                checks.push(b(tx.verify(pk0, sig0)));
                checks.push(b(tx._verify(pk0, sig0, false)));
                checks.push(b(tx._verify(pk0, sig0, true)));
                checks.push(b(sig0.to_hex().map(|h| h == hex::encode(&bytes0)).unwrap_or(false)));
                let pre = tx.sighash_preimage(flag0, idx, &subs[0], value).unwrap_or_default();
                checks.push(b(match SighashSignature::from_bytes(&bytes0, &pre) {
                    Ok(rt) => rt.to_bytes().map(|x| x == bytes0).unwrap_or(false) && tx.verify(pk0, &rt),
                    Err(_) => false,
                }));
                checks.push(b(match Signature::from_der(&bytes0[..bytes0.len().saturating_sub(1)]) {
                    Ok(sg) => {
                        let n = SighashSignature::new(&sg, flag0, &pre);
                        n.to_bytes().map(|x| x == bytes0).unwrap_or(false) && tx.verify(pk0, &n)
                    }
                    Err(_) => false,
                }));
                let mut both = unlocking.to_bytes();
                both.extend(locking.to_bytes());
                checks.push(b(txin.get_finalised_script().map(|s| s.to_bytes() == both).unwrap_or(false)));
                let run_on = |t: &Transaction| -> String {
                    match Interpreter::from_transaction(t, idx) {
                        Ok(mut it) => match it.run() {
                            Ok(()) => format!("OK:{}", show_items(it.state().stack())),
                            Err(_) => "ERR".into(),
                        },
                        Err(_) => "ERR".into(),
                    }
                };
                let warm = run_on(&tx);
                let cold = match Transaction::from_bytes(&out) {
                    Ok(mut t2) => {
                        if let Some(mut i2) = t2.get_input(idx) {
                            i2.set_satoshis(value);
                            i2.set_locking_script(&locking);
                            t2.set_input(idx, &i2);
                        }
                        run_on(&t2)
                    }
                    Err(_) => "ERR2".into(),
                };
                checks.push(b(warm == cold));
            }
            format!("OK:{};{};{};{};{}", hex::encode(out), ext.join(","), hex::encode(locking.to_bytes()), hex::encode(subscript.to_bytes()), checks)
        }
        _ => return None,
    })
}
