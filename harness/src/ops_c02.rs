//! C02 ops: script parsing / serialisation / push encoding.
use crate::util::*;
use bsv::{OpCodes, Script, ScriptBit};

pub fn show_bit(b: &ScriptBit, out: &mut String) {
    match b {
        ScriptBit::OpCode(c) => out.push_str(&format!("o{},", *c as u8)),
        ScriptBit::Push(d) => out.push_str(&format!("p{},", show_bytes(d))),
        ScriptBit::PushData(c, d) => out.push_str(&format!("d{}:{},", *c as u8, show_bytes(d))),
        ScriptBit::If { code, pass, fail } => {
            out.push_str(&format!("i{}(", *code as u8));
            for x in pass {
                show_bit(x, out);
            }
            out.push(')');
            if let Some(f) = fail {
                out.push_str("e(");
                for x in f {
                    show_bit(x, out);
                }
                out.push(')');
            }
            out.push(',');
        }
        ScriptBit::Coinbase(d) => out.push_str(&format!("c{},", show_bytes(d))),
    }
}
pub fn show_bits(bits: &[ScriptBit]) -> String {
    let mut s = String::new();
    for b in bits {
        show_bit(b, &mut s);
    }
    s
}
/// flat token rendering computed by the driver itself from the nested bits
pub fn bit_toks(b: &ScriptBit, out: &mut String) {
    match b {
        ScriptBit::OpCode(c) => out.push_str(&format!("o{},", *c as u8)),
        ScriptBit::Push(d) => out.push_str(&format!("p{}:{},", d.len(), show_bytes(d))),
        ScriptBit::PushData(c, d) => out.push_str(&format!("p{}:{},", *c as u8, show_bytes(d))),
        ScriptBit::If { code, pass, fail } => {
            out.push_str(&format!("o{},", *code as u8));
            for x in pass {
                bit_toks(x, out);
            }
            if let Some(f) = fail {
                out.push_str(&format!("o{},", OpCodes::OP_ELSE as u8));
                for x in f {
                    bit_toks(x, out);
                }
            }
            out.push_str(&format!("o{},", OpCodes::OP_ENDIF as u8));
        }
        ScriptBit::Coinbase(d) => out.push_str(&format!("c{},", show_bytes(d))),
    }
}
pub fn bits_toks(bits: &[ScriptBit]) -> String {
    let mut s = String::new();
    for b in bits {
        bit_toks(b, &mut s);
    }
    s
}

pub fn run(op: &str, args: &[String]) -> Option<String> {
    Some(match op {
        "script.parse" => {
            let bs = match arg_bytes(args, 0) {
                Some(b) => b,
                None => return Some("BADARG".into()),
            };
            match Script::from_bytes(&bs) {
                Ok(s) => {
                    let bits = s.to_script_bits();
                    format!("OK:{};{};{}", show_bytes(&s.to_bytes()), bits_toks(&bits), show_bits(&bits))
                }
                Err(_) => "ERR".into(),
            }
        }
        "script.routes" => {
            let bs = match arg_bytes(args, 0) {
                Some(b) => b,
                None => return Some("BADARG".into()),
            };
            match Script::from_bytes(&bs) {
                Ok(s) => {
                    let ser = s.to_bytes();
                    let hex_ok = s.to_hex() == hex::encode(&ser);
                    let from_hex_ok = match Script::from_hex(&hex::encode(&bs)) {
                        Ok(s2) => s2 == s && s2.to_bytes() == ser,
                        Err(_) => false,
                    };
                    let rebuilt = Script::from_script_bits(s.to_script_bits());
                    let rebuilt_ok = rebuilt.to_bytes() == ser && rebuilt.get_script_length() == s.get_script_length();
                    let b = |x: bool| if x { '1' } else { '0' };
                    format!("OK:{};{}{}{}", s.get_script_length(), b(hex_ok), b(from_hex_ok), b(rebuilt_ok))
                }
                Err(_) => "ERR".into(),
            }
        }
        "script.encode_pushdata" => {
            let bs = match arg_bytes(args, 0) {
                Some(b) => b,
                None => return Some("BADARG".into()),
            };
            match Script::encode_pushdata(&bs) {
                Ok(e) => {
                    let back = match Script::from_bytes(&e) {
                        Ok(s) => bits_toks(&s.to_script_bits()),
                        Err(_) => "ERR".into(),
                    };
                    format!("OK:{};{}", show_bytes(&e), back)
                }
                Err(_) => "ERR".into(),
            }
        }
        "script.opname" => {
            let n = match arg_u64(args, 0) {
                Some(n) if n < 256 => n as u8,
                _ => return Some("BADARG".into()),
            };
            if (1..=75).contains(&n) {
                return Some("PUSH".into());
            }
            // the opcode a lone byte parses to: its name (Debug of the enum variant) and numeric value
            let probe: Vec<u8> = match n {
                76 => vec![76, 0],
                77 => vec![77, 0, 0],
                78 => vec![78, 0, 0, 0, 0],
                _ => vec![n],
            };
            match Script::from_bytes(&probe) {
                Ok(s) => match s.to_script_bits().first() {
                    Some(ScriptBit::OpCode(c)) => format!("OK:{:?};{}", c, *c as u8),
                    Some(ScriptBit::PushData(c, _)) => format!("OK:{:?};{}", c, *c as u8),
                    Some(ScriptBit::If { code, .. }) => format!("OK:{:?};{}", code, *code as u8),
                    _ => "ERR".into(),
                },
                // IF-family opcodes alone are unterminated: parse them closed
                Err(_) => match Script::from_bytes(&[n, 0x68]) {
                    Ok(s) => match s.to_script_bits().first() {
                        Some(ScriptBit::If { code, .. }) => format!("OK:{:?};{}", code, *code as u8),
                        _ => "ERR".into(),
                    },
                    Err(_) => "ERR".into(),
                },
            }
        }
        "script.pushdata_prefix" => {
            let n = match arg_u64(args, 0) {
                Some(n) => n,
                None => return Some("BADARG".into()),
            };
            match Script::get_pushdata_bytes(n as usize) {
                Ok(p) => format!("OK:{}", hex::encode(p)),
                Err(_) => "ERR".into(),
            }
        }
        _ => return None,
    })
}
