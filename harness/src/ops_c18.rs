//! C18 ops: JSON / CBOR encodings of transactions and inputs.
//!
//! Transaction argument: `<wire> <ext>` — wire bytes as a descriptor, then per input (in order, `,`-separated)
//! `<satoshis|n>.<locking script bytes descriptor|n>`; `-` for "no extended fields at all".
//! Bits argument (scripts that the byte parser cannot produce): `,`-separated tokens
//! `o<NAME>` `p<hex>` `d<NAME>x<hex>` `c<hex>` `i<NAME>` … `e` … `z`.
//! Tree argument (documents that the serialisers never produce): `.`-separated prefix tokens
//! `n` `t` `f` `u<dec>` `m<dec>` `s<hex of utf-8>` `z<raw [0-9A-Za-z_]*>` `S<descriptor>` (hex text of the bytes)
//! `a<k>` (array of the next k items) `o<k>` (map of the next k key/value pairs, keys are string tokens).
use crate::ops_c02::show_bits;
use crate::util::*;
use bsv::{OpCodes, Script, ScriptBit, Transaction, TxIn, TxOut};
use std::str::FromStr;

// ---------------------------------------------------------------- rendering of values
fn show_opt_u64(v: Option<u64>) -> String {
    match v {
        Some(x) => x.to_string(),
        None => "n".into(),
    }
}
fn show_txin(i: &TxIn) -> String {
    format!(
        "I{}.{}.{}.{}[{}]{}",
        hex::encode(i.get_prev_tx_id(None)),
        i.get_vout(),
        i.get_sequence(),
        show_opt_u64(i.get_satoshis()),
        show_bits(&i.get_unlocking_script().to_script_bits()),
        match i.get_locking_script() {
            Some(s) => format!("[{}]", show_bits(&s.to_script_bits())),
            None => "n".into(),
        }
    )
}
fn show_txout(o: &TxOut) -> String {
    format!("O{}[{}]", o.get_satoshis(), show_bits(&o.get_script_pub_key().to_script_bits()))
}
fn show_tx(t: &Transaction) -> String {
    let mut s = format!("{}/{}/", t.get_version(), t.get_n_locktime());
    for k in 0..t.get_ninputs() {
        s.push_str(&show_txin(&t.get_input(k).unwrap()));
    }
    s.push('/');
    for k in 0..t.get_noutputs() {
        s.push_str(&show_txout(&t.get_output(k).unwrap()));
    }
    s
}
fn b(x: bool) -> u8 {
    x as u8
}

// ---------------------------------------------------------------- argument parsing
enum Arg<T> {
    Val(T),
    LibErr, // the library refused the bytes (Transaction::from_bytes / Script::from_bytes)
    Bad,
}

fn parse_tx(args: &[String], at: usize) -> Arg<Transaction> {
    let wire = match arg_bytes(args, at) {
        Some(w) => w,
        None => return Arg::Bad,
    };
    let ext = match args.get(at + 1) {
        Some(e) => e.clone(),
        None => return Arg::Bad,
    };
    let mut tx = match Transaction::from_bytes(&wire) {
        Ok(t) => t,
        Err(_) => return Arg::LibErr,
    };
    if ext != "-" {
        for (k, ent) in ext.split(',').enumerate() {
            let (sat, lock) = match ent.split_once('.') {
                Some(p) => p,
                None => return Arg::Bad,
            };
            let mut inp = match tx.get_input(k) {
                Some(i) => i,
                None => return Arg::Bad,
            };
            if sat != "n" {
                match sat.parse::<u64>() {
                    Ok(v) => inp.set_satoshis(v),
                    Err(_) => return Arg::Bad,
                }
            }
            if lock != "n" {
                let bs = match expand(lock) {
                    Some(x) => x,
                    None => return Arg::Bad,
                };
                match Script::from_bytes(&bs) {
                    Ok(s) => inp.set_locking_script(&s),
                    Err(_) => return Arg::LibErr,
                }
            }
            tx.set_input(k, &inp);
        }
    }
    Arg::Val(tx)
}

fn opcode(name: &str) -> Option<OpCodes> {
    OpCodes::from_str(name).ok()
}

/// returns (bits, terminator) where terminator is 0 = end of input, 1 = `e`, 2 = `z`
fn parse_bits(toks: &[&str], pos: &mut usize) -> Option<(Vec<ScriptBit>, u8)> {
    let mut out = Vec::new();
    loop {
        if *pos >= toks.len() {
            return Some((out, 0));
        }
        let t = toks[*pos];
        *pos += 1;
        if t == "e" {
            return Some((out, 1));
        }
        if t == "z" {
            return Some((out, 2));
        }
        let (k, rest) = t.split_at(1);
        match k {
            "o" => out.push(ScriptBit::OpCode(opcode(rest)?)),
            "p" => out.push(ScriptBit::Push(hex::decode(rest).ok()?)),
            "c" => out.push(ScriptBit::Coinbase(hex::decode(rest).ok()?)),
            "d" => {
                let (n, h) = rest.split_once('x')?;
                out.push(ScriptBit::PushData(opcode(n)?, hex::decode(h).ok()?));
            }
            "i" => {
                let code = opcode(rest)?;
                let (pass, term) = parse_bits(toks, pos)?;
                let fail = match term {
                    1 => {
                        let (f, term2) = parse_bits(toks, pos)?;
                        if term2 != 2 {
                            return None;
                        }
                        Some(f)
                    }
                    2 => None,
                    _ => return None,
                };
                out.push(ScriptBit::If { code, pass, fail });
            }
            _ => return None,
        }
    }
}
fn bits_arg(a: &str) -> Option<Vec<ScriptBit>> {
    if a == "-" {
        return Some(vec![]);
    }
    let toks: Vec<&str> = a.split(',').collect();
    if toks.iter().any(|t| t.is_empty()) {
        return None;
    }
    let mut pos = 0;
    let (bits, term) = parse_bits(&toks, &mut pos)?;
    if term != 0 {
        return None;
    }
    Some(bits)
}
/// the fixed transaction around a script given as bits: the script is used as unlocking script,
/// as extended locking script and as output script
fn bits_tx(bits: Vec<ScriptBit>) -> Transaction {
    let s = Script::from_script_bits(bits);
    let mut tx = Transaction::new(2, 7);
    let mut i = TxIn::new(&[0x11u8; 32], 3, &s, Some(0xffff_fffe));
    i.set_locking_script(&s);
    i.set_satoshis(1);
    tx.add_input(&i);
    tx.add_output(&TxOut::new(5, &s));
    tx
}

enum Tree {
    Null,
    Bool(bool),
    U(u64),
    Neg(u64),
    Str(String),
    Seq(Vec<Tree>),
    Map(Vec<(String, Tree)>),
}
fn parse_tree(toks: &[&str], pos: &mut usize) -> Option<Tree> {
    if *pos >= toks.len() {
        return None;
    }
    let t = toks[*pos];
    *pos += 1;
    if t.is_empty() {
        return None;
    }
    let (k, rest) = t.split_at(1);
    Some(match k {
        "n" if rest.is_empty() => Tree::Null,
        "t" if rest.is_empty() => Tree::Bool(true),
        "f" if rest.is_empty() => Tree::Bool(false),
        "u" => Tree::U(rest.parse().ok()?),
        "m" => {
            let v: u64 = rest.parse().ok()?;
            if v == 0 || v > (1u64 << 63) {
                return None;
            }
            Tree::Neg(v)
        }
        "s" => Tree::Str(String::from_utf8(hex::decode(rest).ok()?).ok()?),
        "z" => Tree::Str(rest.to_string()),
        "S" => Tree::Str(hex::encode(expand(rest)?)),
        "a" => {
            let n: usize = rest.parse().ok()?;
            let mut v = Vec::new();
            for _ in 0..n {
                v.push(parse_tree(toks, pos)?);
            }
            Tree::Seq(v)
        }
        "o" => {
            let n: usize = rest.parse().ok()?;
            let mut v = Vec::new();
            for _ in 0..n {
                let key = match parse_tree(toks, pos)? {
                    Tree::Str(s) => s,
                    _ => return None,
                };
                v.push((key, parse_tree(toks, pos)?));
            }
            Tree::Map(v)
        }
        _ => return None,
    })
}
fn tree_arg(a: &str) -> Option<Tree> {
    let toks: Vec<&str> = a.split('.').collect();
    let mut pos = 0;
    let t = parse_tree(&toks, &mut pos)?;
    if pos != toks.len() {
        return None;
    }
    Some(t)
}
fn json_str(s: &str, out: &mut String) {
    out.push('"');
    for c in s.chars() {
        match c {
            '"' => out.push_str("\\\""),
            '\\' => out.push_str("\\\\"),
            c if (c as u32) < 0x20 => out.push_str(&format!("\\u{:04x}", c as u32)),
            c => out.push(c),
        }
    }
    out.push('"');
}
fn tree_json(t: &Tree, out: &mut String) {
    match t {
        Tree::Null => out.push_str("null"),
        Tree::Bool(true) => out.push_str("true"),
        Tree::Bool(false) => out.push_str("false"),
        Tree::U(v) => out.push_str(&v.to_string()),
        Tree::Neg(v) => {
            out.push('-');
            out.push_str(&v.to_string());
        }
        Tree::Str(s) => json_str(s, out),
        Tree::Seq(v) => {
            out.push('[');
            for (k, x) in v.iter().enumerate() {
                if k > 0 {
                    out.push(',');
                }
                tree_json(x, out);
            }
            out.push(']');
        }
        Tree::Map(v) => {
            out.push('{');
            for (k, (key, x)) in v.iter().enumerate() {
                if k > 0 {
                    out.push(',');
                }
                json_str(key, out);
                out.push(':');
                tree_json(x, out);
            }
            out.push('}');
        }
    }
}
fn cbor_head(major: u8, n: u64, out: &mut Vec<u8>) {
    let m = major << 5;
    if n < 24 {
        out.push(m | n as u8);
    } else if n < 256 {
        out.push(m | 24);
        out.push(n as u8);
    } else if n < 65536 {
        out.push(m | 25);
        out.extend_from_slice(&(n as u16).to_be_bytes());
    } else if n < 4294967296 {
        out.push(m | 26);
        out.extend_from_slice(&(n as u32).to_be_bytes());
    } else {
        out.push(m | 27);
        out.extend_from_slice(&n.to_be_bytes());
    }
}
fn tree_cbor(t: &Tree, out: &mut Vec<u8>) {
    match t {
        Tree::Null => out.push(0xf6),
        Tree::Bool(false) => out.push(0xf4),
        Tree::Bool(true) => out.push(0xf5),
        Tree::U(v) => cbor_head(0, *v, out),
        Tree::Neg(v) => cbor_head(1, *v - 1, out),
        Tree::Str(s) => {
            cbor_head(3, s.len() as u64, out);
            out.extend_from_slice(s.as_bytes());
        }
        Tree::Seq(v) => {
            cbor_head(4, v.len() as u64, out);
            for x in v {
                tree_cbor(x, out);
            }
        }
        Tree::Map(v) => {
            cbor_head(5, v.len() as u64, out);
            for (k, x) in v {
                cbor_head(3, k.len() as u64, out);
                out.extend_from_slice(k.as_bytes());
                tree_cbor(x, out);
            }
        }
    }
}

// ---------------------------------------------------------------- the ops
fn tx_flags(a: &Transaction, b2: &Transaction) -> String {
    let eq = a == b2;
    let same_bytes = match (a.to_bytes(), b2.to_bytes()) {
        (Ok(x), Ok(y)) => x == y,
        _ => false,
    };
    let same_id = match (a.get_id_hex(), b2.get_id_hex()) {
        (Ok(x), Ok(y)) => x == y,
        _ => false,
    };
    format!("OK:{};{};{};{}", b(eq), b(same_bytes), b(same_id), show_tx(b2))
}
fn json_rt(tx: &Transaction) -> String {
    let s = match tx.to_json_string() {
        Ok(s) => s,
        Err(_) => return "SERERR".into(),
    };
    match Transaction::from_json_string(&s) {
        Ok(t2) => tx_flags(tx, &t2),
        Err(_) => "ERR".into(),
    }
}
fn cbor_rt(tx: &Transaction) -> String {
    let s = match tx.to_compact_bytes() {
        Ok(s) => s,
        Err(_) => return "SERERR".into(),
    };
    // the hex entry points are the same code path plus hex
    let via_hex = tx.to_compact_hex().ok().and_then(|h| hex::decode(h).ok());
    if via_hex.as_deref() != Some(&s[..]) {
        return "HEXDIFF".into();
    }
    let back = Transaction::from_compact_bytes(&s);
    // from_compact_hex must agree with from_compact_bytes
    let back_hex = Transaction::from_compact_hex(&hex::encode(&s));
    match (&back, &back_hex) {
        (Ok(a), Ok(b2)) if a == b2 => {}
        (Err(_), Err(_)) => {}
        _ => return "HEXDIFF".into(),
    }
    match back {
        Ok(t2) => tx_flags(tx, &t2),
        Err(_) => "ERR".into(),
    }
}
fn txin_cbor_rt(i: &TxIn) -> String {
    let s = match i.to_compact_bytes() {
        Ok(s) => s,
        Err(_) => return "SERERR".into(),
    };
    if i.to_compact_hex().ok().and_then(|h| hex::decode(h).ok()).as_deref() != Some(&s[..]) {
        return "HEXDIFF".into();
    }
    let back = TxIn::from_compact_bytes(&s);
    match (&back, &TxIn::from_compact_hex(&hex::encode(&s))) {
        (Ok(a), Ok(b2)) if a == b2 => {}
        (Err(_), Err(_)) => {}
        _ => return "HEXDIFF".into(),
    }
    match back {
        Ok(i2) => {
            let same_bytes = match (i.to_bytes(), i2.to_bytes()) {
                (Ok(x), Ok(y)) => x == y,
                _ => false,
            };
            format!("OK:{};{};{}", b(*i == i2), b(same_bytes), show_txin(&i2))
        }
        Err(_) => "ERR".into(),
    }
}
fn cache_flags(t: &Transaction) -> String {
    match crate::util::cache_view(t) {
        Some(c) => c.iter().map(|x| if x.is_some() { '1' } else { '0' }).collect(),
        None => "???".into(),
    }
}
/// serialise a transaction whose sighash cache is filled; nothing of the cache may reach the encodings and a decoded
/// transaction starts with an empty cache
fn cached_rt(fresh: &Transaction) -> String {
    let mut tx = fresh.clone();
    if tx.get_ninputs() > 0 {
        let _ = tx.sighash_preimage(bsv::SigHash::InputsOutputs, 0, &Script::default(), 0);
    }
    let before = cache_flags(&tx);
    let cl = tx.clone();
    let clone_ok = cl == tx && crate::util::cache_view(&cl) == crate::util::cache_view(&tx) && cl.to_json_string().ok() == tx.to_json_string().ok()
        && cl.to_compact_bytes().ok() == tx.to_compact_bytes().ok();
    let (j, c) = match (tx.to_json_string(), tx.to_compact_bytes()) {
        (Ok(j), Ok(c)) => (j, c),
        _ => return "SERERR".into(),
    };
    let noleak = format!(
        "{}{}{}",
        b(Some(&j) == fresh.to_json_string().ok().as_ref()),
        b(tx.to_json().ok().map(|v| v.to_string()) == fresh.to_json().ok().map(|v| v.to_string())),
        b(Some(&c) == fresh.to_compact_bytes().ok().as_ref())
    );
    let side = |r: Result<Transaction, bsv::BSVErrors>| -> String {
        match r {
            Ok(t2) => {
                let same_bytes = match (tx.to_bytes(), t2.to_bytes()) {
                    (Ok(x), Ok(y)) => x == y,
                    _ => false,
                };
                let same_id = match (tx.get_id_hex(), t2.get_id_hex()) {
                    (Ok(x), Ok(y)) => x == y,
                    _ => false,
                };
                // `==` on transactions also compares the private cache, so compare with the never-hashed original
                format!("{}{}{}{}", cache_flags(&t2), b(t2 == *fresh), b(same_bytes), b(same_id))
            }
            Err(_) => "ERR".into(),
        }
    };
    format!(
        "OK:{};{};{};{};{};{}",
        before,
        b(clone_ok),
        noleak,
        side(Transaction::from_json_string(&j)),
        side(Transaction::from_compact_bytes(&c)),
        side(Transaction::from_compact_hex(&hex::encode(&c)))
    )
}
/// the same transaction rebuilt through the construction / mutation API
fn rebuild(t: &Transaction) -> Transaction {
    let mut tx = Transaction::new(0, 0);
    tx.set_version(t.get_version());
    tx.set_nlocktime(t.get_n_locktime());
    let mut ins = Vec::new();
    for k in 0..t.get_ninputs() {
        let i = t.get_input(k).unwrap();
        let mut n = TxIn::new(&i.get_prev_tx_id(None), i.get_vout(), &i.get_unlocking_script(), Some(i.get_sequence()));
        if let Some(v) = i.get_satoshis() {
            n.set_satoshis(v);
        }
        if let Some(l) = i.get_locking_script() {
            n.set_locking_script(&l);
        }
        ins.push(n);
    }
    let mut outs = Vec::new();
    for k in 0..t.get_noutputs() {
        let o = t.get_output(k).unwrap();
        outs.push(TxOut::new(o.get_satoshis(), &o.get_script_pub_key()));
    }
    // half through the bulk calls, the rest one by one, the first input once more through set_input
    let hi = ins.len() / 2;
    tx.add_inputs(ins[..hi].to_vec());
    for i in &ins[hi..] {
        tx.add_input(i);
    }
    let ho = outs.len() / 2;
    tx.add_outputs(outs[..ho].to_vec());
    for o in &outs[ho..] {
        tx.add_output(o);
    }
    if !ins.is_empty() {
        tx.set_input(0, &ins[0]);
    }
    if !outs.is_empty() {
        tx.set_output(0, &outs[0]);
    }
    tx
}
fn res_tx(r: Result<Transaction, bsv::BSVErrors>) -> String {
    match r {
        Ok(t) => format!("OK:v;{}", show_tx(&t)),
        Err(_) => "ERR".into(),
    }
}


/// `tx.steps W E S`: ONE transaction object taken through observe / mutate / observe sequences.
/// S = `,`-separated steps:  j c (observe through JSON / CBOR)  h (warm the sighash cache)  k (continue on a clone)
/// r R (continue on the JSON / CBOR round-tripped object)  v<n> l<n> (set_version / set_nlocktime)
/// V<n> L<n> (continue on the clone they return)  iq<i>:<n> io<i>:<n> ia<i>:<n> (sequence / vout / satoshis of input i through
/// get_input, setter, set_input)  il<i>:<bytes> iu<i>:<bytes> (locking / unlocking script)  ip<i>:<bytes> (prev_tx_id)
/// ai pi ni<i> (add / prepend / insert a fixed input)  ao<n> po<n> no<i>:<n> so<i>:<n> (add / prepend / insert / set an output)
fn steps_op(start: Transaction, steps: &str) -> String {
    let mut cur = start;
    let mut out = String::from("OK:v");
    let new_in = || TxIn::new(&[0x77u8; 32], 9, &Script::from_script_bits(vec![ScriptBit::OpCode(OpCodes::OP_2)]), Some(8));
    let new_out = |v: u64| TxOut::new(v, &Script::from_script_bits(vec![ScriptBit::OpCode(OpCodes::OP_3)]));
    fn idx_val(rest: &str) -> Option<(usize, &str)> {
        let (i, v) = rest.split_once(':')?;
        Some((i.parse().ok()?, v))
    }
    for st in steps.split(',') {
        if st.is_empty() || !st.is_ascii() {
            return "BADARG".into();
        }
        let observe = |cur: &Transaction, text: Vec<u8>, back: Result<Transaction, bsv::BSVErrors>, out: &mut String| {
            out.push(';');
            out.push_str(&show_bytes(&text));
            match back {
                Ok(t2) => {
                    let sb = match (cur.to_bytes(), t2.to_bytes()) {
                        (Ok(x), Ok(y)) => x == y,
                        _ => false,
                    };
                    let si = match (cur.get_id_hex(), t2.get_id_hex()) {
                        (Ok(x), Ok(y)) => x == y,
                        _ => false,
                    };
                    out.push_str(&format!(";{};{}{};{}", show_tx(&t2), b(sb), b(si), cache_flags(&t2)));
                }
                Err(_) => out.push_str(";ERR;--;---"),
            }
        };
        match st {
            "j" => {
                let t = match cur.to_json_string() {
                    Ok(t) => t,
                    Err(_) => return "SERERR".into(),
                };
                let back = Transaction::from_json_string(&t);
                observe(&cur, t.into_bytes(), back, &mut out);
                continue;
            }
            "c" => {
                let t = match cur.to_compact_bytes() {
                    Ok(t) => t,
                    Err(_) => return "SERERR".into(),
                };
                let back = Transaction::from_compact_bytes(&t);
                observe(&cur, t, back, &mut out);
                continue;
            }
            "h" => {
                if cur.get_ninputs() > 0 {
                    let _ = cur.sighash_preimage(bsv::SigHash::InputsOutputs, 0, &Script::default(), 0);
                }
                continue;
            }
            "k" => {
                cur = cur.clone();
                continue;
            }
            "r" => {
                cur = match cur.to_json_string().ok().and_then(|t| Transaction::from_json_string(&t).ok()) {
                    Some(t) => t,
                    None => return "ERR".into(),
                };
                continue;
            }
            "R" => {
                cur = match cur.to_compact_bytes().ok().and_then(|t| Transaction::from_compact_bytes(&t).ok()) {
                    Some(t) => t,
                    None => return "ERR".into(),
                };
                continue;
            }
            "ai" => {
                cur.add_input(&new_in());
                continue;
            }
            "pi" => {
                cur.prepend_input(&new_in());
                continue;
            }
            _ => {}
        }
        let (k1, r1) = st.split_at(1);
        let done = match k1 {
            "v" => r1.parse::<u32>().ok().map(|n| {
                cur.set_version(n);
            }),
            "l" => r1.parse::<u32>().ok().map(|n| {
                cur.set_nlocktime(n);
            }),
            "V" => r1.parse::<u32>().ok().map(|n| {
                cur = cur.set_version(n);
            }),
            "L" => r1.parse::<u32>().ok().map(|n| {
                cur = cur.set_nlocktime(n);
            }),
            _ => None,
        };
        if done.is_some() {
            continue;
        }
        if st.len() < 3 {
            return "BADARG".into();
        }
        let (k2, r2) = st.split_at(2);
        match k2 {
            "iq" | "io" | "ia" | "il" | "iu" | "ip" => {
                let (i, v) = match idx_val(r2) {
                    Some(x) => x,
                    None => return "BADARG".into(),
                };
                let mut inp = match cur.get_input(i) {
                    Some(x) => x,
                    None => return "BADARG".into(),
                };
                match k2 {
                    "iq" => match v.parse::<u32>() {
                        Ok(n) => inp.set_sequence(n),
                        Err(_) => return "BADARG".into(),
                    },
                    "io" => match v.parse::<u32>() {
                        Ok(n) => inp.set_vout(n),
                        Err(_) => return "BADARG".into(),
                    },
                    "ia" => match v.parse::<u64>() {
                        Ok(n) => inp.set_satoshis(n),
                        Err(_) => return "BADARG".into(),
                    },
                    "ip" => match expand(v) {
                        Some(bs) => inp.set_prev_tx_id(&bs),
                        None => return "BADARG".into(),
                    },
                    _ => {
                        let bs = match expand(v) {
                            Some(bs) => bs,
                            None => return "BADARG".into(),
                        };
                        let sc = match Script::from_bytes(&bs) {
                            Ok(sc) => sc,
                            Err(_) => return "ERR".into(),
                        };
                        if k2 == "il" {
                            inp.set_locking_script(&sc)
                        } else {
                            inp.set_unlocking_script(&sc)
                        }
                    }
                }
                cur.set_input(i, &inp);
            }
            "ni" => match r2.parse::<usize>() {
                Ok(i) if i <= cur.get_ninputs() => cur.insert_input(i, &new_in()),
                _ => return "BADARG".into(),
            },
            "ao" => match r2.parse::<u64>() {
                Ok(n) => cur.add_output(&new_out(n)),
                Err(_) => return "BADARG".into(),
            },
            "po" => match r2.parse::<u64>() {
                Ok(n) => cur.prepend_output(&new_out(n)),
                Err(_) => return "BADARG".into(),
            },
            "no" | "so" => {
                let (i, v) = match idx_val(r2) {
                    Some(x) => x,
                    None => return "BADARG".into(),
                };
                let n = match v.parse::<u64>() {
                    Ok(n) => n,
                    Err(_) => return "BADARG".into(),
                };
                if k2 == "no" {
                    if i > cur.get_noutputs() {
                        return "BADARG".into();
                    }
                    cur.insert_output(i, &new_out(n));
                } else {
                    if i >= cur.get_noutputs() {
                        return "BADARG".into();
                    }
                    cur.set_output(i, &new_out(n));
                }
            }
            _ => return "BADARG".into(),
        }
    }
    out
}

macro_rules! get_tx {
    ($args:expr, $at:expr) => {
        match parse_tx($args, $at) {
            Arg::Val(t) => t,
            Arg::LibErr => return Some("ERR".into()),
            Arg::Bad => return Some("BADARG".into()),
        }
    };
}
macro_rules! some_or_bad {
    ($e:expr) => {
        match $e {
            Some(x) => x,
            None => return Some("BADARG".into()),
        }
    };
}

pub fn run(op: &str, args: &[String]) -> Option<String> {
    Some(match op {
        "tx.json_roundtrip" => json_rt(&get_tx!(args, 0)),
        "tx.cbor_roundtrip" => cbor_rt(&get_tx!(args, 0)),
        "bits.json_roundtrip" => json_rt(&bits_tx(some_or_bad!(args.get(0).and_then(|a| bits_arg(a))))),
        "bits.cbor_roundtrip" => cbor_rt(&bits_tx(some_or_bad!(args.get(0).and_then(|a| bits_arg(a))))),
        "txin.cbor_roundtrip" => {
            let tx = get_tx!(args, 0);
            let k = some_or_bad!(arg_u64(args, 2)) as usize;
            txin_cbor_rt(&some_or_bad!(tx.get_input(k)))
        }
        "bits.txin_cbor_roundtrip" => {
            let tx = bits_tx(some_or_bad!(args.get(0).and_then(|a| bits_arg(a))));
            txin_cbor_rt(&tx.get_input(0).unwrap())
        }
        "tx.cached_roundtrip" => cached_rt(&get_tx!(args, 0)),
        "tx.steps" => {
            let tx = get_tx!(args, 0);
            steps_op(tx, some_or_bad!(args.get(2)))
        }
        "bits.cached_roundtrip" => cached_rt(&bits_tx(some_or_bad!(args.get(0).and_then(|a| bits_arg(a))))),
        "tx.built_json_roundtrip" => json_rt(&rebuild(&get_tx!(args, 0))),
        "tx.built_cbor_roundtrip" => cbor_rt(&rebuild(&get_tx!(args, 0))),
        "txout.json" => {
            let tx = get_tx!(args, 0);
            let k = some_or_bad!(arg_u64(args, 2)) as usize;
            let o = match tx.get_output(k) {
                Some(o) => o,
                None => return Some("NONE".into()),
            };
            match (o.to_json_string(), o.to_json()) {
                (Ok(s), Ok(v)) => format!("OK:v;{};{}", show_bytes(s.as_bytes()), show_bytes(v.to_string().as_bytes())),
                _ => "ERR".into(),
            }
        }
        "tx.to_json" => {
            let tx = get_tx!(args, 0);
            match (tx.to_json_string(), tx.to_json()) {
                (Ok(s), Ok(v)) => format!("OK:v;{};{}", show_bytes(s.as_bytes()), show_bytes(v.to_string().as_bytes())),
                _ => "ERR".into(),
            }
        }
        "tx.to_cbor" => {
            let tx = get_tx!(args, 0);
            match tx.to_compact_bytes() {
                Ok(s) => format!("OK:v;{}", show_bytes(&s)),
                Err(_) => "ERR".into(),
            }
        }
        "txin.json" => {
            let tx = get_tx!(args, 0);
            let k = some_or_bad!(arg_u64(args, 2)) as usize;
            let i = some_or_bad!(tx.get_input(k));
            match (i.to_json_string(), i.to_json()) {
                (Ok(s), Ok(v)) => format!("OK:v;{};{}", show_bytes(s.as_bytes()), show_bytes(v.to_string().as_bytes())),
                _ => "ERR".into(),
            }
        }
        "txin.to_cbor" => {
            let tx = get_tx!(args, 0);
            let k = some_or_bad!(arg_u64(args, 2)) as usize;
            let i = some_or_bad!(tx.get_input(k));
            match i.to_compact_bytes() {
                Ok(s) => format!("OK:v;{}", show_bytes(&s)),
                Err(_) => "ERR".into(),
            }
        }
        "tx.de_json" => {
            let t = some_or_bad!(args.get(0).and_then(|a| tree_arg(a)));
            let mut s = String::new();
            tree_json(&t, &mut s);
            res_tx(Transaction::from_json_string(&s))
        }
        "tx.de_cbor" => {
            let t = some_or_bad!(args.get(0).and_then(|a| tree_arg(a)));
            let mut s = Vec::new();
            tree_cbor(&t, &mut s);
            res_tx(Transaction::from_compact_bytes(&s))
        }
        "txin.de_cbor" => {
            let t = some_or_bad!(args.get(0).and_then(|a| tree_arg(a)));
            let mut s = Vec::new();
            tree_cbor(&t, &mut s);
            match TxIn::from_compact_bytes(&s) {
                Ok(i) => format!("OK:v;{}", show_txin(&i)),
                Err(_) => "ERR".into(),
            }
        }
        // every proper prefix of an encoding must be refused; the whole encoding comes back
        "tx.json_prefix" => {
            let tx = get_tx!(args, 0);
            let k = some_or_bad!(arg_u64(args, 2)) as usize;
            let s = match tx.to_json_string() {
                Ok(s) => s,
                Err(_) => return Some("SERERR".into()),
            };
            let cut = &s.as_bytes()[..k.min(s.len())];
            match std::str::from_utf8(cut) {
                Ok(t) => res_tx(Transaction::from_json_string(t)),
                Err(_) => "BADARG".into(),
            }
        }
        "tx.cbor_prefix" => {
            let tx = get_tx!(args, 0);
            let k = some_or_bad!(arg_u64(args, 2)) as usize;
            let s = match tx.to_compact_bytes() {
                Ok(s) => s,
                Err(_) => return Some("SERERR".into()),
            };
            res_tx(Transaction::from_compact_bytes(&s[..k.min(s.len())]))
        }
        // bytes after the document: serde_json allows whitespace only, ciborium does not look
        "tx.json_trailing" => {
            let tx = get_tx!(args, 0);
            let extra = some_or_bad!(arg_str(args, 2));
            let s = match tx.to_json_string() {
                Ok(s) => s,
                Err(_) => return Some("SERERR".into()),
            };
            res_tx(Transaction::from_json_string(&(s + &extra)))
        }
        "tx.cbor_trailing" => {
            let tx = get_tx!(args, 0);
            let extra = some_or_bad!(arg_bytes(args, 2));
            let mut s = match tx.to_compact_bytes() {
                Ok(s) => s,
                Err(_) => return Some("SERERR".into()),
            };
            s.extend_from_slice(&extra);
            res_tx(Transaction::from_compact_bytes(&s))
        }
        // arbitrary bytes: only totality is observed (a panic / abort shows up as PANIC / ABORT)
        "tx.from_json" => {
            let raw = some_or_bad!(arg_bytes(args, 0));
            if let Ok(t) = std::str::from_utf8(&raw) {
                let _ = Transaction::from_json_string(t);
            }
            "OK:total".into()
        }
        "tx.from_cbor" => {
            let raw = some_or_bad!(arg_bytes(args, 0));
            let _ = Transaction::from_compact_bytes(&raw);
            let _ = TxIn::from_compact_bytes(&raw);
            "OK:total".into()
        }
        _ => return None,
    })
}
