//! C03 / C10 ops: signature-hash preimage (FORKID and legacy), code-separator removal, sign + verify.
use crate::util::*;
use bsv::{PrivateKey, PublicKey, Script, SigHash, Signature, SigningHash, Transaction, TxIn, TxOut, ECDSA};
use std::convert::TryFrom;

fn flag_of(n: u64) -> Option<SigHash> {
    if n > 255 {
        return None;
    }
    SigHash::try_from(n as u8).ok()
}

pub fn run(op: &str, args: &[String]) -> Option<String> {
    Some(match op {
        "tx.sighash" => {
            let (txb, idx, fl, subb, value) = match (arg_bytes(args, 0), arg_u64(args, 1), arg_u64(args, 2), arg_bytes(args, 3), arg_u64(args, 4)) {
                (Some(a), Some(b), Some(c), Some(d), Some(e)) => (a, b, c, d, e),
                _ => return Some("BADARG".into()),
            };
            let flag = match flag_of(fl) {
                Some(f) => f,
                None => return Some("BADARG".into()),
            };
            let mut tx = match Transaction::from_bytes(&txb) {
                Ok(t) => t,
                Err(_) => return Some("ERR".into()),
            };
            let sub = match Script::from_bytes(&subb) {
                Ok(s) => s,
                Err(_) => return Some("ERR".into()),
            };
            match tx.sighash_preimage(flag, idx as usize, &sub, value) {
                Ok(p) => format!("OK:{}", show_bytes(&p)),
                Err(_) => "ERR".into(),
            }
        }
        // tx.sighash_ann: the same call on an object that carries state the preimage must not depend on: optional
        // annotations (satoshis, locking script) on inputs, obtained directly / through clone / JSON / CBOR / hex /
        // the construction API.  args: tx, idx, flag, subscript, value, annotations "k,sat|-,lock|-/..." or "-", route
        "tx.sighash_ann" => {
            let (txb, idx, fl, subb, value) = match (arg_bytes(args, 0), arg_u64(args, 1), arg_u64(args, 2), arg_bytes(args, 3), arg_u64(args, 4)) {
                (Some(a), Some(b), Some(c), Some(d), Some(e)) => (a, b, c, d, e),
                _ => return Some("BADARG".into()),
            };
            let (ann, route) = match (args.get(5), args.get(6)) {
                (Some(a), Some(r)) if args.len() == 7 => (a.clone(), r.clone()),
                _ => return Some("BADARG".into()),
            };
            if !["d", "c", "j", "b", "a", "h"].contains(&route.as_str()) {
                return Some("BADARG".into());
            }
            let flag = match flag_of(fl) {
                Some(f) => f,
                None => return Some("BADARG".into()),
            };
            let mut anns: Vec<(usize, Option<u64>, Option<Vec<u8>>)> = Vec::new();
            if ann != "-" {
                for e in ann.split('/') {
                    let f: Vec<&str> = e.split(',').collect();
                    if f.len() != 3 {
                        return Some("BADARG".into());
                    }
                    let k: usize = match f[0].parse() {
                        Ok(k) => k,
                        Err(_) => return Some("BADARG".into()),
                    };
                    let sat = if f[1] == "-" {
                        None
                    } else {
                        match f[1].parse::<u64>() {
                            Ok(v) => Some(v),
                            Err(_) => return Some("BADARG".into()),
                        }
                    };
                    let lock = if f[2] == "-" {
                        None
                    } else {
                        match expand(f[2]) {
                            Some(b) => Some(b),
                            None => return Some("BADARG".into()),
                        }
                    };
                    anns.push((k, sat, lock));
                }
            }
            let mut tx = match Transaction::from_bytes(&txb) {
                Ok(t) => t,
                Err(_) => return Some("ERR".into()),
            };
            let sub = match Script::from_bytes(&subb) {
                Ok(s) => s,
                Err(_) => return Some("ERR".into()),
            };
            for (k, sat, lock) in &anns {
                let mut i = match tx.get_input(*k) {
                    Some(i) => i,
                    None => return Some("BADARG".into()),
                };
                if let Some(v) = sat {
                    i.set_satoshis(*v);
                }
                if let Some(l) = lock {
                    match Script::from_bytes(l) {
                        Ok(s) => i.set_locking_script(&s),
                        Err(_) => return Some("ERR".into()),
                    }
                }
                tx.set_input(*k, &i);
            }
            let routed = match route.as_str() {
                "d" => Ok(tx),
                "c" => Ok(tx.clone()),
                "j" => tx.to_json_string().and_then(|j| Transaction::from_json_string(&j)),
                "b" => tx.to_compact_bytes().and_then(|b| Transaction::from_compact_bytes(&b)),
                "h" => tx.to_hex().and_then(|h| Transaction::from_hex(&h)),
                _ => {
                    let mut t = Transaction::new(tx.get_version(), tx.get_n_locktime());
                    for k in 0..tx.get_ninputs() {
                        let i = tx.get_input(k).unwrap();
                        let mut n = TxIn::new(&i.get_prev_tx_id(None), i.get_vout(), &i.get_unlocking_script(), Some(i.get_sequence()));
                        if let Some(v) = i.get_satoshis() {
                            n.set_satoshis(v);
                        }
                        if let Some(l) = i.get_locking_script() {
                            n.set_locking_script(&l);
                        }
                        t.add_input(&n);
                    }
                    for k in 0..tx.get_noutputs() {
                        let o = tx.get_output(k).unwrap();
                        t.add_output(&TxOut::new(o.get_satoshis(), &o.get_script_pub_key()));
                    }
                    Ok(t)
                }
            };
            let mut tx = match routed {
                Ok(t) => t,
                Err(_) => return Some("ERR".into()),
            };
            let mut tx2 = tx.clone();
            match tx.sighash_preimage(flag, idx as usize, &sub, value) {
                Ok(p) => {
                    // Transaction::sign on the same object must sign this very buffer
                    let sk = PrivateKey::from_bytes(&[0x11u8; 32]).unwrap();
                    let pk = PublicKey::from_private_key(&sk);
                    let ok = match tx2.sign(&sk, flag, idx as usize, &sub, value).and_then(|s| s.to_bytes()) {
                        Ok(sb) if sb.len() > 1 => match Signature::from_der(&sb[..sb.len() - 1]) {
                            Ok(s) => ECDSA::verify_digest(&p, &pk, &s, SigningHash::Sha256d).unwrap_or(false),
                            Err(_) => false,
                        },
                        _ => false,
                    };
                    format!("OK:{};{}", show_bytes(&p), ok as u8)
                }
                Err(_) => "ERR".into(),
            }
        }
        "script.rm_codesep" => {
            let subb = match arg_bytes(args, 0) {
                Some(b) => b,
                None => return Some("BADARG".into()),
            };
            match Script::from_bytes(&subb) {
                Ok(mut s) => {
                    s.remove_codeseparators();
                    format!("OK:{}", show_bytes(&s.to_bytes()))
                }
                Err(_) => "ERR".into(),
            }
        }
        "tx.sign_verify" => {
            let (txb, key, fl, idx, subb, value) =
                match (arg_bytes(args, 0), arg_bytes(args, 1), arg_u64(args, 2), arg_u64(args, 3), arg_bytes(args, 4), arg_u64(args, 5)) {
                    (Some(a), Some(b), Some(c), Some(d), Some(e), Some(f)) => (a, b, c, d, e, f),
                    _ => return Some("BADARG".into()),
                };
            let flag = match flag_of(fl) {
                Some(f) => f,
                None => return Some("BADARG".into()),
            };
            let sk = match PrivateKey::from_bytes(&key) {
                Ok(k) => k,
                Err(_) => return Some("BADARG".into()),
            };
            let pk = PublicKey::from_private_key(&sk);
            let mut tx = match Transaction::from_bytes(&txb) {
                Ok(t) => t,
                Err(_) => return Some("ERR".into()),
            };
            let sub = match Script::from_bytes(&subb) {
                Ok(s) => s,
                Err(_) => return Some("ERR".into()),
            };
            // optional 7th argument: ephemeral key => sign_with_k
            let signed = match args.get(6) {
                Some(_) => match arg_bytes(args, 6).and_then(|kb| PrivateKey::from_bytes(&kb).ok()) {
                    Some(k) => tx.sign_with_k(&sk, &k, flag, idx as usize, &sub, value),
                    None => return Some("BADARG".into()),
                },
                None => tx.sign(&sk, flag, idx as usize, &sub, value),
            };
            let sig = match signed {
                Ok(s) => s,
                Err(_) => return Some("ERR".into()),
            };
            let sigb = match sig.to_bytes() {
                Ok(b) => b,
                Err(_) => return Some("ERR".into()),
            };
            // preimage of an independent copy of the same transaction
            let mut tx2 = match Transaction::from_bytes(&txb) {
                Ok(t) => t,
                Err(_) => return Some("ERR".into()),
            };
            let pre = match tx2.sighash_preimage(flag, idx as usize, &sub, value) {
                Ok(p) => p,
                Err(_) => return Some("ERR".into()),
            };
            let v1 = tx.verify(&pk, &sig);
            let der = &sigb[..sigb.len() - 1];
            let v2 = match Signature::from_der(der) {
                Ok(s) => ECDSA::verify_digest(&pre, &pk, &s, SigningHash::Sha256d).unwrap_or(false),
                Err(_) => false,
            };
            let v3 = tx._verify(&pk, &sig, false);
            // the same signature under another key must not verify
            let mut other = key.clone();
            other[31] ^= 0x01;
            other[0] &= 0x7f;
            let v4 = match PrivateKey::from_bytes(&other) {
                Ok(o) => tx.verify(&PublicKey::from_private_key(&o), &sig),
                Err(_) => false,
            };
            format!("OK:{};{};{};{};{};{}", show_bytes(&pre), sigb[sigb.len() - 1], v1 as u8, v2 as u8, v3 as u8, v4 as u8)
        }
        _ => return None,
    })
}
