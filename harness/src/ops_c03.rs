//! C03 / C10 ops: signature-hash preimage (FORKID and legacy), code-separator removal, sign + verify.
use crate::util::*;
use bsv::{PrivateKey, PublicKey, Script, SigHash, Signature, SigningHash, Transaction, ECDSA};
use std::convert::TryFrom;

fn flag_of(n: u64) -> Option<SigHash> {
    if n > 255 {
        return None;
    }
    SigHash::try_from(n as u8).ok()
}

pub fn run(op: &str, args: &[String]) -> Option<String> {
    Some(match op {
        "tx.sighash" => {
            let (txb, idx, fl, subb, value) = match (arg_bytes(args, 0), arg_u64(args, 1), arg_u64(args, 2), arg_bytes(args, 3), arg_u64(args, 4)) {
                (Some(a), Some(b), Some(c), Some(d), Some(e)) => (a, b, c, d, e),
                _ => return Some("BADARG".into()),
            };
            let flag = match flag_of(fl) {
                Some(f) => f,
                None => return Some("BADARG".into()),
            };
            let mut tx = match Transaction::from_bytes(&txb) {
                Ok(t) => t,
                Err(_) => return Some("ERR".into()),
            };
            let sub = match Script::from_bytes(&subb) {
                Ok(s) => s,
                Err(_) => return Some("ERR".into()),
            };
            match tx.sighash_preimage(flag, idx as usize, &sub, value) {
                Ok(p) => format!("OK:{}", show_bytes(&p)),
                Err(_) => "ERR".into(),
            }
        }
        "script.rm_codesep" => {
            let subb = match arg_bytes(args, 0) {
                Some(b) => b,
                None => return Some("BADARG".into()),
            };
            match Script::from_bytes(&subb) {
                Ok(mut s) => {
                    s.remove_codeseparators();
                    format!("OK:{}", show_bytes(&s.to_bytes()))
                }
                Err(_) => "ERR".into(),
            }
        }
        "tx.sign_verify" => {
            let (txb, key, fl, idx, subb, value) =
                match (arg_bytes(args, 0), arg_bytes(args, 1), arg_u64(args, 2), arg_u64(args, 3), arg_bytes(args, 4), arg_u64(args, 5)) {
                    (Some(a), Some(b), Some(c), Some(d), Some(e), Some(f)) => (a, b, c, d, e, f),
                    _ => return Some("BADARG".into()),
                };
            let flag = match flag_of(fl) {
                Some(f) => f,
                None => return Some("BADARG".into()),
            };
            let sk = match PrivateKey::from_bytes(&key) {
                Ok(k) => k,
                Err(_) => return Some("BADARG".into()),
            };
            let pk = PublicKey::from_private_key(&sk);
            let mut tx = match Transaction::from_bytes(&txb) {
                Ok(t) => t,
                Err(_) => return Some("ERR".into()),
            };
            let sub = match Script::from_bytes(&subb) {
                Ok(s) => s,
                Err(_) => return Some("ERR".into()),
            };
            // optional 7th argument: ephemeral key => sign_with_k
            let signed = match args.get(6) {
                Some(_) => match arg_bytes(args, 6).and_then(|kb| PrivateKey::from_bytes(&kb).ok()) {
                    Some(k) => tx.sign_with_k(&sk, &k, flag, idx as usize, &sub, value),
                    None => return Some("BADARG".into()),
                },
                None => tx.sign(&sk, flag, idx as usize, &sub, value),
            };
            let sig = match signed {
                Ok(s) => s,
                Err(_) => return Some("ERR".into()),
            };
            let sigb = match sig.to_bytes() {
                Ok(b) => b,
                Err(_) => return Some("ERR".into()),
            };
            // preimage of an independent copy of the same transaction
            let mut tx2 = match Transaction::from_bytes(&txb) {
                Ok(t) => t,
                Err(_) => return Some("ERR".into()),
            };
            let pre = match tx2.sighash_preimage(flag, idx as usize, &sub, value) {
                Ok(p) => p,
                Err(_) => return Some("ERR".into()),
            };
            let v1 = tx.verify(&pk, &sig);
            let der = &sigb[..sigb.len() - 1];
            let v2 = match Signature::from_der(der) {
                Ok(s) => ECDSA::verify_digest(&pre, &pk, &s, SigningHash::Sha256d).unwrap_or(false),
                Err(_) => false,
            };
            let v3 = tx._verify(&pk, &sig, false);
            // the same signature under another key must not verify
            let mut other = key.clone();
            other[31] ^= 0x01;
            other[0] &= 0x7f;
            let v4 = match PrivateKey::from_bytes(&other) {
                Ok(o) => tx.verify(&PublicKey::from_private_key(&o), &sig),
                Err(_) => false,
            };
            format!("OK:{};{};{};{};{};{}", show_bytes(&pre), sigb[sigb.len() - 1], v1 as u8, v2 as u8, v3 as u8, v4 as u8)
        }
        _ => return None,
    })
}
