//! C17 ops: ASM rendering / parsing of scripts, and the P2PKH scripts the library builds through ASM text.
use crate::ops_c02::show_bits;
use crate::util::*;
use bsv::{P2PKHAddress, PublicKey, Script, SigHash, SighashSignature, Signature};
use std::convert::TryFrom;

fn text(s: &str) -> String {
    show_bytes(s.as_bytes())
}

pub fn run(op: &str, args: &[String]) -> Option<String> {
    Some(match op {
        // bytes -> Script::from_bytes -> to_asm_string / to_extended_asm_string (text as hex of its bytes)
        "script.to_asm" | "script.to_ext_asm" => {
            let bs = match arg_bytes(args, 0) {
                Some(b) => b,
                None => return Some("BADARG".into()),
            };
            match Script::from_bytes(&bs) {
                Ok(s) => {
                    let ext = op != "script.to_asm";
                    let t = if ext { s.to_extended_asm_string() } else { s.to_asm_string() };
                    // the other public ways to the same rendering must agree: the _impl entry point, a script
                    // re-assembled in memory (from_script_bits, push, push_array), from_hex, a clone
                    let bits = s.to_script_bits();
                    let mut pushed = Script::default();
                    for b in &bits {
                        pushed.push(b.clone());
                    }
                    let mut arr = Script::default();
                    arr.push_array(&bits);
                    let others = [
                        Some(s.to_asm_string_impl(ext)),
                        Some(Script::from_script_bits(bits.clone()).to_asm_string_impl(ext)),
                        Some(pushed.to_asm_string_impl(ext)),
                        Some(arr.to_asm_string_impl(ext)),
                        Some(s.clone().to_asm_string_impl(ext)),
                        Script::from_hex(&hex::encode(&bs)).ok().map(|x| x.to_asm_string_impl(ext)),
                    ];
                    if others.iter().any(|o| o.as_ref() != Some(&t)) {
                        return Some("OK:inconsistent".into());
                    }
                    format!("OK:{}", text(&t))
                }
                Err(_) => "ERR".into(),
            }
        }
        // text -> Script::from_asm_string -> bytes ; tree
        "script.from_asm" => {
            let t = match arg_str(args, 0) {
                Some(t) => t,
                None => return Some("BADARG".into()),
            };
            match Script::from_asm_string(&t) {
                Ok(s) => format!("OK:{};{}", show_bytes(&s.to_bytes()), show_bits(&s.to_script_bits())),
                Err(_) => "ERR".into(),
            }
        }
        // bytes -> parse -> to_asm -> from_asm -> bytes, to_asm again
        "script.asm_roundtrip" => {
            let bs = match arg_bytes(args, 0) {
                Some(b) => b,
                None => return Some("BADARG".into()),
            };
            match Script::from_bytes(&bs) {
                Ok(s) => {
                    let t1 = s.to_asm_string();
                    match Script::from_asm_string(&t1) {
                        Ok(s2) => {
                            if s2.to_hex() != hex::encode(s2.to_bytes()) || s2.get_script_length() != s2.to_bytes().len() {
                                return Some("OK:inconsistent".into());
                            }
                            format!("OK:{};{};{}", text(&t1), show_bytes(&s2.to_bytes()), text(&s2.to_asm_string()))
                        }
                        Err(_) => format!("OK:{};ERR;", text(&t1)),
                    }
                }
                Err(_) => "ERR".into(),
            }
        }
        // ONE Script object grown step by step from parsed chunks, observed after every step.
        // chunks joined by `/`, each `<mode>.<bytes>`: p = push every bit, a = push_array, n = from_script_bits(old bits ++ new bits),
        // c = continue on a clone and push_array.  Observation per step: plain text, extended text, bytes (joined by `,`);
        // two last fields: bytes after from_asm_string(to_asm_string()) or ERR, and whether the final object equals the script
        // parsed from its own bytes rendered both ways (y/n)
        "script.build_history" => {
            let l = match args.get(0) {
                Some(l) => l.clone(),
                None => return Some("BADARG".into()),
            };
            let mut s = Script::default();
            let mut out = vec![format!("{},{},{}", text(&s.to_asm_string()), text(&s.to_extended_asm_string()), show_bytes(&s.to_bytes()))];
            if !l.is_empty() {
                for ch in l.split('/') {
                    let (m, d) = match ch.split_once('.') {
                        Some(x) => x,
                        None => return Some("BADARG".into()),
                    };
                    let bits = match expand(d).and_then(|b| Script::from_bytes(&b).ok()) {
                        Some(x) => x.to_script_bits(),
                        None => return Some("BADARG".into()),
                    };
                    match m {
                        "p" => {
                            for b in &bits {
                                s.push(b.clone());
                            }
                        }
                        "a" => s.push_array(&bits),
                        "n" => {
                            let mut all = s.to_script_bits();
                            all.extend(bits.iter().cloned());
                            s = Script::from_script_bits(all);
                        }
                        "c" => {
                            let mut s2 = s.clone();
                            s2.push_array(&bits);
                            s = s2;
                        }
                        _ => return Some("BADARG".into()),
                    }
                    out.push(format!("{},{},{}", text(&s.to_asm_string()), text(&s.to_extended_asm_string()), show_bytes(&s.to_bytes())));
                }
            }
            let back = match Script::from_asm_string(&s.to_asm_string()) {
                Ok(s2) => show_bytes(&s2.to_bytes()),
                Err(_) => "ERR".into(),
            };
            let same = match Script::from_bytes(&s.to_bytes()) {
                Ok(p) => p.to_asm_string() == s.to_asm_string() && p.to_extended_asm_string() == s.to_extended_asm_string(),
                Err(_) => false,
            };
            format!("OK:{};{};{}", out.join(";"), back, if same { "y" } else { "n" })
        }
        // P2PKHAddress::from_pubkey_hash(h).get_locking_script()
        "p2pkh.locking_script" => {
            let h = match arg_bytes(args, 0) {
                Some(b) => b,
                None => return Some("BADARG".into()),
            };
            match P2PKHAddress::from_pubkey_hash(&h).and_then(|a| a.get_locking_script()) {
                Ok(s) => format!("OK:{};{}", show_bytes(&s.to_bytes()), show_bits(&s.to_script_bits())),
                Err(_) => "ERR".into(),
            }
        }
        // args: SEC1 public key, DER signature, sighash flag byte (decimal).
        // P2PKHAddress::from_pubkey(pk).get_unlocking_script(pk, SighashSignature::new(sig, flag, []))
        "p2pkh.unlocking_script" => {
            let (pkb, sigb, flag) = match (arg_bytes(args, 0), arg_bytes(args, 1), arg_u64(args, 2)) {
                (Some(a), Some(b), Some(c)) if c < 256 => (a, b, c as u8),
                _ => return Some("BADARG".into()),
            };
            // the arguments must be a real key / signature in the canonical encoding the library re-emits
            let pk = match PublicKey::from_bytes(&pkb) {
                Ok(p) => p,
                Err(_) => return Some("BADARG".into()),
            };
            if pk.to_bytes().ok() != Some(pkb.clone()) {
                return Some("BADARG".into());
            }
            let sig = match Signature::from_der(&sigb) {
                Ok(s) => s,
                Err(_) => return Some("BADARG".into()),
            };
            if sig.to_der_bytes() != sigb {
                return Some("BADARG".into());
            }
            let sh = match SigHash::try_from(flag) {
                Ok(s) => s,
                Err(_) => return Some("BADARG".into()),
            };
            let ss = SighashSignature::new(&sig, sh, &[]);
            match P2PKHAddress::from_pubkey(&pk).and_then(|a| a.get_unlocking_script(&pk, &ss)) {
                Ok(s) => format!("OK:{};{}", show_bytes(&s.to_bytes()), show_bits(&s.to_script_bits())),
                Err(_) => "ERR".into(),
            }
        }
        _ => return None,
    })
}
