//! C20 ops: AES-CBC / AES-CTR through the public API `AES::encrypt` / `AES::decrypt`.
//!   aes.encrypt <mode> <key> <iv> <data>     aes.decrypt <mode> <key> <iv> <data>
//!   aes.encrypt_impl / aes.decrypt_impl: the same through the public `AES::encrypt_impl` / `AES::decrypt_impl`
//!   aes.roundtrip <mode> <key> <iv> <msg>   encrypt, then decrypt the result: `OK:<ct>;<decrypt outcome>` or `ERR`
//! mode is one of 128cbc 256cbc 128ctr 256ctr; key/iv/data are argument descriptors.
//! Output: `OK:<show_bytes>` or `ERR` (a panic is caught by the driver loop and reported as PANIC).
use crate::util::*;
use bsv::{AESAlgorithms, AES};

fn algo(s: &str) -> Option<AESAlgorithms> {
    Some(match s {
        "128cbc" => AESAlgorithms::AES128_CBC,
        "256cbc" => AESAlgorithms::AES256_CBC,
        "128ctr" => AESAlgorithms::AES128_CTR,
        "256ctr" => AESAlgorithms::AES256_CTR,
        _ => return None,
    })
}

pub fn run(op: &str, args: &[String]) -> Option<String> {
    if !matches!(op, "aes.encrypt" | "aes.decrypt" | "aes.roundtrip" | "aes.encrypt_impl" | "aes.decrypt_impl") {
        return None;
    }
    if args.len() != 4 {
        return Some("BADARG".into());
    }
    let (a, key, iv, data) = match (algo(&args[0]), arg_bytes(args, 1), arg_bytes(args, 2), arg_bytes(args, 3)) {
        (Some(a), Some(k), Some(i), Some(d)) => (a, k, i, d),
        _ => return Some("BADARG".into()),
    };
    if op == "aes.roundtrip" {
        return Some(match AES::encrypt(&key, &iv, &data, a) {
            Ok(c) => match AES::decrypt(&key, &iv, &c, a) {
                Ok(m) => format!("OK:{};OK:{}", show_bytes(&c), show_bytes(&m)),
                Err(_) => format!("OK:{};ERR", show_bytes(&c)),
            },
            Err(_) => "ERR".into(),
        });
    }
    let r = match op {
        "aes.encrypt" => AES::encrypt(&key, &iv, &data, a),
        "aes.encrypt_impl" => AES::encrypt_impl(&key, &iv, &data, a),
        "aes.decrypt_impl" => AES::decrypt_impl(&key, &iv, &data, a),
        _ => AES::decrypt(&key, &iv, &data, a),
    };
    Some(match r {
        Ok(v) => format!("OK:{}", show_bytes(&v)),
        Err(_) => "ERR".into(),
    })
}
