//! Shared helpers: argument descriptors and output rendering (mirrors coq/Base/Hex.v).

/// Expand a descriptor: `<hex>`, `r:<hh>:<n>`, `l:<seed>:<n>`, joined with `+`.
pub fn expand(d: &str) -> Option<Vec<u8>> {
    let mut out = Vec::new();
    for part in d.split('+') {
        let f: Vec<&str> = part.split(':').collect();
        match f.as_slice() {
            ["r", h, n] => {
                let b = hex::decode(h).ok()?;
                if b.len() != 1 {
                    return None;
                }
                let n: usize = n.parse().ok()?;
                out.extend(std::iter::repeat(b[0]).take(n));
            }
            ["l", s, n] => {
                let mut x: u64 = s.parse().ok()?;
                let n: usize = n.parse().ok()?;
                for _ in 0..n {
                    x = (x * 1664525 + 1013904223) % 4294967296;
                    out.push(((x / 65536) % 256) as u8);
                }
            }
            [h] => out.extend(hex::decode(h).ok()?),
            _ => return None,
        }
    }
    Some(out)
}

/// hex, or `#<len>:<checksum>` above 1024 bytes
pub fn show_bytes(b: &[u8]) -> String {
    if b.len() <= 1024 {
        hex::encode(b)
    } else {
        let (mut a, mut c): (u64, u64) = (1, 0);
        for x in b {
            a = (a + *x as u64) % 65521;
            c = (c + a) % 65521;
        }
        format!("#{}:{}", b.len(), c * 65536 + a)
    }
}

pub fn arg_bytes(args: &[String], i: usize) -> Option<Vec<u8>> {
    args.get(i).and_then(|a| expand(a))
}
pub fn arg_u64(args: &[String], i: usize) -> Option<u64> {
    args.get(i).and_then(|a| a.parse().ok())
}
pub fn arg_str(args: &[String], i: usize) -> Option<String> {
    // text arguments travel as hex of their UTF-8 bytes
    arg_bytes(args, i).and_then(|b| String::from_utf8(b).ok())
}

/// The three memoised sighash hashes of a transaction (hash_inputs, hash_sequence, hash_outputs) through the hook
/// `Transaction::verif_hash_cache` (compiled only with --cfg bsv_verif).  When the driver had to be built without the
/// hook (the hook no longer compiles against a refactored `HashCache`), the view is unavailable and the ops print `?`
/// in its place; tools/check.py then compares everything else.
#[cfg(bsv_verif)]
pub fn cache_view(tx: &bsv::Transaction) -> Option<[Option<Vec<u8>>; 3]> {
    Some(tx.verif_hash_cache())
}
#[cfg(not(bsv_verif))]
pub fn cache_view(_tx: &bsv::Transaction) -> Option<[Option<Vec<u8>>; 3]> {
    None
}
