//! C13 ops: hashes, HMAC, PBKDF2, streaming digest adapters.
//!   hash.<fn> msg                 hmac.<fn> msg key            kdf.pbkdf2 pw salt algo rounds len
//!   kdf.pbkdf2_random pw algo rounds len
//!   digest.chunked adapter mode chunk...      mode: n | r<k> (reverse() taken after k chunks)
//!   digest.reset adapter mode k chunk...      finalize_fixed_reset after k chunks, then the rest
//!   digest.get algo reverse preimage          get_hash_digest(+reverse()).finalize_fixed()
//!   hmac.chunked digest key chunk...          hmac::Hmac<D> fed in pieces
//!   kdf.mnemonic mnemonic flag passphrase     ExtendedPrivateKey::from_mnemonic -> private key; chain code
//!   kdf.seed seed                             ExtendedPrivateKey::from_seed -> private key; chain code
//!   kdf.pbkdf2_impl pw salt algo rounds len   KDF::pbkdf2_impl called directly
//!   kdf.mnemonic_route mnemonic flag pass     from_mnemonic / from_mnemonic_and_passphrase_impl vs the explicit route
//!                                             from_seed(KDF::pbkdf2(mnemonic as given, salt, SHA512, 2048, 64)): OK:<eq>;<eq>
//!   kdf.mnemonic_kat m/flag/pass/priv/chain   (one argument) from_mnemonic -> private key; chain code
//!   digest.oneshot adapter msg                D::digest(msg); output size; block size
//!   digest.seq adapter start step...          start: d | t | f (Hash160::new(true/false)) | g0=<pre> | g1=<pre> (get_hash_digest)
//!       steps: u=<d> Update::update, h=<d> Digest::chain, r reverse(), x reset,
//!              (digest::impl_write! is cfg(feature = "std") of the bsv crate, which has no such feature: no io::Write)
//!              c clone().finalize_fixed(), f finalize_fixed_reset, i finalize_into_reset, g Digest::finalize_reset;
//!       prints every output and a final finalize_fixed
use crate::util::*;
use bsv::hash::hash160_digest::Hash160;
use bsv::hash::sha256d_digest::Sha256d;
use bsv::{get_hash_digest, ExtendedPrivateKey, Hash, PBKDF2Hashes, ReversibleDigest, Sha256r, SigningHash, KDF};
use digest::generic_array::typenum::Unsigned;
use digest::{BlockInput, Digest, FixedOutput, Reset, Update};
use hmac::{Hmac, Mac, NewMac};

fn ok(b: &[u8]) -> String {
    format!("OK:{}", show_bytes(b))
}

fn chunks_from(args: &[String], from: usize) -> Option<Vec<Vec<u8>>> {
    let mut v = Vec::new();
    for i in from..args.len() {
        v.push(arg_bytes(args, i)?);
    }
    Some(v)
}

/// "n" -> None, "r<k>" -> Some(k)
fn mode_of(s: &str) -> Option<Option<usize>> {
    if s == "n" {
        return Some(None);
    }
    let k = s.strip_prefix('r')?;
    if k.is_empty() || !k.bytes().all(|c| c.is_ascii_digit()) {
        return None;
    }
    k.parse::<usize>().ok().map(Some)
}

fn chunked<D>(rv: Option<usize>, chunks: &[Vec<u8>]) -> String
where
    D: Update + FixedOutput + Reset + Default + Clone + ReversibleDigest,
{
    let mut d = D::default();
    let mut reversed = false;
    for (i, c) in chunks.iter().enumerate() {
        if rv == Some(i) {
            d = d.reverse();
            reversed = true;
        }
        d.update(c);
    }
    if rv.is_some() && !reversed {
        d = d.reverse();
    }
    ok(&d.finalize_fixed())
}

fn reset<D>(rv: Option<usize>, n: usize, chunks: &[Vec<u8>]) -> String
where
    D: Update + FixedOutput + Reset + Default + Clone + ReversibleDigest,
{
    let mut d = D::default();
    if rv.is_some() {
        d = d.reverse();
    }
    let n = n.min(chunks.len());
    for c in &chunks[..n] {
        d.update(c);
    }
    let out1 = d.finalize_fixed_reset();
    for c in &chunks[n..] {
        d.update(c);
    }
    let out2 = d.finalize_fixed();
    format!("OK:{};{}", show_bytes(&out1), show_bytes(&out2))
}

fn seq<D>(mut d: D, steps: &[String]) -> String
where
    D: Update + BlockInput + FixedOutput + Reset + Default + Clone + ReversibleDigest,
{
    let mut outs: Vec<String> = Vec::new();
    for s in steps {
        let (c, arg) = match s.split_once('=') {
            Some((c, a)) => (c, Some(a)),
            None => (s.as_str(), None),
        };
        match (c, arg) {
            ("u", Some(a)) | ("h", Some(a)) => {
                let b = match expand(a) {
                    Some(b) => b,
                    None => return "BADARG".into(),
                };
                match c {
                    "u" => Update::update(&mut d, &b),
                    _ => d = Digest::chain(d, &b),
                }
            }
            ("r", None) => d = d.reverse(),
            ("x", None) => Reset::reset(&mut d),
            ("c", None) => outs.push(show_bytes(&d.clone().finalize_fixed())),
            ("f", None) => outs.push(show_bytes(&d.finalize_fixed_reset())),
            ("i", None) => {
                let mut o = digest::generic_array::GenericArray::<u8, D::OutputSize>::default();
                d.finalize_into_reset(&mut o);
                outs.push(show_bytes(&o));
            }
            ("g", None) => outs.push(show_bytes(&Digest::finalize_reset(&mut d))),
            _ => return "BADARG".into(),
        }
    }
    outs.push(show_bytes(&d.finalize_fixed()));
    format!("OK:{}", outs.join(";"))
}

fn oneshot<D>(m: &[u8]) -> String
where
    D: Update + BlockInput + FixedOutput + Reset + Default + Clone,
{
    format!("{};{};{}", ok(&D::digest(m)), <D as Digest>::output_size(), <D as BlockInput>::BlockSize::to_usize())
}

fn hmac_chunked<D>(key: &[u8], chunks: &[Vec<u8>]) -> String
where
    D: Update + BlockInput + FixedOutput + Reset + Default + Clone,
{
    let mut m = match Hmac::<D>::new_from_slice(key) {
        Ok(m) => m,
        Err(_) => return "ERR".into(),
    };
    for c in chunks {
        Mac::update(&mut m, c);
    }
    ok(&m.finalize().into_bytes())
}

pub fn run(op: &str, args: &[String]) -> Option<String> {
    let (pre, f) = match op.split_once('.') {
        Some(x) => x,
        None => return None,
    };
    Some(match pre {
        "hash" => {
            let fun: fn(&[u8]) -> Hash = match f {
                "sha1" => Hash::sha_1,
                "sha256" => Hash::sha_256,
                "sha256d" => Hash::sha_256d,
                "sha512" => Hash::sha_512,
                "ripemd160" => Hash::ripemd_160,
                "hash160" => Hash::hash_160,
                _ => return None,
            };
            if args.len() != 1 {
                return Some("BADARG".into());
            }
            let m = match arg_bytes(args, 0) {
                Some(b) => b,
                None => return Some("BADARG".into()),
            };
            let h = fun(&m);
            format!("{};{}", ok(&h.to_bytes()), h.to_hex())
        }
        "hmac" if f == "chunked" => {
            let (key, chunks) = match (arg_bytes(args, 1), chunks_from(args, 2)) {
                (Some(k), Some(c)) if args.len() >= 2 => (k, c),
                _ => return Some("BADARG".into()),
            };
            match args[0].as_str() {
                "sha1" => hmac_chunked::<sha1::Sha1>(&key, &chunks),
                "sha256" => hmac_chunked::<sha2::Sha256>(&key, &chunks),
                "sha512" => hmac_chunked::<sha2::Sha512>(&key, &chunks),
                "ripemd160" => hmac_chunked::<ripemd160::Ripemd160>(&key, &chunks),
                "sha256d" => hmac_chunked::<Sha256d>(&key, &chunks),
                "sha256r" => hmac_chunked::<Sha256r>(&key, &chunks),
                "hash160" => hmac_chunked::<Hash160>(&key, &chunks),
                _ => "BADARG".into(),
            }
        }
        "hmac" => {
            let fun: fn(&[u8], &[u8]) -> Hash = match f {
                "sha1" => Hash::sha_1_hmac,
                "sha256" => Hash::sha_256_hmac,
                "sha256d" => Hash::sha_256d_hmac,
                "sha512" => Hash::sha_512_hmac,
                "ripemd160" => Hash::ripemd_160_hmac,
                "hash160" => Hash::hash_160_hmac,
                _ => return None,
            };
            if args.len() != 2 {
                return Some("BADARG".into());
            }
            let (input, key) = match (arg_bytes(args, 0), arg_bytes(args, 1)) {
                (Some(a), Some(b)) => (a, b),
                _ => return Some("BADARG".into()),
            };
            ok(&fun(&input, &key).to_bytes())
        }
        "kdf" => {
            let algo_of = |s: &str| match s {
                "sha1" => Some(PBKDF2Hashes::SHA1),
                "sha256" => Some(PBKDF2Hashes::SHA256),
                "sha512" => Some(PBKDF2Hashes::SHA512),
                _ => None,
            };
            match f {
                "pbkdf2" | "pbkdf2_impl" => {
                    if args.len() != 5 {
                        return Some("BADARG".into());
                    }
                    let (pw, salt, algo, rounds, len) = match (arg_bytes(args, 0), arg_bytes(args, 1), algo_of(&args[2]), arg_u64(args, 3), arg_u64(args, 4)) {
                        (Some(a), Some(b), Some(c), Some(d), Some(e)) if d <= u32::MAX as u64 => (a, b, c, d as u32, e as usize),
                        _ => return Some("BADARG".into()),
                    };
                    let k = if f == "pbkdf2" { KDF::pbkdf2(&pw, Some(salt), algo, rounds, len) } else { KDF::pbkdf2_impl(&pw, &salt, algo, rounds, len) };
                    format!("OK:{};{}", show_bytes(&k.get_hash().to_bytes()), show_bytes(&k.get_salt()))
                }
                "mnemonic_route" => {
                    if args.len() != 3 {
                        return Some("BADARG".into());
                    }
                    let (m, pass) = match (arg_bytes(args, 0), args[1].as_str(), arg_bytes(args, 2)) {
                        (Some(m), "0", Some(_)) => (m, None),
                        (Some(m), "1", Some(p)) => (m, Some(p)),
                        _ => return Some("BADARG".into()),
                    };
                    let keys = |r: Result<ExtendedPrivateKey, bsv::BSVErrors>| r.ok().map(|x| (x.get_private_key().to_bytes(), x.get_chain_code()));
                    let salt = pass.clone().unwrap_or_else(|| b"mnemonic".to_vec());
                    let seed = KDF::pbkdf2(&m, Some(salt), PBKDF2Hashes::SHA512, 2048, 64).get_hash().to_bytes();
                    let want = keys(ExtendedPrivateKey::from_seed(&seed));
                    let a = keys(ExtendedPrivateKey::from_mnemonic(&m, pass.clone()));
                    let b = keys(ExtendedPrivateKey::from_mnemonic_and_passphrase_impl(&m, pass));
                    format!("OK:{};{}", (a == want) as u8, (b == want) as u8)
                }
                "mnemonic_kat" => {
                    if args.len() != 1 {
                        return Some("BADARG".into());
                    }
                    let parts: Vec<&str> = args[0].split('/').collect();
                    if parts.len() != 5 {
                        return Some("BADARG".into());
                    }
                    let (m, pass) = match (expand(parts[0]), parts[1], expand(parts[2])) {
                        (Some(m), "0", Some(_)) => (m, None),
                        (Some(m), "1", Some(p)) => (m, Some(p)),
                        _ => return Some("BADARG".into()),
                    };
                    match (hex::decode(parts[3]), hex::decode(parts[4])) {
                        (Ok(a), Ok(b)) if a.len() == 32 && b.len() == 32 => {}
                        _ => return Some("BADARG".into()),
                    }
                    match ExtendedPrivateKey::from_mnemonic(&m, pass) {
                        Ok(x) => format!("OK:{};{}", hex::encode(x.get_private_key().to_bytes()), hex::encode(x.get_chain_code())),
                        Err(_) => "ERR".into(),
                    }
                }
                "seed" | "mnemonic" => {
                    let r = if f == "seed" {
                        if args.len() != 1 {
                            return Some("BADARG".into());
                        }
                        match arg_bytes(args, 0) {
                            Some(s) => ExtendedPrivateKey::from_seed(&s),
                            None => return Some("BADARG".into()),
                        }
                    } else {
                        if args.len() != 3 {
                            return Some("BADARG".into());
                        }
                        match (arg_bytes(args, 0), args[1].as_str(), arg_bytes(args, 2)) {
                            (Some(m), "0", Some(_)) => ExtendedPrivateKey::from_mnemonic(&m, None),
                            (Some(m), "1", Some(p)) => ExtendedPrivateKey::from_mnemonic(&m, Some(p)),
                            _ => return Some("BADARG".into()),
                        }
                    };
                    match r {
                        Ok(x) => format!("OK:{};{}", hex::encode(x.get_private_key().to_bytes()), hex::encode(x.get_chain_code())),
                        Err(_) => "ERR".into(),
                    }
                }
                "pbkdf2_random" => {
                    if args.len() != 4 {
                        return Some("BADARG".into());
                    }
                    let (pw, algo, rounds, len) = match (arg_bytes(args, 0), algo_of(&args[1]), arg_u64(args, 2), arg_u64(args, 3)) {
                        (Some(a), Some(c), Some(d), Some(e)) if d <= u32::MAX as u64 => (a, c, d as u32, e as usize),
                        _ => return Some("BADARG".into()),
                    };
                    let k = KDF::pbkdf2(&pw, None, algo, rounds, len);
                    let salt = k.get_salt();
                    let b64 = salt.iter().all(|c| c.is_ascii_alphanumeric() || *c == b'+' || *c == b'/');
                    let again = KDF::pbkdf2(&pw, Some(salt.clone()), algo, rounds, len);
                    format!("OK:{};{};{}", salt.len(), b64 as u8, (again.get_hash() == k.get_hash() && again.get_salt() == salt) as u8)
                }
                _ => return None,
            }
        }
        "digest" => match f {
            "chunked" => {
                if args.len() < 2 {
                    return Some("BADARG".into());
                }
                let (rv, chunks) = match (mode_of(&args[1]), chunks_from(args, 2)) {
                    (Some(m), Some(c)) => (m, c),
                    _ => return Some("BADARG".into()),
                };
                match args[0].as_str() {
                    "sha256d" => chunked::<Sha256d>(rv, &chunks),
                    "sha256r" => chunked::<Sha256r>(rv, &chunks),
                    "hash160" => chunked::<Hash160>(rv, &chunks),
                    _ => "BADARG".into(),
                }
            }
            "reset" => {
                if args.len() < 3 {
                    return Some("BADARG".into());
                }
                let (rv, n, chunks) = match (mode_of(&args[1]), arg_u64(args, 2), chunks_from(args, 3)) {
                    (Some(m), Some(n), Some(c)) => (m, n as usize, c),
                    _ => return Some("BADARG".into()),
                };
                match args[0].as_str() {
                    "sha256d" => reset::<Sha256d>(rv, n, &chunks),
                    "sha256r" => reset::<Sha256r>(rv, n, &chunks),
                    "hash160" => reset::<Hash160>(rv, n, &chunks),
                    _ => "BADARG".into(),
                }
            }
            "oneshot" => {
                if args.len() != 2 {
                    return Some("BADARG".into());
                }
                let m = match arg_bytes(args, 1) {
                    Some(b) => b,
                    None => return Some("BADARG".into()),
                };
                match args[0].as_str() {
                    "sha256d" => oneshot::<Sha256d>(&m),
                    "sha256r" => oneshot::<Sha256r>(&m),
                    "hash160" => oneshot::<Hash160>(&m),
                    _ => "BADARG".into(),
                }
            }
            "seq" => {
                if args.len() < 2 {
                    return Some("BADARG".into());
                }
                let steps = &args[2..];
                let (sc, sarg) = match args[1].split_once('=') {
                    Some((c, a)) => (c, Some(a)),
                    None => (args[1].as_str(), None),
                };
                match (args[0].as_str(), sc, sarg) {
                    ("sha256d", "d", None) => seq(Sha256d::default(), steps),
                    ("sha256r", "d", None) => seq(Sha256r::default(), steps),
                    ("hash160", "d", None) => seq(Hash160::default(), steps),
                    ("hash160", "t", None) => seq(Hash160::new(true), steps),
                    ("hash160", "f", None) => seq(Hash160::new(false), steps),
                    ("sha256r", "g0", Some(a)) | ("sha256r", "g1", Some(a)) => {
                        let m = match expand(a) {
                            Some(m) => m,
                            None => return Some("BADARG".into()),
                        };
                        let algo = if sc == "g0" { SigningHash::Sha256 } else { SigningHash::Sha256d };
                        seq(get_hash_digest(algo, &m), steps)
                    }
                    _ => "BADARG".into(),
                }
            }
            "get" => {
                if args.len() != 3 {
                    return Some("BADARG".into());
                }
                let algo = match args[0].as_str() {
                    "sha256" => SigningHash::Sha256,
                    "sha256d" => SigningHash::Sha256d,
                    _ => return Some("BADARG".into()),
                };
                let m = match arg_bytes(args, 2) {
                    Some(b) => b,
                    None => return Some("BADARG".into()),
                };
                let d = get_hash_digest(algo, &m);
                match args[1].as_str() {
                    "0" => ok(&d.finalize_fixed()),
                    "1" => ok(&d.reverse().finalize_fixed()),
                    _ => "BADARG".into(),
                }
            }
            _ => return None,
        },
        _ => return None,
    })
}
