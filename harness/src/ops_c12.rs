//! C12 ops: Bitcoin Signed Message.
//!   bsm.sign key compressed msg                  -> compact signature (65 bytes)
//!   bsm.sign_k key compressed nonce ncompressed msg prefix -> compact signature; verify against own address
//!   bsm.compact_verify key compressed msg prefix -> compact; verify; verify after compact round trip;
//!                                                   plain ECDSA verify_digest(Sha256d) over a preimage built HERE;
//!                                                   is_valid_message; is_valid_bitcoin_message; recover_public_key_from_digest
//!                                                   (in-memory signature; re-parsed compact) = signer's key
//!   bsm.verify msg compact prefix hash           -> 1 | ERR
//!   bsm.tamper key compressed msg prefix kind i  -> verify;is_valid_message;is_valid_bitcoin_message after tampering
//!                                                   (m, s, h, c, k), re-prefixing (p), address history (q), key history (o)
use crate::util::*;
use bsv::{ChainParams, P2PKHAddress, PrivateKey, Signature, SigningHash, BSM, ECDSA};

fn chain(p: u8) -> ChainParams {
    ChainParams::new(p, 0x05, 0x80, 0x0488b21e, 0x0488ade4, 0xe3e1f3e8)
}
fn arg_flag(args: &[String], i: usize) -> Option<bool> {
    match args.get(i).map(|s| s.as_str()) {
        Some("0") => Some(false),
        Some("1") => Some(true),
        _ => None,
    }
}
fn arg_byte(args: &[String], i: usize) -> Option<u8> {
    let b = args.get(i).and_then(|a| hex::decode(a).ok())?;
    if b.len() == 1 {
        Some(b[0])
    } else {
        None
    }
}
fn show_v(r: Result<bool, bsv::BSVErrors>) -> &'static str {
    match r {
        Ok(true) => "1",
        Ok(false) => "0",
        Err(_) => "E",
    }
}
fn show_verify(r: Result<bool, bsv::BSVErrors>) -> String {
    match r {
        Ok(true) => "OK:1".into(),
        Ok(false) => "OK:0".into(),
        Err(_) => "ERR".into(),
    }
}
/// the driver's own construction of the signed preimage (compact size, magic, compact size, message)
fn compact_size(n: u64, out: &mut Vec<u8>) {
    if n < 253 {
        out.push(n as u8);
    } else if n < 0x10000 {
        out.push(0xfd);
        out.extend_from_slice(&(n as u16).to_le_bytes());
    } else if n < 0x1_0000_0000 {
        out.push(0xfe);
        out.extend_from_slice(&(n as u32).to_le_bytes());
    } else {
        out.push(0xff);
        out.extend_from_slice(&n.to_le_bytes());
    }
}
fn preimage(msg: &[u8]) -> Vec<u8> {
    let magic = b"Bitcoin Signed Message:\n";
    let mut v = Vec::new();
    compact_size(magic.len() as u64, &mut v);
    v.extend_from_slice(magic);
    compact_size(msg.len() as u64, &mut v);
    v.extend_from_slice(msg);
    v
}
fn flip_bit(bs: &[u8], i: usize) -> Vec<u8> {
    let mut v = bs.to_vec();
    let k = i / 8;
    if k < v.len() {
        v[k] ^= 1 << (i % 8);
    } else {
        v.push(0);
    }
    v
}
/// a message RELATED to `m`: whitespace / BOM / NUL added, stripped, case changed, interior space doubled
fn related(m: &[u8], i: u64) -> Vec<u8> {
    let ws = |b: &u8| matches!(*b, 9 | 10 | 11 | 12 | 13 | 32);
    let mut v = m.to_vec();
    match i {
        0 => { v.insert(0, b' '); v }
        1 => { v.push(b'\n'); v }
        2 => { v.push(b' '); v }
        3 => { v.insert(0, b'\t'); v }
        4 => {
            let a = m.iter().position(|b| !ws(b)).unwrap_or(m.len());
            let e = m.iter().rposition(|b| !ws(b)).map(|x| x + 1).unwrap_or(a);
            m[a..e].to_vec()
        }
        5 => { let mut w = vec![0xef, 0xbb, 0xbf]; w.extend_from_slice(m); w }
        6 => { v.push(0); v }
        7 => m.iter().map(|b| b.to_ascii_uppercase()).collect(),
        8 => m.iter().map(|b| b.to_ascii_lowercase()).collect(),
        9 => match m.iter().position(|b| *b == b' ') { Some(k) => { v.insert(k, b' '); v } None => { v.extend_from_slice(b"  "); v } },
        10 => { v.extend_from_slice(b"\r\n"); v }
        11 => { v.insert(0, 0x0c); v }
        12 => { v.insert(0, 0x0b); v }
        13 => { v.insert(0, b'\n'); v.push(b'\t'); v }
        _ => { v.insert(0, 0); v }
    }
}
fn own_address(k: &PrivateKey, p: u8) -> Option<P2PKHAddress> {
    k.to_public_key().ok()?.to_p2pkh_address().ok()?.set_chain_params(&chain(p)).ok()
}
fn make_addr(p: u8, h: &[u8]) -> Option<P2PKHAddress> {
    P2PKHAddress::from_pubkey_hash(h).ok()?.set_chain_params(&chain(p)).ok()
}

macro_rules! need {
    ($e:expr) => {
        match $e {
            Some(x) => x,
            None => return Some("BADARG".into()),
        }
    };
}
macro_rules! lib {
    ($e:expr) => {
        match $e {
            Ok(x) => x,
            Err(_) => return Some("ERR".into()),
        }
    };
}
macro_rules! some {
    ($e:expr) => {
        match $e {
            Some(x) => x,
            None => return Some("ERR".into()),
        }
    };
}

pub fn run(op: &str, args: &[String]) -> Option<String> {
    Some(match op {
        "bsm.sign" => {
            let kb = need!(arg_bytes(args, 0));
            let c = need!(arg_flag(args, 1));
            let msg = need!(arg_bytes(args, 2));
            let k = lib!(PrivateKey::from_bytes(&kb)).compress_public_key(c);
            let sg = lib!(BSM::sign_message(&k, &msg));
            format!("OK:{}", hex::encode(sg.to_compact_bytes(None)))
        }
        "bsm.sign_k" => {
            let kb = need!(arg_bytes(args, 0));
            let c = need!(arg_flag(args, 1));
            let nb = need!(arg_bytes(args, 2));
            let nc = need!(arg_flag(args, 3));
            let msg = need!(arg_bytes(args, 4));
            let p = need!(arg_byte(args, 5));
            let k = lib!(PrivateKey::from_bytes(&kb)).compress_public_key(c);
            // the nonce key carries its own compression marker, which must not leak into the signature
            let e = lib!(PrivateKey::from_bytes(&nb)).compress_public_key(nc);
            let sg = lib!(BSM::sign_message_with_k(&k, &e, &msg));
            let a = some!(own_address(&k, p));
            format!("OK:{};{}", hex::encode(sg.to_compact_bytes(None)), show_v(BSM::verify_message(&msg, &sg, &a)))
        }
        "bsm.compact_verify" => {
            let kb = need!(arg_bytes(args, 0));
            let c = need!(arg_flag(args, 1));
            let msg = need!(arg_bytes(args, 2));
            let p = need!(arg_byte(args, 3));
            let k = lib!(PrivateKey::from_bytes(&kb)).compress_public_key(c);
            let sg = lib!(BSM::sign_message(&k, &msg));
            let cb = sg.to_compact_bytes(None);
            let a = some!(own_address(&k, p));
            let v1 = show_v(BSM::verify_message(&msg, &sg, &a));
            let v2 = match Signature::from_compact_bytes(&cb) {
                Ok(sg2) => show_v(a.verify_bitcoin_message(&msg, &sg2)),
                Err(_) => "E",
            };
            let pk = lib!(k.to_public_key());
            let v3 = show_v(ECDSA::verify_digest(&preimage(&msg), &pk, &sg, SigningHash::Sha256d));
            let i1 = BSM::is_valid_message(&msg, &sg, &a) as u8;
            let i2 = a.is_valid_bitcoin_message(&msg, &sg) as u8;
            // digest-based recovery from the digest computed HERE must give the signer's key in the signer's form,
            // from the in-memory signature and from the re-parsed compact form
            let dg = bsv::Hash::sha_256d(&preimage(&msg)).to_bytes();
            let own = lib!(pk.to_bytes());
            let rec = |s: &Signature| match s.recover_public_key_from_digest(&dg).and_then(|q| q.to_bytes()) {
                Ok(b) => if b == own { "1" } else { "0" },
                Err(_) => "E",
            };
            let r1 = rec(&sg);
            let r2 = match Signature::from_compact_bytes(&cb) {
                Ok(sg2) => rec(&sg2),
                Err(_) => "E",
            };
            // the signer's address through EVERY public route, re-prefixed; each must accept, all must be equal objects
            let cp = chain(p);
            let pk2 = bsv::PublicKey::from_private_key(&k);
            let routes: Vec<Option<P2PKHAddress>> = vec![
                pk.to_p2pkh_address().ok().and_then(|x| x.set_chain_params(&cp).ok()),
                pk2.to_p2pkh_address().ok().and_then(|x| x.set_chain_params(&cp).ok()),
                P2PKHAddress::from_pubkey(&pk).ok().and_then(|x| x.set_chain_params(&cp).ok()),
                P2PKHAddress::from_pubkey(&pk2).ok().and_then(|x| x.set_chain_params(&cp).ok()),
                P2PKHAddress::from_pubkey_hash(&bsv::Hash::hash_160(&k.get_point()).to_bytes()).ok().and_then(|x| x.set_chain_params(&cp).ok()),
                a.to_string().ok().and_then(|t| P2PKHAddress::from_string(&t).ok()),
                bsv::PublicKey::from_hex(&pk.to_hex().unwrap_or_default()).ok().and_then(|q| q.to_p2pkh_address().ok()).and_then(|x| x.set_chain_params_impl(&cp).ok()),
            ];
            let mut rv = String::new();
            let mut same = true;
            for r in &routes {
                match r {
                    Some(x) => {
                        rv.push_str(show_v(BSM::verify_message(&msg, &sg, x)));
                        same = same && *x == a;
                    }
                    None => {
                        rv.push('N');
                        same = false;
                    }
                }
            }
            format!("OK:{};{};{};{};{};{};{};{};{};{}", hex::encode(cb), v1, v2, v3, i1, i2, r1, r2, rv, same as u8)
        }
        "bsm.verify" => {
            let msg = need!(arg_bytes(args, 0));
            let cb = need!(arg_bytes(args, 1));
            let p = need!(arg_byte(args, 2));
            let h = need!(arg_bytes(args, 3));
            let sg = lib!(Signature::from_compact_bytes(&cb));
            let a = some!(make_addr(p, &h));
            show_verify(BSM::verify_message(&msg, &sg, &a))
        }
        "bsm.tamper" => {
            let kb = need!(arg_bytes(args, 0));
            let c = need!(arg_flag(args, 1));
            let msg = need!(arg_bytes(args, 2));
            let p = need!(arg_byte(args, 3));
            let kind = need!(args.get(4)).clone();
            let i = need!(arg_u64(args, 5));
            let idx = i.min(1_000_000) as usize;
            let k = lib!(PrivateKey::from_bytes(&kb)).compress_public_key(c);
            let sg = lib!(BSM::sign_message(&k, &msg));
            let a = some!(own_address(&k, p));
            // (message, signature, address) after tampering; a signature that no longer parses counts as rejected
            let (m2, sg2, a2): (Vec<u8>, Option<Signature>, P2PKHAddress) = match kind.as_str() {
                "m" => (flip_bit(&msg, idx), Some(sg.clone()), a.clone()),
                "w" => (related(&msg, i), Some(sg.clone()), a.clone()),
                "s" => (msg.clone(), Signature::from_compact_bytes(&flip_bit(&sg.to_compact_bytes(None), idx % 520)).ok(), a.clone()),
                "h" => (msg.clone(), Some(sg.clone()), some!(make_addr(p, &flip_bit(&a.to_pubkey_hash(), idx % 160)))),
                "c" => (msg.clone(), Some(sg.clone()), some!(own_address(&k.compress_public_key(!c), p))),
                "k" => {
                    let mut ob = [0u8; 32];
                    ob[24..].copy_from_slice(&i.to_be_bytes());
                    let other = lib!(PrivateKey::from_bytes(&ob)).compress_public_key(c);
                    (msg.clone(), Some(sg.clone()), some!(own_address(&other, p)))
                }
                "p" => (msg.clone(), Some(sg.clone()), lib!(a.set_chain_params(&chain((i % 256) as u8)))),
                // call history on the address object: own -> prefix i -> mainnet -> p; must still verify
                "q" => {
                    let a1 = lib!(a.set_chain_params(&chain((i % 256) as u8)));
                    let a2 = lib!(a1.set_chain_params(&ChainParams::mainnet()));
                    (msg.clone(), Some(sg.clone()), lib!(a2.set_chain_params(&chain(p))))
                }
                // call history on the key object: derive the public key, switch the compression flag, then sign and
                // derive the address from the switched key; must verify
                "o" => {
                    let _ = k.to_public_key();
                    let k2 = k.compress_public_key(!c);
                    let sg2 = lib!(BSM::sign_message(&k2, &msg));
                    (msg.clone(), Some(sg2), some!(own_address(&k2, p)))
                }
                _ => return Some("BADARG".into()),
            };
            match sg2 {
                Some(s2) => format!(
                    "OK:{};{};{};{}",
                    show_v(BSM::verify_message(&m2, &s2, &a2)),
                    BSM::is_valid_message(&m2, &s2, &a2) as u8,
                    a2.is_valid_bitcoin_message(&m2, &s2) as u8,
                    show_v(a2.verify_bitcoin_message(&m2, &s2))
                ),
                None => "OK:E;0;0;E".into(),
            }
        }
        _ => return None,
    })
}
