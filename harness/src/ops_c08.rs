//! C08 ops: BIP32 extended keys (ExtendedPrivateKey / ExtendedPublicKey).
//! Parents are built field by field with `new` so that derive / to_string are driven independently of
//! from_seed / from_string:  xprv parent = key comp cc depth index fp,  xpub parent = pubkey cc depth index fp
//! (fp = "-" for None).  Text travels as hex of its UTF-8 bytes.
use crate::util::*;
use bsv::{ExtendedPrivateKey, ExtendedPublicKey, PrivateKey, PublicKey};

fn show_xprv(x: &ExtendedPrivateKey) -> String {
    let s = match x.to_string() {
        Ok(s) => s,
        Err(_) => return "ERR".into(),
    };
    let pk = match x.get_public_key().to_bytes() {
        Ok(b) => b,
        Err(_) => return "ERR".into(),
    };
    format!(
        "OK:{};{};{};{};{};{};{}",
        s,
        x.get_depth(),
        x.get_index(),
        hex::encode(x.get_parent_fingerprint()),
        hex::encode(x.get_chain_code()),
        hex::encode(x.get_private_key().to_bytes()),
        hex::encode(pk)
    )
}

fn show_xpub(x: &ExtendedPublicKey) -> String {
    let s = match x.to_string() {
        Ok(s) => s,
        Err(_) => return "ERR".into(),
    };
    let pk = match x.get_public_key().to_bytes() {
        Ok(b) => b,
        Err(_) => return "ERR".into(),
    };
    format!(
        "OK:{};{};{};{};{};{}",
        s,
        x.get_depth(),
        x.get_index(),
        hex::encode(x.get_parent_fingerprint()),
        hex::encode(x.get_chain_code()),
        hex::encode(pk)
    )
}

fn res_xprv(r: Result<ExtendedPrivateKey, bsv::BSVErrors>) -> String {
    match r {
        Ok(x) => show_xprv(&x),
        Err(_) => "ERR".into(),
    }
}
fn res_xpub(r: Result<ExtendedPublicKey, bsv::BSVErrors>) -> String {
    match r {
        Ok(x) => show_xpub(&x),
        Err(_) => "ERR".into(),
    }
}


/// every public entry point has a `*_impl` twin that is public too: both are called and must agree
fn both(a: String, b: String) -> String {
    if a == b {
        a
    } else {
        "OK:impl-variant-differs".into()
    }
}

enum Parg<T> {
    Bad,
    Invalid,
    Good(T),
}

fn arg_fp(args: &[String], i: usize) -> Option<Option<Vec<u8>>> {
    let a = args.get(i)?;
    if a == "-" {
        Some(None)
    } else {
        Some(Some(expand(a)?))
    }
}

fn arg_xprv(args: &[String]) -> Parg<ExtendedPrivateKey> {
    if args.len() < 6 {
        return Parg::Bad;
    }
    let key = match arg_bytes(args, 0) {
        Some(b) => b,
        None => return Parg::Bad,
    };
    let comp = match args[1].as_str() {
        "0" => false,
        "1" => true,
        _ => return Parg::Bad,
    };
    let cc = match arg_bytes(args, 2) {
        Some(b) => b,
        None => return Parg::Bad,
    };
    let depth = match arg_u64(args, 3) {
        Some(d) if d < 256 => d as u8,
        _ => return Parg::Bad,
    };
    let index = match arg_u64(args, 4) {
        Some(d) if d < (1u64 << 32) => d as u32,
        _ => return Parg::Bad,
    };
    let fp = match arg_fp(args, 5) {
        Some(f) => f,
        None => return Parg::Bad,
    };
    let pk = match PrivateKey::from_bytes(&key) {
        Ok(k) => k.compress_public_key(comp),
        Err(_) => return Parg::Invalid,
    };
    Parg::Good(ExtendedPrivateKey::new(&pk, &cc, &depth, &index, fp.as_deref()))
}

fn arg_xpub(args: &[String]) -> Parg<ExtendedPublicKey> {
    if args.len() < 5 {
        return Parg::Bad;
    }
    let key = match arg_bytes(args, 0) {
        Some(b) => b,
        None => return Parg::Bad,
    };
    let cc = match arg_bytes(args, 1) {
        Some(b) => b,
        None => return Parg::Bad,
    };
    let depth = match arg_u64(args, 2) {
        Some(d) if d < 256 => d as u8,
        _ => return Parg::Bad,
    };
    let index = match arg_u64(args, 3) {
        Some(d) if d < (1u64 << 32) => d as u32,
        _ => return Parg::Bad,
    };
    let fp = match arg_fp(args, 4) {
        Some(f) => f,
        None => return Parg::Bad,
    };
    let pk = match PublicKey::from_bytes(&key) {
        Ok(k) => k,
        Err(_) => return Parg::Invalid,
    };
    Parg::Good(ExtendedPublicKey::new(&pk, &cc, &depth, &index, fp.as_deref()))
}

fn arg_index(args: &[String], i: usize) -> Option<u32> {
    match arg_u64(args, i) {
        Some(d) if d < (1u64 << 32) => Some(d as u32),
        _ => None,
    }
}

pub fn run(op: &str, args: &[String]) -> Option<String> {
    let bad = || Some("BADARG".to_string());
    Some(match op {
        "xprv.from_seed" => {
            let seed = match arg_bytes(args, 0) {
                Some(b) => b,
                None => return bad(),
            };
            both(res_xprv(ExtendedPrivateKey::from_seed(&seed)), res_xprv(ExtendedPrivateKey::from_seed_impl(&seed)))
        }
        "xprv.seed_path" => {
            let (seed, path) = match (arg_bytes(args, 0), arg_str(args, 1)) {
                (Some(b), Some(p)) => (b, p),
                _ => return bad(),
            };
            both(
                res_xprv(ExtendedPrivateKey::from_seed(&seed).and_then(|x| x.derive_from_path(&path))),
                res_xprv(ExtendedPrivateKey::from_seed_impl(&seed).and_then(|x| x.derive_from_path_impl(&path))),
            )
        }
        "xpub.seed_path" => {
            let (seed, path) = match (arg_bytes(args, 0), arg_str(args, 1)) {
                (Some(b), Some(p)) => (b, p),
                _ => return bad(),
            };
            both(
                res_xpub(ExtendedPublicKey::from_seed(&seed).and_then(|x| x.derive_from_path(&path))),
                res_xpub(ExtendedPublicKey::from_seed_impl(&seed).and_then(|x| x.derive_from_path_impl(&path))),
            )
        }
        "xprv.from_random" | "xpub.from_random" => {
            if !args.is_empty() {
                return bad();
            }
            // behavioural: depth;index;fingerprint; string reads back to the same fields; two calls differ
            if op == "xprv.from_random" {
                match (ExtendedPrivateKey::from_random(), ExtendedPrivateKey::from_random_impl()) {
                    (Ok(x), Ok(y)) => {
                        let back = x.to_string().and_then(|s| ExtendedPrivateKey::from_string(&s));
                        let same = matches!(&back, Ok(b) if show_xprv(b) == show_xprv(&x));
                        let differ = x.get_private_key().to_bytes() != y.get_private_key().to_bytes();
                        format!("OK:{};{};{};{};{}", x.get_depth(), x.get_index(), hex::encode(x.get_parent_fingerprint()), same as u8, differ as u8)
                    }
                    _ => "ERR".into(),
                }
            } else {
                match (ExtendedPublicKey::from_random(), ExtendedPublicKey::from_random_impl()) {
                    (Ok(x), Ok(y)) => {
                        let back = x.to_string().and_then(|s| ExtendedPublicKey::from_string(&s));
                        let same = matches!(&back, Ok(b) if show_xpub(b) == show_xpub(&x));
                        let differ = show_xpub(&x) != show_xpub(&y);
                        format!("OK:{};{};{};{};{}", x.get_depth(), x.get_index(), hex::encode(x.get_parent_fingerprint()), same as u8, differ as u8)
                    }
                    _ => "ERR".into(),
                }
            }
        }
        "xpub.from_seed" => {
            let seed = match arg_bytes(args, 0) {
                Some(b) => b,
                None => return bad(),
            };
            both(res_xpub(ExtendedPublicKey::from_seed(&seed)), res_xpub(ExtendedPublicKey::from_seed_impl(&seed)))
        }
        "xprv.string_derive" => {
            let (s, i) = match (arg_str(args, 0), arg_index(args, 1)) {
                (Some(s), Some(i)) => (s, i),
                _ => return bad(),
            };
            // the object returned by from_string (with its cached public key) is used directly
            res_xprv(ExtendedPrivateKey::from_string(&s).and_then(|x| x.derive(i)))
        }
        "xpub.string_derive" => {
            let (s, i) = match (arg_str(args, 0), arg_index(args, 1)) {
                (Some(s), Some(i)) => (s, i),
                _ => return bad(),
            };
            res_xpub(ExtendedPublicKey::from_string(&s).and_then(|x| x.derive(i)))
        }
        "xprv.history" => {
            if args.len() != 8 {
                return bad();
            }
            match arg_xprv(args) {
                Parg::Bad => return bad(),
                Parg::Invalid => "ERR".into(),
                Parg::Good(x) => {
                    let (a, b) = match (arg_str(args, 6), arg_str(args, 7)) {
                        (Some(a), Some(b)) => (a, b),
                        _ => return bad(),
                    };
                    let st = |r: Result<ExtendedPrivateKey, bsv::BSVErrors>| match r.and_then(|y| y.to_string()) {
                        Ok(s) => s,
                        Err(_) => "ERR".to_string(),
                    };
                    // several calls on the ONE object, then a sibling object, then the object itself
                    let r1 = st(x.derive_from_path(&a));
                    let r2 = st(x.derive_from_path(&b));
                    let r3 = st(x.derive_from_path(&a));
                    let r4 = st(x.derive(1).and_then(|y| y.derive_from_path(&a)));
                    let r5 = st(Ok(x));
                    format!("OK:{};{};{};{};{}", r1, r2, r3, r4, r5)
                }
            }
        }
        "xpub.history" => {
            if args.len() != 7 {
                return bad();
            }
            match arg_xpub(args) {
                Parg::Bad => return bad(),
                Parg::Invalid => "ERR".into(),
                Parg::Good(x) => {
                    let (a, b) = match (arg_str(args, 5), arg_str(args, 6)) {
                        (Some(a), Some(b)) => (a, b),
                        _ => return bad(),
                    };
                    let st = |r: Result<ExtendedPublicKey, bsv::BSVErrors>| match r.and_then(|y| y.to_string()) {
                        Ok(s) => s,
                        Err(_) => "ERR".to_string(),
                    };
                    let r1 = st(x.derive_from_path(&a));
                    let r2 = st(x.derive_from_path(&b));
                    let r3 = st(x.derive_from_path(&a));
                    let r4 = st(x.derive(1).and_then(|y| y.derive_from_path(&a)));
                    let r5 = st(Ok(x));
                    format!("OK:{};{};{};{};{}", r1, r2, r3, r4, r5)
                }
            }
        }
        "xprv.from_string" => {
            let s = match arg_str(args, 0) {
                Some(s) => s,
                None => return bad(),
            };
            both(res_xprv(ExtendedPrivateKey::from_string(&s)), res_xprv(ExtendedPrivateKey::from_string_impl(&s)))
        }
        "xpub.from_string" => {
            let s = match arg_str(args, 0) {
                Some(s) => s,
                None => return bad(),
            };
            both(res_xpub(ExtendedPublicKey::from_string(&s)), res_xpub(ExtendedPublicKey::from_string_impl(&s)))
        }
        "xprv.to_string" => match arg_xprv(args) {
            Parg::Bad => return bad(),
            Parg::Invalid => "ERR".into(),
            Parg::Good(x) => both(
                match x.to_string() {
                    Ok(s) => format!("OK:{}", s),
                    Err(_) => "ERR".into(),
                },
                match x.to_string_impl() {
                    Ok(s) => format!("OK:{}", s),
                    Err(_) => "ERR".into(),
                },
            ),
        },
        "xpub.to_string" => match arg_xpub(args) {
            Parg::Bad => return bad(),
            Parg::Invalid => "ERR".into(),
            Parg::Good(x) => both(
                match x.to_string() {
                    Ok(s) => format!("OK:{}", s),
                    Err(_) => "ERR".into(),
                },
                match x.to_string_impl() {
                    Ok(s) => format!("OK:{}", s),
                    Err(_) => "ERR".into(),
                },
            ),
        },
        "xpub.from_xprv" => match arg_xprv(args) {
            Parg::Bad => return bad(),
            Parg::Invalid => "ERR".into(),
            Parg::Good(x) => show_xpub(&ExtendedPublicKey::from_xpriv(&x)),
        },
        "xprv.derive" | "xprv.neuter_derive" | "xpub.from_xprv_derive" => match arg_xprv(args) {
            Parg::Bad => return bad(),
            Parg::Invalid => "ERR".into(),
            Parg::Good(x) => {
                let i = match arg_index(args, 6) {
                    Some(i) => i,
                    None => return bad(),
                };
                if op == "xprv.derive" {
                    both(res_xprv(x.derive(i)), res_xprv(x.derive_impl(i)))
                } else if op == "xprv.neuter_derive" {
                    res_xpub(x.derive(i).map(|c| ExtendedPublicKey::from_xpriv(&c)))
                } else {
                    let n = ExtendedPublicKey::from_xpriv(&x);
                    both(res_xpub(n.derive(i)), res_xpub(n.derive_impl(i)))
                }
            }
        },
        "xprv.derive_path" => match arg_xprv(args) {
            Parg::Bad => return bad(),
            Parg::Invalid => "ERR".into(),
            Parg::Good(x) => {
                let p = match arg_str(args, 6) {
                    Some(p) => p,
                    None => return bad(),
                };
                both(res_xprv(x.derive_from_path(&p)), res_xprv(x.derive_from_path_impl(&p)))
            }
        },
        "xpub.derive" => match arg_xpub(args) {
            Parg::Bad => return bad(),
            Parg::Invalid => "ERR".into(),
            Parg::Good(x) => {
                let i = match arg_index(args, 5) {
                    Some(i) => i,
                    None => return bad(),
                };
                both(res_xpub(x.derive(i)), res_xpub(x.derive_impl(i)))
            }
        },
        "xpub.derive_path" => match arg_xpub(args) {
            Parg::Bad => return bad(),
            Parg::Invalid => "ERR".into(),
            Parg::Good(x) => {
                let p = match arg_str(args, 5) {
                    Some(p) => p,
                    None => return bad(),
                };
                both(res_xpub(x.derive_from_path(&p)), res_xpub(x.derive_from_path_impl(&p)))
            }
        },
        _ => return None,
    })
}
