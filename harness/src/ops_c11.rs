//! C11 ops: ECIES (BIE1).  (filled in below)
pub fn run(_op: &str, _args: &[String]) -> Option<String> {
    None
}
