//! C11 ops: ECIES (BIE1).  Private keys are 32 bytes, public keys SEC1 bytes; invalid key arguments
//! (constructor failure) are reported as ERR.  See coq/Run/Exec_C11.v for the op formats.
use crate::util::*;
use bsv::{ECIESCiphertext, PrivateKey, PublicKey, ECIES};

enum Karg<T> {
    Bad,
    Invalid,
    Good(T),
}

fn arg_priv(args: &[String], i: usize) -> Karg<PrivateKey> {
    match arg_bytes(args, i) {
        None => Karg::Bad,
        Some(b) => match PrivateKey::from_bytes(&b) {
            Ok(k) => Karg::Good(k),
            Err(_) => Karg::Invalid,
        },
    }
}
fn arg_pub(args: &[String], i: usize) -> Karg<PublicKey> {
    match arg_bytes(args, i) {
        None => Karg::Bad,
        Some(b) => match PublicKey::from_bytes(&b) {
            Ok(k) => Karg::Good(k),
            Err(_) => Karg::Invalid,
        },
    }
}
fn arg_bool(args: &[String], i: usize) -> Option<bool> {
    match args.get(i).map(|s| s.as_str()) {
        Some("0") => Some(false),
        Some("1") => Some(true),
        _ => None,
    }
}

fn show_msg(r: Result<Vec<u8>, bsv::BSVErrors>) -> String {
    match r {
        Ok(m) => format!("OK:{}", show_bytes(&m)),
        Err(_) => "ERR".into(),
    }
}

fn dec_ser(ser: &[u8], haspk: bool, d: &PrivateKey, sender: &PublicKey) -> String {
    show_msg(ECIESCiphertext::from_bytes(ser, haspk).and_then(|c| ECIES::decrypt(&c, d, sender)))
}

macro_rules! key {
    ($e:expr) => {
        match $e {
            Karg::Bad => return Some("BADARG".to_string()),
            Karg::Invalid => return Some("ERR".to_string()),
            Karg::Good(k) => k,
        }
    };
}
macro_rules! arg {
    ($e:expr) => {
        match $e {
            Some(v) => v,
            None => return Some("BADARG".to_string()),
        }
    };
}

pub fn run(op: &str, args: &[String]) -> Option<String> {
    Some(match op {
        "ecies.encrypt" | "ecies.encrypt_wif" => {
            let wif = op == "ecies.encrypt_wif";
            if args.len() != (if wif { 4 } else { 5 }) {
                return Some("BADARG".into());
            }
            let o = if wif { 1 } else { 2 };
            let msg = arg!(arg_bytes(args, o + 1));
            let excl = arg!(arg_bool(args, o + 2));
            let a = if wif {
                let w = arg!(arg_str(args, 0));
                match PrivateKey::from_wif(&w) {
                    Ok(k) => k,
                    Err(_) => return Some("ERR".into()),
                }
            } else {
                let comp = arg!(arg_bool(args, 1));
                key!(arg_priv(args, 0)).compress_public_key(comp)
            };
            let b = key!(arg_pub(args, o));
            match ECIES::encrypt(&msg, &a, &b, excl) {
                Ok(c) => match c.get_cipher_keys() {
                    Some(k) => format!(
                        "OK:{};{};{};{}",
                        show_bytes(&c.to_bytes()),
                        hex::encode(k.get_iv()),
                        hex::encode(k.get_ke()),
                        hex::encode(k.get_km())
                    ),
                    None => "OK:nokeys".into(),
                },
                Err(_) => "ERR".into(),
            }
        }
        "ecies.pub" => {
            if args.len() != 4 {
                return Some("BADARG".into());
            }
            let bcomp = arg!(arg_bool(args, 2));
            let msg = arg!(arg_bytes(args, 3));
            let a = key!(arg_priv(args, 0));
            let b = key!(arg_priv(args, 1)).compress_public_key(bcomp);
            let (pa, pb) = match (a.to_public_key(), b.to_public_key()) {
                (Ok(x), Ok(y)) => (x, y),
                _ => return Some("ERR".into()),
            };
            match pb.encrypt_message(&msg, &a) {
                Ok(c) => {
                    let mem = match b.decrypt_message(&c, &pa) {
                        Ok(p) => show_bytes(&p),
                        Err(_) => "ERR".into(),
                    };
                    let via = match ECIESCiphertext::from_bytes(&c.to_bytes(), true).and_then(|c2| b.decrypt_message(&c2, &pa)) {
                        Ok(p) => show_bytes(&p),
                        Err(_) => "ERR".into(),
                    };
                    format!("OK:{};{};{}", show_bytes(&c.to_bytes()), mem, via)
                }
                Err(_) => "ERR".into(),
            }
        }
        "ecies.keys" => {
            if args.len() != 2 {
                return Some("BADARG".into());
            }
            let d = key!(arg_priv(args, 0));
            let p = key!(arg_pub(args, 1));
            match ECIES::derive_cipher_keys(&d, &p) {
                Ok(k) => format!("OK:{};{};{}", hex::encode(k.get_iv()), hex::encode(k.get_ke()), hex::encode(k.get_km())),
                Err(_) => "ERR".into(),
            }
        }
        "ecies.decrypt" => {
            if args.len() != 4 {
                return Some("BADARG".into());
            }
            let ser = arg!(arg_bytes(args, 2));
            let haspk = arg!(arg_bool(args, 3));
            let b = key!(arg_priv(args, 0));
            let a = key!(arg_pub(args, 1));
            dec_ser(&ser, haspk, &b, &a)
        }
        "ecies.parse" => {
            if args.len() != 2 {
                return Some("BADARG".into());
            }
            let ser = arg!(arg_bytes(args, 0));
            let haspk = arg!(arg_bool(args, 1));
            match ECIESCiphertext::from_bytes(&ser, haspk) {
                Ok(c) => {
                    let back = c.to_bytes();
                    let n = back.len();
                    // public key bytes are not exposed by an accessor: they are the bytes between the magic and the body
                    let body = c.get_ciphertext();
                    let mac = c.get_hmac();
                    let pk = if n >= 4 + body.len() + mac.len() && n - 4 - body.len() - mac.len() > 0 {
                        hex::encode(&back[4..n - body.len() - mac.len()])
                    } else {
                        "-".to_string()
                    };
                    let ext = match c.extract_public_key().and_then(|p| p.to_bytes()) {
                        Ok(p) => hex::encode(p),
                        Err(_) => "ERR".into(),
                    };
                    let keys = if c.get_cipher_keys().is_none() { "none" } else { "some" };
                    format!("OK:{};{};{};{};{};{}", show_bytes(&back), pk, show_bytes(&body), hex::encode(mac), ext, keys)
                }
                Err(_) => "ERR".into(),
            }
        }
        "ecies.flip" => {
            if args.len() != 5 {
                return Some("BADARG".into());
            }
            let ser = arg!(arg_bytes(args, 2));
            let haspk = arg!(arg_bool(args, 3));
            let bit = arg!(arg_u64(args, 4)) as usize;
            if bit >= ser.len() * 8 {
                return Some("BADARG".into());
            }
            let b = key!(arg_priv(args, 0));
            let a = key!(arg_pub(args, 1));
            let mut flipped = ser.clone();
            flipped[bit / 8] ^= 1u8 << (7 - bit % 8);
            format!("{},{}", dec_ser(&ser, haspk, &b, &a), dec_ser(&flipped, haspk, &b, &a))
        }
        "ecies.mem" => {
            if args.len() != 8 {
                return Some("BADARG".into());
            }
            let msg = arg!(arg_bytes(args, 6));
            let excl = arg!(arg_bool(args, 7));
            let a = key!(arg_priv(args, 0));
            let bp = key!(arg_pub(args, 1));
            let b = key!(arg_priv(args, 2));
            let ap = key!(arg_pub(args, 3));
            let b2 = key!(arg_priv(args, 4));
            let a2p = key!(arg_pub(args, 5));
            match ECIES::encrypt(&msg, &a, &bp, excl) {
                // the object returned by encrypt is used as it is (it carries its memoised cipher keys)
                Ok(c) => {
                    let before = c.to_bytes();
                    let first = format!(
                        "{},{},{},{},{},{}",
                        show_msg(ECIES::decrypt(&c, &b, &ap)),
                        show_msg(ECIES::decrypt(&c, &b2, &ap)),
                        show_msg(ECIES::decrypt(&c, &b, &a2p)),
                        show_msg(b.decrypt_message(&c, &ap)),
                        show_msg(b2.decrypt_message(&c, &ap)),
                        show_msg(b.decrypt_message(&c, &a2p))
                    );
                    let again = show_msg(ECIES::decrypt(&c, &b, &ap));
                    let same = (c.to_bytes() == before) as u8;
                    let parsed = match ECIESCiphertext::from_bytes(&before, !excl) {
                        Ok(c2) => format!(
                            "{},{},{}",
                            show_msg(ECIES::decrypt(&c2, &b2, &ap)),
                            show_msg(ECIES::decrypt(&c2, &b, &ap)),
                            if c2.get_cipher_keys().is_none() { "none" } else { "some" }
                        ),
                        Err(_) => "ERR".into(),
                    };
                    format!("{},{},{},{}", first, again, same, parsed)
                }
                Err(_) => "ERR".into(),
            }
        }
        "ecies.key_history" => {
            if args.len() != 2 {
                return Some("BADARG".into());
            }
            let msg = arg!(arg_bytes(args, 1));
            let k = key!(arg_priv(args, 0));
            let pb = |k: &PrivateKey| k.to_public_key().and_then(|p| p.to_bytes()).map(hex::encode).unwrap_or_else(|_| "ERR".into());
            let p1 = pb(&k);
            let k2 = k.compress_public_key(false);
            let p2 = pb(&k2);
            let k3 = k2.compress_public_key(true);
            let p3 = pb(&k3);
            let own2 = match k2.to_public_key() {
                Ok(p) => p,
                Err(_) => return Some("ERR".into()),
            };
            match k2.encrypt_message(&msg) {
                Ok(c) => format!(
                    "OK:{};{};{};{};{}",
                    p1,
                    p2,
                    p3,
                    show_bytes(&c.to_bytes()),
                    match k3.decrypt_message(&c, &own2) {
                        Ok(p) => show_bytes(&p),
                        Err(_) => "ERR".into(),
                    }
                ),
                Err(_) => "ERR".into(),
            }
        }
        "ecies.sweep" => {
            if args.len() != 7 {
                return Some("BADARG".into());
            }
            let excl = arg!(arg_bool(args, 2));
            let seed = arg!(arg_u64(args, 3));
            let start = arg!(arg_u64(args, 4));
            let step = arg!(arg_u64(args, 5));
            let count = arg!(arg_u64(args, 6));
            if count > 64 || start + step * count > 100000 {
                return Some("BADARG".into());
            }
            let a = key!(arg_priv(args, 0));
            let b = key!(arg_priv(args, 1));
            let (pa, pb) = match (a.to_public_key(), b.to_public_key()) {
                (Ok(x), Ok(y)) => (x, y),
                _ => return Some("ERR".into()),
            };
            let mut out = String::from("OK:");
            for i in 0..count {
                let n = start + step * i;
                let msg = arg!(expand(&format!("l:{}:{}", seed + i, n)));
                match ECIES::encrypt(&msg, &a, &pb, excl) {
                    Ok(c) => {
                        let ser = c.to_bytes();
                        let (mut fa, mut fb): (u64, u64) = (1, 0);
                        for x in &ser {
                            fa = (fa + *x as u64) % 65521;
                            fb = (fb + fa) % 65521;
                        }
                        let back = ECIESCiphertext::from_bytes(&ser, !excl).and_then(|c2| ECIES::decrypt(&c2, &b, &pa));
                        let ok = matches!(&back, Ok(m) if *m == msg);
                        out.push_str(&format!("{}.{}.{},", ser.len(), fb * 65536 + fa, if ok { 1 } else { 0 }));
                    }
                    Err(_) => out.push_str("E,"),
                }
            }
            out
        }
        "ecies.self" => {
            if args.len() != 3 {
                return Some("BADARG".into());
            }
            let comp = arg!(arg_bool(args, 1));
            let msg = arg!(arg_bytes(args, 2));
            let d = key!(arg_priv(args, 0)).compress_public_key(comp);
            let own = match d.to_public_key() {
                Ok(p) => p,
                Err(_) => return Some("ERR".into()),
            };
            match d.encrypt_message(&msg) {
                Ok(c) => {
                    let back = match d.decrypt_message(&c, &own) {
                        Ok(p) => show_bytes(&p),
                        Err(_) => "ERR".into(),
                    };
                    let via = match ECIESCiphertext::from_bytes(&c.to_bytes(), true).and_then(|c2| d.decrypt_message(&c2, &own)) {
                        Ok(p) => show_bytes(&p),
                        Err(_) => "ERR".into(),
                    };
                    format!("OK:{};{};{}", show_bytes(&c.to_bytes()), back, via)
                }
                Err(_) => "ERR".into(),
            }
        }
        "ecies.ephemeral" => {
            if args.len() != 2 {
                return Some("BADARG".into());
            }
            let msg = arg!(arg_bytes(args, 1));
            let d = key!(arg_priv(args, 0));
            let own = match d.to_public_key() {
                Ok(p) => p,
                Err(_) => return Some("ERR".into()),
            };
            // two encryptions: both must round-trip through bytes, and the embedded sender keys must differ
            // (a fresh random key per call)
            let one = |m: &[u8]| -> Result<(Vec<u8>, Vec<u8>), bsv::BSVErrors> {
                let c = ECIES::encrypt_with_ephemeral_private_key(m, &own)?;
                let c2 = ECIESCiphertext::from_bytes(&c.to_bytes(), true)?;
                let sender = c2.extract_public_key()?;
                let plain = ECIES::decrypt(&c2, &d, &sender)?;
                Ok((plain, sender.to_bytes()?))
            };
            match (one(&msg), one(&msg)) {
                (Ok((p1, k1)), Ok((p2, k2))) => {
                    if p1 != p2 {
                        "OK:differ".into()
                    } else {
                        format!("OK:{};{}", show_bytes(&p1), if k1 != k2 { 1 } else { 0 })
                    }
                }
                _ => "ERR".into(),
            }
        }
        _ => return None,
    })
}
