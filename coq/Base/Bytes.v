(* Base/Bytes.v — byte strings, little/big-endian integers, outcome monad.
   Plain stdlib style; no axioms. *)
From Coq Require Export List NArith ZArith Lia Bool Ascii String.
From Coq Require Export Strings.Byte.
From Coq Require Import ZifyBool ZifyN ZifyNat.
Export ListNotations.
Notation length := Datatypes.length.
Notation slength := String.length.
Ltac Zify.zify_post_hook ::= Z.div_mod_to_equations.

Arguments N.add : simpl never.
Arguments N.sub : simpl never.
Arguments N.mul : simpl never.
Arguments N.div : simpl never.
Arguments N.modulo : simpl never.
Arguments N.pow : simpl never.
Arguments N.eqb : simpl never.
Arguments N.ltb : simpl never.
Arguments N.leb : simpl never.
Arguments N.of_nat : simpl never.
Arguments N.to_nat : simpl never.

Notation bytes := (list byte).

(* ------------------------------------------------------------------ *)
(* Outcome of a modelled Rust function: value, error, or panic.        *)
Inductive outcome (A : Type) : Type := Ok (a : A) | Err | Panic.
Arguments Ok {A} a.
Arguments Err {A}.
Arguments Panic {A}.

Definition bind {A B} (x : outcome A) (f : A -> outcome B) : outcome B :=
  match x with Ok a => f a | Err => Err | Panic => Panic end.
Notation "'do' x <- e ; f" := (bind e (fun x => f))
  (at level 200, x pattern, e at level 100, f at level 200, right associativity).
Definition of_option {A} (o : option A) : outcome A :=
  match o with Some a => Ok a | None => Err end.
Definition omap {A B} (f : A -> B) (x : outcome A) : outcome B :=
  match x with Ok a => Ok (f a) | Err => Err | Panic => Panic end.

(* ------------------------------------------------------------------ *)
(* byte <-> N                                                          *)
Definition b2n (b : byte) : N := Byte.to_N b.
Definition n2b (n : N) : byte :=
  match Byte.of_N (n mod 256) with Some b => b | None => x00 end.

Lemma b2n_lt b : (b2n b < 256)%N.
Proof. unfold b2n. pose proof (Byte.to_N_bounded b). lia. Qed.

Lemma n2b_b2n b : n2b (b2n b) = b.
Proof.
  unfold n2b, b2n. rewrite N.mod_small by apply b2n_lt.
  rewrite Byte.of_to_N. reflexivity.
Qed.

Lemma b2n_n2b n : (n < 256)%N -> b2n (n2b n) = n.
Proof.
  intros H. unfold n2b, b2n. rewrite N.mod_small by exact H.
  destruct (Byte.of_N n) as [b|] eqn:E.
  - apply Byte.to_of_N in E. exact E.
  - apply Byte.of_N_None_iff in E. lia.
Qed.

Lemma b2n_n2b_mod n : b2n (n2b n) = (n mod 256)%N.
Proof.
  unfold n2b. assert (H : (n mod 256 < 256)%N) by (apply N.mod_lt; lia).
  destruct (Byte.of_N (n mod 256)) as [b|] eqn:E.
  - apply Byte.to_of_N in E. exact E.
  - apply Byte.of_N_None_iff in E. lia.
Qed.

Lemma b2n_inj a b : b2n a = b2n b -> a = b.
Proof. intros H. rewrite <- (n2b_b2n a), <- (n2b_b2n b), H. reflexivity. Qed.

Definition byte_eqb (a b : byte) : bool := Byte.eqb a b.
Lemma byte_eqb_eq a b : byte_eqb a b = true <-> a = b.
Proof. unfold byte_eqb. apply Byte.byte_dec_bl || (split; [apply Byte.byte_dec_bl | apply Byte.byte_dec_lb]). Qed.
Lemma byte_eqb_refl a : byte_eqb a a = true.
Proof. apply byte_eqb_eq. reflexivity. Qed.

Fixpoint bytes_eqb (a b : bytes) : bool :=
  match a, b with
  | [], [] => true
  | x :: a', y :: b' => byte_eqb x y && bytes_eqb a' b'
  | _, _ => false
  end.
Lemma bytes_eqb_eq a b : bytes_eqb a b = true <-> a = b.
Proof.
  revert b; induction a as [|x a IH]; intros [|y b]; cbn; try (split; congruence).
  rewrite andb_true_iff, byte_eqb_eq, IH. split; [intros [-> ->]; reflexivity | intros H; inversion H; auto].
Qed.
Lemma bytes_eqb_refl a : bytes_eqb a a = true.
Proof. apply bytes_eqb_eq. reflexivity. Qed.

(* ------------------------------------------------------------------ *)
(* Little-endian fixed-width integers.                                 *)
Fixpoint le_bytes (k : nat) (n : N) : bytes :=
  match k with
  | O => []
  | S k' => n2b n :: le_bytes k' (n / 256)
  end.

Fixpoint le_val (bs : bytes) : N :=
  match bs with
  | [] => 0
  | b :: r => b2n b + 256 * le_val r
  end%N.

Definition be_bytes (k : nat) (n : N) : bytes := rev (le_bytes k n).
Definition be_val (bs : bytes) : N := le_val (rev bs).

Lemma le_bytes_length k n : length (le_bytes k n) = k.
Proof. revert n; induction k as [|k IH]; intros n; cbn; [reflexivity | rewrite IH; reflexivity]. Qed.

Lemma le_val_bound bs : (le_val bs < 256 ^ N.of_nat (length bs))%N.
Proof.
  induction bs as [|b r IH]; cbn [le_val length].
  - cbn. lia.
  - rewrite Nat2N.inj_succ, N.pow_succ_r'. pose proof (b2n_lt b). lia.
Qed.

Lemma le_val_le_bytes k n : le_val (le_bytes k n) = (n mod 256 ^ N.of_nat k)%N.
Proof.
  revert n; induction k as [|k IH]; intros n; cbn [le_bytes le_val].
  - cbn. rewrite N.mod_1_r. reflexivity.
  - rewrite IH, b2n_n2b_mod, Nat2N.inj_succ, N.pow_succ_r'.
    assert (P : (256 ^ N.of_nat k <> 0)%N) by (apply N.pow_nonzero; lia).
    rewrite (N.mul_comm 256), N.mod_mul_r by lia.
    rewrite (N.mul_comm 256). reflexivity.
Qed.

Lemma le_val_le_bytes_small k n : (n < 256 ^ N.of_nat k)%N -> le_val (le_bytes k n) = n.
Proof. intros H. rewrite le_val_le_bytes. apply N.mod_small; exact H. Qed.

Lemma le_bytes_le_val bs : le_bytes (length bs) (le_val bs) = bs.
Proof.
  induction bs as [|b r IH]; cbn [length le_bytes le_val]; [reflexivity|].
  pose proof (b2n_lt b) as Hb.
  assert (E1 : n2b (b2n b + 256 * le_val r) = b).
  { rewrite <- (n2b_b2n b) at 2. unfold n2b.
    replace ((b2n b + 256 * le_val r) mod 256)%N with (b2n b mod 256)%N by lia. reflexivity. }
  assert (E2 : ((b2n b + 256 * le_val r) / 256 = le_val r)%N) by lia.
  rewrite E1, E2, IH. reflexivity.
Qed.

Lemma le_bytes_inj k a b :
  (a < 256 ^ N.of_nat k)%N -> (b < 256 ^ N.of_nat k)%N -> le_bytes k a = le_bytes k b -> a = b.
Proof.
  intros Ha Hb E. rewrite <- (le_val_le_bytes_small k a Ha), <- (le_val_le_bytes_small k b Hb), E. reflexivity.
Qed.

(* ------------------------------------------------------------------ *)
(* Splitting input the way a cursor does.                              *)
Definition take {A} (n : nat) (l : list A) : list A := firstn n l.
Definition drop {A} (n : nat) (l : list A) : list A := skipn n l.

(* read_exact: exactly n bytes or failure *)
Definition read_exact (n : nat) (bs : bytes) : option (bytes * bytes) :=
  if Nat.leb n (length bs) then Some (firstn n bs, skipn n bs) else None.

Lemma read_exact_app n a r : length a = n -> read_exact n (a ++ r) = Some (a, r).
Proof.
  intros <-. unfold read_exact. rewrite app_length.
  replace (Nat.leb _ _) with true by (symmetry; apply Nat.leb_le; lia).
  rewrite firstn_app, Nat.sub_diag, firstn_all, skipn_app, Nat.sub_diag, skipn_all. cbn.
  rewrite app_nil_r. reflexivity.
Qed.

Lemma read_exact_spec n bs a r : read_exact n bs = Some (a, r) -> bs = a ++ r /\ length a = n.
Proof.
  unfold read_exact. destruct (Nat.leb n (length bs)) eqn:E; [|discriminate].
  intros H; inversion H; subst. apply Nat.leb_le in E. split.
  - symmetry; apply firstn_skipn.
  - apply firstn_length_le; exact E.
Qed.

Definition read_le (k : nat) (bs : bytes) : option (N * bytes) :=
  match read_exact k bs with Some (a, r) => Some (le_val a, r) | None => None end.

Lemma read_le_app k n r : (n < 256 ^ N.of_nat k)%N -> read_le k (le_bytes k n ++ r) = Some (n, r).
Proof.
  intros H. unfold read_le. rewrite read_exact_app by apply le_bytes_length.
  rewrite le_val_le_bytes_small by exact H. reflexivity.
Qed.

(* read_exact with the length given as N (never converts a huge untrusted N to nat) *)
Definition read_exactN (n : N) (bs : bytes) : option (bytes * bytes) :=
  if (n <=? N.of_nat (length bs))%N then Some (firstn (N.to_nat n) bs, skipn (N.to_nat n) bs) else None.

Lemma read_exactN_spec n bs a r : read_exactN n bs = Some (a, r) -> bs = a ++ r /\ N.of_nat (length a) = n.
Proof.
  unfold read_exactN. destruct (n <=? N.of_nat (length bs))%N eqn:E; [|discriminate].
  intros H; inversion H; subst. split.
  - symmetry; apply firstn_skipn.
  - rewrite firstn_length_le by lia. lia.
Qed.

Lemma read_exactN_app a r : read_exactN (N.of_nat (length a)) (a ++ r) = Some (a, r).
Proof.
  unfold read_exactN. rewrite app_length.
  replace (_ <=? _)%N with true by lia.
  rewrite Nat2N.id, firstn_app, Nat.sub_diag, firstn_all, skipn_app, Nat.sub_diag, skipn_all. cbn.
  rewrite app_nil_r. reflexivity.
Qed.

(* repeat a byte / zero padding *)
Definition zeros (n : nat) : bytes := repeat x00 n.
