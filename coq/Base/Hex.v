(* Base/Hex.v — hex / decimal text, the case-file argument descriptors. *)
From BSV Require Export Base.Bytes.
Open Scope string_scope.
Open Scope list_scope.
Infix "+++" := String.append (right associativity, at level 60).

(* ------------------------------------------------------------------ *)
(* nibbles *)
Definition nib_char (n : N) : ascii :=
  match n with
  | 0 => "0" | 1 => "1" | 2 => "2" | 3 => "3" | 4 => "4" | 5 => "5" | 6 => "6" | 7 => "7"
  | 8 => "8" | 9 => "9" | 10 => "a" | 11 => "b" | 12 => "c" | 13 => "d" | 14 => "e" | _ => "f"
  end%N%char.

(* hex::decode accepts both cases *)
Definition char_nib (c : ascii) : option N :=
  let n := N_of_ascii c in
  if (48 <=? n)%N && (n <=? 57)%N then Some (n - 48)%N
  else if (97 <=? n)%N && (n <=? 102)%N then Some (n - 87)%N
  else if (65 <=? n)%N && (n <=? 70)%N then Some (n - 55)%N
  else None.

Lemma char_nib_nib_char n : (n < 16)%N -> char_nib (nib_char n) = Some n.
Proof.
  intros H.
  assert (n = 0 \/ n = 1 \/ n = 2 \/ n = 3 \/ n = 4 \/ n = 5 \/ n = 6 \/ n = 7 \/ n = 8 \/ n = 9 \/
          n = 10 \/ n = 11 \/ n = 12 \/ n = 13 \/ n = 14 \/ n = 15)%N as C by lia.
  repeat (destruct C as [->|C]; [reflexivity|]). subst; reflexivity.
Qed.

Fixpoint hex_of_bytes (bs : bytes) : string :=
  match bs with
  | [] => EmptyString
  | b :: r => String (nib_char (b2n b / 16)) (String (nib_char (b2n b mod 16)) (hex_of_bytes r))
  end.

Fixpoint bytes_of_hex (s : string) : option bytes :=
  match s with
  | EmptyString => Some []
  | String c1 (String c2 r) =>
      match char_nib c1, char_nib c2, bytes_of_hex r with
      | Some h, Some l, Some bs => Some (n2b (16 * h + l) :: bs)
      | _, _, _ => None
      end
  | String _ EmptyString => None
  end.

Lemma bytes_of_hex_of_bytes bs : bytes_of_hex (hex_of_bytes bs) = Some bs.
Proof.
  induction bs as [|b r IH]; [reflexivity|].
  cbn [hex_of_bytes bytes_of_hex]. pose proof (b2n_lt b) as Hb.
  rewrite !char_nib_nib_char by lia. rewrite IH.
  replace (16 * (b2n b / 16) + b2n b mod 16)%N with (b2n b) by lia.
  rewrite n2b_b2n. reflexivity.
Qed.

Lemma hex_of_bytes_length bs : slength (hex_of_bytes bs) = 2 * length bs.
Proof. induction bs as [|b r IH]; cbn [hex_of_bytes String.length length]; [reflexivity | rewrite IH; lia]. Qed.

(* ------------------------------------------------------------------ *)
(* decimal *)
Definition digit_val (c : ascii) : option N :=
  let n := N_of_ascii c in
  if (48 <=? n)%N && (n <=? 57)%N then Some (n - 48)%N else None.

Fixpoint dec_acc (s : string) (acc : N) : option N :=
  match s with
  | EmptyString => Some acc
  | String c r => match digit_val c with Some d => dec_acc r (10 * acc + d)%N | None => None end
  end.
Definition N_of_dec (s : string) : option N :=
  match s with EmptyString => None | _ => dec_acc s 0%N end.

Fixpoint dec_digits (fuel : nat) (n : N) (acc : string) : string :=
  match fuel with
  | O => acc
  | S f => let acc' := String (nib_char (n mod 10)) acc in
           if (n <? 10)%N then acc' else dec_digits f (n / 10)%N acc'
  end.
Definition dec_of_N (n : N) : string := dec_digits (S (N.to_nat (N.log2 n))) n EmptyString.

(* signed decimal for Z *)
Definition dec_of_Z (z : Z) : string :=
  match z with
  | Z0 => "0"
  | Zpos p => dec_of_N (Npos p)
  | Zneg p => String "-" (dec_of_N (Npos p))
  end.
Definition Z_of_dec (s : string) : option Z :=
  match s with
  | String "-" r => match N_of_dec r with Some n => Some (- Z.of_N n)%Z | None => None end
  | _ => match N_of_dec s with Some n => Some (Z.of_N n) | None => None end
  end.

(* ------------------------------------------------------------------ *)
(* string utilities *)
Fixpoint split_on (sep : ascii) (s : string) (cur : string) : list string :=
  match s with
  | EmptyString => [cur]
  | String c r => if Ascii.eqb c sep then cur :: split_on sep r EmptyString
                  else split_on sep r (cur +++ String c EmptyString)
  end.
Definition split (sep : ascii) (s : string) : list string := split_on sep s EmptyString.

Fixpoint join (sep : string) (l : list string) : string :=
  match l with
  | [] => EmptyString
  | [x] => x
  | x :: r => x +++ sep +++ join sep r
  end.

Definition string_of_bytes (bs : bytes) : string := string_of_list_byte bs.
Definition bytes_of_string (s : string) : bytes := list_byte_of_string s.

(* ------------------------------------------------------------------ *)
(* Argument descriptors shared with the Rust driver and the generators:
     <hex>            literal bytes
     r:<hh>:<n>       n copies of byte hh
     l:<seed>:<n>     n bytes of a 32-bit LCG stream (x' = x*1664525+1013904223, byte = bits 16..23)
     d1+d2+...        concatenation *)
Fixpoint lcg_bytes (n : nat) (x : N) : bytes :=
  match n with
  | O => []
  | S n' => let x' := ((x * 1664525 + 1013904223) mod 4294967296)%N in
            n2b (x' / 65536) :: lcg_bytes n' x'
  end.

Definition expand1 (d : string) : option bytes :=
  match split ":" d with
  | ["r"; h; n] =>
      match bytes_of_hex h, N_of_dec n with
      | Some [b], Some k => Some (repeat b (N.to_nat k))
      | _, _ => None
      end
  | ["l"; sd; n] =>
      match N_of_dec sd, N_of_dec n with
      | Some x, Some k => Some (lcg_bytes (N.to_nat k) x)
      | _, _ => None
      end
  | [h] => bytes_of_hex h
  | _ => None
  end.

Fixpoint expand_all (l : list string) : option bytes :=
  match l with
  | [] => Some []
  | d :: r => match expand1 d, expand_all r with
              | Some a, Some b => Some (a ++ b)
              | _, _ => None
              end
  end.
Definition expand (d : string) : option bytes := expand_all (split "+" d).

(* Output compression shared with the driver: byte strings longer than 1024 bytes
   are reported as  #<len>:<checksum>  where checksum is a Fletcher-style pair. *)
Fixpoint fletcher (bs : bytes) (a b : N) : N * N :=
  match bs with
  | [] => (a, b)
  | x :: r => let a' := ((a + b2n x) mod 65521)%N in fletcher r a' ((b + a') mod 65521)%N
  end.
Definition show_bytes (bs : bytes) : string :=
  if Nat.leb (length bs) 1024 then hex_of_bytes bs
  else let '(a, b) := fletcher bs 1 0 in
       "#" +++ dec_of_N (N.of_nat (length bs)) +++ ":" +++ dec_of_N (b * 65536 + a)%N.
