(* Proofs/InterpTotal.v — C16: the interpreter model never reaches a `Panic`, terminates within
   `remaining` steps, stepping and `run` are the same iteration, an error leaves the stacks alone. *)
From BSV Require Import Base.Hex Model.Opcodes Model.Script Model.HashApi Model.Interp.
Open Scope Z_scope.

Ltac inv H := inversion H; subst; clear H.

(* ------------------------------------------------------------------ *)
(* no-panic calculus *)
Definition nopanic {A} (x : outcome A) : Prop := x <> Panic.

Lemma np_ok {A} (a : A) : nopanic (Ok a).
Proof. discriminate. Qed.
Lemma np_err {A} : nopanic (@Err A).
Proof. discriminate. Qed.
Lemma np_bind {A B} (x : outcome A) (f : A -> outcome B) :
  nopanic x -> (forall a, x = Ok a -> nopanic (f a)) -> nopanic (bind x f).
Proof. intros Hx Hf. destruct x as [a| |]; cbn [bind]; [apply Hf; reflexivity | apply np_err | exfalso; apply Hx; reflexivity]. Qed.
Lemma np_of_option {A} (o : option A) : nopanic (of_option o).
Proof. destruct o; discriminate. Qed.
Lemma np_if {A} (b : bool) (x y : outcome A) : nopanic x -> nopanic y -> nopanic (if b then x else y).
Proof. destruct b; auto. Qed.
Lemma np_verify b : nopanic (verify b).
Proof. destruct b; discriminate. Qed.
Lemma np_lift st r : nopanic r -> nopanic (lift_stack st r).
Proof. intros H. apply np_bind; [exact H | intros; apply np_ok]. Qed.
#[global] Hint Resolve np_ok np_err np_of_option np_verify : np.

(* ------------------------------------------------------------------ *)
(* Vec *)
Section VecFacts.
  Context {A : Type}.
  Implicit Types (v l : list A).

  Lemma split_last_app l x : split_last (l ++ [x]) = Some (l, x).
  Proof. induction l as [|y l IH]; cbn [app split_last]; [reflexivity | rewrite IH; reflexivity]. Qed.

  Lemma split_last_spec l :
    match split_last l with None => l = [] | Some (i, z) => l = i ++ [z] end.
  Proof.
    induction l as [|x l IH]; cbn [split_last]; [reflexivity|].
    destruct (split_last l) as [[i z]|]; subst; reflexivity.
  Qed.

  Lemma split_last_some l i z : split_last l = Some (i, z) -> l = i ++ [z].
  Proof. intros H. pose proof (split_last_spec l) as S. rewrite H in S. exact S. Qed.
  Lemma split_last_none l : split_last l = None -> l = [].
  Proof. intros H. pose proof (split_last_spec l) as S. rewrite H in S. exact S. Qed.
  Lemma split_last_nonempty l : l <> [] -> exists i z, split_last l = Some (i, z).
  Proof. intros H. destruct (split_last l) as [[i z]|] eqn:E; [eauto | apply split_last_none in E; contradiction]. Qed.

  Lemma usub_ok a b : (b <= a)%nat -> usub a b = Ok (a - b)%nat.
  Proof. intros H. unfold usub. apply Nat.leb_le in H. rewrite H. reflexivity. Qed.

  Lemma nth_error_some_lt i v : (i < length v)%nat -> exists x, nth_error v i = Some x.
  Proof. intros H. destruct (nth_error v i) eqn:E; [eauto | apply nth_error_None in E; lia]. Qed.

  Lemma vremove_ok i v : (i < length v)%nat ->
    exists x, nth_error v i = Some x /\ vremove i v = Ok (x, firstn i v ++ skipn (S i) v).
  Proof. intros H. destruct (nth_error_some_lt i v H) as [x E]. exists x. unfold vremove. rewrite E. auto. Qed.
  Lemma vremove_length i v x v' : vremove i v = Ok (x, v') -> S (length v') = length v.
  Proof.
    unfold vremove. destruct (nth_error v i) eqn:E; [|discriminate]. intros H; injection H as <- <-.
    assert (i < length v)%nat by (apply nth_error_Some; congruence).
    change (match v with [] => [] | _ :: l => skipn i l end) with (skipn (S i) v).
    rewrite app_length, firstn_length, skipn_length. lia.
  Qed.
  Lemma vindex_ok i v : (i < length v)%nat -> exists x, vindex i v = Ok x.
  Proof. intros H. destruct (nth_error_some_lt i v H) as [x E]. exists x. unfold vindex. rewrite E. reflexivity. Qed.
  Lemma vinsert_ok i x v : (i <= length v)%nat -> vinsert i x v = Ok (firstn i v ++ x :: skipn i v).
  Proof. intros H. unfold vinsert. apply Nat.leb_le in H. rewrite H. reflexivity. Qed.
  Lemma vswap_ok i j v : (i < length v)%nat -> (j < length v)%nat -> exists v', vswap i j v = Ok v'.
  Proof.
    intros Hi Hj. destruct (nth_error_some_lt i v Hi) as [a Ea], (nth_error_some_lt j v Hj) as [b Eb].
    unfold vswap. rewrite Ea, Eb. eauto.
  Qed.
  Lemma vsplit_off_ok k v : (k <= length v)%nat -> vsplit_off k v = Ok (firstn k v, skipn k v).
  Proof. intros H. unfold vsplit_off. apply Nat.leb_le in H. rewrite H. reflexivity. Qed.
  Lemma vsplice_ok k xs v : (k <= length v)%nat -> vsplice k xs v = Ok (firstn k v ++ xs ++ skipn k v).
  Proof. intros H. unfold vsplice. apply Nat.leb_le in H. rewrite H. reflexivity. Qed.
  Lemma vresize_length k x v : length (vresize k x v) = k.
  Proof. unfold vresize. rewrite app_length, firstn_length, repeat_length. lia. Qed.
  Lemma vupdate_ok i f v : (i < length v)%nat -> exists v', vupdate i f v = Ok v'.
  Proof. intros H. destruct (nth_error_some_lt i v H) as [x E]. unfold vupdate. rewrite E. eauto. Qed.
End VecFacts.

(* ------------------------------------------------------------------ *)
(* ScriptStack helpers: Ok or Err *)
Lemma np_pop_bytes v : nopanic (pop_bytes v).
Proof. unfold pop_bytes. destruct (split_last v) as [[r x]|]; discriminate. Qed.
Lemma np_pop_bigint v : nopanic (pop_bigint v).
Proof. unfold pop_bigint. destruct (split_last v) as [[r x]|]; discriminate. Qed.
Lemma np_pop_bool v : nopanic (pop_bool v).
Proof. unfold pop_bool. destruct (split_last v) as [[r x]|]; discriminate. Qed.
Lemma np_push_bool b v : nopanic (push_bool b v).
Proof. discriminate. Qed.
Lemma np_pop_number v : nopanic (pop_number v).
Proof.
  unfold pop_number. apply np_bind; [apply np_pop_bytes|]. intros [bs r] _.
  destruct (Nat.ltb 4 (length bs)); [discriminate|]. destruct (split_last bs) as [[i l]|]; discriminate.
Qed.
Lemma np_push_number z v : nopanic (push_number z v).
Proof. unfold push_number. repeat (match goal with |- nopanic (if ?b then _ else _) => destruct b end); discriminate. Qed.

Lemma le_digits_fuel_nonempty f n : (n <> 0)%N -> le_digits_fuel (S f) n <> [].
Proof. intros H. cbn [le_digits_fuel]. destruct (N.eqb_spec n 0); [contradiction | discriminate]. Qed.
Lemma N_size_pos n : (n <> 0)%N -> exists f, N.to_nat (N.size n) = S f.
Proof.
  intros H. destruct n as [|p]; [contradiction|]. cbn [N.size].
  exists (pred (Pos.to_nat (Pos.size p))). pose proof (Pos2Nat.is_pos (Pos.size p)).
  change (N.to_nat (N.pos (Pos.size p))) with (Pos.to_nat (Pos.size p)). lia.
Qed.
Lemma biguint_to_bytes_le_nonempty n : biguint_to_bytes_le n <> [].
Proof.
  unfold biguint_to_bytes_le. destruct (N.eqb_spec n 0) as [->|Hn]; [discriminate|].
  unfold le_digits. destruct (N_size_pos n Hn) as [f ->]. apply le_digits_fuel_nonempty; exact Hn.
Qed.
Lemma np_push_bigint z v : nopanic (push_bigint z v).
Proof.
  unfold push_bigint.
  destruct (split_last_nonempty _ (biguint_to_bytes_le_nonempty (Z.abs_N z))) as (i & l & ->).
  destruct (is_single_zero _); discriminate.
Qed.
#[global] Hint Resolve np_pop_bytes np_pop_bigint np_pop_bool np_push_bool np_pop_number np_push_number np_push_bigint : np.

(* ------------------------------------------------------------------ *)
(* arms *)
Ltac np_step :=
  match goal with
  | |- nopanic (bind _ _) => apply np_bind; [ | intros ? ? ]
  | |- nopanic (lift_stack _ _) => apply np_lift
  | |- nopanic (let '(_, _) := ?x in _) => destruct x
  | |- nopanic (Ok _) => apply np_ok
  | |- nopanic Err => apply np_err
  | |- nopanic (if _ then Err else _) => apply np_if; [apply np_err|]
  | |- nopanic (if _ then _ else _) => apply np_if
  | |- nopanic (match split_last ?l with _ => _ end) => destruct (split_last l) as [[? ?]|] eqn:?
  | |- _ => solve [auto with np]
  end.
Ltac np := repeat np_step.

Lemma np_op_push_number n st : nopanic (op_push_number n st).
Proof. unfold op_push_number. np. Qed.
Lemma np_op_verify st : nopanic (op_verify st).
Proof. unfold op_verify. np. Qed.
Lemma np_op_toaltstack st : nopanic (op_toaltstack st).
Proof. unfold op_toaltstack. np. Qed.
Lemma np_op_fromaltstack st : nopanic (op_fromaltstack st).
Proof. unfold op_fromaltstack. np. Qed.
Lemma np_op_ifdup st : nopanic (op_ifdup st).
Proof. unfold op_ifdup. np. Qed.
Lemma np_op_depth st : nopanic (op_depth st).
Proof. unfold op_depth. np. Qed.
Lemma np_op_drop st : nopanic (op_drop st).
Proof. unfold op_drop. np. Qed.
Lemma np_op_dup st : nopanic (op_dup st).
Proof. unfold op_dup. np. Qed.

Lemma np_op_nip st : nopanic (op_nip st).
Proof.
  unfold op_nip. destruct (Nat.ltb_spec (length (stack st)) 2) as [|H]; [apply np_err|].
  rewrite usub_ok by lia. cbn [bind].
  destruct (vremove_ok (length (stack st) - 2) (stack st)) as (x & _ & ->); [lia|]. cbn [bind]. apply np_ok.
Qed.
Lemma np_op_over st : nopanic (op_over st).
Proof.
  unfold op_over. destruct (Nat.ltb_spec (length (stack st)) 2) as [|H]; [apply np_err|].
  rewrite usub_ok by lia. cbn [bind]. np.
Qed.

Lemma pop_number_shape v z s : pop_number v = Ok (z, s) -> S (length s) = length v.
Proof.
  unfold pop_number, pop_bytes. destruct (split_last v) as [[r x]|] eqn:E; cbn [bind]; [|discriminate].
  apply split_last_some in E. subst v. rewrite app_length. cbn [length].
  destruct (Nat.ltb 4 (length x)); [discriminate|].
  destruct (split_last x) as [[i l]|]; intros H; inv H; lia.
Qed.

Lemma usize_try_from_ok z : 0 <= z -> z < 18446744073709551616 -> usize_try_from z = Ok (Z.to_nat z).
Proof. intros H1 H2. unfold usize_try_from. replace ((z <? 0) || (18446744073709551615 <? z)) with false by lia. reflexivity. Qed.
Lemma np_usize_try_from z : nopanic (usize_try_from z).
Proof. unfold usize_try_from. destruct (_ || _); discriminate. Qed.
Lemma usize_try_from_val z n : usize_try_from z = Ok n -> n = Z.to_nat z /\ 0 <= z.
Proof. unfold usize_try_from. destruct ((z <? 0) || (18446744073709551615 <? z)) eqn:G; [discriminate|]. intros H; inv H. split; [reflexivity | lia]. Qed.

Lemma np_op_pick st : nopanic (op_pick st).
Proof.
  unfold op_pick. np_step; [np|]. destruct a as [index s].
  destruct ((index <? 0) || (Z.of_nat (length s) <=? index)) eqn:G; [apply np_err|].
  assert (0 <= index < Z.of_nat (length s)) by lia.
  np_step; [apply np_usize_try_from|]. apply usize_try_from_val in H1. destruct H1 as [-> _].
  rewrite usub_ok by lia. cbn [bind]. rewrite usub_ok by lia. cbn [bind]. np.
Qed.
Lemma np_op_roll st : nopanic (op_roll st).
Proof.
  unfold op_roll. np_step; [np|]. destruct a as [index s].
  destruct ((index <? 0) || (Z.of_nat (length s) <=? index)) eqn:G; [apply np_err|].
  assert (0 <= index < Z.of_nat (length s)) by lia.
  np_step; [apply np_usize_try_from|]. apply usize_try_from_val in H1. destruct H1 as [-> _].
  rewrite usub_ok by lia. cbn [bind]. rewrite usub_ok by lia. cbn [bind].
  destruct (vremove_ok (length s - 1 - Z.to_nat index) s) as (x & _ & ->); [lia|]. cbn [bind]. apply np_ok.
Qed.
Lemma np_op_rot st : nopanic (op_rot st).
Proof.
  unfold op_rot. destruct (Nat.ltb_spec (length (stack st)) 3) as [|H]; [apply np_err|].
  rewrite usub_ok by lia. cbn [bind].
  destruct (vremove_ok (length (stack st) - 3) (stack st)) as (x & _ & ->); [lia|]. cbn [bind]. apply np_ok.
Qed.
Lemma np_op_swap st : nopanic (op_swap st).
Proof.
  unfold op_swap. destruct (Nat.ltb_spec (length (stack st)) 2) as [|H]; [apply np_err|].
  rewrite !usub_ok by lia. cbn [bind].
  destruct (vswap_ok (length (stack st) - 1) (length (stack st) - 2) (stack st)) as (v' & ->); [lia|lia|].
  cbn [bind]. apply np_ok.
Qed.
Lemma np_op_tuck st : nopanic (op_tuck st).
Proof.
  unfold op_tuck. destruct (Nat.ltb_spec (length (stack st)) 2) as [|H]; [apply np_err|].
  destruct (split_last (stack st)) as [[i sel]|]; [|apply np_err].
  rewrite usub_ok by lia. cbn [bind]. rewrite vinsert_ok by lia. cbn [bind]. apply np_ok.
Qed.
Lemma np_op_2drop st : nopanic (op_2drop st).
Proof. unfold op_2drop. np. Qed.
Lemma np_op_2dup st : nopanic (op_2dup st).
Proof.
  unfold op_2dup. destruct (Nat.ltb_spec (length (stack st)) 2) as [|H]; [apply np_err|].
  destruct (split_last (stack st)) as [[i sel]|]; [|apply np_err].
  rewrite usub_ok by lia. cbn [bind]. np.
Qed.
Lemma np_op_3dup st : nopanic (op_3dup st).
Proof.
  unfold op_3dup. destruct (Nat.ltb_spec (length (stack st)) 3) as [|H]; [apply np_err|].
  destruct (split_last (stack st)) as [[i sel]|]; [|apply np_err].
  rewrite usub_ok by lia. cbn [bind]. np_step; [np|]. rewrite usub_ok by lia. cbn [bind]. np.
Qed.
Lemma np_op_2over st : nopanic (op_2over st).
Proof.
  unfold op_2over. destruct (Nat.ltb_spec (length (stack st)) 4) as [|H]; [apply np_err|].
  rewrite usub_ok by lia. cbn [bind].
  destruct (vindex_ok (length (stack st) - 3) (stack st)) as (x & ->); [lia|]. cbn [bind].
  rewrite usub_ok by lia. cbn [bind].
  destruct (vindex_ok (length (stack st) - 4) (stack st)) as (y & ->); [lia|]. cbn [bind]. apply np_ok.
Qed.
Lemma np_op_2rot st : nopanic (op_2rot st).
Proof.
  unfold op_2rot. destruct (Nat.ltb_spec (length (stack st)) 6) as [|H]; [apply np_err|].
  rewrite usub_ok by lia. cbn [bind].
  destruct (vremove_ok (length (stack st) - 6) (stack st)) as (x & _ & E); [lia|]. rewrite E. cbn [bind].
  apply vremove_length in E.
  match goal with |- nopanic (bind (vremove ?i ?v) _) => destruct (vremove_ok i v) as (y & _ & ->); [lia|] end.
  cbn [bind]. apply np_ok.
Qed.
Lemma np_op_2swap st : nopanic (op_2swap st).
Proof. unfold op_2swap. np. Qed.
Lemma np_op_cat st : nopanic (op_cat st).
Proof. unfold op_cat. np. Qed.
Lemma np_op_split st : nopanic (op_split st).
Proof.
  unfold op_split. np_step; [np|]. destruct a as [n s1]. np_step; [np|]. destruct a as [x s2].
  destruct ((n <? 0) || (Z.of_nat (length x) <? n)) eqn:G; [apply np_err|].
  np_step; [apply np_usize_try_from|]. apply usize_try_from_val in H1. destruct H1 as [-> _].
  replace (Nat.leb (Z.to_nat n) (length x)) with true by (symmetry; apply Nat.leb_le; lia). apply np_ok.
Qed.
Lemma np_op_size st : nopanic (op_size st).
Proof. unfold op_size. np. Qed.
Lemma np_op_invert st : nopanic (op_invert st).
Proof. unfold op_invert. np. Qed.
Lemma np_op_bitwise f st : nopanic (op_bitwise f st).
Proof. unfold op_bitwise. np. Qed.
Lemma np_op_equal st : nopanic (op_equal st).
Proof. unfold op_equal. np. Qed.
Lemma np_op_equalverify st : nopanic (op_equalverify st).
Proof. unfold op_equalverify. np. Qed.
Lemma np_op_unary f st : nopanic (op_unary f st).
Proof. unfold op_unary. np. Qed.
Lemma np_op_unary_num f st : nopanic (op_unary_num f st).
Proof. unfold op_unary_num. np. Qed.
Lemma np_op_binary f st : nopanic (op_binary f st).
Proof. unfold op_binary. np. Qed.
Lemma np_op_binary_bool f st : nopanic (op_binary_bool f st).
Proof. unfold op_binary_bool. np. Qed.
Lemma np_op_divmod f st : nopanic (op_divmod f st).
Proof. unfold op_divmod. np. Qed.
Lemma np_op_shift f st : nopanic (op_shift f st).
Proof. unfold op_shift. np. Qed.
Lemma np_op_boolop f st : nopanic (op_boolop f st).
Proof. unfold op_boolop. np. Qed.
Lemma np_op_numequalverify st : nopanic (op_numequalverify st).
Proof. unfold op_numequalverify. np. Qed.
Lemma np_op_within st : nopanic (op_within st).
Proof. unfold op_within. np. Qed.
Lemma np_op_bin2num st : nopanic (op_bin2num st).
Proof. unfold op_bin2num. np. Qed.
Lemma np_op_hash h st : nopanic (op_hash h st).
Proof. unfold op_hash. np. Qed.

Lemma np_op_num2bin st : nopanic (op_num2bin st).
Proof.
  unfold op_num2bin. np_step; [np|]. destruct a as [len s1]. np_step; [np|]. destruct a as [bs s2].
  destruct ((len <? 1) || (len <? i32_of_usize (length bs))) eqn:G; [apply np_err|].
  assert (Hlen : 1 <= len) by lia.
  set (arr := vresize (Z.to_nat len) x00 (biguint_to_bytes_le (Z.abs_N (to_bigint bs)))).
  assert (La : length arr = Z.to_nat len) by apply vresize_length.
  rewrite usub_ok by lia. cbn [bind].
  destruct (vindex_ok (length arr - 1) arr) as (lastb & ->); [lia|]. cbn [bind].
  destruct (to_bigint bs =? 0); [apply np_err|].
  set (arr1 := if top_bit lastb then arr ++ [x00] else arr).
  assert (L1 : (length arr - 1 < length arr1)%nat).
  { unfold arr1. destruct (top_bit lastb); [rewrite app_length; cbn [length]|]; lia. }
  destruct (0 <? to_bigint bs).
  - destruct (vupdate_ok (length arr - 1) (fun b => b) arr1 L1) as (v' & ->). cbn [bind]. apply np_ok.
  - destruct (vupdate_ok (length arr - 1) set_top arr1 L1) as (v' & ->). cbn [bind]. apply np_ok.
Qed.

#[global] Hint Resolve np_op_push_number np_op_verify np_op_toaltstack np_op_fromaltstack np_op_ifdup np_op_depth
  np_op_drop np_op_dup np_op_nip np_op_over np_op_pick np_op_roll np_op_rot np_op_swap np_op_tuck np_op_2drop np_op_2dup
  np_op_3dup np_op_2over np_op_2rot np_op_2swap np_op_cat np_op_split np_op_size np_op_invert np_op_bitwise np_op_equal
  np_op_equalverify np_op_unary np_op_unary_num np_op_binary np_op_binary_bool np_op_divmod np_op_shift np_op_boolop
  np_op_numequalverify np_op_within np_op_bin2num np_op_hash np_op_num2bin : np.

Lemma nth_error_lt {A} (l : list A) n x : nth_error l n = Some x -> (n < length l)%nat.
Proof. intros H. apply nth_error_Some. congruence. Qed.


Section Machine.
  Variable txctx : Type.
  Variable sig_preimage : txctx -> nat -> bytes -> outcome bytes.
  Variable sig_verify : txctx -> bytes -> bytes -> bytes -> outcome bool.

  Notation match_opcode := (match_opcode txctx sig_preimage sig_verify).
  Notation next_impl := (next_impl txctx sig_preimage sig_verify).
  Notation run_fuel := (run_fuel txctx sig_preimage sig_verify).
  Notation run := (Interp.run txctx sig_preimage sig_verify).
  Notation interp := (interp txctx).

  (* ---------------------------------------------------------------- *)
  (* termination: `remaining` strictly decreases on every successful step *)
  Lemma bits_size_app a b : bits_size (a ++ b) = (bits_size a + bits_size b)%nat.
  Proof. induction a as [|x a IH]; cbn [app bits_size]; [reflexivity | rewrite IH; lia]. Qed.
  Lemma bit_size_pos b : (1 <= bit_size b)%nat.
  Proof. destruct b; cbn; lia. Qed.
  Lemma bit_size_if c p q :
    bit_size (BIf c p q) = S (bits_size p + match q with Some q' => bits_size q' | None => 0 end)%nat.
  Proof. reflexivity. Qed.

  Lemma skipn_nth {A} (l : list A) n x : nth_error l n = Some x -> skipn n l = x :: skipn (S n) l.
  Proof.
    revert n; induction l as [|y l IH]; intros [|n] H; cbn in *; try discriminate.
    - inv H. reflexivity.
    - apply IH. exact H.
  Qed.

  Lemma step_decreases i i' : next_impl i = StepOk i' -> (remaining txctx i' < remaining txctx i)%nat.
  Proof.
    unfold Interp.next_impl, remaining.
    destruct (nth_error (script_bits i) (script_index i)) as [b|] eqn:E; [|discriminate].
    pose proof (nth_error_lt _ _ _ E) as Hlt. rewrite (skipn_nth _ _ _ E). cbn [bits_size].
    pose proof (bit_size_pos b) as Hb.
    destruct b as [o|d|c d|c p q|d]; cbn [match_script_bit].
    - destruct (Interp.match_opcode _ _ _ _ _ _ _); intros H; inv H. cbn [script_bits script_index].
      replace (script_index i + 1)%nat with (S (script_index i)) by lia. lia.
    - intros H; inv H. cbn [script_bits script_index with_istate].
      replace (script_index i + 1)%nat with (S (script_index i)) by lia. lia.
    - intros H; inv H. cbn [script_bits script_index with_istate].
      replace (script_index i + 1)%nat with (S (script_index i)) by lia. lia.
    - destruct (pop_bool (stack (istate i))) as [[b s]| |]; try (intros H; discriminate H).
      rewrite vsplice_ok by lia. intros H; inv H. cbn [script_bits script_index].
      replace (script_index i + 1)%nat with (S (script_index i)) by lia.
      rewrite skipn_app, firstn_length, skipn_firstn_comm.
      replace (S (script_index i) - S (script_index i))%nat with 0%nat by lia.
      replace (S (script_index i) - Nat.min (S (script_index i)) (length (script_bits i)))%nat with 0%nat by lia.
      cbn [firstn skipn app]. rewrite bits_size_app, bit_size_if.
      destruct (if (c =? OP_NOTIF)%N || (c =? OP_VERNOTIF)%N then negb b else b); destruct q; cbn [bits_size]; lia.
    - intros H; discriminate H.
  Qed.

  (* C16.2: the fuel `run` supplies is never exhausted *)
  Lemma run_fuel_enough : forall fuel i, (remaining txctx i < fuel)%nat -> run_fuel fuel i <> RunOutOfFuel.
  Proof.
    induction fuel as [|f IH]; intros i H; [lia|].
    cbn [Interp.run_fuel]. destruct (next_impl i) as [i'|i'|i'|] eqn:E; try discriminate.
    apply IH. apply step_decreases in E. lia.
  Qed.
  Theorem terminates (i : interp) : run i <> RunOutOfFuel.
  Proof. unfold Interp.run. apply run_fuel_enough. lia. Qed.

  (* ---------------------------------------------------------------- *)
  (* C16.3: stepping with next() and run() are the same iteration *)
  Inductive steps_to : interp -> nat -> interp -> Prop :=
  | steps_refl i : steps_to i 0 i
  | steps_cons i j k n : next_impl i = StepOk j -> steps_to j n k -> steps_to i (S n) k.

  Lemma run_fuel_steps : forall fuel i,
    match run_fuel fuel i with
    | RunOk i' => exists n j, steps_to i n j /\ next_impl j = StepNone i' /\ (n < fuel)%nat
    | RunErr i' => exists n j, steps_to i n j /\ next_impl j = StepErr i' /\ (n < fuel)%nat
    | RunPanic => exists n j, steps_to i n j /\ next_impl j = StepPanic
    | RunOutOfFuel => True
    end.
  Proof.
    induction fuel as [|f IH]; intros i; cbn [Interp.run_fuel]; [exact I|].
    destruct (next_impl i) as [i'|i'|i'|] eqn:E.
    - exists 0%nat, i. split; [constructor|]. split; [exact E | lia].
    - specialize (IH i'). destruct (run_fuel f i') as [k|k| |].
      + destruct IH as (n & j & St & N & L). exists (S n), j. split; [econstructor; eauto|]. split; [exact N | lia].
      + destruct IH as (n & j & St & N & L). exists (S n), j. split; [econstructor; eauto|]. split; [exact N | lia].
      + destruct IH as (n & j & St & N). exists (S n), j. split; [econstructor; eauto | exact N].
      + exact I.
    - exists 0%nat, i. split; [constructor|]. split; [exact E | lia].
    - exists 0%nat, i. split; [constructor | exact E].
  Qed.

  Lemma steps_to_run_fuel : forall n i j, steps_to i n j -> forall fuel,
    (n < fuel)%nat -> run_fuel fuel i = run_fuel (fuel - n) j.
  Proof.
    induction 1 as [i|i j k n E St IH]; intros fuel L; [f_equal; lia|].
    destruct fuel as [|f]; [lia|]. cbn [Interp.run_fuel]. rewrite E.
    rewrite IH by lia. f_equal.
  Qed.

  Theorem step_equals_run (i : interp) :
    (forall i', run i = RunOk i' <-> exists n j, steps_to i n j /\ next_impl j = StepNone i') /\
    (forall i', run i = RunErr i' <-> exists n j, steps_to i n j /\ next_impl j = StepErr i').
  Proof.
    assert (D : forall n j, steps_to i n j -> (n + remaining txctx j <= remaining txctx i)%nat).
    { induction 1 as [i0|i0 j k n E St IH]; [lia|]. apply step_decreases in E. lia. }
    split; intros i'; split.
    - intros R. pose proof (run_fuel_steps (S (remaining txctx i)) i) as H. unfold Interp.run in R. rewrite R in H.
      destruct H as (n & j & St & N & _). eauto.
    - intros (n & j & St & N). unfold Interp.run.
      rewrite (steps_to_run_fuel n i j St) by (specialize (D n j St); lia).
      destruct (S (remaining txctx i) - n)%nat as [|f] eqn:F; [specialize (D n j St); lia|].
      cbn [Interp.run_fuel]. rewrite N. reflexivity.
    - intros R. pose proof (run_fuel_steps (S (remaining txctx i)) i) as H. unfold Interp.run in R. rewrite R in H.
      destruct H as (n & j & St & N & _). eauto.
    - intros (n & j & St & N). unfold Interp.run.
      rewrite (steps_to_run_fuel n i j St) by (specialize (D n j St); lia).
      destruct (S (remaining txctx i) - n)%nat as [|f] eqn:F; [specialize (D n j St); lia|].
      cbn [Interp.run_fuel]. rewrite N. reflexivity.
  Qed.

  (* number of steps: at most the nested size of the script *)
  Theorem steps_bounded (i : interp) n j : steps_to i n j -> (n <= remaining txctx i)%nat.
  Proof.
    induction 1 as [i0|i0 j0 k n E St IH]; [lia|]. apply step_decreases in E. lia.
  Qed.

  (* ---------------------------------------------------------------- *)
  (* C16.4: after an error the interpreter still shows the stacks of the last returned state *)
  Theorem error_preserves_stacks (i i' : interp) :
    next_impl i = StepErr i' ->
    stack (istate i') = stack (istate i) /\ alt_stack (istate i') = alt_stack (istate i) /\
    script_bits i' = script_bits i /\ script_index i' = script_index i /\ codesep (istate i') = codesep (istate i).
  Proof.
    unfold Interp.next_impl.
    destruct (nth_error (script_bits i) (script_index i)) as [b|] eqn:E; [|discriminate].
    apply nth_error_lt in E.
    destruct b as [o|d|c d|c p q|d]; cbn [match_script_bit]; try discriminate.
    - destruct (Interp.match_opcode _ _ _ _ _ _ _); intros H; inv H. cbn. auto.
    - destruct (pop_bool (stack (istate i))) as [[b s]| |]; try discriminate.
      + rewrite vsplice_ok by lia. discriminate.
      + intros H; inv H. auto.
    - intros H; inv H. auto.
  Qed.

  (* the state returned by a successful step is the state the interpreter holds *)
  Theorem step_ok_state (i i' : interp) :
    next_impl i = StepOk i' -> script_index i' = S (script_index i) /\ tx_script i' = tx_script i.
  Proof.
    unfold Interp.next_impl.
    destruct (nth_error (script_bits i) (script_index i)) as [b|] eqn:E; [|discriminate].
    apply nth_error_lt in E.
    destruct b as [o|d|c d|c p q|d]; cbn [match_script_bit]; try discriminate.
    - destruct (Interp.match_opcode _ _ _ _ _ _ _); intros H; inv H. cbn. split; [lia | reflexivity].
    - intros H; inv H. cbn. split; [lia | reflexivity].
    - intros H; inv H. cbn. split; [lia | reflexivity].
    - destruct (pop_bool (stack (istate i))) as [[b s]| |]; try discriminate.
      rewrite vsplice_ok by lia. intros H; inv H. cbn. split; [lia | reflexivity].
  Qed.
End Machine.

Section Total.
  Variable txctx : Type.
  Variable sig_preimage : txctx -> nat -> bytes -> outcome bytes.
  Variable sig_verify : txctx -> bytes -> bytes -> bytes -> outcome bool.
  (* the transaction side (C15) is assumed not to panic; everything else is proved *)
  Hypothesis sig_preimage_total : forall t c s, sig_preimage t c s <> Panic.
  Hypothesis sig_verify_total : forall t p s k, sig_verify t p s k <> Panic.

  Notation match_opcode := (match_opcode txctx sig_preimage sig_verify).
  Notation next_impl := (next_impl txctx sig_preimage sig_verify).
  Notation run_fuel := (run_fuel txctx sig_preimage sig_verify).
  Notation run := (Interp.run txctx sig_preimage sig_verify).
  Notation interp := (interp txctx).

  Lemma np_checksig st t : nopanic (checksig txctx sig_preimage sig_verify st t).
  Proof.
    unfold checksig. np_step; [np|]. destruct a as [pk s1]. np_step; [np|]. destruct a as [sg s2].
    np_step; [apply sig_preimage_total|]. np_step; [apply sig_verify_total|]. apply np_ok.
  Qed.
  Lemma np_try_keys t pre sg pks : nopanic (try_keys txctx sig_verify t pre sg pks).
  Proof.
    induction pks as [|pk r IH]; cbn [try_keys]; [apply np_ok|].
    np_step; [apply sig_verify_total|]. destruct a; [apply np_ok | exact IH].
  Qed.
  Lemma np_multisig_loop t cs sigs : forall pks n, nopanic (multisig_loop txctx sig_preimage sig_verify t cs sigs pks n).
  Proof.
    induction sigs as [|sg r IH]; intros pks n; cbn [multisig_loop]; [apply np_ok|].
    np_step; [apply sig_preimage_total|]. np_step; [apply np_try_keys|]. destruct a0 as [hit pks']. apply IH.
  Qed.
  Lemma np_multisig st t : nopanic (multisig txctx sig_preimage sig_verify st t).
  Proof.
    unfold multisig. np_step; [np|]. destruct a as [pkc s1].
    destruct (pkc <? 1) eqn:G1; [apply np_err|]. destruct (Z.of_nat (length s1) <? pkc) eqn:G2; [apply np_err|].
    rewrite usub_ok by lia. cbn [bind]. rewrite vsplit_off_ok by lia. cbn [bind].
    np_step; [np|]. destruct a as [sc s3].
    destruct (sc <? 1) eqn:G3; [apply np_err|]. destruct (pkc <? sc) eqn:G4; [apply np_err|].
    destruct (Z.of_nat (length s3) <? sc) eqn:G5; [apply np_err|].
    rewrite usub_ok by lia. cbn [bind]. rewrite vsplit_off_ok by lia. cbn [bind].
    np_step; [np|]. destruct a as [x s5]. np_step; [apply np_multisig_loop|]. apply np_ok.
  Qed.

  Lemma np_sigops st tx :
    nopanic (op_checksig txctx sig_preimage sig_verify st tx) /\
    nopanic (op_checksigverify txctx sig_preimage sig_verify st tx) /\
    nopanic (op_checkmultisig txctx sig_preimage sig_verify st tx) /\
    nopanic (op_checkmultisigverify txctx sig_preimage sig_verify st tx).
  Proof.
    unfold op_checksig, op_checksigverify, op_checkmultisig, op_checkmultisigverify.
    destruct tx as [t|]; [|repeat split; apply np_err].
    repeat split; (np_step; [first [apply np_checksig | apply np_multisig]|]); destruct a as [ok st']; np.
  Qed.

  (* every arm of match_opcode, every opcode value *)
  Lemma match_opcode_total idx o st tx : match_opcode idx o st tx <> Panic.
  Proof.
    change (nopanic (match_opcode idx o st tx)).
    destruct (np_sigops st tx) as (S1 & S2 & S3 & S4).
    unfold Interp.match_opcode.
    destruct o as [|p]; [auto with np|].
    do 8 (try (destruct p as [p|p|])); try apply np_err; try exact S1; try exact S2; try exact S3; try exact S4;
      first [solve [auto with np] | unfold op_nop, op_return, op_codeseparator; apply np_ok].
  Qed.

  (* C16.1 *)
  Theorem step_total (i : interp) : next_impl i <> StepPanic.
  Proof.
    unfold Interp.next_impl. destruct (nth_error (script_bits i) (script_index i)) as [b|] eqn:E; [|discriminate].
    apply nth_error_lt in E.
    destruct b as [o|d|c d|c p q|d]; cbn [match_script_bit]; try discriminate.
    - pose proof (match_opcode_total (script_index i) o (istate i) (tx_script i)) as H.
      destruct (Interp.match_opcode _ _ _ _ _ _ _) ; [discriminate | discriminate | contradiction].
    - pose proof (np_pop_bool (stack (istate i))) as H.
      destruct (pop_bool (stack (istate i))) as [[b s]| |]; [|discriminate|contradiction].
      rewrite vsplice_ok by lia. discriminate.
  Qed.


  Theorem run_total (i : interp) : exists i', run i = RunOk i' \/ run i = RunErr i'.
  Proof.
    pose proof (terminates txctx sig_preimage sig_verify i) as T.
    assert (P : forall fuel j, run_fuel fuel j <> RunPanic).
    { induction fuel as [|f IH]; intros j; cbn [Interp.run_fuel]; [discriminate|].
      pose proof (step_total j). destruct (next_impl j); try discriminate; [apply IH | contradiction]. }
    specialize (P (S (remaining txctx i)) i). unfold Interp.run in *.
    destruct (run_fuel _ i) as [j|j| |]; [eauto | eauto | contradiction | contradiction].
  Qed.

End Total.
