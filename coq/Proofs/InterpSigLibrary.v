(* Proofs/InterpSigLibrary.v — C15, part 5: spends assembled and signed through the library's own API are
   accepted (relative to the secp256k1 group hypotheses of Proofs/EcdsaSecp.v, named in every statement).

   * the signature hash does not see any unlocking script nor any extended field of the transaction, so putting the
     signature into the input afterwards does not invalidate it (skeleton invariance, unconditional);
   * an element produced by Transaction::sign + SighashSignature::to_bytes is valid, in the sense of the specification,
     for the signer's own public key (C03/C10: preimage = specification; C05: what is signed verifies; C06: DER);
   * hence P2PK / P2PKH / m-of-n spends whose unlocking script carries such elements run to `true`. *)
From BSV Require Import Base.Bytes Base.Hex.
From BSV Require Import Prim.Num Prim.Secp256k1 Prim.Der Prim.Sha256 Prim.Ripemd160.
From BSV Require Import Model.Opcodes Model.Script Model.VarInt Model.Tx Model.HashApi Model.Sighash Model.Ecdsa Model.Sig
  Model.Interp Model.InterpSig.
From BSV Require Import Spec.ScriptTok Spec.SighashWire Spec.Bip143 Spec.LegacySighash Spec.SpendSpec.
From BSV Require Import Proofs.ScriptProofs Proofs.SighashProofs Proofs.LegacyProofs Proofs.HashApiProofs
  Proofs.Secp256k1Proofs Proofs.EcdsaSecp Proofs.EcdsaProofs
  Proofs.InterpSigProofs Proofs.InterpSigOps Proofs.InterpSigRun Proofs.InterpSigFamilies.
Local Open Scope list_scope.
Local Open Scope nat_scope.

(* ------------------------------------------------------------------ *)
(* the skeleton of a transaction: everything but the input scripts *)
Definition skel_in (w : win) : win := mk_win (w_prev_hash w) (w_prev_n w) [] (w_seq w).
Definition skel (t : wtx) : wtx := mk_wtx (w_version t) (map skel_in (w_ins t)) (w_outs t) (w_lock t).
Definition same_skeleton (t t' : tx) : Prop := skel (view_tx t) = skel (view_tx t').

Lemma concat_map_skel {B} (g : win -> list B) l : (forall w, g (skel_in w) = g w) -> List.concat (map g (map skel_in l)) = List.concat (map g l).
Proof. intros E. rewrite map_map. f_equal. apply map_ext. exact E. Qed.

Lemma bip143_skel H t n ht sc amt : bip143_preimage H (skel t) n ht sc amt = bip143_preimage H t n ht sc amt.
Proof.
  unfold bip143_preimage, hash_prevouts, Spec.Bip143.hash_sequence, Spec.Bip143.hash_outputs. cbn [skel w_ins w_outs w_version w_lock].
  rewrite nth_error_map. rewrite !concat_map_skel by reflexivity.
  destruct (nth_error (w_ins t) n) as [w|]; reflexivity.
Qed.

Lemma mapi_from_skel (f : nat -> win -> win) l : forall k,
  (forall j w, f j (skel_in w) = f j w) -> mapi_from k f (map skel_in l) = mapi_from k f l.
Proof.
  induction l as [|w l IH]; intros k E; cbn [map mapi_from]; [reflexivity|]. rewrite E, IH by exact E. reflexivity.
Qed.

Lemma legacy_skel t n ht sc : legacy_preimage (skel t) n ht sc = legacy_preimage t n ht sc.
Proof.
  unfold legacy_preimage. cbn [skel w_ins w_outs w_version w_lock]. rewrite map_length.
  unfold mapi. rewrite mapi_from_skel by reflexivity. reflexivity.
Qed.

Lemma spec_sighash_skeleton t t' n ht code amt :
  same_skeleton t t' -> spec_sighash (view_tx t) n ht code amt = spec_sighash (view_tx t') n ht code amt.
Proof.
  intros E. unfold spec_sighash, sighash_spec, single_without_output.
  rewrite <- (bip143_skel Hd (view_tx t)), <- (bip143_skel Hd (view_tx t')), <- (legacy_skel (view_tx t)), <- (legacy_skel (view_tx t')).
  replace (w_outs (view_tx t)) with (w_outs (skel (view_tx t))) by reflexivity.
  replace (w_outs (view_tx t')) with (w_outs (skel (view_tx t'))) by reflexivity.
  unfold same_skeleton in E. rewrite E. reflexivity.
Qed.

(* replacing unlocking scripts / extended fields keeps the skeleton *)
Lemma view_in_skel_set_unlocking i s : skel_in (view_in (set_unlocking i s)) = skel_in (view_in i).
Proof. reflexivity. Qed.

Lemma same_skeleton_set_unlocking t k s : same_skeleton t (set_unlocking_at t k s).
Proof.
  unfold same_skeleton, set_unlocking_at. destruct (nth_error (inputs t) k) as [i|] eqn:Ei; [|reflexivity].
  unfold skel, view_tx, set_inputs. cbn [w_version w_ins w_outs w_lock version inputs outputs locktime]. f_equal.
  rewrite !map_map. revert k Ei. induction (inputs t) as [|a r IH]; intros [|k] Ei; cbn [nth_error] in Ei; try discriminate.
  - inversion Ei; subst. reflexivity.
  - cbn [set_nth map]. f_equal. apply IH. exact Ei.
Qed.

(* ------------------------------------------------------------------ *)
(* a signature element made by the library is valid for the signer's key *)
Lemma der_n_secp : der_n = secp_n. Proof. reflexivity. Qed.

Definition std_flag (f : N) : Prop := mem_N f (std_forkid_flags ++ std_legacy_flags) = true.

Lemma std_flag_small f : std_flag f -> (f < 256)%N.
Proof.
  unfold std_flag. intros H. apply mem_N_In in H. cbn [std_forkid_flags std_legacy_flags app In] in H.
  repeat (destruct H as [H|H]; [subst; reflexivity|]). contradiction.
Qed.
Lemma std_flag_not_outside der f : std_flag f -> outside_flag (der ++ [n2b f]) = false.
Proof.
  intros H. unfold outside_flag. rewrite split_sig_app. rewrite b2n_n2b by (apply std_flag_small; exact H).
  unfold std_flag in H. apply mem_N_In in H. cbn [std_forkid_flags std_legacy_flags app In] in H.
  repeat (destruct H as [H|H]; [subst; reflexivity|]). contradiction.
Qed.

Lemma Forall2_len {A B} (R : A -> B -> Prop) la lb : Forall2 R la lb -> length la = length lb.
Proof. induction 1; cbn [length]; [reflexivity|f_equal; assumption]. Qed.

Section Group.
  Hypothesis G : secp256k1_group.

  Theorem signed_element_valid t t' sk f idx sub v sg :
    valid_sk sk -> std_flag f -> plain_bits sub = true -> same_skeleton t t' ->
    tx_sign_element ref_prims t sk f idx sub v = Ok sg ->
    spec_sig_valid (view_tx t') idx (flatten sub) v sg (pubkey_bytes ref_prims sk) = true
    /\ outside_flag sg = false /\ 9 <= length sg <= 73.
  Proof.
    intros Vsk Hf Hpl Hsk. unfold tx_sign_element.
    destruct (sighash_preimage sha_256d t idx f sub v) as [pre| |] eqn:Epre; cbn [bind]; [|intros E; discriminate E|intros E; discriminate E].
    destruct (sign_with_deterministic_k ref_prims sk pre SHSha256d true) as [s| |] eqn:Es; cbn [bind]; [|intros E; discriminate E|intros E; discriminate E].
    intros E. assert (Esg : sg = to_der_bytes s ++ [n2b f]) by congruence. subst sg. clear E.
    pose proof (sign_det_low _ _ _ _ _ Es) as [Hr Hs].
    assert (Hs' : (1 <= sig_s s < secp_n)%Z).
    { split; [lia|]. assert (secp_n / 2 < secp_n)%Z by (apply Z.div_lt; reflexivity). lia. }
    split; [|split].
    - (* valid *)
      assert (Hspec : spec_sighash (view_tx t') idx f (flatten sub) v = Some pre).
      { rewrite <- (spec_sighash_skeleton t t' idx f (flatten sub) v Hsk).
        unfold std_flag in Hf. apply mem_N_In in Hf. apply in_app_or in Hf.
        unfold spec_sighash, sighash_spec. destruct Hf as [Hf|Hf].
        - replace (mem_N f std_forkid_flags) with true by (symmetry; apply mem_N_In; exact Hf).
          rewrite (bip143_total sha_256d) in Epre by (rewrite <- std_forkid_eq; exact Hf).
          rewrite (bip143_preimage_ext sha_256d Hd) in Epre by exact sha_256d_def.
          rewrite toks_bytes_flatten by exact Hpl.
          destruct (bip143_preimage Hd (view_tx t) idx f (to_bytes sub) v); [|discriminate Epre].
          destruct (single_without_output (view_tx t) idx f); [discriminate Epre|]. inversion Epre. reflexivity.
        - assert (Hnf : mem_N f std_forkid_flags = false).
          { destruct (mem_N f std_forkid_flags) eqn:E; [|reflexivity].
            apply forkid_not_legacy in E. apply mem_N_In in Hf. rewrite Hf in E. discriminate E. }
          rewrite Hnf. replace (mem_N f std_legacy_flags) with true by (symmetry; apply mem_N_In; exact Hf).
          rewrite (legacy_total sha_256d) in Epre by
            (try exact Hpl; unfold legacy_path_flags; apply in_or_app; left; rewrite <- std_legacy_eq; exact Hf).
          destruct (legacy_preimage (view_tx t) idx f (flatten sub)); [|discriminate Epre]. inversion Epre. reflexivity. }
      unfold spec_sig_valid, sig_valid, sig_data. rewrite split_sig_app.
      rewrite b2n_n2b by (apply std_flag_small; exact Hf).
      fold (spec_sighash (view_tx t') idx f (flatten sub) v). rewrite Hspec.
      unfold to_der_bytes. rewrite der_roundtrip by (rewrite der_n_secp; assumption).
      unfold data_valid, pubkey_bytes.
      pose proof (decode_own_pubkey G sk Vsk) as Hdec. cbn [p_decode ref_prims] in Hdec. rewrite Hdec.
      unfold sign_with_deterministic_k in Es.
      apply (sign_core_verifies G) in Es.
      + unfold digest_scalar. rewrite message_digest_sha256d in Es. exact Es.
      + intros k Ek. unfold det_nonce in Ek. exact (generate_k_range _ _ _ _ _ Ek).
    - apply std_flag_not_outside. exact Hf.
    - rewrite app_length. cbn [length]. unfold to_der_bytes.
      pose proof (der_encode_length (sig_r s) (sig_s s)) as L. rewrite der_n_secp in L. specialize (L Hr Hs'). lia.
  Qed.

  Lemma pubkey_bytes_decodes sk : valid_sk sk -> decodes (pubkey_bytes ref_prims sk).
  Proof.
    intros V. unfold decodes, pubkey_bytes. pose proof (decode_own_pubkey G sk V) as H. cbn [p_decode ref_prims] in H.
    rewrite H. discriminate.
  Qed.

  Lemma pubkey_bytes_length sk : valid_sk sk -> 33 <= length (pubkey_bytes ref_prims sk) <= 65.
  Proof.
    intros V. unfold pubkey_bytes. cbn [to_public_key pk_point p_pubkey ref_prims].
    pose proof (pubkey_nonzero G (sk_d sk) V) as Hnz.
    destruct (Secp256k1.pubkey (sk_d sk)) as [[x y]|]; [|congruence].
    unfold sec1_encode. destruct (sk_compressed sk); cbn [length]; rewrite ?app_length, ?be32_length; lia.
  Qed.

  Section Spends.
    Variables (t0 t : tx) (idx : nat) (i : txin) (v : N) (l sub : list bit).
    Hypothesis Hin : nth_error (inputs t) idx = Some i.
    Hypothesis Hlock : locking i = Some l.
    Hypothesis Hsat : satoshis i = Some v.
    Hypothesis Hl : straight l = true.
    (* the transaction at signing time differs at most in input scripts / extended fields *)
    Hypothesis Hskel : same_skeleton t0 t.
    (* the subscript handed to Transaction::sign is the script code of the locking script *)
    Hypothesis Hsub : plain_bits sub = true /\ flatten sub = script_code (flatten l).

    (* P2PK:  <sig> | <key> OP_CHECKSIG, or ... OP_CHECKSIGVERIFY OP_1, separators anywhere *)
    Theorem library_p2pk_accepted_partial sk f sg (vf : bool) :
      valid_sk sk -> std_flag f ->
      remove_seps l = [BPush (pubkey_bytes ref_prims sk)] ++ (if vf then [BOp 173; BOp 81] else [BOp 172]) ->
      tx_sign_element ref_prims t0 sk f idx sub v = Ok sg ->
      unlocking i = [BPush sg] ->
      accepts (spend_ref t idx).
    Proof.
      intros V Hf Hcore Hsign Hun. destruct Hsub as [Hpl Hcode].
      destruct (signed_element_valid t0 t sk f idx sub v sg V Hf Hpl Hskel Hsign) as (Hv & Ho & Hlen).
      rewrite Hcode in Hv.
      apply (spend_p2pk t idx i v l sg (pubkey_bytes ref_prims sk) vf Hin Hlock Hsat Hun ltac:(lia) Hl Hcore Ho). exact Hv.
    Qed.

    (* P2PKH:  <sig> <key> | OP_DUP OP_HASH160 <hash160 key> OP_EQUALVERIFY OP_CHECKSIG (or the VERIFY form) *)
    Theorem library_p2pkh_accepted_partial sk f sg (vf : bool) :
      valid_sk sk -> std_flag f ->
      remove_seps l = [BOp 118; BOp 169; BPush (H160 (pubkey_bytes ref_prims sk)); BOp 136]
                      ++ (if vf then [BOp 173; BOp 81] else [BOp 172]) ->
      tx_sign_element ref_prims t0 sk f idx sub v = Ok sg ->
      unlocking i = [BPush sg; BPush (pubkey_bytes ref_prims sk)] ->
      accepts (spend_ref t idx).
    Proof.
      intros V Hf Hcore Hsign Hun. destruct Hsub as [Hpl Hcode].
      destruct (signed_element_valid t0 t sk f idx sub v sg V Hf Hpl Hskel Hsign) as (Hv & Ho & Hlen).
      rewrite Hcode in Hv. pose proof (pubkey_bytes_length sk V) as Lpk.
      apply (spend_p2pkh t idx i v l sg (pubkey_bytes ref_prims sk) (H160 (pubkey_bytes ref_prims sk)) vf
               Hin Hlock Hsat Hun ltac:(lia) ltac:(lia) Hl Hcore Ho).
      split; [reflexivity|exact Hv].
    Qed.

    (* m-of-n:  OP_0 sig_1 .. sig_m | OP_m key_1 .. key_n OP_n OP_CHECKMULTISIG (or the VERIFY form); the signers are a
       subsequence of the key holders, each with a flag byte of its own *)
    Theorem library_multisig_accepted_partial (sks : list privkey) (signers : list (privkey * N)) (sigs : list bytes) (vf : bool) :
      Forall valid_sk sks ->
      subseq (map fst signers) sks ->
      Forall (fun s => std_flag (snd s)) signers ->
      Forall2 (fun s sg => tx_sign_element ref_prims t0 (fst s) (snd s) idx sub v = Ok sg) signers sigs ->
      1 <= length sigs -> length sks <= 16 ->
      remove_seps l = (op_small (length sigs) :: map BPush (map (pubkey_bytes ref_prims) sks) ++ [op_small (length sks)])
                      ++ (if vf then [BOp 175; BOp 81] else [BOp 174]) ->
      unlocking i = BOp 0 :: map BPush sigs ->
      accepts (spend_ref t idx).
    Proof.
      intros Vs Hsub' Hfl Hsig Hm Hn Hcore Hun. destruct Hsub as [Hpl Hcode].
      set (keys := map (pubkey_bytes ref_prims) sks) in *.
      assert (Hvalid_signers : Forall (fun s => valid_sk (fst s)) signers).
      { clear -Vs Hsub'. remember (map fst signers) as ms eqn:E. revert signers E.
        induction Hsub' as [l0|x s l0 Hs IH|x s l0 Hs IH]; intros signers E.
        - destruct signers; [constructor|discriminate].
        - destruct signers as [|a r]; [discriminate|]. cbn [map] in E. inversion E; subst. inversion Vs; subst.
          constructor; [assumption|]. apply IH; [assumption|reflexivity].
        - inversion Vs as [|? ? Hx Hl0]. apply IH; [exact Hl0|exact E]. }
      (* every produced element is valid for its signer's key, not outside, and of push size *)
      assert (Hall : Forall2 (fun s sg => spec_sig_valid (view_tx t) idx (script_code (flatten l)) v sg (pubkey_bytes ref_prims (fst s)) = true
                                         /\ outside_flag sg = false /\ 1 <= length sg <= 75) signers sigs).
      { clear -Hsig Hfl Hvalid_signers Hpl Hcode Hskel G. induction Hsig as [|s sg rs rsg Hs _ IH]; [constructor|].
        inversion Hfl; subst. inversion Hvalid_signers; subst. constructor; [|apply IH; assumption].
        destruct (signed_element_valid t0 t (fst s) (snd s) idx sub v sg H3 H1 Hpl Hskel Hs) as (Hv & Ho & Hlen).
        rewrite Hcode in Hv. repeat split; try assumption; lia. }
      assert (Hlen : length sigs = length signers) by (symmetry; exact (Forall2_len _ _ _ Hsig)).
      assert (Hout : Forall (fun sg => outside_flag sg = false) sigs).
      { clear -Hall. induction Hall as [|s sg rs rsg (_ & Ho & _) _ IH]; constructor; assumption. }
      assert (Hu : straight (unlocking i) = true).
      { rewrite Hun. cbn [straight forallb straight_bit]. change (fam_op 0) with true. cbn [andb].
        clear -Hall. induction Hall as [|s sg rs rsg (_ & _ & Hl') _ IH]; [reflexivity|].
        cbn [map forallb]. rewrite (straight_push sg Hl'). exact IH. }
      assert (Hupush : forallb (fun b => is_simple b && negb (is_sep b)) (unlocking i) = true).
      { rewrite Hun. cbn [forallb]. change (is_simple (BOp 0) && negb (is_sep (BOp 0))) with true. cbn [andb].
        clear. induction sigs as [|s r IH]; [reflexivity|]. cbn [map forallb]. exact IH. }
      assert (Hustack : forall s, stack_exec (unlocking i) s = Ok (s ++ [] :: sigs)).
      { intros s. rewrite Hun. cbn [stack_exec]. change (simple_fn (BOp 0)) with (Some (push_number 0)).
        cbv beta iota. assert (E : push_number 0 s = Ok (s ++ [[]])) by reflexivity. rewrite E. cbn [bind]. rewrite stack_exec_pushes, <- app_assoc. reflexivity. }
      assert (Hsubk : length signers <= length sks).
      { clear -Hsub'. rewrite <- (map_length fst signers). induction Hsub'; cbn [length]; lia. }
      assert (Hmn : 1 <= length sigs <= length keys /\ length keys <= 16) by (unfold keys; rewrite map_length; lia).
      assert (Hcore' : remove_seps l = (op_small (length sigs) :: map BPush keys ++ [op_small (length keys)])
                                        ++ (if vf then [BOp 175; BOp 81] else [BOp 174])).
      { rewrite Hcore. unfold keys. rewrite map_length. reflexivity. }
      destruct (multisig_family t idx i v l [] sigs keys vf Hin Hlock Hsat Hupush Hustack Hu Hl Hmn Hcore' Hout) as (_ & _ & Hacc).
      apply Hacc.
      - unfold keys. clear -Vs G. induction Vs; cbn [map]; constructor; [apply pubkey_bytes_decodes; assumption|assumption].
      - (* the matching: signers are a subsequence of the key holders *)
        apply ms_ok_injection. exists (map (pubkey_bytes ref_prims) (map fst signers)). split.
        + unfold keys. clear -Hsub'. induction Hsub'; cbn [map]; [apply sub_nil|apply sub_take; assumption|apply sub_skip; assumption].
        + clear -Hall. induction Hall as [|s sg rs rsg (Hv & _) _ IH]; cbn [map]; constructor; [exact Hv|exact IH].
    Qed.
  End Spends.
End Group.
